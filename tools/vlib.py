"""Shared machinery for every check: scratch dirs, harness build, TLC runs, evidence, findings, verdicts.

Contract (see DESIGN.md section 5):
  exit 0  property held on everything explored (KNOWN-FINDING lines allowed)
  exit 1  + line "VIOLATION property=<id> replay=<path>"  -- only from behaviour observed on the real code
  exit 2  inconclusive (tool failure, timeout, dead driver, spec error) -- never a violation
"""
import atexit
import fcntl
import json
import os
import re
import shutil
import subprocess
import sys
import tempfile
import time

# Every process that links the cosmos keyring (our harness, the repository's own tests) probes the D-Bus session bus
# in a package init(); with no address set, godbus runs `dbus-launch`, which forks a dbus-daemon that is never
# reaped -- one leaked process per harness run (pid_max is 32768 here). Point the probe at nothing instead.
os.environ.setdefault("DBUS_SESSION_BUS_ADDRESS", "unix:path=/nonexistent/verif-no-dbus")
os.environ.setdefault("DISABLE_KWALLET", "1")

ROOT = os.path.dirname(os.path.dirname(os.path.abspath(__file__)))
REPO = os.environ.get("VERIF_REPO", "/repo")
SPEC = os.path.join(ROOT, "spec")
HARNESS = os.path.join(ROOT, "harness")
BUILD = os.path.join(ROOT, ".build")
EVIDENCE = os.environ.get("VERIF_EVIDENCE_DIR") or os.path.join(ROOT, "evidence")   # seedtest redirects evidence of mutant runs
REPLAYS = os.path.join(ROOT, "replays")
FINDINGS = os.path.join(ROOT, "known_findings.jsonl")
NCPU = os.cpu_count() or 4

GOENV = dict(os.environ, GOFLAGS="-mod=mod", GOPROXY="off", GOSUMDB="off", GOTOOLCHAIN="local",
             CGO_ENABLED=os.environ.get("CGO_ENABLED", "1"))

_scratch = []


def _cleanup():
    for d in _scratch:
        shutil.rmtree(d, ignore_errors=True)


atexit.register(_cleanup)


def scratch(prefix="verif-"):
    base = os.environ.get("VERIF_SCRATCH") or tempfile.gettempdir()
    d = tempfile.mkdtemp(prefix=prefix, dir=base)
    _scratch.append(d)
    return d


def log(*a):
    print(*a, file=sys.stderr, flush=True)


class Inconclusive(Exception):
    """Tool failure / timeout / dead driver: exit 2, never a violation."""


def run(cmd, cwd=None, timeout=None, env=None, check=False, stdin=None):
    """Run a command, return (rc, stdout+stderr text). Timeout -> Inconclusive."""
    try:
        p = subprocess.run(cmd, cwd=cwd, env=env, timeout=timeout, stdout=subprocess.PIPE,
                           stderr=subprocess.STDOUT, input=stdin, shell=isinstance(cmd, str))
    except subprocess.TimeoutExpired:
        raise Inconclusive("timeout after %ss: %s" % (timeout, cmd if isinstance(cmd, str) else " ".join(cmd)))
    out = p.stdout.decode("utf-8", "replace")
    if check and p.returncode != 0:
        raise Inconclusive("command failed rc=%d: %s\n%s" % (p.returncode, cmd, out[-4000:]))
    return p.returncode, out


# ---------------------------------------------------------------------------------------------
# harness build: always rebuilt from /repo's current working tree, hooks on (-tags verif)

def _harness_dir():
    """The harness module directory to build in. With VERIF_REPO pointing at another checkout (mutant testing
    in a scratch worktree) a scratch copy of the module is made whose replace line points there."""
    if os.path.realpath(REPO) == "/repo":
        return HARNESS, os.path.join(BUILD, "vh")
    d = scratch("harness-")
    h = os.path.join(d, "harness")
    shutil.copytree(HARNESS, h)
    gm = open(os.path.join(h, "go.mod")).read()
    gm = gm.replace("github.com/ovrclk/akash => /repo", "github.com/ovrclk/akash => " + os.path.realpath(REPO))
    open(os.path.join(h, "go.mod"), "w").write(gm)
    return h, os.path.join(d, "vh")


_hdir = None


def harness_dir():
    global _hdir
    if _hdir is None:
        _hdir = _harness_dir()
    return _hdir


def build_harness():
    """Build harness/cmd/vh against the repo working tree (VERIF_REPO, default /repo) with -tags verif."""
    os.makedirs(BUILD, exist_ok=True)
    hdir, final = harness_dir()
    lock = open(os.path.join(BUILD, ".lock"), "w")
    fcntl.flock(lock, fcntl.LOCK_EX)
    try:
        shutil.copyfile(os.path.join(REPO, "go.sum"), os.path.join(hdir, "go.sum"))
        out = final + ".%d" % os.getpid()
        t0 = time.time()
        rc, txt = run(["go", "build", "-tags", "verif", "-o", out, "./cmd/vh"], cwd=hdir, env=GOENV, timeout=1500)
        if rc != 0:
            raise Inconclusive("harness build failed (does the repo still compile?):\n" + txt[-6000:])
        os.replace(out, final)
        log("[build] harness built in %.1fs" % (time.time() - t0))
        return final
    finally:
        fcntl.flock(lock, fcntl.LOCK_UN)
        lock.close()


def go_test(pkg_dir, args, timeout=1500, env_extra=None):
    """Run `go test -tags verif` inside /verif/harness for a harness package (used by a few families)."""
    hdir, _ = harness_dir()
    shutil.copyfile(os.path.join(REPO, "go.sum"), os.path.join(hdir, "go.sum"))
    env = dict(GOENV)
    if env_extra:
        env.update(env_extra)
    return run(["go", "test", "-tags", "verif", "-count=1"] + args + [pkg_dir], cwd=hdir, env=env, timeout=timeout)


# ---------------------------------------------------------------------------------------------
# TLC

class TLCResult:
    def __init__(self):
        self.rc = None
        self.out = ""
        self.ok = False           # finished with no error
        self.violated = None      # name of violated invariant / property / postcondition
        self.kind = None          # invariant | action_property | temporal | deadlock | postcondition | assert | error
        self.generated = 0
        self.distinct = 0
        self.depth = 0
        self.error = None         # free text for non-property errors
        self.wall_s = 0.0
        self.dir = None
        self.printed = []         # lines printed by PrintT/Print (raw)

    def __repr__(self):
        return "TLCResult(ok=%s violated=%s kind=%s gen=%d distinct=%d depth=%d err=%s)" % (
            self.ok, self.violated, self.kind, self.generated, self.distinct, self.depth, self.error)


_RE_STATES = re.compile(r"(\d+) states generated, (\d+) distinct states found")
_RE_DEPTH = re.compile(r"The depth of the complete state graph search is (\d+)")
_RE_INV = re.compile(r"Error: Invariant (\S+) is violated")
_RE_ACT = re.compile(r"Error: Action property (\S+) is violated")
_RE_POST = re.compile(r"Error: Postcondition (\S+) .*is false")
_RE_SIM = re.compile(r"generated (\d+) states|(\d+) states checked")


def tlc(spec_dir, module, cfg, workers="auto", timeout=900, simulate=None, extra_files=None,
        copy_files=None, depth_first=False, coverage=False, heap=None, dump=None, extra_args=None,
        keep=False, deadlock=None):
    """Run TLC on a scratch copy of spec_dir.

    simulate: None or dict(num=, depth=, seed=, file= (relative prefix for behaviours))
    extra_files: {relative name: text} written into the scratch copy (e.g. generated cfg / constants)
    copy_files: {relative name: absolute source path} copied into the scratch copy (e.g. trace.ndjson)
    Returns TLCResult; raises Inconclusive on timeout / JVM failure.
    """
    d = scratch("tlc-")
    work = os.path.join(d, "spec")
    shutil.copytree(spec_dir, work)
    # shared modules one level up (spec/common) are made visible too
    common = os.path.join(SPEC, "common")
    if os.path.isdir(common):
        for f in os.listdir(common):
            if f.endswith(".tla") and not os.path.exists(os.path.join(work, f)):
                shutil.copyfile(os.path.join(common, f), os.path.join(work, f))
    for name, text in (extra_files or {}).items():
        with open(os.path.join(work, name), "w") as fh:
            fh.write(text)
    for name, src in (copy_files or {}).items():
        shutil.copyfile(src, os.path.join(work, name))
    meta = os.path.join(d, "meta")
    jopts = ["-XX:+UseParallelGC", "-Xss512m"]
    if heap:
        jopts.append("-Xmx" + heap)
    if depth_first:
        jopts.append("-Dtlc2.tool.queue.IStateQueue=StateDeque")
    cmd = ["java"] + jopts + ["-cp", "/opt/veriftools/tla/tla2tools.jar:/opt/veriftools/tla/CommunityModules-deps.jar",
                              "tlc2.TLC", "-metadir", meta, "-config", cfg, "-workers", str(workers)]
    if deadlock is True:
        pass
    elif deadlock is False:
        cmd.append("-deadlock")  # -deadlock DISABLES deadlock checking in TLC
    if simulate is not None:
        s = "num=%d" % simulate.get("num", 100)
        if simulate.get("file"):
            s = "file=%s,%s" % (simulate["file"], s)
        cmd += ["-simulate", s, "-depth", str(simulate.get("depth", 50))]
        if simulate.get("seed") is not None:
            cmd += ["-seed", str(simulate["seed"])]
    if coverage:
        cmd += ["-coverage", "1"]
    if dump:
        cmd += ["-dump"] + dump
    cmd += (extra_args or [])
    cmd.append(module)
    t0 = time.time()
    env = dict(os.environ)
    env.pop("JAVA_TOOL_OPTIONS", None)
    for attempt in range(3):
        rc, out = run(cmd, cwd=work, timeout=timeout, env=env)
        # a JVM killed from outside (OOM killer, signal) leaves neither a TLC error nor a completion line: retry
        if rc in (0, ) or "Error:" in out or "Finished in" in out or "Exception" in out:
            break
        log("[tlc] JVM ended abnormally (rc=%s) without a TLC verdict; retry %d" % (rc, attempt + 1))
        shutil.rmtree(meta, ignore_errors=True)
        time.sleep(3 + 5 * attempt)
    r = TLCResult()
    r.rc, r.out, r.wall_s, r.dir = rc, out, time.time() - t0, work
    for m in _RE_STATES.finditer(out):
        r.generated, r.distinct = int(m.group(1)), int(m.group(2))
    m = _RE_DEPTH.search(out)
    if m:
        r.depth = int(m.group(1))
    if "No error has been found" in out and rc == 0:
        r.ok = True
    elif simulate is not None and rc == 0 and "Error:" not in out:
        r.ok = True
    else:
        m = _RE_INV.search(out)
        if m:
            r.violated, r.kind = m.group(1), "invariant"
        if not r.violated:
            m = _RE_ACT.search(out)
            if m:
                r.violated, r.kind = m.group(1), "action_property"
        if not r.violated and "Temporal properties were violated" in out:
            r.violated, r.kind = "temporal", "temporal"
        if not r.violated and "Deadlock reached" in out:
            r.violated, r.kind = "deadlock", "deadlock"
        if not r.violated:
            m = _RE_POST.search(out)
            if m:
                r.violated, r.kind = m.group(1), "postcondition"
        if not r.violated:
            r.kind = "error"
            idx = out.find("Error:")
            r.error = out[idx: idx + 3000] if idx >= 0 else out[-3000:]
    if keep:
        _scratch.remove(d)
    return r


def tlc_require_ok(r, what):
    """J1 helper: the shipped spec must model-check clean; anything else is a spec/tool problem (exit 2)."""
    if not r.ok:
        raise Inconclusive("%s: TLC did not finish clean (violated=%s kind=%s)\n%s" % (
            what, r.violated, r.kind, (r.error or r.out[-3000:])))


# ---------------------------------------------------------------------------------------------
# findings, evidence, verdict

def load_findings():
    out = []
    if os.path.exists(FINDINGS):
        for line in open(FINDINGS):
            line = line.strip()
            if line and not line.startswith("#"):
                out.append(json.loads(line))
    return out


def known_finding(pid, signature):
    """Return the matching kind=known finding entry, or None. fixed entries suppress nothing."""
    for f in load_findings():
        if f.get("property") == pid and f.get("kind") == "known" and f.get("signature") == signature:
            return f
    return None


class Violation:
    def __init__(self, pid, signature, detail, replay_files=None):
        self.pid = pid
        self.signature = signature      # stable minimal identification (history / input / call site)
        self.detail = detail            # human text
        self.replay_files = replay_files or {}   # {name: text or (src path,)} saved under replays/


def save_replay(pid, name, files):
    """Persist replay material under /verif/replays/<pid>/<name>/ and return the directory path."""
    d = os.path.join(REPLAYS, pid, name)
    shutil.rmtree(d, ignore_errors=True)
    os.makedirs(d)
    for fn, content in files.items():
        p = os.path.join(d, fn)
        if isinstance(content, tuple):
            shutil.copyfile(content[0], p)
        else:
            with open(p, "w") as fh:
                fh.write(content)
    return d


def write_evidence(pid, tier, seed, level, coverage, wall_s, violations=0, assumptions=None):
    os.makedirs(EVIDENCE, exist_ok=True)
    ev = {"property_id": pid, "tier": tier, "seed": int(seed), "level": level, "coverage": coverage,
          "assumptions": assumptions or [], "wall_s": round(wall_s, 2), "violations": int(violations)}
    tmp = os.path.join(EVIDENCE, ".%s.%d.tmp" % (pid, os.getpid()))
    with open(tmp, "w") as fh:
        json.dump(ev, fh, indent=1, sort_keys=True, default=str)
    os.replace(tmp, os.path.join(EVIDENCE, pid + ".json"))


def finish(pid, tier, seed, level, coverage, t0, violations, assumptions=None):
    """Print verdict lines, write evidence, return exit code."""
    new = []
    for i, v in enumerate(violations):
        kf = known_finding(pid, v.signature)
        if kf:
            print("KNOWN-FINDING: property=%s %s" % (pid, kf.get("what", v.signature)), flush=True)
        else:
            new.append(v)
    coverage = dict(coverage)
    coverage.setdefault("known_findings_seen", len(violations) - len(new))
    write_evidence(pid, tier, seed, level, coverage, time.time() - t0, len(new), assumptions)
    if new:
        seen = set()
        for i, v in enumerate(new):
            if v.signature in seen:
                continue
            seen.add(v.signature)
            files = dict(v.replay_files)
            files.setdefault("violation.txt", "property=%s\nsignature=%s\n%s\n" % (pid, v.signature, v.detail))
            d = save_replay(pid, "v%d" % len(seen), files)
            log("[%s] violation: %s\n%s" % (pid, v.signature, v.detail[:2000]))
            print("VIOLATION property=%s replay=%s" % (pid, d), flush=True)
        return 1
    print("OK property=%s tier=%s seed=%s" % (pid, tier, seed), flush=True)
    return 0


def seed_from_env(default=1):
    try:
        return int(os.environ.get("VERIF_SEED", default))
    except ValueError:
        return default
