#!/usr/bin/env python3
"""Assemble /verif/MANIFEST.json from tools/checks/*.manifest.json fragments + tools/manifest_base.json."""
import glob
import json
import os
import subprocess

ROOT = os.path.dirname(os.path.dirname(os.path.abspath(__file__)))
base = json.load(open(os.path.join(ROOT, "tools", "manifest_base.json")))
checks = []
for f in sorted(glob.glob(os.path.join(ROOT, "tools", "checks", "*.manifest.json"))):
    checks += json.load(open(f))
checks.sort(key=lambda c: c["property_id"])
claimed = {c["property_id"] for c in checks}
props = [json.loads(l)["id"] for l in open(os.path.join(ROOT, "properties.jsonl"))]
na = [n for n in base.get("not_applicable", []) if n["property_id"] not in claimed]
listed = {n["property_id"] for n in na}
for p in props:
    if p not in claimed and p not in listed:
        na.append({"property_id": p, "reason": "check not built yet (work in progress); the TLA+ technique applies"})
# extension components (spec coverage beyond the listed properties): not property checks, listed as engines + notes
exts = []
for f in sorted(glob.glob(os.path.join(ROOT, "tools", "checks", "*.ext.json"))):
    exts += json.load(open(f))
base["engines"][0]["serves_properties"] = sorted(claimed)
for e in exts:
    base["engines"].append({"name": "tlc+vh extension " + e["property_id"], "path": e["quick_cmd"], "serves_properties": [],
                            "kind_free_text": "extension component %s (not one of the listed properties; see %s): quick `%s`, thorough `%s`. %s" % (
                                e["property_id"], e["level_claimed"].get("design_ref", "docs/"), e["quick_cmd"], e.get("thorough_cmd", "-"), e.get("technique", ""))})
if exts:
    base["notes"] += " Extension components beyond the listed properties (same technique, run with tools/check <id>): " + ", ".join(
        "%s (%s)" % (e["property_id"], e["level_claimed"].get("design_ref", "")) for e in exts) + "."
base["checks"] = checks
base["not_applicable"] = sorted(na, key=lambda n: n["property_id"])
try:
    commits = subprocess.check_output(["git", "-C", "/repo", "log", "--format=%H %s"], text=True).splitlines()
    base["hooks"]["source_commits"] = [c.split()[0] for c in commits if " verif hook:" in c]
except Exception:
    pass
json.dump(base, open(os.path.join(ROOT, "MANIFEST.json"), "w"), indent=1)
print("MANIFEST.json: %d checks, %d not_applicable" % (len(checks), len(base["not_applicable"])))
