"""C12 -- provider inventory never over-commits and accounts exactly.

J1  TLC model-checks spec/inventory/Inventory.tla (MC_Inventory) exhaustively for bounded constants and, with an
    ACTION_CONSTRAINT, prints every transition it generates as a script (the history up to and including the step).
J2  `vh inventory run` replays every script on the real `cluster.NewService` (scripted `Client.Inventory`,
    ClusterDeployment events on the real bus, veriftrace hooks for synchronisation and state projection) and records
    one ndjson line per iteration of the real inventory loop.
    `vh inventory free` runs randomised concurrent drivers against the same service without gates.
J3  TLC (InventoryTrace.tla) evaluates the four TLA+ property predicates on every recorded step (verdict) and checks
    each step against the specification's action function (conformance / drift).
"""
import concurrent.futures
import json
import os
import random
import subprocess
import time

import vlib

PROPERTIES = ["C12"]
SPEC_DIR = os.path.join(vlib.SPEC, "inventory")

PROPS = ["GrantOnlyIfPackable", "StatusMatchesGranted", "StatusIsReadOnly", "UnreserveRemovesExactlyOne"]

ASSUMPTIONS = [
    "only the only-if direction of 'granted only if packable' is a violation; an admissible request the code refuses is drift",
    "'not yet deployed' follows the ClusterDeployment events as published (first reservation of that order and group name)",
    "reservations adopted at start-up enter the oracle with their manifest amounts scaled by the commit levels (weaker than unscaled)",
    "free external ports = configured quantity minus endpoints of reservations currently marked deployed",
    "amounts are small integers used verbatim as milli-cpu / bytes; exhaustive claims hold for the stated constants and depth",
]


# ---------------------------------------------------------------------------------------------------------
# constants generation (seeded)

def _tla_unit(u):
    return "U(%d, %d, %d, %d, %d)" % (u["cpu"], u["mem"], u["sto"], u["eps"], u["count"])


def _tla_seq(items):
    return "<<" + ", ".join(items) + ">>"


def _tla_set(items):
    return "{" + ", ".join(items) + "}" if items else "{}"


def gen_constants(seed, rich=False):
    """Random but reproducible constants: request shapes, inventories, commit levels, port quantity, adoption."""
    rnd = random.Random(seed * 7919 + (1 if rich else 0))
    hi = 5
    factors = [(1, 1), (2, 1), (3, 1), (3, 2), (4, 1), (1, 2)]

    def unit(multi_ok=True):
        return {"cpu": rnd.randint(1, hi), "mem": rnd.randint(1, hi), "sto": rnd.randint(0, hi),
                "eps": rnd.choice([0, 0, 1, 1, 2]), "count": rnd.choice([1, 1, 2, 3 if rich else 2])}

    shapes = []
    n_shapes = 5 if rich else 4
    while len(shapes) < n_shapes:
        k = 2 if len(shapes) in (1, 3) else 1          # always some multi-entry requests (what Status must not disturb)
        s = [unit() for _ in range(k)]
        if s not in shapes:
            shapes.append(s)
    invs = [[]]
    n_inv = 4 if rich else 3
    while len(invs) < n_inv:
        nn = rnd.choice([1, 2, 2, 3]) if rich else rnd.choice([1, 2, 2])
        inv = [{"cpu": rnd.randint(1, 4), "mem": rnd.randint(1, 4), "sto": rnd.randint(1, 4)} for _ in range(nn)]
        if inv not in invs:
            invs.append(inv)
    cfgs = []
    n_cfg = 2 if rich else 1
    while len(cfgs) < n_cfg:
        c = {"fcpu": rnd.choice(factors), "fmem": rnd.choice(factors), "fsto": rnd.choice(factors),
             "ports": rnd.randint(1, 3)}
        if c not in cfgs:
            cfgs.append(c)
    adopts = [[]]
    if rich or rnd.random() < 0.5:
        minports = min(c["ports"] for c in cfgs)
        us = [unit(), unit()]
        for u in us:
            u["sto"] = max(u["sto"], 1)
            u["eps"] = 0
        us[0]["eps"] = min(1, minports)
        adopts.append([{"order": "o1", "name": "g1", "units": us}])
    return {"shapes": shapes, "invs": invs, "cfgs": cfgs, "adopts": adopts,
            "orders": ["o1", "o2"], "names": ["g1", "g2"] if rich else ["g1"], "event_names": ["g1", "g2"]}


def constants_module(name, c):
    """A TLA+ module extending MC_Inventory that defines the generated constants."""
    shapes = _tla_set([_tla_seq([_tla_unit(u) for u in s]) for s in c["shapes"]])
    invs = _tla_set([_tla_seq(["N(%d, %d, %d)" % (n["cpu"], n["mem"], n["sto"]) for n in inv]) for inv in c["invs"]])
    cfgs = _tla_set(["F(<<%d, %d>>, <<%d, %d>>, <<%d, %d>>, %d)" % (
        x["fcpu"][0], x["fcpu"][1], x["fmem"][0], x["fmem"][1], x["fsto"][0], x["fsto"][1], x["ports"]) for x in c["cfgs"]])
    adopts = _tla_set([_tla_seq(['[order |-> "%s", name |-> "%s", units |-> %s]' % (
        a["order"], a["name"], _tla_seq([_tla_unit(u) for u in a["units"]])) for a in ad]) for ad in c["adopts"]])
    return "\n".join([
        "---- MODULE %s ----" % name,
        "EXTENDS MC_Inventory",
        "G_Orders == " + _tla_set(['"%s"' % o for o in c["orders"]]),
        "G_Names == " + _tla_set(['"%s"' % o for o in c["names"]]),
        "G_EventNames == " + _tla_set(['"%s"' % o for o in c["event_names"]]),
        "G_ReqShapes == " + shapes,
        "G_InvChoices == " + invs,
        "G_CfgChoices == " + cfgs,
        "G_AdoptChoices == " + adopts,
        "====", ""])


def cfg_text(prefix, max_resv, max_steps, export=True, impl="intended"):
    lines = ["SPECIFICATION Spec", "CONSTANTS"]
    for k in ["Orders", "Names", "EventNames", "ReqShapes", "InvChoices", "CfgChoices", "AdoptChoices"]:
        lines.append("    %s <- %s_%s" % (k, prefix, k))
    lines += ["    MaxResv = %d" % max_resv, "    MaxSteps = %d" % max_steps, '    Impl = "%s"' % impl,
              "VIEW view",
              "INVARIANTS PortsNeverNegative PortsConservative StoredIsCommitted",
              "PROPERTIES GrantOnlyIfPackable StatusMatchesGranted StatusIsReadOnly UnreserveRemovesExactlyOne"]
    if export:
        lines.append("ACTION_CONSTRAINT ExportEdge")
    return "\n".join(lines) + "\n"


# ---------------------------------------------------------------------------------------------------------
# J1 + export

def parse_printed(out):
    """JSON records printed by PrintT(ToJson(..)): lines of the form "{...}" (a TLA+ string)."""
    recs = []
    for line in out.splitlines():
        if line.startswith('"{') and line.endswith('}"'):
            try:
                recs.append(json.loads(json.loads(line)))
            except ValueError:
                pass
    return recs


def j1(label, module, cfg, extra_files, workers, timeout, simulate=None):
    files = dict(extra_files)
    files["MC_run.cfg"] = cfg
    r = vlib.tlc(SPEC_DIR, module, "MC_run.cfg", workers=workers, timeout=timeout, simulate=simulate,
                 extra_files=files, deadlock=False)
    vlib.tlc_require_ok(r, "J1 %s" % label)
    scripts = [x for x in parse_printed(r.out) if "steps" in x]
    vlib.log("[C12] J1 %s: %d states generated, %d distinct, depth %d, %d scripts exported (%.1fs)" % (
        label, r.generated, r.distinct, r.depth, len(scripts), r.wall_s))
    return r, scripts


def dedupe(scripts):
    """Drop scripts that are a proper prefix of (or equal to) a kept script with the same configuration: the longer
    replay executes exactly the same steps first (the loop is deterministic under the gates)."""
    keyed = []
    for s in scripts:
        head = json.dumps([s["cfg"], s.get("adopt", [])], sort_keys=True)
        steps = tuple(json.dumps(x, sort_keys=True) for x in s["steps"])
        keyed.append((head, steps, s))
    keyed.sort(key=lambda t: -len(t[1]))
    covered = set()
    kept = []
    for head, steps, s in keyed:
        if (head, steps) in covered:
            continue
        kept.append(s)
        for i in range(1, len(steps) + 1):
            covered.add((head, steps[:i]))
    return kept


# ---------------------------------------------------------------------------------------------------------
# J2 replay on the real code

def script_key(s):
    return json.dumps([s["cfg"], s.get("adopt", []), s["steps"]], sort_keys=True)


def replay(vh, scripts, workdir, nproc, tag, timeout, nchunks=None):
    """Run the scripts on the real service in a pool of harness processes. Scripts are sorted and cut into
    contiguous chunks, so that recordings sharing a prefix end up in the same trace file. Returns trace files."""
    scripts = sorted(scripts, key=script_key)
    nchunks = max(1, min(nchunks or nproc, len(scripts)))
    size = (len(scripts) + nchunks - 1) // nchunks
    jobs = []
    for k in range(nchunks):
        chunk = scripts[k * size:(k + 1) * size]
        if not chunk:
            continue
        sf = os.path.join(workdir, "%s-scripts-%03d.ndjson" % (tag, k))
        tf = os.path.join(workdir, "%s-trace-%03d.ndjson" % (tag, k))
        with open(sf, "w") as fh:
            for sc in chunk:
                fh.write(json.dumps(sc) + "\n")
        jobs.append((sf, tf))
    deadline = time.time() + timeout

    def one(job):
        sf, tf = job
        left = deadline - time.time()
        if left <= 0:
            raise vlib.Inconclusive("harness replay timed out after %ss" % timeout)
        rc, out = vlib.run([vh, "inventory", "run", "-scripts", sf, "-out", tf, "-timer-ms", "5"], timeout=left)
        if rc != 0:
            raise vlib.Inconclusive("harness failed (rc=%s): %s" % (rc, out[-3000:]))
        return tf

    with concurrent.futures.ThreadPoolExecutor(max_workers=nproc) as ex:
        return list(ex.map(one, jobs))


def free_run(vh, workdir, seed, runs, ops, nproc, timeout):
    """Randomised concurrent drivers, no gates; returns trace files."""
    procs = []
    for k in range(nproc):
        tf = os.path.join(workdir, "free-trace-%d.ndjson" % k)
        p = subprocess.Popen([vh, "inventory", "free", "-seed", str(seed * 1000 + k), "-runs", str(runs), "-ops", str(ops),
                              "-out", tf], stdout=subprocess.PIPE, stderr=subprocess.STDOUT)
        procs.append((p, tf))
    out = []
    deadline = time.time() + timeout
    for p, tf in procs:
        try:
            txt, _ = p.communicate(timeout=max(1, deadline - time.time()))
        except subprocess.TimeoutExpired:
            for q, _ in procs:
                q.kill()
            raise vlib.Inconclusive("free-running drivers timed out after %ss" % timeout)
        if p.returncode != 0:
            raise vlib.Inconclusive("free-running driver failed (rc=%s): %s" % (p.returncode, txt.decode("utf-8", "replace")[-3000:]))
        out.append(tf)
    return out


# ---------------------------------------------------------------------------------------------------------
# J3 judge recorded traces with TLC

def build_tree(trace_files, tree_file, merge=True):
    """Merge recorded traces into a prefix tree: equal recorded prefixes (same lines, same order) are judged once.
    Writes one record [parent, kids, e] per node (record 1 is the root); returns (nodes, lines). With merge=False
    recordings of different scripts are kept apart (used by the binding self-test)."""
    parent = [0, 0]
    events = [None, '{"ev": "root"}']
    kids = [None, []]
    index = {}
    nlines = 0
    for f in trace_files:
        cur = 1
        for raw in open(f):
            raw = raw.strip()
            if not raw:
                continue
            nlines += 1
            if '"reset"' in raw:
                e = json.loads(raw)
                if e["ev"] == "reset":
                    cur = 1
                    if merge:
                        keyed = dict(e)
                        keyed.pop("script", None)
                        raw_key = json.dumps(keyed, sort_keys=True)
                    else:
                        raw_key = raw
                    key = (1, raw_key)
                else:
                    key = (cur, raw)
            else:
                key = (cur, raw)         # the harness writes keys in a fixed order: the text identifies the line
            k = index.get(key)
            if k is None:
                k = len(parent)
                parent.append(cur)
                events.append(raw)
                kids.append([])
                kids[cur].append(k)
                index[key] = k
            cur = k
    with open(tree_file, "w") as fh:
        for k in range(1, len(parent)):
            fh.write('{"parent": %d, "kids": %s, "e": %s}\n' % (parent[k], json.dumps(kids[k]), events[k]))
    return len(parent) - 1, nlines


def path_lines(tree_file, k):
    """The recorded lines from the script's reset line down to tree node k (node k is record k of the tree file)."""
    lines = open(tree_file).read().splitlines()
    out = []
    while k > 1:
        r = json.loads(lines[k - 1])
        out.append(r["e"])
        k = r["parent"]
    out.reverse()
    return out


def judge_tree(tree_file, nnodes, timeout, workers="auto", impl="intended"):
    """J3: TLC walks the tree of recorded steps; VIOLATION / DRIFT records are printed per judged step."""
    cfg = open(os.path.join(SPEC_DIR, "InventoryTrace.cfg")).read().replace('Impl = "intended"', 'Impl = "%s"' % impl)
    r = vlib.tlc(SPEC_DIR, "InventoryTrace", "T_run.cfg", workers=workers, timeout=timeout,
                 extra_files={"T_run.cfg": cfg}, copy_files={"trace.ndjson": tree_file}, heap="8g", deadlock=False)
    if not r.ok:
        raise vlib.Inconclusive("J3: TLC failed on the recorded traces: %s" % (r.error or r.out[-2000:]))
    if r.distinct != nnodes:
        raise vlib.Inconclusive("J3: recorded steps not all consumed: %d states for %d tree nodes" % (r.distinct, nnodes))
    recs = parse_printed(r.out)
    for x in recs:
        x["tree"] = tree_file
    return {"nodes": nnodes, "violations": [x for x in recs if x.get("kind") == "VIOLATION"],
            "drift": [x for x in recs if x.get("kind") == "DRIFT"], "wall_s": r.wall_s}


def _build_job(args):
    files, tree_file, merge = args
    return build_tree(files, tree_file, merge)


def judge(trace_files, workdir, tag, timeout, merge=True, group_lines=400000, par=1):
    """Group consecutive trace files into trees of about group_lines recorded lines, build the trees in parallel,
    let TLC judge each tree."""
    groups, cur, n = [], [], 0
    for f in trace_files:
        ln = sum(1 for _ in open(f))
        if cur and n + ln > group_lines:
            groups.append(cur)
            cur, n = [], 0
        cur.append(f)
        n += ln
    if cur:
        groups.append(cur)
    jobs = [(g, os.path.join(workdir, "%s-tree-%03d.ndjson" % (tag, i)), merge) for i, g in enumerate(groups)]
    if len(jobs) == 1:
        built = [_build_job(jobs[0])]
    else:
        with concurrent.futures.ProcessPoolExecutor(max_workers=min(8, len(jobs))) as ex:
            built = list(ex.map(_build_job, jobs))
    par = max(1, min(par, len(jobs)))
    workers = "auto" if par == 1 else max(2, vlib.NCPU // par)
    deadline = time.time() + timeout

    def one(i):
        left = deadline - time.time()
        if left <= 0:
            raise vlib.Inconclusive("J3 timed out after %ss" % timeout)
        return judge_tree(jobs[i][1], built[i][0], left, workers=workers)

    with concurrent.futures.ThreadPoolExecutor(max_workers=par) as ex:
        results = list(ex.map(one, range(len(jobs))))
    return {"nodes": sum(r["nodes"] for r in results), "lines": sum(b[1] for b in built),
            "violations": [v for r in results for v in r["violations"]],
            "drift": [d for r in results for d in r["drift"]],
            "wall_s": sum(r["wall_s"] for r in results), "trees": len(jobs)}


def read_trace(path):
    return [json.loads(l) for l in open(path) if l.strip()]


def script_of_trace(tl):
    """Rebuild the stimulus script from recorded lines (used for free-running traces and replays)."""
    head = tl[0]
    steps = []
    for e in tl[1:]:
        ev = e["ev"]
        if ev == "Skip":
            continue
        if ev == "Timer":
            steps.append({"a": "Timer"})
        elif ev == "Reserve":
            steps.append({"a": "Reserve", "order": e["order"], "name": e["name"], "units": e["units"]})
        elif ev == "Unreserve":
            steps.append({"a": "Unreserve", "order": e["order"]})
        elif ev == "Status":
            steps.append({"a": "Status"})
        elif ev == "Lookup":
            steps.append({"a": "Lookup", "order": e["order"], "name": e["name"]})
        elif ev == "CD":
            steps.append({"a": "CD", "order": e["order"], "name": e["name"], "status": e["status"]})
        elif ev == "Refresh":
            steps.append({"a": "Refresh", "ok": e["ok"], "inv": e["inv"]})
    return {"id": str(head.get("script", "replay")), "cfg": head["cfg"], "adopt": head.get("adopt", []), "steps": steps}


def signature(v, tl):
    """Stable identification of a violation: property predicate, action, and the feature of the step that matters."""
    what, ev = v["what"], v["ev"]
    feature = ""
    if what in ("StatusIsReadOnly", "StatusMatchesGranted"):
        multi = False
        pre = tl[-2]["post"]["resv"] if len(tl) >= 2 else []
        for r in pre:
            if len(r["units"]) >= 2:
                multi = True
        feature = ":multi-entry-reservation" if multi else ":single-entry-reservations"
    return "C12:%s:%s%s" % (what, ev, feature)


def collect_violations(res, limit=6):
    """One vlib.Violation per distinct signature, carrying the shortest failing script."""
    best = {}
    for v in res["violations"][:400]:
        tl = path_lines(v["tree"], v["node"])
        sig = signature(v, tl)
        if sig not in best or len(tl) < len(best[sig][1]):
            best[sig] = (v, tl)
    out = []
    for sig, (v, tl) in sorted(best.items())[:limit]:
        sc = script_of_trace(tl)
        detail = "TLC judged %s false on a step recorded from the real inventory service (script %s, %d steps, last step %s)\n%s" % (
            v["what"], sc["id"], len(sc["steps"]), v["ev"], json.dumps(v.get("detail"))[:1500])
        out.append(vlib.Violation("C12", sig, detail, {
            "script.ndjson": json.dumps(sc) + "\n",
            "trace.ndjson": "".join(json.dumps(x) + "\n" for x in tl),
            "README.txt": "replay: tools/check C12 --replay <this directory>  (re-executes script.ndjson on the current tree and re-judges it with TLC)\n",
        }))
    return out


# ---------------------------------------------------------------------------------------------------------
# the repository's own inventory tests, recorded through the hooks alone (VERIF_TRACE) and judged like any trace

def record_repo_tests(workdir, timeout=900):
    """go test -tags verif -run TestInventory ./provider/cluster/ with VERIF_TRACE set; returns the raw hook file or None."""
    raw = os.path.join(workdir, "repo-tests-hooks.ndjson")
    env = dict(vlib.GOENV, VERIF_TRACE=raw)
    rc, out = vlib.run(["go", "test", "-tags", "verif", "-count=1", "-run", "TestInventory", "./provider/cluster/"],
                       cwd=vlib.REPO, timeout=timeout, env=env)
    if rc != 0 or not os.path.exists(raw):
        vlib.log("[C12] the repository's inventory tests did not pass with the hooks on (rc=%s); not traced:\n%s" % (rc, out[-800:]))
        return None
    return raw


def convert_hook_trace(raw, out_path):
    """Turn hook-only events (case tag + loop-top snapshot) into trace lines. Grants, releases, deployment events and
    fetch results are inferred from what the snapshots show; everything else becomes a Blind line. Memory/storage
    are recorded in KiB (TLC integers are 32 bit); a trace with amounts not divisible by 1024 is not projectable."""
    class Unprojectable(Exception):
        pass

    def kib(v):
        if v % 1024:
            raise Unprojectable("amount %d is not a multiple of 1024" % v)
        return v // 1024

    orders, ptrs = {}, {}

    def units(us):
        return [{"cpu": u["cpu"], "mem": kib(u["mem"]), "sto": kib(u["sto"]), "eps": u["eps"], "count": u["count"]} for u in us]

    def snap(kv):
        resv = []
        for r in kv.get("reservations") or []:
            o = orders.setdefault(r["order"], "o%d" % (len(orders) + 1))
            i = ptrs.setdefault(r["ptr"], len(ptrs) + 1)
            resv.append({"id": i, "order": o, "name": r["name"], "alloc": r["alloc"], "units": units(r["units"])})
        inv = [{"cpu": n["available"]["cpu"], "mem": kib(n["available"]["mem"]), "sto": kib(n["available"]["sto"])}
               for n in (kv.get("inventory") or [])]
        return {"resv": resv, "ports": kv["ports"], "accepting": kv["accepting"], "fetching": kv["fetching"], "inv": inv}

    lines, n_inst, aliased = [], 0, 0
    tag, tagkv, pre = None, None, None
    try:
        for rawline in open(raw):
            ev = json.loads(rawline)
            if ev.get("component") != "inventory":
                continue
            if ev["event"] != "idle":
                tag, tagkv = ev["event"], ev.get("kv") or {}
                continue
            if tag is None:                       # a loop top with no case before it: a new service instance
                ptrs.clear()
                post = snap(ev["kv"])
                n_inst += 1
                adopt = [{"order": r["order"], "name": r["name"], "units": r["units"]} for r in post["resv"]]
                lines.append({"ev": "reset", "script": "repo-test-%d" % n_inst, "adopt": adopt, "post": post,
                              "cfg": {"fcpu": [1, 1], "fmem": [1, 1], "fsto": [1, 1], "ports": post["ports"]}})
                pre = post
                continue
            post = snap(ev["kv"])
            if tag != "inventory-result" and post["inv"] != pre["inv"]:
                # the test's mock client rewrites, in place, the slice it returned earlier and the loop still holds;
                # what the cluster REPORTED changes only when a fetch result is consumed
                aliased += 1
                post["inv"] = pre["inv"]
            pre_ids = [r["id"] for r in pre["resv"]]
            post_ids = [r["id"] for r in post["resv"]]
            line = {"ev": "Blind", "tag": tag, "post": post}
            if tag == "reserve" and len(post_ids) == len(pre_ids) + 1 and post_ids[:-1] == pre_ids:
                r = post["resv"][-1]
                line = {"ev": "Reserve", "order": r["order"], "name": r["name"], "units": r["units"], "post": post,
                        "reply": {"ok": True, "id": r["id"], "units": r["units"], "err": ""}}
            elif tag == "unreserve" and len(post_ids) == len(pre_ids) - 1:
                gone = [r for r in pre["resv"] if r["id"] not in post_ids]
                if len(gone) == 1:
                    line = {"ev": "Unreserve", "order": gone[0]["order"], "reply": {"ok": True, "err": ""}, "post": post}
            elif tag == "cluster-deployment":
                flipped = [r for r in post["resv"] for q in pre["resv"] if q["id"] == r["id"] and q["alloc"] != r["alloc"]]
                if len(flipped) == 1:
                    line = {"ev": "CD", "order": flipped[0]["order"], "name": flipped[0]["name"],
                            "status": tagkv.get("status", "deployed"), "post": post}
            elif tag == "inventory-result":
                err = bool(tagkv.get("err"))
                line = {"ev": "Refresh", "ok": not err, "inv": [] if err else post["inv"], "reply": {"err": err}, "post": post}
            elif tag == "timer":
                line = {"ev": "Timer", "spont": True, "post": post}
            lines.append(line)
            pre, tag = post, None
    except Unprojectable as e:
        vlib.log("[C12] hook trace of the repository's tests not projectable: %s" % e)
        return 0, 0, 0
    with open(out_path, "w") as fh:
        for l in lines:
            fh.write(json.dumps(l) + "\n")
    return n_inst, len(lines) - n_inst, aliased


# ---------------------------------------------------------------------------------------------------------
# binding self-test: recordings of the real code are taken AS THEY ARE (whatever the code did); one field of one
# recorded line is corrupted (or one event dropped) and TLC must reject exactly there, while the uncorrupted
# recording is not rejected there. It runs after the main judgement and never replaces it.

SELFTEST_SCRIPT = {
    "id": "selftest", "cfg": {"fcpu": [2, 1], "fmem": [1, 1], "fsto": [3, 1], "ports": 2}, "adopt": [],
    "steps": [
        {"a": "Refresh", "ok": True, "inv": [{"cpu": 2, "mem": 2, "sto": 2}, {"cpu": 1, "mem": 2, "sto": 1}]},
        {"a": "Reserve", "order": "o1", "name": "g1", "units": [{"cpu": 3, "mem": 2, "sto": 4, "eps": 1, "count": 1}]},
        {"a": "Reserve", "order": "o2", "name": "g1", "units": [{"cpu": 1, "mem": 1, "sto": 1, "eps": 0, "count": 1}]},
        {"a": "Status"},
        {"a": "Unreserve", "order": "o1"},
        {"a": "Status"},
    ]}


def sample_recordings(trace_files, per_file=150):
    """Recorded scripts (lists of lines) from the main run: the self-test script's recording first, then the first
    few of every trace file."""
    first, rest = [], []
    for f in trace_files:
        cur, n, keep = None, 0, False
        for raw in open(f):
            if '"reset"' in raw and '"ev":"reset"' in raw.replace(" ", ""):
                if cur and keep:
                    (first if cur[0].get("script") == "selftest" else rest).append(cur)
                n += 1
                special = '"selftest"' in raw
                keep = special or n <= per_file
                cur = [json.loads(raw)] if keep else None
            elif keep and cur is not None:
                cur.append(json.loads(raw))
        if cur and keep:
            (first if cur[0].get("script") == "selftest" else rest).append(cur)
    return first + rest


def _corruption_sites(rec):
    """(kind, wanted predicate, index of the line that must be rejected, corrupted recording) for one recording."""
    out = []
    for i, e in enumerate(rec):
        ev = e.get("ev")
        rep = e.get("reply") or {}
        if ev == "Status":
            both = (rep.get("pending") or []) + (rep.get("active") or [])
            if both:
                t = json.loads(json.dumps(rec[:i + 1]))
                lst = t[i]["reply"]["pending"] if t[i]["reply"]["pending"] else t[i]["reply"]["active"]
                lst[0]["cpu"] += 1
                out.append(("reported-amount-changed", "StatusMatchesGranted", i, t))
            resv = e["post"]["resv"]
            if resv and resv[0]["units"]:
                t = json.loads(json.dumps(rec[:i + 1]))
                t[i]["post"]["resv"][0]["units"][0]["mem"] += 1
                out.append(("reservation-changed-across-status", "StatusIsReadOnly", i, t))
            rel = [j for j in range(1, i) if rec[j].get("ev") == "Unreserve" and (rec[j].get("reply") or {}).get("ok")]
            if rel:
                j = rel[-1]
                t = json.loads(json.dumps(rec[:j] + rec[j + 1:i + 1]))
                out.append(("release-event-dropped", "StatusMatchesGranted", i - 1, t))
        elif ev == "Reserve" and rep.get("ok") and sum(u["count"] for u in e["units"]) > 0:
            t = json.loads(json.dumps(rec[:i + 1]))
            for x in t[:i]:
                if x.get("ev") == "Refresh" and x.get("ok"):
                    x["inv"] = []
            out.append(("reported-inventory-withheld", "GrantOnlyIfPackable", i, t))
        elif ev == "Unreserve" and rep.get("ok") and i >= 1:
            t = json.loads(json.dumps(rec[:i + 1]))
            t[i]["post"]["resv"] = json.loads(json.dumps(rec[i - 1]["post"]["resv"]))
            out.append(("release-not-applied", "UnreserveRemovesExactlyOne", i, t))
    return out


SELFTEST_KINDS = ["reported-amount-changed", "reservation-changed-across-status", "release-event-dropped",
                  "reported-inventory-withheld", "release-not-applied"]


def binding_selftest(recordings, workdir, per_kind=3):
    """Returns a result dict; result["ok"] is False only if a corrupted recording was NOT rejected where it must be.
    Raises Inconclusive only when TLC itself fails."""
    sites = {k: [] for k in SELFTEST_KINDS}
    for rec in recordings:
        if all(len(v) >= per_kind for v in sites.values()):
            break
        for kind, want, idx, bad in _corruption_sites(rec):
            if len(sites[kind]) < per_kind:
                sites[kind].append((want, idx, rec[:max(idx, 0) + 2], bad))
    cf = os.path.join(workdir, "selftest-all.ndjson")
    where = {}          # (script name, tree node) -> bookkeeping
    plan = []
    line_no = 0
    with open(cf, "w") as fh:
        for kind in SELFTEST_KINDS:
            for n, (want, idx, clean, bad) in enumerate(sites[kind]):
                for flavour, rec in (("clean", clean), ("bad", bad)):
                    name = "%s/%d/%s" % (kind, n, flavour)
                    rec = json.loads(json.dumps(rec))
                    rec[0]["script"] = name
                    for e in rec:
                        fh.write(json.dumps(e) + "\n")
                    # merge=False: one tree node per written line, node = line number + 1 (record 1 is the root)
                    where[name] = line_no + idx + 2
                    line_no += len(rec)
                plan.append((kind, n, want))
    result = {"sites": {k: len(v) for k, v in sites.items()}}
    if not plan:
        result["ok"] = True
        result["note"] = "no recorded line to corrupt (nothing was granted, reported or released in the sampled recordings)"
        return result
    res = judge([cf], workdir, "selftest", 300, merge=False)
    hit = {(v["script"], v["node"], v["what"]) for v in res["violations"]}
    okall = True
    for kind in SELFTEST_KINDS:
        if not sites[kind]:
            result[kind] = "no recorded line of that kind in the sampled recordings"
            continue
        verdicts = []
        for n, (want, idx, _, _) in enumerate(sites[kind]):
            cn, bn = "%s/%d/clean" % (kind, n), "%s/%d/bad" % (kind, n)
            if kind == "release-event-dropped":
                clean_hit = (cn, where[cn] + 1, want) in hit      # the same Status line sits one node later in the clean copy
            else:
                clean_hit = (cn, where[cn], want) in hit
            bad_hit = (bn, where[bn], want) in hit
            verdicts.append("already-violating" if clean_hit else ("rejected" if bad_hit else "NOT-REJECTED"))
        if "NOT-REJECTED" in verdicts:
            okall = False
        result[kind] = "%s by %s: %s" % ("corruption rejected" if "rejected" in verdicts else "undecided", sites[kind][0][0], ",".join(verdicts))
    result["ok"] = okall
    return result


# ---------------------------------------------------------------------------------------------------------
# the integer form of the commit rounding against the real function, on more values than the model checks

COMMIT_LEVELS = [(1, 2), (1, 1), (3, 2), (2, 1), (3, 1), (4, 1)]      # the levels the configurations draw from


def commit_conformance(vh, workdir, vmax):
    inp = os.path.join(workdir, "commit-in.ndjson")
    outp = os.path.join(workdir, "commit.ndjson")
    with open(inp, "w") as fh:
        for n, d in COMMIT_LEVELS:
            for v in range(0, vmax + 1):
                fh.write(json.dumps({"v": v, "n": n, "d": d}) + "\n")
    rc, out = vlib.run([vh, "inventory", "commit", "-in", inp, "-out", outp], timeout=120)
    if rc != 0:
        raise vlib.Inconclusive("commit sweep failed: " + out[-1000:])
    rows = sum(1 for _ in open(outp))
    r = vlib.tlc(SPEC_DIR, "InventoryCommit", "InventoryCommit.cfg", workers=1, timeout=300,
                 copy_files={"commit.ndjson": outp}, heap="2g", deadlock=False)
    if not r.ok or r.distinct != rows + 1:
        raise vlib.Inconclusive("commit sweep: TLC did not consume all rows: %s" % (r.error or r.out[-1500:]))
    bad = [x for x in parse_printed(r.out) if x.get("kind") == "DRIFT"]
    for x in bad[:5]:
        vlib.log("DRIFT commit rounding: real %s, integer form %s" % (x["row"], x["spec"]))
    return {"rows": rows, "levels": ["%d/%d" % l for l in COMMIT_LEVELS], "max_value": vmax, "mismatches": len(bad)}


# ---------------------------------------------------------------------------------------------------------
# coverage accounting from the recorded traces

def account(trace_files):
    scripts = steps = 0
    classes = {}
    nontrivial = set()
    for f in trace_files:
        prev = None
        for line in open(f):
            e = json.loads(line)
            ev = e["ev"]
            if ev == "reset":
                scripts += 1
                prev = e["post"]
                continue
            steps += 1
            rep = e.get("reply") or {}
            if ev in ("Reserve", "Unreserve", "Lookup"):
                cls = ev + (".ok" if rep.get("ok") else ".refused")
            elif ev == "Refresh":
                cls = "Refresh" + (".err" if rep.get("err") else ".ok")
            elif ev == "CD":
                cls = "CD." + e["status"] + (".changed" if e["post"] != prev else ".unchanged")
            elif ev == "Status":
                cls = "Status" + (".nonempty" if (rep.get("active") or rep.get("pending")) else ".empty")
            else:
                cls = ev
            classes[cls] = classes.get(cls, 0) + 1
            changed = e["post"] != prev
            if ev != "Skip" and (changed or cls in ("Status.nonempty", "Lookup.ok")):
                key = json.dumps([ev, {k: e[k] for k in e if k not in ("post", "spont")}, prev, e["post"]], sort_keys=True)
                nontrivial.add(hash(key))
            prev = e["post"]
    return scripts, steps, classes, len(nontrivial)


# ---------------------------------------------------------------------------------------------------------

def do_replay(vh, path, workdir):
    """--replay <dir|file>: re-execute the saved script on the current tree and re-judge it."""
    sp = os.path.join(path, "script.ndjson") if os.path.isdir(path) else path
    if not os.path.exists(sp):
        raise vlib.Inconclusive("no script.ndjson at %s" % path)
    scripts = [json.loads(l) for l in open(sp) if l.strip()]
    pairs = replay(vh, scripts, workdir, 1, "replay", 600)
    return judge(pairs, workdir, "replay", 600), pairs


def run(pid, tier, seed, replay_path):
    t0 = time.time()
    vh = vlib.build_harness()
    work = vlib.scratch("inventory-")
    ncpu = vlib.NCPU

    if replay_path:
        res, tfs = do_replay(vh, replay_path, work)
        violations = collect_violations(res)
        scripts, steps, _, _ = account(tfs)
        vlib.log("[C12] replayed %d script(s), %d steps on the current tree; %d drift" % (scripts, steps, len(res["drift"])))
        bad = 0
        for v in violations:          # evidence of the last full run is left alone in replay mode
            kf = vlib.known_finding(pid, v.signature)
            if kf:
                print("KNOWN-FINDING: property=%s %s" % (pid, kf.get("what", v.signature)), flush=True)
                continue
            bad += 1
            vlib.log("[C12] violation: %s\n%s" % (v.signature, v.detail[:2000]))
            print("VIOLATION property=%s replay=%s" % (pid, os.path.abspath(replay_path)), flush=True)
        if not bad:
            print("OK property=%s replay reproduced no violation" % pid, flush=True)
        return 1 if bad else 0

    commit = commit_conformance(vh, work, 20000 if tier == "thorough" else 2000)
    vlib.log("[C12] commit rounding: %s" % commit)

    configs = []
    all_scripts = []
    states = transitions = 0

    def add(label, r, scripts, exhaustive):
        nonlocal states, transitions
        kept = dedupe(scripts)
        configs.append({"config": label, "states": r.distinct, "transitions": r.generated, "depth": r.depth,
                        "scripts_exported": len(scripts), "scripts_replayed": len(kept), "exhaustive": exhaustive,
                        "tlc_wall_s": round(r.wall_s, 1)})
        if exhaustive:
            states += r.distinct
            transitions += r.generated
        for i, s in enumerate(kept):
            s["id"] = "%s#%d" % (label, i + 1)
        all_scripts.extend(kept)

    gen = gen_constants(seed, rich=(tier == "thorough"))
    genmod = constants_module("MC_gen", gen)
    if tier == "quick":
        plan = [("small-d5", "MC_Inventory", cfg_text("S", 3, 5), {}, None),
                ("levels-d4", "MC_Inventory", cfg_text("L", 3, 4), {}, None),
                ("seed%d-d3" % seed, "MC_gen", cfg_text("G", 3, 3), {"MC_gen.tla": genmod}, None),
                ("seed%d-sim" % seed, "MC_gen", cfg_text("G", 4, 12), {"MC_gen.tla": genmod},
                 dict(num=30, depth=13, seed=seed))]
    else:
        plan = [("small-d7", "MC_Inventory", cfg_text("S", 3, 7), {}, None),
                ("big-d4", "MC_Inventory", cfg_text("B", 4, 4), {}, None),
                ("levels-d5", "MC_Inventory", cfg_text("L", 3, 5), {}, None),
                ("seed%d-d4" % seed, "MC_gen", cfg_text("G", 3, 4), {"MC_gen.tla": genmod}, None)]
        for k in range(4):
            plan.append(("seed%d-sim%d" % (seed, k), "MC_gen", cfg_text("G", 4, 16), {"MC_gen.tla": genmod},
                         dict(num=40, depth=17, seed=seed * 100 + k)))
            plan.append(("big-sim%d" % k, "MC_Inventory", cfg_text("B", 4, 16), {},
                         dict(num=40, depth=17, seed=seed * 100 + 50 + k)))
    for label, module, cfg, files, sim in plan:
        r, scripts = j1(label, module, cfg, files, workers=(1 if sim else "auto"),
                        timeout=(1500 if tier == "thorough" else 400), simulate=sim)
        if not scripts:
            raise vlib.Inconclusive("J1 %s exported no scripts" % label)
        add(label, r, scripts, exhaustive=(sim is None))

    all_scripts.append(dict(SELFTEST_SCRIPT))

    # J2
    nproc = min(ncpu, 16)
    t1 = time.time()
    trace_files = replay(vh, all_scripts, work, nproc, "mc", 1500 if tier == "thorough" else 600,
                         nchunks=(4 * nproc if tier == "thorough" else nproc))
    vlib.log("[C12] J2 replayed %d scripts on the real service in %.1fs" % (len(all_scripts), time.time() - t1))
    free_files = []
    if tier == "thorough":
        free_files = free_run(vh, work, seed, runs=60, ops=400, nproc=nproc, timeout=900)
    else:
        free_files = free_run(vh, work, seed, runs=6, ops=200, nproc=min(4, nproc), timeout=120)

    repo_tests = {"instances": 0, "steps": 0}
    extra = []
    if tier == "thorough":
        raw = record_repo_tests(work)
        if raw:
            rt = os.path.join(work, "repo-tests-trace.ndjson")
            ni, ns, na = convert_hook_trace(raw, rt)
            repo_tests = {"instances": ni, "steps": ns, "inventory_slice_rewritten_by_test_mock": na}
            if ni:
                extra.append(rt)
            vlib.log("[C12] the repository's own inventory tests, hooks on: %d service instances, %d loop iterations recorded" % (ni, ns))

    # J3
    t1 = time.time()
    res = judge(trace_files + free_files + extra, work, "all", 1700 if tier == "thorough" else 600,
                par=(2 if tier == "thorough" else 1))
    vlib.log("[C12] J3 judged %d recorded lines as %d distinct recorded steps (%d prefix trees) in %.1fs" % (
        res["lines"], res["nodes"], res["trees"], time.time() - t1))
    violations = collect_violations(res)
    drift = len(res["drift"]) + commit["mismatches"]
    for d in res["drift"][:5]:
        vlib.log("DRIFT node %d script %s: %s %s" % (d["node"], d["script"], d["ev"], json.dumps(d.get("detail"))[:600]))
    # binding self-test, on recordings of this very run; it can never pre-empt the verdict above
    try:
        selftest = binding_selftest(sample_recordings(trace_files), work)
    except vlib.Inconclusive as e:
        if violations:
            selftest = {"ok": False, "tool_failure": str(e)[:300]}
        else:
            raise
    vlib.log("[C12] binding self-test: %s" % selftest)
    if not selftest["ok"] and not violations:
        raise vlib.Inconclusive("binding self-test: a corrupted recording was not rejected: %s" % selftest)
    n_scripts, n_steps, classes, nontriv = account(trace_files)
    f_scripts, f_steps, f_classes, f_nontriv = account(free_files) if free_files else (0, 0, {}, 0)
    needed = ["Reserve.ok", "Reserve.refused", "Unreserve.ok", "Unreserve.refused", "Status.nonempty", "Lookup.ok",
              "Refresh.ok", "Refresh.err", "CD.deployed.changed", "CD.pending.changed", "Timer"]
    missing = [c for c in needed if not classes.get(c)]
    if missing and not violations:
        raise vlib.Inconclusive("vacuous run: action/outcome classes never exercised on the real code: %s" % missing)
    samples = [all_scripts[i] for i in sorted({0, len(all_scripts) // 2, len(all_scripts) - 1})]
    cov = {
        "states": states, "transitions": transitions,
        "traces_validated_against_impl": n_scripts + f_scripts,
        "evaluations": n_steps + f_steps,
        "distinct_nontrivial": nontriv + f_nontriv,
        "rule": "scripts = every transition TLC generated for the bounded configs plus simulated behaviours and their one-step deviations, replayed on the real service; "
                "a recorded step counts as distinct and non-trivial if its (action, arguments, reply, loop state before, loop state after) tuple is new and it changed the loop state or returned reservations",
        "samples": samples,
        "exhaustive": True,
        "exhaustive_note": "every transition TLC generated for the exhaustive configs was replayed on the real service (prefix-subsumed scripts merged); -sim configs are random behaviours",
        "drift_steps": drift,
        "recorded_lines": res["lines"], "distinct_recorded_steps_judged": res["nodes"],
        "binding_selftest": selftest,
        "configs": configs,
        "constants_for_seed": gen,
        "action_outcome_classes": classes,
        "free_running": {"runs": f_scripts, "steps": f_steps, "classes": f_classes},
        "repo_tests_traced": repo_tests,
        "commit_rounding_vs_real_function": commit,
        "seeds": [seed],
        "properties_judged": PROPS,
    }
    return vlib.finish(pid, tier, seed, "model_checking", cov, t0, violations, ASSUMPTIONS)
