"""C13 -- provider bid engine (provider/bidengine/order.go): at most one bounded bid per order, only after a
reservation; when handling ends without winning, every reservation released and a close-bid submitted for any
bid placed -- under every timing of events, completions and single failures.

J1  TLC model-checks spec/bid/BidEngine.tla: every interleaving (MC_free.cfg, safety + termination), and the
    as-found exit path as a self-check of the model (MC_asfound.cfg must violate C13Released).
J2  TLC enumerates every terminated behaviour of the forced-schedule model (MC_quiet.cfg, history variable);
    `vh bid replay` drives the real bidengine.NewService through each of them (scripted neighbours are gates,
    the veriftrace hooks in order.go report each loop iteration).  Plus `-simulate` behaviours of a larger
    model and a free-running randomised driver (`vh bid random`).
J3  TLC reads the recorded ndjson through BidEngineTrace.tla: SpecV evaluates the C13 operators on the call
    log recorded from the real code (the verdict); SpecC checks every recorded line is a step of the model
    (conformance; a mismatch is DRIFT, not an alarm).
"""
import concurrent.futures as cf
import json
import os
import random
import sys
import time

import vlib

PROPERTIES = ["C13"]
SPEC = os.path.join(vlib.SPEC, "bid")
MAXPRICE = 46

CONSTS = """  Impl = "%(impl)s"
  Quiet = %(quiet)s
  Record = %(record)s
  Lax = FALSE
  MaxFail = %(maxfail)d
  MaxIgnored = %(maxign)d
  MaxQ = %(maxq)d
  MaxPrice = 46
  Prices = %(prices)s
  Modes = {"fresh", "catchup"}
  Kinds = %(kinds)s
  ErrKinds = %(errkinds)s
  NfKinds = %(nfkinds)s
  TimeoutCfgs = %(tcfgs)s
"""
ALLKINDS = '{"closed", "lost", "won", "other", "xclosed", "created", "xowner", "xownerp", "xdseq"}'
# the exhaustive quick export keeps one foreign-lease kind per code path (xowner is the collision that matters);
# the others are in the thorough export, the simulation and the random driver
QUICKKINDS = '{"closed", "lost", "won", "other", "xclosed", "created", "xowner"}'


def cfg_text(spec, invariants, props=(), **kw):
    d = dict(impl="intended", quiet="FALSE", record="FALSE", maxfail=1, maxign=1, maxq=2, prices="{1, 46, 47}",
             kinds='{"closed", "lost", "won", "other"}', tcfgs="{TRUE, FALSE}", errkinds="{1, 2, 3, 4}", nfkinds="{1}")
    d.update(kw)
    t = "SPECIFICATION %s\nCONSTANTS\n%s" % (spec, CONSTS % d)
    t += "INVARIANTS %s\n" % " ".join(invariants)
    if props:
        t += "PROPERTIES %s\n" % " ".join(props)
    return t + "CHECK_DEADLOCK FALSE\n"


SAFETY = ["TypeOK", "C13Bid", "C13Released", "WonIsOurs", "Pipeline"]


def parse_printed(out, tag):
    pre = '<<"%s", ' % tag
    res = []
    for l in out.splitlines():
        if l.startswith(pre) and l.endswith(">>"):
            res.append(json.loads(json.loads(l[len(pre):-2])))
    return res


# ---------------------------------------------------------------------------------------------------------
# J3

CHUNK = 4000   # executions per TLC run (a run costs ~1 s of JVM start; ndJsonDeserialize is linear)


def write_lines(path, by, sids):
    index = []
    with open(path, "w") as fh:
        for sid in sids:
            for k, l in enumerate(by[sid]):
                fh.write(json.dumps(l) + "\n")
                index.append((sid, k))
    return index


def judge(by, order, what):
    """SpecV on recorded executions: returns the list of verdict records (one per terminated execution)."""
    out = []
    for i in range(0, len(order), CHUNK):
        d = vlib.scratch("bid-v-")
        p = os.path.join(d, "trace.ndjson")
        write_lines(p, by, order[i:i + CHUNK])
        r = vlib.tlc(SPEC, "BidEngineTrace", "BidEngineTraceV.cfg", workers=1, timeout=900, copy_files={"trace.ndjson": p})
        if not r.ok:
            raise vlib.Inconclusive("%s: verdict run of TLC failed (%s %s)\n%s" % (what, r.kind, r.violated, (r.error or r.out[-2000:])))
        out += parse_printed(r.out, "VERDICT")
    return out


def conform(lines_by_sid, order, what, max_rounds=6):
    """SpecC on the recorded executions. Returns (accepted executions, [(sid, line-in-execution, line)] drifting,
    executions left unchecked after max_rounds drifting ones)."""
    drift = []
    accepted = 0
    todo = list(order)
    rounds = 0
    while todo and rounds < max_rounds + len(order) // CHUNK + 1 and len(drift) < max_rounds:
        rounds += 1
        batch = todo[:CHUNK]
        d = vlib.scratch("bid-c-")
        p = os.path.join(d, "trace.ndjson")
        index = write_lines(p, lines_by_sid, batch)
        r = vlib.tlc(SPEC, "BidEngineTrace", "BidEngineTrace.cfg", workers=1, timeout=900, copy_files={"trace.ndjson": p})
        if r.ok:
            accepted += len(batch)
            todo = todo[len(batch):]
            continue
        stuck = None
        if r.kind == "postcondition":
            for l in r.out.splitlines():
                if l.startswith('<<"STUCK", '):
                    stuck = int(l[len('<<"STUCK", '):-2])
        elif r.kind == "invariant":
            stuck = r.depth - 1   # model-side C13 invariant false in the state reached by this line
        if stuck is None or stuck < 1 or stuck > len(index):
            raise vlib.Inconclusive("%s: conformance run of TLC failed (%s %s)\n%s" % (what, r.kind, r.violated, (r.error or r.out[-2000:])))
        sid, k = index[stuck - 1]
        drift.append((sid, k, lines_by_sid[sid][k]))
        pos = todo.index(sid)
        accepted += pos
        todo = todo[pos + 1:]
    return accepted, drift, len(todo)


def read_trace(path):
    by, order = {}, []
    with open(path) as fh:
        for l in fh:
            l = l.strip()
            if not l:
                continue
            o = json.loads(l)
            if o["sid"] not in by:
                by[o["sid"]] = []
                order.append(o["sid"])
            by[o["sid"]].append(o)
    return by, order


def derive_script(lines):
    """The stimuli of a recorded execution, in order, in the script format of `vh bid replay`."""
    opof = {"Bid": "qbid", "Group": "group", "Auditor": "should", "Reserve": "reserve", "Price": "price", "CreateBid": "bcast"}
    steps = []
    for l in lines:
        e = l["e"]
        if e == "begin":
            steps.append({"a": "begin", "mode": l["mode"], "tcfg": l["tcfg"]})
        elif e == "call" and l["ph"] == "end":
            if l["c"] in opof:
                steps.append({"a": "complete", "o": opof[l["c"]], "r": l["r"], "p": l["price"]})
            elif l["c"] == "Unreserve":
                steps.append({"a": "unres", "r": l["r"]})
            elif l["c"] == "CloseBid":
                steps.append({"a": "close", "r": l["r"]})
        elif e == "pub":
            steps.append({"a": "pub", "k": l["k"]})
        elif e in ("shutdown", "fire"):
            steps.append({"a": e})
    return steps


def signature(v, lines):
    clauses = [k for k in ("one", "bounded", "reserved", "released", "closed") if not v[k]]
    ex = [l for l in lines if l["e"] == "exit"]
    infl = ""
    if ex:
        names = {"g": "group", "sg": "group(parked)", "sb": "shouldbid", "cl": "reserve", "pr": "price", "bd": "broadcast"}
        infl = ",".join(names[k] for k in ("g", "sg", "sb", "cl", "pr", "bd") if ex[0].get(k))
    return "C13:%s/unconsumed-at-exit=%s" % ("+".join(clauses), infl or "none")


def short(lines):
    out = []
    for l in lines:
        e = l["e"]
        if e == "call":
            out.append("%s.%s%s" % (l["c"], l["ph"], ("(" + (l["r"] or str(l["price"])) + ")") if (l["r"] or l["price"]) else ""))
        elif e == "pub":
            out.append("pub:" + l["k"])
        elif e == "case":
            out.append("case:" + l["c"])
        elif e in ("shutdown", "fire", "exit", "done", "begin"):
            out.append(e if e != "begin" else "begin:" + l["mode"])
    return " ".join(out)


# ---------------------------------------------------------------------------------------------------------
# J2

def run_vh(vh, args, what, timeout=900):
    rc, out = vlib.run([vh, "bid"] + args, timeout=timeout)
    if rc != 0:
        raise vlib.Inconclusive("%s: harness failed rc=%d\n%s" % (what, rc, out[-3000:]))
    for l in reversed(out.splitlines()):
        if l.startswith("{"):
            return json.loads(l)
    raise vlib.Inconclusive("%s: harness printed no summary\n%s" % (what, out[-2000:]))


def evaluate(vh, mode, args, trace_path, what, scripts=None):
    """Run the harness, judge (V) and conformance-check (C) what it recorded. Returns a dict."""
    t = time.time()
    extra = ["-wait-ms", os.environ["VERIF_BID_WAIT_MS"]] if (mode == "replay" and os.environ.get("VERIF_BID_WAIT_MS")) else []
    summ = run_vh(vh, [mode] + args + extra + ["-out", trace_path], what)
    by, order = read_trace(trace_path)
    # a forced replay that left its script or did not finish (a wait timed out: machine stalled, or the code really
    # deviates) is repeated once in isolation with a longer timeout before it counts
    bad = [o["sid"] for o in summ["outcomes"] if o["status"] != "ok" and o.get("timeout")]
    if mode == "replay" and scripts and bad and len(bad) <= 300:
        rp = trace_path + ".retry.scripts"
        with open(rp, "w") as fh:
            for sid in bad:
                fh.write(json.dumps({"sid": sid, "steps": scripts[sid]}) + "\n")
        s2 = run_vh(vh, ["replay", "-scripts", rp, "-workers", "4", "-wait-ms", "40000", "-out", trace_path + ".retry"], what + " (retry)", timeout=3000)
        by2, order2 = read_trace(trace_path + ".retry")
        again = {o["sid"]: o for o in s2["outcomes"]}
        vlib.log("[C13] %s: %d execution(s) repeated in isolation, %d fine now" % (what, len(bad), sum(1 for o in again.values() if o["status"] == "ok")))
        summ["outcomes"] = [again.get(o["sid"], o) for o in summ["outcomes"]]
        for sid in bad:
            if sid in by:
                del by[sid]
                order.remove(sid)
            if sid in by2:
                by[sid] = by2[sid]
                order.append(sid)
        summ["lines"] = sum(len(v) for v in by.values())
    t1 = time.time()
    with cf.ThreadPoolExecutor(max_workers=2) as ex:
        fv = ex.submit(judge, by, order, what)
        fc = ex.submit(conform, by, order, what)
        verdicts = fv.result()
        accepted, drift, unchecked = fc.result()
    if len(verdicts) != len(order):
        raise vlib.Inconclusive("%s: %d executions recorded but %d verdicts" % (what, len(order), len(verdicts)))
    vlib.log("[C13] %s: harness %.1fs, verdict+conformance %.1fs" % (what, t1 - t, time.time() - t1))
    res = dict(summ=summ, by=by, order=order, verdicts=verdicts, accepted=accepted, drift=drift, unchecked=unchecked,
               stuck=[o for o in summ["outcomes"] if o["status"] in ("stuck", "error")],
               hdrift=[o for o in summ["outcomes"] if o["status"] == "drift"], scripts=scripts, what=what)
    return res


def violations_of(pid, res, vh):
    """One vlib.Violation per distinct signature among the executions TLC judged to break C13."""
    out = {}
    for v in res["verdicts"]:
        if v["ok"]:
            continue
        lines = res["by"][v["sid"]]
        sig = signature(v, lines)
        if sig in out:
            out[sig][1] += 1
            continue
        steps = res["scripts"][v["sid"]] if res["scripts"] else derive_script(lines)
        detail = "%s\nexecution (%s, sid %d): %s\nTLC verdict on the recorded call log: %s" % (
            sig, res["what"], v["sid"], short(lines), json.dumps({k: v[k] for k in ("one", "bounded", "reserved", "released", "closed")}))
        files = {"script.ndjson": json.dumps({"sid": 1, "steps": steps}) + "\n",
                 "trace.ndjson": "".join(json.dumps(l) + "\n" for l in lines)}
        out[sig] = [vlib.Violation(pid, sig, detail, files), 1]
    vs = []
    for sig, (v, n) in out.items():
        v.detail += "\n%d execution(s) with this signature in %s" % (n, res["what"])
        vs.append(v)
    return vs


# ---------------------------------------------------------------------------------------------------------

def selftest(res):
    """Binding self-test: corrupt recorded executions and require TLC to notice.
       (a) drop the Unreserve call      -> verdict must say released = false
       (b) raise the recorded bid price -> verdict must say bounded = false
       (c) flip one projected local in a select line -> conformance must reject at that line"""
    pick = None
    good = {v["sid"] for v in res["verdicts"] if v["ok"]}
    for sid in res["order"]:
        ls = res["by"][sid]
        if sid in good and any(l["e"] == "call" and l["c"] == "Unreserve" for l in ls) and any(l["e"] == "call" and l["c"] == "CreateBid" for l in ls) \
                and not any(l["e"] == "pub" and l["k"] == "won" for l in ls):
            pick = ls
            break
    if pick is None:
        return {"ok": False, "why": "no recorded execution that satisfies C13 and has both Unreserve and CreateBid"}
    a = [dict(l, sid=1) for l in pick if not (l["e"] == "call" and l["c"] == "Unreserve")]
    b = []
    for l in pick:
        l = dict(l, sid=2)
        if l["e"] == "call" and l["c"] == "CreateBid" and l["ph"] == "start":
            l["price"] = MAXPRICE + 1
        b.append(l)
    c0 = [dict(l, sid=3) for l in pick]
    stby = {1: a, 2: b, 3: c0}
    vs = {v["sid"]: v for v in judge(stby, [1, 2, 3], "self-test")}
    ok_a = (not vs[1]["ok"]) and (not vs[1]["released"])
    ok_b = (not vs[2]["ok"]) and (not vs[2]["bounded"])
    ok_0 = vs[3]["ok"]
    # (c)
    c = [dict(l) for l in c0]
    k = max(i for i, l in enumerate(c) if l["e"] == "select")
    c[k]["res"] = not c[k]["res"]
    acc, drift, _ = conform({3: c}, [3], "self-test", max_rounds=1)
    ok_c = (acc == 0 and len(drift) == 1 and drift[0][1] == k)
    return {"ok": bool(ok_a and ok_b and ok_c and ok_0), "dropped_unreserve_rejected": bool(ok_a),
            "raised_price_rejected": bool(ok_b), "flipped_local_rejected_by_conformance": bool(ok_c),
            "uncorrupted_accepted": bool(ok_0)}


def export_scripts(r, path, shuffle_seed=None, limit=None, first_sid=1):
    scripts = parse_printed(r.out, "SCRIPT")
    # de-duplicate (simulation repeats behaviours)
    seen, uniq = set(), []
    for s in scripts:
        k = json.dumps(s, sort_keys=True)
        if k not in seen:
            seen.add(k)
            uniq.append(s)
    if shuffle_seed is not None:
        random.Random(shuffle_seed).shuffle(uniq)
    if limit:
        uniq = uniq[:limit]
    m = {}
    with open(path, "w") as fh:
        for i, s in enumerate(uniq):
            sid = first_sid + i
            m[sid] = s
            fh.write(json.dumps({"sid": sid, "steps": s}) + "\n")
    return m


def repo_tests_traced(work):
    """The repository's own order tests, run with the hooks on (VERIF_TRACE), validated by the loop-only
    conformance spec SpecL (neighbour calls and events are unobserved there: composed as silent steps)."""
    raw = os.path.join(work, "repotests.raw.ndjson")
    env = dict(vlib.GOENV, VERIF_TRACE=raw)
    rc, out = vlib.run(["go", "test", "-tags", "verif", "-count=1", "./provider/bidengine/", "-run", "Test_"],
                       cwd=vlib.REPO, env=env, timeout=1500)
    if rc != 0:
        raise vlib.Inconclusive("the repository's bidengine tests fail with the hooks on:\n" + out[-3000:])
    by, order = {}, []
    if os.path.exists(raw):
        for l in open(raw):
            o = json.loads(l)
            if o.get("component") != "bidengine.order":
                continue
            if o["id"] not in by:
                by[o["id"]] = []
                order.append(o["id"])
            d = {"e": o["event"]}
            d.update(o.get("kv") or {})
            by[o["id"]].append(d)
    conv = os.path.join(work, "repotests.ndjson")
    n = nlines = 0
    with open(conv, "w") as fh:
        for i, oid in enumerate(order):
            ls = by[oid]
            if not ls or ls[0]["e"] != "select":
                continue
            rows = [{"e": "begin", "mode": "catchup" if ls[0].get("sg") else "fresh", "tcfg": True, "max": MAXPRICE}] + ls
            for r in rows:
                r["sid"] = i + 1
                fh.write(json.dumps(r) + "\n")
            n += 1
            nlines += len(rows)
    if n == 0:
        raise vlib.Inconclusive("the repository's bidengine tests produced no order monitor trace (hooks missing?)")
    r = vlib.tlc(SPEC, "BidEngineTrace", "BidEngineTraceL.cfg", workers=4, timeout=1500, copy_files={"trace.ndjson": conv})
    if r.kind == "error" or (not r.ok and r.violated != "LNotAtEnd"):
        raise vlib.Inconclusive("loop-only conformance run of TLC failed (%s %s)\n%s" % (r.kind, r.violated, (r.error or r.out[-2000:])))
    return {"executions": n, "lines": nlines, "accepted": r.violated == "LNotAtEnd", "tlc_distinct_states": r.distinct}


def classes(res):
    """distinct (exit case, unconsumed-at-exit set, calls made by the exit path, mode) classes among executions"""
    cl = set()
    for sid in res["order"]:
        ls = res["by"][sid]
        ex = [l for l in ls if l["e"] == "exit"]
        cs = [l["c"] for l in ls if l["e"] == "case"]
        infl = tuple(k for k in ("g", "sg", "sb", "cl", "pr", "bd") if ex and ex[0].get(k))
        i = ls.index(ex[0]) if ex else len(ls)
        tail = tuple("%s.%s" % (l["c"], l["r"]) for l in ls[i:] if l["e"] == "call" and l["ph"] == "end")
        cl.add((ls[0]["mode"], cs[-1] if cs else "", infl, tail))
    return cl


def run(pid, tier, seed, replay):
    t0 = time.time()
    vh = vlib.build_harness()
    work = vlib.scratch("bid-")

    if replay:
        sp = os.path.join(replay, "script.ndjson")
        if not os.path.exists(sp):
            raise vlib.Inconclusive("no script.ndjson in " + replay)
        scripts = {1: json.loads(open(sp).readline())["steps"]}
        res = evaluate(vh, "replay", ["-scripts", sp, "-workers", "1"], os.path.join(work, "replay.ndjson"), "replay", scripts)
        for sid in res["order"]:
            vlib.log("[C13] replayed: " + short(res["by"][sid]))
        for v in res["verdicts"]:
            vlib.log("[C13] TLC verdict: " + json.dumps(v))
        vs = violations_of(pid, res, vh)
        if res["stuck"]:
            raise vlib.Inconclusive("replay did not terminate: %s" % res["stuck"][:1])
        if vs:
            for v in vs:
                print("VIOLATION property=%s replay=%s" % (pid, replay), flush=True)
            return 1
        print("OK property=%s replay reproduced no violation" % pid, flush=True)
        return 0

    thorough = tier == "thorough"
    # ---- J1 / export, in parallel -------------------------------------------------------------------
    free_kw = dict(maxfail=2, maxign=2, maxq=2, prices="{1, 45, 46, 47}") if thorough else {}
    quiet_kw = dict(quiet="TRUE", record="TRUE", maxq=1, kinds=ALLKINDS if thorough else QUICKKINDS, tcfgs="{TRUE}")
    if thorough:
        quiet_kw.update(maxfail=2, maxign=2, prices="{1, 45, 46, 47}", nfkinds="{1, 2, 3}")
    sim_kw = dict(quiet="TRUE", record="TRUE", maxq=1, kinds=ALLKINDS, tcfgs="{TRUE, FALSE}", maxfail=4, maxign=3,
                  prices="{1, 23, 45, 46, 47, 100}", nfkinds="{1, 2, 3}")
    jobs = {
        "free": lambda: vlib.tlc(SPEC, "MCBidEngine", "g.cfg", timeout=1500 if thorough else 600, extra_files={
            "g.cfg": (cfg_text("FairSpec", SAFETY, ["ShutdownTerminates", "TimeoutTerminates"], **free_kw) if thorough
                      else cfg_text("Spec", SAFETY, **free_kw))}),   # termination (not part of C13) in the thorough tier
        "asfound": lambda: vlib.tlc(SPEC, "MCBidEngine", "g.cfg", timeout=600, extra_files={
            "g.cfg": cfg_text("Spec", SAFETY, impl="asfound")}),
        "quiet": lambda: vlib.tlc(SPEC, "MCBidEngine", "g.cfg", timeout=1500 if thorough else 600, workers=4, extra_files={
            "g.cfg": cfg_text("Spec", SAFETY + ["OneReady", "ExportDone"], **quiet_kw)}),
        "sim": lambda: vlib.tlc(SPEC, "MCBidEngine", "g.cfg", timeout=600, workers=1, deadlock=False,
                                simulate=dict(num=4000 if thorough else 400, depth=80, seed=seed),
                                extra_files={"g.cfg": cfg_text("Spec", SAFETY + ["OneReady", "ExportDone"], **sim_kw)}),
    }
    with cf.ThreadPoolExecutor(max_workers=4) as ex:
        futs = {k: ex.submit(f) for k, f in jobs.items()}
        rs = {k: f.result() for k, f in futs.items()}
    vlib.log("[C13] TLC: " + ", ".join("%s %.0fs" % (k, r.wall_s) for k, r in rs.items()) + "; total %.0fs since start" % (time.time() - t0))
    vlib.tlc_require_ok(rs["free"], "J1 BidEngine (every interleaving, intended exit path)")
    vlib.tlc_require_ok(rs["quiet"], "J1/J2 BidEngine (forced schedules)")
    vlib.tlc_require_ok(rs["sim"], "J2 BidEngine (simulation of the larger forced-schedule model)")
    if rs["asfound"].ok or rs["asfound"].violated != "C13Released":
        raise vlib.Inconclusive("model self-check failed: the as-found exit path should violate C13Released in the model, got %r" % rs["asfound"])
    vlib.log("[C13] J1 free: %d states, %d distinct, depth %d (%.0fs); as-found model violates C13Released as it must; "
             "forced model: %d distinct" % (rs["free"].generated, rs["free"].distinct, rs["free"].depth, rs["free"].wall_s, rs["quiet"].distinct))

    # ---- J2 + J3 (in parts, so that only one part's recorded lines are in memory at a time) ---------------
    acc = dict(violations={}, drift_steps=0, stuck=[], traces=0, lines=0, stimuli=0, cls=set(), st=None, parts=[])

    def fold(res):
        for v in violations_of(pid, res, vh):
            if v.signature in acc["violations"]:
                acc["violations"][v.signature].detail += "\n(and more in %s)" % res["what"]
            else:
                acc["violations"][v.signature] = v
        for sid, k, l in res["drift"]:
            acc["drift_steps"] += 1
            print("DRIFT property=%s %s: execution %d line %d %s is not a step of the model: %s" % (
                pid, res["what"], sid, k + 1, json.dumps(l), short(res["by"][sid])), file=sys.stderr, flush=True)
        for o in res["hdrift"]:
            acc["drift_steps"] += 1
            print("DRIFT property=%s %s: execution %d left its script: %s" % (pid, res["what"], o["sid"], o.get("detail")),
                  file=sys.stderr, flush=True)
        for o in res["summ"]["outcomes"]:
            for n in (o.get("notes") or [])[:3]:
                print("DRIFT property=%s %s: execution %d: %s" % (pid, res["what"], o["sid"], n), file=sys.stderr, flush=True)
        if res["unchecked"]:
            vlib.log("[C13] %s: %d execution(s) not conformance-checked after %d drifting ones" % (res["what"], res["unchecked"], len(res["drift"])))
        acc["stuck"] += [(res["what"], o) for o in res["stuck"]]
        acc["traces"] += len(res["order"])
        acc["lines"] += res["summ"]["lines"]
        acc["stimuli"] += res["summ"]["steps"]
        acc["cls"] |= classes(res)
        nviol = sum(1 for v in res["verdicts"] if not v["ok"])
        acc["parts"].append({"what": res["what"], "executions": len(res["order"]), "lines": res["summ"]["lines"],
                             "violating": nviol, "conformant": res["accepted"], "drifting": len(res["drift"]) + len(res["hdrift"])})
        vlib.log("[C13] %s: %d executions, %d lines, %d violating, %d conformant, %d drifting" % (
            res["what"], len(res["order"]), res["summ"]["lines"], nviol, res["accepted"], len(res["drift"]) + len(res["hdrift"])))
        if acc["st"] is None:
            st = selftest(res)
            if st["ok"] or "why" not in st:
                acc["st"] = st

    sp = os.path.join(work, "scripts.ndjson")
    scripts = export_scripts(rs["quiet"], sp, shuffle_seed=seed)
    if not scripts:
        raise vlib.Inconclusive("TLC exported no behaviour")
    sids = sorted(scripts)
    samples = [json.dumps(scripts[i]) for i in sids[:3]]
    nscripts = len(scripts)
    PART = 20000
    thunks = []
    for a in range(0, len(sids), PART):
        part = {i: scripts[i] for i in sids[a:a + PART]}
        pp = os.path.join(work, "scripts_part%d.ndjson" % a)
        with open(pp, "w") as fh:
            for i in sids[a:a + PART]:
                fh.write(json.dumps({"sid": i, "steps": part[i]}) + "\n")
        what = "forced replay of every behaviour of the bounded model"
        if len(sids) > PART:
            what += " (part %d/%d)" % (a // PART + 1, (len(sids) + PART - 1) // PART)
        thunks.append(lambda pp=pp, what=what, part=part, a=a: evaluate(
            vh, "replay", ["-scripts", pp, "-workers", "16"], os.path.join(work, "forced%d.ndjson" % a), what, part))
    del scripts
    sp2 = os.path.join(work, "scripts_sim.ndjson")
    scripts2 = export_scripts(rs["sim"], sp2, first_sid=1000001)
    nscripts2 = len(scripts2)
    if scripts2:
        thunks.append(lambda: evaluate(vh, "replay", ["-scripts", sp2, "-workers", "16"], os.path.join(work, "sim.ndjson"),
                                       "forced replay of simulated behaviours of the larger model (seed %d)" % seed, scripts2))
    nrounds, nper = (12, 3000) if thorough else (1, 1500)
    for k in range(nrounds):
        s = seed * 7919 + k
        thunks.append(lambda s=s, k=k: evaluate(vh, "random", ["-seed", str(s), "-n", str(nper), "-workers", "16", "-wait-ms", "60000"],
                                                os.path.join(work, "free%d.ndjson" % k),
                                                "free-running randomised driver (seed %d)" % s))
    if thorough:
        for th in thunks:      # one part's recorded lines in memory at a time
            fold(th())
    else:
        with cf.ThreadPoolExecutor(max_workers=3) as ex:
            for f in [ex.submit(th) for th in thunks]:
                fold(f.result())

    violations = list(acc["violations"].values())
    drift_steps, stuck, traces, lines, stimuli, cls = acc["drift_steps"], acc["stuck"], acc["traces"], acc["lines"], acc["stimuli"], acc["cls"]

    repo = None
    if thorough:
        repo = repo_tests_traced(work)
        vlib.log("[C13] repository's own order tests traced through the hooks: %r" % repo)
        if not repo["accepted"]:
            drift_steps += 1
            print("DRIFT property=%s the hook lines recorded from the repository's own bidengine tests are not explained by the model" % pid,
                  file=sys.stderr, flush=True)

    st = acc["st"] or {"ok": False, "why": "no recorded execution that satisfies C13 and has both Unreserve and CreateBid"}
    if not st["ok"] and not violations:
        raise vlib.Inconclusive("binding self-test failed: %r" % st)

    if stuck and not violations:
        raise vlib.Inconclusive("%d execution(s) did not terminate / could not be run, e.g. %s: %r" % (len(stuck), stuck[0][0], stuck[0][1]))

    coverage = {
        "states": rs["free"].distinct, "transitions": rs["free"].generated,
        "configs": {
            "free (every interleaving; safety, and termination in the thorough tier)": {"distinct": rs["free"].distinct, "generated": rs["free"].generated, "depth": rs["free"].depth, "constants": free_kw or "MaxFail=1 MaxIgnored=1 MaxQ=2 Prices={1,46,47}"},
            "asfound (model self-check, must violate C13Released)": {"violated": rs["asfound"].violated, "depth": rs["asfound"].depth},
            "quiet (forced schedules, exported)": {"distinct": rs["quiet"].distinct, "behaviours": nscripts},
            "sim (larger forced model, -simulate)": {"behaviours": nscripts2},
        },
        "traces_validated_against_impl": traces,
        "evaluations": lines,
        "stimuli_applied": stimuli,
        "distinct_nontrivial": len(cls),
        "distinct_nontrivial_rule": "distinct (start mode, last select case taken, set of results unconsumed when the loop exited, calls made after the exit with their results) among the executions of the real monitor",
        "samples": samples,
        "parts": acc["parts"],
        "exhaustive": True,
        "exhaustive_note": "every terminated behaviour of the forced-schedule model within the stated constants was replayed on the real code; simulation and the random driver are samples",
        "drift_steps": drift_steps,
        "binding_selftest": st,
        "repo_tests_traced": repo if repo else "thorough tier only",
        "seeds": {"VERIF_SEED": seed},
    }
    assumptions = [
        "one order monitor per service instance; monitors of different orders share no state but the cluster and clients",
        "a bid found OPEN at catch-up needs a close-bid once the monitor has consumed the answer of the existing-bid query; a bid found in any state counts for the at-most-one-bid clause; a bid found active means the lease is already ours",
        "'won' is the chain fact: a lease for this order and this provider was published before handling ended",
        "a broadcast / reservation that returns an error placed nothing",
    ]
    return vlib.finish(pid, tier, seed, "model_checking", coverage, t0, violations, assumptions)
