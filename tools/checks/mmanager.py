"""C20 -- manifest submissions answered exactly once; a manifest is announced only when complete.

J1  TLC model-checks spec/mmanager/ManifestManager.tla (one action per `select` case of provider/manifest/manager.go
    plus the routing of service.go) exhaustively for bounded constants: the C20 invariants in every reachable state,
    the liveness clause on FairSpec.
J2  TLC explores the same specification under a VIEW that keeps what the code's next step can depend on and prints
    every edge (ManifestManagerGen.tla); the edge list is turned into scripts that cover every edge, plus seeded
    random walks and (thorough) all behaviours up to a small length. `vh mmanager replay` forces the real
    `manifest.NewService` through each script, one loop iteration at a time (scripted chain query gate, scripted
    hostname service, real bus, `Submit` from goroutines), and records one ndjson line per step.
    `vh mmanager free` runs seeded randomised concurrent drivers without gates; the hooks give the linearisation.
J3  TLC (ManifestManagerTrace.tla) sets the specification's variables to the OBSERVED values and evaluates the same
    property definitions after every step (verdict), and checks each step against the specification's action
    (conformance / drift).
"Never hangs": a Submit call that has not returned although the manager is quiescent (hooks) is re-run in isolation
with doubled timeouts before it is reported.
"""
import concurrent.futures
import json
import os
import random
import re
import shutil
import time
from collections import deque

import vlib

PROPERTIES = ["C20"]
PID = "C20"
SPEC_DIR = os.path.join(vlib.SPEC, "mmanager")

VERDICT_PROPS = ["AtMostOneReply", "SendsAtMostOne", "AnnounceOK", "AnnounceToHeld", "QuiescentAllReplied",
                 "ChainQuietAllReplied", "NoHang", "StepCompletes"]

ASSUMPTIONS = [
    "a reply is what the submitter receives: the return of Service.Submit; replies as written by the manager are "
    "observed through hooks and a second write to one request is also a violation (SendsAtMostOne)",
    "'validated that manifest' means it passed the manager's validateRequest; the manager checks hostnames only for "
    "groups it holds a lease for, so a manifest validated while no lease is held is not hostname-checked (modelled as found)",
    "a manifest is identified with its version hash (sdl.ManifestVersion); two submissions with equal hash are the same manifest",
    "after provider shutdown the manager must still answer everything outstanding (DESIGN 5.1); a Submit that returns "
    "ErrNotRunning through the service's Done channel counts as answered",
    "the scripted chain query honours context cancellation (as a gRPC query does); the scripted hostname service always answers",
    "exhaustive claims hold for the stated constants; lease identifiers are distinct (a lease is won once)",
]

TIERS = {
    "quick": dict(mc="MC_quick.cfg", live="MC_live.cfg", gen="Gen_quick.cfg", maxlen=12, walks=250, walklen=14,
                  allpaths=0, free_runs=60, free_ops=14, sim=None, step_ms=5000, hang_ms=2500),
    "thorough": dict(mc="MC_thorough.cfg", live="MC_live.cfg", gen="Gen_thorough.cfg", maxlen=16, walks=4000, walklen=20,
                     allpaths=3, free_runs=1500, free_ops=24, sim=dict(num=30000, depth=40), step_ms=8000, hang_ms=4000),
}


# ---------------------------------------------------------------------------------------------------------
# J2: edges -> scripts

def parse_edges(out):
    edges = []
    for line in out.splitlines():
        line = line.strip()
        if not line.startswith('"EDGE '):
            continue
        try:
            txt = json.loads(line)
        except ValueError:
            continue
        e = json.loads(txt[5:])
        edges.append((json.dumps(e["f"], separators=(",", ":")), (e["a"]["name"], e["a"]["arg"], e["a"]["c"], e["a"]["k"]),
                      json.dumps(e["t"], separators=(",", ":"))))
    return edges


def guard_class(f, a, t):
    """(action, guard-outcome class): which branch of the manager's helpers the step takes."""
    fs, ts = json.loads(f), json.loads(t)
    svc, mgr, leases, data, fetch, reqs, lastm, lastv = fs[:8]
    return (a[0], svc, mgr, bool(leases), data != 0, fetch, min(len(reqs), 2), lastm != 0, lastv != 0,
            ts[3] != 0, ts[4], len(ts[5]) > len(reqs), ts[6] != lastm)


def build_scripts(edges, rnd, maxlen, walks, walklen, allpaths):
    """Scripts (lists of (name, arg)) that together take every edge of the explored graph at least once."""
    adj = {}
    for f, a, t in edges:
        adj.setdefault(f, [])
        if (a, t) not in adj[f]:
            adj[f].append((a, t))
        adj.setdefault(t, [])
    init = edges[0][0]
    for k in adj:
        adj[k].sort()
    # shortest paths from init
    pred = {init: None}
    dq = deque([init])
    while dq:
        u = dq.popleft()
        for a, v in adj[u]:
            if v not in pred:
                pred[v] = (u, a)
                dq.append(v)

    def path_to(v):
        p = []
        while pred[v] is not None:
            u, a = pred[v]
            p.append((u, a, v))
            v = u
        return p[::-1]

    dist = {init: 0}
    for v in pred:
        d, x = 0, v
        while pred[x] is not None and x not in dist:
            x = pred[x][0]
            d += 1
        dist[v] = d + dist[x]
    uncovered = set((f, a, t) for f in adj for a, t in adj[f] if f in pred)
    total = len(uncovered)
    order = sorted(uncovered, key=lambda e: (dist[e[0]], e))   # nearest to init first
    nxt = 0
    has_unc = {}
    for e in uncovered:
        has_unc[e[0]] = has_unc.get(e[0], 0) + 1

    def cover(e):
        if e in uncovered:
            uncovered.discard(e)
            has_unc[e[0]] -= 1

    scripts = []
    while uncovered:
        while order[nxt] not in uncovered:
            nxt += 1
        e0 = order[nxt]
        path = path_to(e0[0]) + [e0]
        for e in path:
            cover(e)
        cur = e0[2]
        while len(path) < maxlen:
            cand = [(cur, a, t) for a, t in adj[cur] if (cur, a, t) in uncovered]
            if cand:
                e = rnd.choice(cand)
                path.append(e)
                cover(e)
                cur = e[2]
                continue
            # a state with an uncovered out-edge at most two steps away, within the remaining length
            seg = None
            if len(path) + 2 <= maxlen:
                for a, v in adj[cur]:
                    if has_unc.get(v, 0) > 0:
                        seg = [(cur, a, v)]
                        break
            if seg is None and len(path) + 3 <= maxlen:
                for a, v in adj[cur]:
                    for a2, v2 in adj[v]:
                        if has_unc.get(v2, 0) > 0:
                            seg = [(cur, a, v), (v, a2, v2)]
                            break
                    if seg:
                        break
            if seg is None:
                break
            for e in seg:
                path.append(e)
                cover(e)
            cur = seg[-1][2]
        scripts.append([e[1] for e in path])
    cover_n = len(scripts)
    # seeded random walks (deeper, repeated visits)
    for _ in range(walks):
        cur, p = init, []
        while len(p) < walklen and adj[cur]:
            a, t = rnd.choice(adj[cur])
            p.append(a)
            cur = t
        scripts.append(p)
    # all behaviours up to a small length
    n_all = 0
    if allpaths:
        stack = [(init, [])]
        while stack:
            cur, p = stack.pop()
            if len(p) == allpaths or not adj[cur]:
                scripts.append(p)
                n_all += 1
                continue
            for a, t in adj[cur]:
                stack.append((t, p + [a]))
    # a third of the scripts that begin by winning leases hold them at start-up instead (fetchExistingLeases)
    n_pre = 0
    for i, sc in enumerate(scripts):
        if sc and sc[0][0] == "LeaseWon" and rnd.randrange(3) == 0:
            k = 0
            while k < len(sc) and sc[k][0] == "LeaseWon":
                k += 1
            k = rnd.randint(1, k)
            scripts[i] = [("PreLease", a[1], 0, 0) for a in sc[:k]] + sc[k:]
            n_pre += 1
    classes = set(guard_class(f, a, t) for f in adj for a, t in adj[f] if f in pred)
    return scripts, dict(edges=total, states=len(pred), cover_scripts=cover_n, walks=walks, allpaths_scripts=n_all,
                         guard_classes=len(classes), prelease_scripts=n_pre)


def step_json(a):
    a = tuple(a) + (0, 0)
    return {"name": a[0], "arg": a[1], "c": a[2], "k": a[3]}


def step_str(a):
    a = tuple(a) + (0, 0)
    return "%s(%d)" % (a[0], a[1]) if not a[2] else "%s(%d,c%d,k%d)" % (a[0], a[1], a[2], a[3])


def write_scripts(path, scripts, start=0):
    with open(path, "w") as fh:
        for i, s in enumerate(scripts):
            fh.write(json.dumps({"id": start + i, "steps": [step_json(a) for a in s]}) + "\n")


# ---------------------------------------------------------------------------------------------------------
# replay on the real code

def run_vh(vh, mode_args, timeout):
    """Run one vh process; restart after an environment that could not be torn down (exit 3)."""
    stats = dict(scripts=0, steps=0, abandoned=0)
    frm = 0
    out_path = mode_args["out"]
    parts = []
    for attempt in range(2000):
        part = "%s.part%d" % (out_path, attempt)
        cmd = [vh, "mmanager", "replay", "-repo", vlib.REPO, "-scripts", mode_args["scripts"], "-out", part,
               "-from", str(frm), "-step-ms", str(mode_args["step_ms"]), "-hang-ms", str(mode_args["hang_ms"]),
               "-budget", "3" if attempt == 0 else "0"]
        rc, out = vlib.run(cmd, timeout=timeout)
        parts.append(part)
        last = [ln for ln in out.splitlines() if ln.startswith("{")]
        if rc not in (0, 3) or not last:
            raise vlib.Inconclusive("vh mmanager replay failed rc=%s\n%s" % (rc, out[-3000:]))
        st = json.loads(last[-1])
        for k in stats:
            stats[k] += st.get(k, 0)
        if rc == 0:
            break
        frm = st["next"]
    else:
        raise vlib.Inconclusive("vh mmanager replay kept getting stuck")
    with open(out_path, "w") as fh:
        for p in parts:
            with open(p) as src:
                shutil.copyfileobj(src, fh)
            os.unlink(p)
    return stats


def replay(vh, scripts, work, tag, step_ms, hang_ms, shards=None, start=0):
    """Replay scripts in parallel shards; returns (list of records, stats)."""
    shards = shards or max(1, min(vlib.NCPU, 16, (len(scripts) + 39) // 40))
    chunks = [[] for _ in range(shards)]
    for i, s in enumerate(scripts):
        chunks[i % shards].append((start + i, s))
    jobs = []
    for k, ch in enumerate(chunks):
        if not ch:
            continue
        sp = os.path.join(work, "%s.scripts.%d.ndjson" % (tag, k))
        with open(sp, "w") as fh:
            for sid, s in ch:
                fh.write(json.dumps({"id": sid, "steps": [step_json(a) for a in s]}) + "\n")
        jobs.append(dict(scripts=sp, out=os.path.join(work, "%s.trace.%d.ndjson" % (tag, k)), step_ms=step_ms, hang_ms=hang_ms))
    stats = dict(scripts=0, steps=0, abandoned=0)
    with concurrent.futures.ThreadPoolExecutor(max_workers=len(jobs)) as ex:
        for st in ex.map(lambda j: run_vh(vh, j, 3000), jobs):
            for k in stats:
                stats[k] += st[k]
    recs = []
    for j in jobs:
        with open(j["out"]) as fh:
            for line in fh:
                line = line.strip()
                if line:
                    recs.append(json.loads(line))
    return recs, stats


# ---------------------------------------------------------------------------------------------------------
# J3

def _printed(out, prefix):
    """Values printed by TLC as  "<prefix> <json>"  (a TLA+ string, printed with escapes, on one line)."""
    res = []
    for line in out.splitlines():
        line = line.strip()
        if line.startswith('"' + prefix + ' '):
            try:
                res.append(json.loads(json.loads(line)[len(prefix) + 1:]))
            except ValueError:
                pass
    return res


def validate(recs, work, tag, max_submit=None):
    """Run ManifestManagerTrace on the records. Returns (viols [(line index, prop)], drifts [(line index)], TLCResult)."""
    lines = list(recs)
    if not lines:
        return [], [], None
    nsub = 1
    cur = 0
    for r in lines:
        if r["e"] == "reset":
            cur = 0
        elif r["name"] in ("Submit", "SubmitSw"):
            cur += 1
            nsub = max(nsub, cur)
    path = os.path.join(work, "%s.trace.ndjson" % tag)
    with open(path, "w") as fh:
        for r in lines:
            fh.write(json.dumps(r, separators=(",", ":")) + "\n")
    cfg = open(os.path.join(SPEC_DIR, "ManifestManagerTrace.cfg")).read()
    cfg = re.sub(r"MaxSubmit = \d+", "MaxSubmit = %d" % max(nsub, max_submit or 0), cfg)
    r = vlib.tlc(SPEC_DIR, "ManifestManagerTrace", "Trace_run.cfg", workers=1, timeout=3000, deadlock=False,
                 extra_files={"Trace_run.cfg": cfg}, copy_files={"trace.ndjson": path}, heap="3g")
    done = _printed(r.out, "TRACE-DONE")
    if not r.ok or not done or done[-1]["l"] != len(lines):
        raise vlib.Inconclusive("trace validation did not run to the end of %s (%d lines): %s\n%s" % (
            tag, len(lines), r, r.out[-3000:]))
    viols = [(int(a) - 1, p) for a, p in done[-1]["viol"]]
    drifts = sorted(set(d["line"] - 1 for d in _printed(r.out, "DRIFT")))
    if len(drifts) != done[-1]["drift"]:
        raise vlib.Inconclusive("drift count mismatch in %s: %d printed, %s counted" % (tag, len(drifts), done[-1]["drift"]))
    return [(lines[i], p) for i, p in sorted(viols)], [lines[i] for i in drifts], r


def validate_sharded(recs, work, tag, shards):
    """Split a long list of records at reset boundaries and validate the parts in parallel."""
    groups, cur = [], []
    for r in recs:
        if r["e"] == "reset" and cur:
            groups.append(cur)
            cur = []
        cur.append(r)
    if cur:
        groups.append(cur)
    shards = max(1, min(shards, len(groups)))
    parts = [[] for _ in range(shards)]
    for i, g in enumerate(groups):
        parts[i % shards].extend(g)
    viols, drifts = [], []
    with concurrent.futures.ThreadPoolExecutor(max_workers=shards) as ex:
        for v, d, _ in ex.map(lambda kp: validate(kp[1], work, "%s%d" % (tag, kp[0])), enumerate(parts)):
            viols += v
            drifts += d
    return viols, drifts


def script_of(recs, script_id):
    """The stimuli of one recorded script, as given (without the final shutdown the harness appends)."""
    return [(r["name"], r["arg"], r.get("c", 0), r.get("k", 0)) for r in recs if r["e"] == "step" and r["script"] == script_id]


def sig_of(prop, steps):
    return "%s:%s" % (prop, ";".join(step_str(a) for a in steps))


# ---------------------------------------------------------------------------------------------------------

def selftest(recs, work, tag=""):
    """Binding self-test: corrupt one recorded field / drop one event of a real trace; TLC must reject each."""
    by = {}
    for r in recs:
        by.setdefault(r["script"], []).append(r)
    res = {}

    def pick(pred):
        for sid in sorted(by):
            g = by[sid]
            if any(r.get("timeout") for r in g):
                continue
            for i, r in enumerate(g):
                if r["e"] == "step" and pred(r):
                    return json.loads(json.dumps(g)), i
        return None, None

    # (a) drop the return of one answered Submit: "exactly one reply at quiescence" must fail
    g, i = pick(lambda r: r["rets"] and r["st"]["fetch"] == "idle" and r["name"] != "Shutdown")
    if g is not None:
        g[i]["rets"] = g[i]["rets"][1:]
        v, d, _ = validate(g, work, tag + "self-a")
        res["drop_one_reply"] = "rejected" if any(p == "QuiescentAllReplied" for _, p in v) else "ACCEPTED"
    # (b) duplicate one reply: "at most one reply" must fail
    g, i = pick(lambda r: r["rets"])
    if g is not None:
        g[i]["rets"] = g[i]["rets"] + [g[i]["rets"][0]]
        g[i]["sends"] = g[i]["sends"] + g[i]["sends"][:1]
        v, d, _ = validate(g, work, tag + "self-b")
        res["duplicate_one_reply"] = "rejected" if any(p == "AtMostOneReply" for _, p in v) else "ACCEPTED"
    # (c) an announcement of another manifest: "latest validated" must fail
    g, i = pick(lambda r: r["ann"])
    if g is not None:
        g[i]["ann"][0][1] = 1 if g[i]["ann"][0][1] != 1 else 2
        v, d, _ = validate(g, work, tag + "self-c")
        res["corrupt_announced_manifest"] = "rejected" if any(p == "AnnounceOK" for _, p in v) else "ACCEPTED"
    # (d) an announcement moved to a step where no lease is held
    g, i = pick(lambda r: not r["st"]["leases"] and r["st"]["mgr"] == "run" and not r["ann"])
    if g is not None:
        g[i]["ann"] = [[1, 1]]
        v, d, _ = validate(g, work, tag + "self-d")
        res["announce_without_lease"] = "rejected" if any(p == "AnnounceOK" for _, p in v) else "ACCEPTED"
    # (e) a projected state field corrupted: conformance must flag drift
    g, i = pick(lambda r: r["st"]["mgr"] == "run" and r["st"]["fetch"] == "inflight" and r["name"] == "LeaseWon")
    if g is not None:
        g[i]["st"]["fetch"] = "idle"
        v, d, _ = validate(g, work, tag + "self-e")
        res["corrupt_state_field"] = "rejected" if d else "ACCEPTED"
    ok = len(res) >= 4 and all(x == "rejected" for x in res.values())
    return ok, res


# ---------------------------------------------------------------------------------------------------------

def isolate(vh, steps, work, tag, step_ms, hang_ms):
    """Re-run one script alone with doubled timeouts; returns its records."""
    recs, _ = replay(vh, [steps], work, tag, step_ms * 2, hang_ms * 2, shards=1)
    return recs


def judge_script(vh, steps, work, tag, cfg, given_recs=None):
    """Verdict for one script, hang-robust: returns (list of (prop, detail, recs), inconclusive reason or None)."""
    recs = given_recs
    out = []
    for attempt in (0, 1, 2):
        if recs is None:
            recs = isolate(vh, steps, work, "%s-r%d" % (tag, attempt), cfg["step_ms"], cfg["hang_ms"])
        viols, drifts, _ = validate(recs, work, "%s-v%d" % (tag, attempt))
        timeouts = [r for r in recs if r.get("timeout")]
        hang = [(r, p) for r, p in viols if (p in ("NoHang", "QuiescentAllReplied", "ChainQuietAllReplied") and
                                             any(x.get("missing") for x in recs if x["i"] <= r["i"])) or p == "StepCompletes"]
        hard = [(r, p) for r, p in viols if (r, p) not in hang]
        if hard:
            return [(p, r, recs) for r, p in hard], None
        if not hang and not timeouts:
            return [], None
        for t in timeouts:
            vlib.log("[C20] attempt %d: step %d %s of script %s did not complete: %s" % (
                attempt, t["i"], step_str((t["name"], t["arg"], t.get("c", 0), t.get("k", 0))),
                ";".join(step_str(a) for a in steps), t["timeout"]))
        if attempt == 0:
            recs = None      # first sighting of a hang / timeout: once more, alone, doubled timeouts
            continue
        if hang:
            return [(p, r, recs) for r, p in hang], None   # reproduced alone, with doubled timeouts
        t = timeouts[0]
        if t["name"] in ("Submit", "SubmitSw") and t["timeout"].startswith(("hook manifest", "reply of a stopping manager")):
            return [("NoHang", t, recs)], None      # the submission itself was never taken up / answered
        if attempt == 1:
            recs = None      # a wait on a hook that is not a Submit: a third and last time
            continue
        return [], "step %d %s(%s) of script %s did not complete three times: %s" % (t["i"], t["name"], t["arg"], steps, t["timeout"])
    return out, None


def run(pid, tier, seed, replay_path):
    t0 = time.time()
    cfg = TIERS[tier]
    rnd = random.Random(seed)
    work = vlib.scratch("mmanager-")
    vh = vlib.build_harness()

    # ---- replay of a saved violation ------------------------------------------------------------------
    if replay_path:
        sp = os.path.join(replay_path, "script.json") if os.path.isdir(replay_path) else replay_path
        steps = [tuple(x) for x in json.load(open(sp))["steps"]]
        found, inconc = judge_script(vh, steps, work, "replay", cfg)
        if inconc:
            raise vlib.Inconclusive(inconc)
        if found:
            p, r, recs = found[0]
            print("VIOLATION property=%s replay=%s" % (PID, replay_path), flush=True)
            vlib.log("[C20] %s at step %d %s(%s): %s" % (p, r["i"], r["name"], r["arg"], json.dumps(r)))
            return 1
        print("OK property=%s replay=%s (not reproduced on this tree)" % (PID, replay_path), flush=True)
        return 0

    with concurrent.futures.ThreadPoolExecutor(max_workers=4) as pool:
        # ---- J1 (in the background while the code is being driven) -------------------------------------
        j1 = pool.submit(vlib.tlc, SPEC_DIR, "ManifestManager", cfg["mc"], workers=max(2, vlib.NCPU // 2), timeout=3000,
                         deadlock=False, heap="4g")
        j1l = pool.submit(vlib.tlc, SPEC_DIR, "ManifestManager", cfg["live"], workers=2, timeout=1500, deadlock=False, heap="2g")
        jrt = pool.submit(repo_tests, vh, work)
        j1s = None
        if cfg["sim"]:
            j1s = pool.submit(vlib.tlc, SPEC_DIR, "ManifestManager", "MC_sim.cfg", workers=4, timeout=1500, deadlock=False,
                              simulate=dict(num=cfg["sim"]["num"], depth=cfg["sim"]["depth"], seed=seed), heap="2g")

        # ---- J2: generation -----------------------------------------------------------------------------
        g = vlib.tlc(SPEC_DIR, "ManifestManagerGen", cfg["gen"], workers=4, timeout=1500, deadlock=False, heap="2g")
        vlib.tlc_require_ok(g, "J2 generation")
        edges = parse_edges(g.out)
        if len(edges) < 100:
            raise vlib.Inconclusive("J2 generation produced %d edges" % len(edges))
        scripts, ginfo = build_scripts(edges, rnd, cfg["maxlen"], cfg["walks"], cfg["walklen"], cfg["allpaths"])
        vlib.log("[C20] J2: %d classes, %d edges, %d guard classes -> %d scripts (%d covering, %d walks, %d all-paths)" % (
            ginfo["states"], ginfo["edges"], ginfo["guard_classes"], len(scripts), ginfo["cover_scripts"], ginfo["walks"],
            ginfo["allpaths_scripts"]))

        # ---- J2: replay on the real code ----------------------------------------------------------------
        tr = time.time()
        recs, rstats = replay(vh, scripts, work, "gen", cfg["step_ms"], cfg["hang_ms"])
        vlib.log("[C20] replayed %d scripts, %d steps on the real service in %.1fs (%d abandoned)" % (
            rstats["scripts"], rstats["steps"], time.time() - tr, rstats["abandoned"]))

        # ---- free-running drivers -----------------------------------------------------------------------
        free_recs, fstats = [], dict(runs=0, steps=0)
        if cfg["free_runs"]:
            free_recs, fstats = free_run(vh, work, seed, cfg["free_runs"], cfg["free_ops"])

        # ---- the repository's own provider/manifest tests, traced through the same hooks ---------------------
        rt_recs, rtstats = jrt.result()
        free_recs = free_recs + rt_recs

        # ---- J3 -----------------------------------------------------------------------------------------
        tv = time.time()
        viols, drifts = validate_sharded(recs, work, "j3-", max(1, min(8, vlib.NCPU // 2)))
        fviols, fdrifts = ([], [])
        if free_recs:
            fviols, fdrifts = validate_sharded(free_recs, work, "j3f-", max(1, min(4, vlib.NCPU // 4)))
        vlib.log("[C20] J3: %d forced + %d free steps validated by TLC in %.1fs; %d property failures, %d drift steps" % (
            sum(1 for r in recs if r["e"] == "step"), sum(1 for r in free_recs if r["e"] == "step"), time.time() - tv,
            len(viols) + len(fviols), len(drifts) + len(fdrifts)))
        for d in (drifts + fdrifts)[:20]:
            vlib.log("DRIFT script=%s step=%d %s(%s) observed=%s" % (d["script"], d["i"], d["name"], d["arg"], json.dumps(d["st"])))

        # covered edges / guard classes actually executed without drift
        executed = set()
        for r in recs:
            if r["e"] == "step" and not r.get("timeout"):
                executed.add((r["name"], r["arg"], r.get("c", 0), r["st"]["svc"], r["st"]["mgr"], tuple(r["st"]["leases"]), r["st"]["data"],
                              r["st"]["fetch"], len(r["st"]["requests"]), len(r["sends"]), len(r["ann"])))

        # ---- verdict ------------------------------------------------------------------------------------
        violations = []
        inconclusive = []
        hang_retries = 0
        by_script = {}
        for r in recs:
            by_script.setdefault(r["script"], []).append(r)
        suspects = {}
        for r, p in viols:
            suspects.setdefault(r["script"], set()).add(p)
        for r in recs:
            if r.get("timeout"):
                suspects.setdefault(r["script"], set()).add("timeout")
        # shortest scripts first: they give the most readable signature; a few per property are enough
        reported = {}
        for sid in sorted(suspects, key=lambda s: (len(by_script[s]), s)):
            props = suspects[sid]
            if all(reported.get(p, 0) >= 2 for p in props):
                continue
            steps = script_of(by_script[sid], sid)
            given = by_script[sid]
            if "timeout" in props or any(r.get("missing") for r in given):
                hang_retries += 1
            found, inconc = judge_script(vh, steps, work, "s%d" % sid, cfg, given_recs=given)
            if inconc:
                inconclusive.append(inconc)
            firsts = {}
            for p, r, srecs in found:
                if p not in firsts or r["i"] < firsts[p][1]["i"]:
                    firsts[p] = (p, r, srecs)
            found = sorted(firsts.values(), key=lambda f: f[1]["i"])
            for p, r, srecs in found:
                reported[p] = reported.get(p, 0) + 1
                upto = steps[:r["i"]]
                sig = sig_of(p, upto)
                if p == "StepCompletes":
                    sig = "hang:%s:%s" % (r["name"], r.get("where", "").split(" in ")[-1])
                violations.append(vlib.Violation(PID, sig,
                                                 "%s fails after step %d %s(%s) of script %s\nobserved: %s" % (
                                                     p, r["i"], r["name"], r["arg"], upto, json.dumps(r)),
                                                 {"script.json": json.dumps({"steps": upto}),
                                                  "trace.ndjson": "\n".join(json.dumps(x) for x in srecs) + "\n"}))
            for p in props:
                reported[p] = reported.get(p, 0) + (0 if any(f[0] == p for f in found) else 1)
        first_free = {}
        for r, p in fviols:
            first_free.setdefault(p, (r, p))
            if (r["script"], r["i"]) < (first_free[p][0]["script"], first_free[p][0]["i"]):
                first_free[p] = (r, p)
        for r, p in first_free.values():
            sid = r["script"]
            kind = "repotest" if sid >= 2000000 else "free"
            violations.append(vlib.Violation(PID, "%s:%s:%s(%s)" % (kind, p, r["name"], r["arg"]),
                                             "%s fails in %s execution %s at step %d %s(%s)\nobserved: %s" % (
                                                 p, kind, sid, r["i"], r["name"], r["arg"], json.dumps(r)),
                                             {"trace.ndjson": "\n".join(json.dumps(x) for x in free_recs if x["script"] == sid) + "\n"}))

        # keep one violation per signature, shortest first
        uniq = {}
        for v in violations:
            uniq.setdefault(v.signature, v)
        violations = sorted(uniq.values(), key=lambda v: (v.signature.startswith(("free:", "repotest:")), len(v.signature), v.signature))[:6]

        # ---- binding self-test --------------------------------------------------------------------------
        # The self-test is about the judging side (does TLC reject a trace with one field corrupted / one event
        # dropped?). It runs on a trace recorded once from the unchanged tree (spec/mmanager/selftest.golden.ndjson), so
        # that its outcome cannot depend on how the code under test behaved in this run; the same corruptions applied
        # to this run's own trace are reported in the evidence but decide nothing.
        golden = [json.loads(ln) for ln in open(os.path.join(SPEC_DIR, "selftest.golden.ndjson")) if ln.strip()]
        st_err = None
        try:
            gv, gd, _ = validate(golden, work, "self-golden")
            st_ok, st_res = selftest(golden, work)
            if gv or gd:
                st_ok, st_res = False, dict(st_res, golden_trace="not accepted as it is: %d failures, %d drift" % (len(gv), len(gd)))
        except vlib.Inconclusive as e:
            st_ok, st_res, st_err = False, {"error": str(e)[:300]}, e
        try:
            own_ok, own_res = selftest([r for r in recs if r["script"] not in suspects], work, tag="own-")
        except Exception as e:    # noqa: BLE001 -- informational only
            own_ok, own_res = False, {"error": str(e)[:200]}
        st_res = dict(st_res, on_this_runs_trace=own_res)
        if not st_ok and not violations:
            raise vlib.Inconclusive("binding self-test failed on the golden trace: %s" % st_res)

        # ---- J1 results -----------------------------------------------------------------------------------
        r1 = j1.result()
        r1l = j1l.result()
        if not violations:
            vlib.tlc_require_ok(r1, "J1 %s" % cfg["mc"])
            vlib.tlc_require_ok(r1l, "J1 liveness %s" % cfg["live"])
        sim_states = 0
        if j1s is not None:
            rs = j1s.result()
            if not violations:
                vlib.tlc_require_ok(rs, "J1 simulation")
            m = re.search(r"(\d+) states checked", rs.out)
            sim_states = int(m.group(1)) if m else 0

    if inconclusive and not violations:
        raise vlib.Inconclusive("; ".join(inconclusive[:3]))

    samples = [";".join(step_str(a) for a in s) for s in (scripts[:2] + scripts[ginfo["cover_scripts"]:ginfo["cover_scripts"] + 2])]
    coverage = {
        "states": r1.distinct, "transitions": r1.generated, "depth": r1.depth,
        "liveness_states": r1l.distinct,
        "simulated_states": sim_states,
        "configs": {"model_check": cfg["mc"], "liveness": cfg["live"], "generation": cfg["gen"]},
        "generation_classes": ginfo["states"], "generation_edges": ginfo["edges"],
        "scripts": len(scripts), "cover_scripts": ginfo["cover_scripts"], "random_walks": ginfo["walks"],
        "allpaths_scripts": ginfo["allpaths_scripts"], "scripts_with_leases_held_at_startup": ginfo["prelease_scripts"],
        "scripts_with_manifest_watchdog_configured": sum(1 for i in range(len(scripts)) if i % 2 == 1),
        "traces_validated_against_impl": rstats["scripts"] + fstats["runs"] + rtstats["runs"],
        "evaluations": rstats["steps"] + fstats["steps"] + rtstats["steps"],
        "repo_test_runs_traced": rtstats["runs"], "repo_test_steps": rtstats["steps"],
        "free_running_runs": fstats["runs"], "free_running_steps": fstats["steps"],
        "distinct_nontrivial": len(executed),
        "rule": "distinct (stimulus, argument, observed post-state shape: svc, mgr, leases, data version, fetch, queue length, "
                "#replies written, #announcements) tuples executed on the real service in forced replays",
        "guard_classes_in_model": ginfo["guard_classes"],
        "exhaustive": True,
        "exhaustive_note": "every edge of the generation graph (%s) replayed on the real service; J1 exhaustive for %s" % (cfg["gen"], cfg["mc"]),
        "drift_steps": len(drifts) + len(fdrifts),
        "abandoned_scripts": rstats["abandoned"], "hang_retries": hang_retries,
        "binding_selftest": st_res, "binding_selftest_ok": st_ok,
        "samples": samples, "seeds": [seed],
    }
    return vlib.finish(PID, tier, seed, "model_checking", coverage, t0, violations, ASSUMPTIONS)


# ---------------------------------------------------------------------------------------------------------

def repo_tests(vh, work):
    """Run the repository's own provider/manifest manager tests with the hooks on (VERIF_TRACE) and fold the recorded
    events into step records. A failing test run is inconclusive (the tests are not ours to judge)."""
    trace = os.path.join(work, "repotests.events.ndjson")
    out = os.path.join(work, "repotests.trace.ndjson")
    env = dict(vlib.GOENV, VERIF_TRACE=trace)
    rc, txt = vlib.run(["go", "test", "-tags", "verif", "-count=1", "-run", "TestManager", "./provider/manifest/"],
                       cwd=vlib.REPO, env=env, timeout=1200)
    if rc != 0 or not os.path.exists(trace):
        vlib.log("[C20] the repository's provider/manifest tests did not pass with -tags verif (not judged):\n" + txt[-1500:])
        return [], dict(runs=0, steps=0)
    rc, txt = vlib.run([vh, "mmanager", "fold", "-repo", vlib.REPO, "-in", trace, "-out", out], timeout=300)
    last = [ln for ln in txt.splitlines() if ln.startswith("{")]
    if rc != 0 or not last:
        raise vlib.Inconclusive("vh mmanager fold failed rc=%s\n%s" % (rc, txt[-2000:]))
    st = json.loads(last[-1])
    recs = [json.loads(ln) for ln in open(out) if ln.strip()]
    return recs, dict(runs=st["runs"], steps=st["steps"])


def free_run(vh, work, seed, runs, ops):
    """Free-running randomised concurrent drivers (no gates); the hooks order the manager's iterations."""
    shards = max(1, min(8, vlib.NCPU // 2, (runs + 19) // 20))
    per = (runs + shards - 1) // shards
    jobs = []
    for k in range(shards):
        out = os.path.join(work, "free.%d.ndjson" % k)
        jobs.append(([vh, "mmanager", "free", "-repo", vlib.REPO, "-seed", str(seed * 1000 + k), "-runs", str(per),
                      "-ops", str(ops), "-out", out, "-first", str(1000000 + k * per)], out))
    stats = dict(runs=0, steps=0)
    recs = []

    def one(job):
        rc, out = vlib.run(job[0], timeout=3000)
        last = [ln for ln in out.splitlines() if ln.startswith("{")]
        if rc != 0 or not last:
            raise vlib.Inconclusive("vh mmanager free failed rc=%s\n%s" % (rc, out[-3000:]))
        return json.loads(last[-1])

    with concurrent.futures.ThreadPoolExecutor(max_workers=len(jobs)) as ex:
        for st in ex.map(one, jobs):
            stats["runs"] += st["runs"]
            stats["steps"] += st["steps"]
    for _, out in jobs:
        with open(out) as fh:
            for line in fh:
                if line.strip():
                    recs.append(json.loads(line))
    return recs, stats
