"""C15 -- event bus (pubsub/bus.go): exactly-once, in-order delivery; clone semantics; closing never blocks.

J1  Bus.tla model-checked by TLC (MC_small / MC_mid / simulation).
J2  BusGen.tla: TLC enumerates API-level behaviours (publish / subscribe / clone / read / close); every script is
    replayed on the real bus by `vh bus seq`.
J3  BusTrace.tla: TLC evaluates Bus.tla's property definitions on the recorded loop states and reader
    observations (verdict) and checks every observed step against Bus!Next (conformance / drift).
    The same for free-running concurrent executions (`vh bus conc`, seeded by VERIF_SEED).
"""
import concurrent.futures
import json
import os
import random
import re
import shutil
import time

import vlib

PROPERTIES = ["C15"]
SPECDIR = os.path.join(vlib.SPEC, "bus")
INVARIANTS = ["NoBlocked", "NoTimeout", "ExactlyOnceInOrder", "ReadersOK", "ReaderMatchesLoop", "TraceNoLoss",
              "EndComplete", "CloseReturns"]
TIMEOUT_MS = 4000          # per API call / per owed read; doubled for the confirmation run in isolation
HEAP = "3g"
CHUNK_LINES = 45000        # trace lines per TLC process in J3
MAX_STUCK = 3              # after this many runs with a stuck call / missing owed event stop executing more


# ------------------------------------------------------------------------------------------------ scripts

def _scripts_from(out):
    """PrintT lines of BusGen!Export -> set of scripts (tuples of (op, n)), prefix-maximal ones only."""
    seen = set()
    for line in out.splitlines():
        m = re.match(r'<<"SCRIPT", "(.*)">>$', line)
        if m:
            ops = json.loads(m.group(1).replace('\\"', '"'))
            seen.add(tuple((o["op"], o["n"]) for o in ops))
    seqs = sorted(seen)
    return [a for i, a in enumerate(seqs) if a and not (i + 1 < len(seqs) and seqs[i + 1][:len(a)] == a)]


def gen_exhaustive(cfg):
    r = vlib.tlc(SPECDIR, "BusGen", cfg, workers=1, timeout=1500, heap=HEAP, deadlock=False)
    vlib.tlc_require_ok(r, "J2 BusGen " + cfg)
    return _scripts_from(r.out), r


def gen_simulated(num, depth, seed):
    r = vlib.tlc(SPECDIR, "BusGen", "BusGen_sim.cfg", workers=1, timeout=900, heap=HEAP, deadlock=False,
                 simulate=dict(num=num, depth=depth, seed=seed))
    vlib.tlc_require_ok(r, "J2 BusGen simulation")
    return _scripts_from(r.out), r


def split_gated(scripts):
    """BusGen marks with `release` the bus's first hand-over of a published event. Returns (plain, gated):
    plain = the scripts without the marks (free-running replays); gated = scripts in which a `pub` that is
    followed by its `release` becomes `hpub` (the harness holds the bus's loop at its fan-out gate until the
    `release`), so the calls in between run while the event is in flight."""
    plain, gated = set(), set()
    for sc in scripts:
        plain.add(tuple(op for op in sc if op[0] != "release"))
        if ("release", 0) not in sc:
            continue
        out = list(sc)
        for i, (op, n) in enumerate(sc):
            if op == "pub":
                for op2, _ in sc[i + 1:]:
                    if op2 == "pub":
                        break
                    if op2 == "release":
                        out[i] = ("hpub", n)
                        break
        # a release immediately after its hpub holds nothing
        if any(out[i][0] == "hpub" and out[i + 1][0] != "release" for i in range(len(out) - 1)):
            gated.add(tuple(out))
    plain = sorted(plain)
    plain = [a for i, a in enumerate(plain) if a and not (i + 1 < len(plain) and plain[i + 1][:len(a)] == a)]
    return plain, sorted(gated)


def with_sync_closes(script, rnd):
    """Variant of a script in which some `aclose n` immediately followed (later) by `join n` become a blocking
    `close n` at the aclose position (the sequential use bus_test.go makes)."""
    out = []
    for op, n in script:
        if op == "aclose" and rnd.random() < 0.5:
            out.append(("close", n))
        else:
            out.append((op, n))
    return tuple(out)


def write_scripts(path, scripts, prefix):
    with open(path, "w") as fh:
        for i, sc in enumerate(scripts):
            fh.write(json.dumps({"id": "%s%d" % (prefix, i), "ops": [{"op": o, "n": n} for o, n in sc]}) + "\n")


# ------------------------------------------------------------------------------------------------ harness

def run_seq(vh, scripts_path, out_path, timeout_ms):
    rc, out = vlib.run([vh, "bus", "seq", "-scripts", scripts_path, "-out", out_path,
                        "-timeout-ms", str(timeout_ms)], timeout=3600)
    if rc not in (0, 3):
        raise vlib.Inconclusive("vh bus seq failed rc=%d: %s" % (rc, out[-2000:]))
    return rc, out


def run_conc(vh, seed, first, runs, size, out_path, timeout_ms):
    rc, out = vlib.run([vh, "bus", "conc", "-seed", str(seed), "-from", str(first), "-runs", str(runs),
                        "-size", size, "-out", out_path, "-timeout-ms", str(timeout_ms)], timeout=3600)
    if rc not in (0, 3):
        raise vlib.Inconclusive("vh bus conc failed rc=%d: %s" % (rc, out[-2000:]))
    return rc, out


def read_trace(path):
    return [json.loads(l) for l in open(path) if l.strip()]


def split_runs(lines):
    runs = []
    for l in lines:
        if l["k"] == "reset":
            runs.append([])
        runs[-1].append(l)
    return runs


def trace_constants(lines):
    ms = max([l["c"] for l in lines] + [1])
    me = max([l["ev"] for l in lines] + [max(l["buf"] + [0]) for l in lines] + [1])
    return ms, me


def cfg_text(ms, me, invariants=None, conform=False):
    t = "CONSTANTS MaxSub = %d  MaxEv = %d  OrderedPub = FALSE\nSPECIFICATION TSpec\n" % (ms, me)
    if invariants:
        t += "INVARIANTS " + " ".join(invariants) + "\n"
    if conform:
        t += "PROPERTY Conform\n"
    return t + "CHECK_DEADLOCK FALSE\n"


# ------------------------------------------------------------------------------------------------ TLC judging

class Finding:
    def __init__(self, invariant, run_lines, line_no):
        self.invariant = invariant      # violated invariant of BusTrace.cfg, or "Conform"
        self.run_lines = run_lines      # the recorded lines of the offending run
        self.line_no = line_no          # index (within the run) of the line whose consumption broke it


def _tlc_trace(lines, invariants=None, conform=False, workers=8):
    d = vlib.scratch("bus-j3-")
    tp = os.path.join(d, "trace.ndjson")
    with open(tp, "w") as fh:
        for l in lines:
            fh.write(json.dumps(l) + "\n")
    ms, me = trace_constants(lines)
    r = vlib.tlc(SPECDIR, "BusTrace", "T.cfg", workers=workers, timeout=3000, heap=HEAP, deadlock=False,
                 extra_files={"T.cfg": cfg_text(ms, me, invariants, conform)}, copy_files={"trace.ndjson": tp})
    shutil.rmtree(d, ignore_errors=True)
    return r


def _judge_chunk(runs, invariants, conform, max_findings):
    findings, states = [], 0
    runs = list(runs)
    while runs:
        flat = [l for r in runs for l in r]
        r = _tlc_trace(flat, invariants, conform, workers=4)
        if r.ok:
            if r.distinct != len(flat):
                raise vlib.Inconclusive("J3: TLC consumed %d of %d trace lines" % (r.distinct, len(flat)))
            states += r.distinct
            break
        if not r.violated or r.kind not in ("invariant", "action_property"):
            raise vlib.Inconclusive("J3: TLC failed: %s" % (r.error or r.out[-2000:]))
        ls = re.findall(r"/\\ l = (\d+)", r.out)
        if not ls:
            raise vlib.Inconclusive("J3: cannot locate the violating step\n" + r.out[-2000:])
        # l is the NEXT line (1-based) in the last printed state, i.e. the state reached by consuming line l-1
        pos = int(ls[-1]) - 1
        acc = 0
        for i, run in enumerate(runs):
            if pos <= acc + len(run):
                findings.append(Finding(r.violated if r.kind == "invariant" else "Conform", run, pos - acc - 1))
                del runs[i]
                break
            acc += len(run)
        else:
            raise vlib.Inconclusive("J3: violating line %d outside the trace" % pos)
        if len(findings) >= max_findings:
            break
    return findings, states


def judge(lines, invariants=None, conform=False, max_findings=6):
    """Let TLC judge a recorded trace (many runs). Returns (findings, states). TLC stops at the first violation,
    so the offending run is taken out and the rest is judged again, until clean. Large corpora are judged in
    chunks of whole runs (the Json module holds the whole file in memory), a few TLC processes at a time."""
    chunks, cur, n = [], [], 0
    for run in split_runs(lines):
        if cur and n + len(run) > CHUNK_LINES:
            chunks.append(cur)
            cur, n = [], 0
        cur.append(run)
        n += len(run)
    if cur:
        chunks.append(cur)
    findings, states = [], 0
    with concurrent.futures.ThreadPoolExecutor(max_workers=3) as ex:
        for fs, st in ex.map(lambda c: _judge_chunk(c, invariants, conform, max_findings), chunks):
            findings += fs
            states += st
    return findings[:max_findings * 2], states


def binding_selftest(lines):
    """Corrupt a recorded trace in two ways and require TLC to reject both:
    (a) one value a reader received is changed; (b) one loop `recv` line of a subscriber is dropped."""
    runs = [r for r in split_runs(lines) if any(l["k"] == "read" and l["flag"] == "ok" for l in r)
            and any(l["k"] == "recv" and l["n"] != 0 for l in r)]
    if not runs:
        return {"ok": False, "why": "no run with a read and a subscriber recv"}
    run = runs[len(runs) // 2]
    a = [dict(l) for l in run]
    for l in a:
        if l["k"] == "read" and l["flag"] == "ok":
            l["ev"] = l["ev"] + 1
            break
    fa, _ = judge(a, invariants=INVARIANTS)
    b = list(run)
    for i, l in enumerate(b):
        if l["k"] == "recv" and l["n"] != 0:
            del b[i]
            break
    fb, _ = judge(b, invariants=INVARIANTS)
    fc, _ = judge(b, conform=True)
    res = {"corrupt_read_value": fa[0].invariant if fa else None,
           "drop_subscriber_recv": (fb[0].invariant if fb else None),
           "drop_subscriber_recv_conform": (fc[0].invariant if fc else None)}
    res["ok"] = bool(fa) and bool(fb or fc)
    return res


# ------------------------------------------------------------------------------------------------ executions

TIMING = ("NoBlocked", "NoTimeout", "CloseReturns")


def exec_scripts(vh, scripts, prefix, timeout_ms, stats):
    """Replay scripts on the real bus; returns (lines, {run number -> script}). A run in which a call did not
    return makes the harness stop (its goroutines are stuck); the remaining scripts run in a new process."""
    lines, idx, i, stuck = [], {}, 0, 0
    d = vlib.scratch("bus-seq-")
    while i < len(scripts) and stuck < MAX_STUCK:
        sp, tp = os.path.join(d, "s%d.ndjson" % i), os.path.join(d, "t%d.ndjson" % i)
        write_scripts(sp, scripts[i:], prefix)
        rc, _ = run_seq(vh, sp, tp, timeout_ms)
        got = split_runs(read_trace(tp))
        for k, run in enumerate(got):
            no = len(idx) + 1
            for l in run:
                l["run"] = no
            idx[no] = scripts[i + k]
            lines += run
        stats["scripts_replayed"] = stats.get("scripts_replayed", 0) + len(got)
        i += len(got)
        if rc == 0:
            break
        stuck += 1
        if not got:
            raise vlib.Inconclusive("vh bus seq stopped without a trace")
    if stuck >= MAX_STUCK:
        stats["scripts_not_run_after_stuck_runs"] = len(scripts) - i
    shutil.rmtree(d, ignore_errors=True)
    return lines, idx


def exec_conc(vh, seed, first, runs, size, timeout_ms):
    lines = []
    d = vlib.scratch("bus-conc-")
    cur, stuck = first, 0
    while cur < first + runs and stuck < MAX_STUCK:
        tp = os.path.join(d, "c%d.ndjson" % cur)
        rc, _ = run_conc(vh, seed, cur, first + runs - cur, size, tp, timeout_ms)
        got = split_runs(read_trace(tp))
        for run in got:
            lines += run
        cur += max(1, len(got))
        if rc == 0:
            break
        stuck += 1
    shutil.rmtree(d, ignore_errors=True)
    return lines


def confirm(vh, f, meta):
    """A timing-dependent finding (a call or an owed read that did not complete in time) counts only if it
    shows again when the same script / the same seeded run is executed alone with a doubled timeout."""
    stats = {}
    if meta["mode"] == "seq":
        lines, _ = exec_scripts(vh, [meta["script"]], "confirm", 2 * TIMEOUT_MS, stats)
        fs, _ = judge(lines, invariants=INVARIANTS)
        return [x for x in fs if x.invariant in TIMING][:1]
    for _ in range(3):
        lines = exec_conc(vh, meta["seed"], meta["run"], 1, meta["size"], 2 * TIMEOUT_MS)
        fs, _ = judge(lines, invariants=INVARIANTS)
        fs = [x for x in fs if x.invariant in TIMING]
        if fs:
            return fs[:1]
    return []


def describe(f):
    bad = f.run_lines[f.line_no] if 0 <= f.line_no < len(f.run_lines) else {}
    return "TLC: %s is false after line %d of the run: %s" % (f.invariant, f.line_no + 1, json.dumps(bad))


def to_violation(pid, f, meta):
    sig = "%s:%s:%s" % (pid, f.invariant, meta["mode"])
    detail = describe(f) + "\n" + json.dumps({k: v for k, v in meta.items()})
    files = {"trace.ndjson": "".join(json.dumps(l) + "\n" for l in f.run_lines),
             "replay.json": json.dumps(dict(meta, invariant=f.invariant, timeout_ms=TIMEOUT_MS))}
    return vlib.Violation(pid, sig, detail, files)


def clones_in_flight(lines):
    """Clones of n created after the root loop received an event e and before n itself received e (the clone
    hand-over while an event is in flight to the original)."""
    cnt, root_at, news = 0, {}, {}
    for i, l in enumerate(lines):
        if l["k"] == "reset":
            root_at, news = {}, {}
        elif l["k"] == "new" and l["n"] != 0:
            news.setdefault(l["n"], []).append(i)
        elif l["k"] == "recv" and l["n"] == 0:
            root_at[l["ev"]] = i
        elif l["k"] == "recv" and l["ev"] in root_at:
            cnt += sum(1 for j in news.get(l["n"], []) if j > root_at[l["ev"]])
            news[l["n"]] = []
    return cnt


class Corpus:
    """All recorded runs of this check, with globally unique run numbers and how to re-execute each."""

    def __init__(self):
        self.lines, self.meta = [], {}

    def add_seq(self, lines, idx):
        for run in split_runs(lines):
            no = len(self.meta) + 1
            self.meta[no] = {"mode": "seq", "script": [list(x) for x in idx[run[0]["run"]]]}
            for l in run:
                l["run"] = no
            self.lines += run

    def add_conc(self, lines, seed, size):
        for run in split_runs(lines):
            no = len(self.meta) + 1
            self.meta[no] = {"mode": "conc", "seed": seed, "run": run[0]["run"], "size": size}
            for l in run:
                l["run"] = no
            self.lines += run

    def meta_of(self, f):
        return self.meta[f.run_lines[0]["run"]]


# ------------------------------------------------------------------------------------------------ J1

def j1(tier, seed, cov):
    cfgs = [("MC_small.cfg", None)]
    if tier == "thorough":
        cfgs += [("MC_mid.cfg", None), ("MC_big.cfg", None), ("MC_sim.cfg", dict(num=3000, depth=80, seed=seed))]
    states = trans = 0
    cov["configs"] = {}
    for cfg, sim in cfgs:
        r = vlib.tlc(SPECDIR, "Bus", cfg, workers=vlib.NCPU if tier == "thorough" else min(8, vlib.NCPU), timeout=5400, heap=HEAP, deadlock=True,
                     simulate=sim)
        vlib.tlc_require_ok(r, "J1 Bus " + cfg)
        if sim:
            m = re.search(r"(\d+) states checked", r.out)
            cov["configs"][cfg] = {"simulated_states": int(m.group(1)) if m else 0, "behaviours": sim["num"],
                                   "wall_s": round(r.wall_s, 1)}
        else:
            cov["configs"][cfg] = {"distinct": r.distinct, "generated": r.generated, "depth": r.depth,
                                   "wall_s": round(r.wall_s, 1)}
            states += r.distinct
            trans += r.generated
    cov["states"], cov["transitions"] = states, trans


# ------------------------------------------------------------------------------------------------ the check

CURATED = [
    # bus_test.go TestClone shape: publish before subscribing, clone with two undelivered events
    (("pub", 1), ("sub", 0), ("pub", 2), ("pub", 3), ("sub", 1), ("read", 1), ("read", 2), ("read", 1),
     ("read", 2), ("close", 1)),
    # clone of a clone while the original stalls; close the middle one
    (("sub", 0), ("pub", 1), ("sub", 1), ("pub", 2), ("sub", 2), ("read", 3), ("aclose", 2), ("pub", 3),
     ("read", 1), ("join", 2)),
    # close the bus with undelivered events everywhere, then use it
    (("sub", 0), ("sub", 0), ("pub", 1), ("sub", 1), ("aclose", 0), ("pub", 2), ("sub", 0), ("join", 0)),
    # bus_test.go TestBus shape: two subscribers, close one, publish again, close the bus, publish on the closed bus
    (("pub", 1), ("sub", 0), ("sub", 0), ("pub", 2), ("read", 1), ("read", 2), ("close", 2), ("pub", 3),
     ("read", 1), ("close", 0), ("pub", 4)),
    # the bus is held with an event in flight while the original is cloned twice, read and closed
    (("sub", 0), ("pub", 1), ("hpub", 2), ("sub", 1), ("read", 1), ("sub", 1), ("aclose", 2), ("release", 0),
     ("read", 1), ("read", 3), ("join", 2)),
]


def run(pid, tier, seed, replay):
    t0 = time.time()
    if replay:
        return do_replay(pid, tier, seed, replay, t0)
    rnd = random.Random(seed)
    vh = vlib.build_harness()
    cov, stats = {"exhaustive": False, "seeds": [seed]}, {}
    j1(tier, seed, cov)

    # J2: TLC-enumerated API-level behaviours
    if tier == "quick":
        ex, rg = gen_exhaustive("MC_gen.cfg")
        sim, _ = gen_simulated(200, 40, seed)
        conc_plan = [(seed, "deep", 1), (seed, "small", 120), (seed, "big", 25), (seed, "lag", 12)]
    else:
        ex, rg = gen_exhaustive("MC_gen3.cfg")
        sim, _ = gen_simulated(3000, 60, seed)
        conc_plan = [(s, sz, n) for s in range(seed, seed + 5) for sz, n in (("small", 400), ("big", 100), ("lag", 40))]
        conc_plan = [(seed, "deep2", 1), (seed, "deep", 1)] + conc_plan
    ex, gated = split_gated(ex)
    sim, sim_gated = split_gated(sim)
    variants = [with_sync_closes(s, rnd) for s in rnd.sample(ex, min(len(ex), 200 if tier == "quick" else 3000))]
    variants = sorted(set(variants) - set(ex))
    scripts = list(CURATED) + ex + variants + gated + sim + sim_gated
    cov["generator"] = {"model_states_covered": rg.distinct, "exhaustive_scripts": len(ex),
                        "gated_scripts_event_held_in_flight": len(gated) + len(sim_gated),
                        "sync_close_variants": len(variants),
                        "simulated_scripts": len(sim), "curated": len(CURATED)}
    cov["exhaustive"] = True   # every state of the bounded generator model is reached by some replayed script
    vlib.log("[C15] %.0fs J1+J2 done, %d scripts to replay" % (time.time() - t0, len(scripts)))

    corpus = Corpus()
    lines, idx = exec_scripts(vh, scripts, "s", TIMEOUT_MS, stats)
    corpus.add_seq(lines, idx)
    for s, size, n in conc_plan:
        corpus.add_conc(exec_conc(vh, s, 1, n, size, TIMEOUT_MS), s, size)
    cov["seeds"] = sorted({s for s, _, _ in conc_plan})
    vlib.log("[C15] %.0fs recorded %d runs, %d lines" % (time.time() - t0, len(corpus.meta), len(corpus.lines)))

    # J3: verdict (property definitions on the observations), then conformance
    findings, states = judge(corpus.lines, invariants=INVARIANTS)
    violations, unconfirmed, hung = [], 0, []
    for f in findings:
        meta = corpus.meta_of(f)
        if f.invariant in TIMING:
            again = confirm(vh, f, meta)
            if not again:
                unconfirmed += 1
                vlib.log("[C15] %s in run %s not reproduced alone with doubled timeout: ignored" % (f.invariant, meta))
                continue
            f = again[0]
        if f.invariant == "CloseReturns":
            # the closer itself is stuck but no publisher / other subscriber was: outside the statement (DESIGN 5.1)
            hung.append("%s %s" % (describe(f), json.dumps(meta)))
            continue
        violations.append(to_violation(pid, f, meta))
    if hung and not violations:
        raise vlib.Inconclusive("a Close() call does not return although no publisher or other subscriber was "
                                "found blocked: " + hung[0])
    vlib.log("[C15] %.0fs verdict pass done" % (time.time() - t0))
    drift, _ = judge(corpus.lines, conform=True)
    vlib.log("[C15] %.0fs conformance pass done" % (time.time() - t0))
    for f in drift:
        vlib.log("DRIFT C15 %s %s" % (describe(f), json.dumps(corpus.meta_of(f))[:300]))

    runs = split_runs(corpus.lines)
    sigs = {tuple((l["k"], l["n"], l["c"], l["ev"], tuple(l["buf"]), l["flag"]) for l in r[1:]) for r in runs
            if any(l["k"] == "read" and l["flag"] == "ok" for l in r)}
    cov.update({
        "traces_validated_against_impl": len(runs),
        "evaluations": len(corpus.lines),
        "trace_states_judged": states,
        "distinct_nontrivial": len(sigs),
        "rule": "scripts: every prefix-maximal API history TLC reaches in the bounded BusGen model, plus simulated and "
                "seeded concurrent runs; counted: recorded runs that are pairwise different as a sequence of (kind, "
                "node, child, event, buffer, flag) and in which at least one reader received an event",
        "runs": {"seq": sum(1 for m in corpus.meta.values() if m["mode"] == "seq"),
                 "conc": sum(1 for m in corpus.meta.values() if m["mode"] == "conc")},
        "clones_with_undelivered_buffer": sum(1 for l in corpus.lines if l["k"] == "new" and l["n"] != 0 and l["buf"]),
        "clones_while_event_in_flight_to_original": clones_in_flight(corpus.lines),
        "rendezvous_lines": sum(1 for l in corpus.lines if l["k"] == "recv" and l["n"] != 0),
        "samples": [[list(x) for x in s] for s in rnd.sample(scripts, 3)],
        "drift_steps": len(drift),
        "timing_findings_not_reproduced": unconfirmed,
        "binding_selftest": binding_selftest(corpus.lines),
    })
    if not cov["binding_selftest"].get("ok"):
        raise vlib.Inconclusive("binding self-test failed: %s" % cov["binding_selftest"])
    return vlib.finish(pid, tier, seed, "model_checking", cov, t0, violations, assumptions=ASSUMPTIONS)


ASSUMPTIONS = [
    "loop states are read through the verif trace points of pubsub/bus.go (verif_on.go); reader observations "
    "and API call returns come from the public API only",
    "a child's recv/stop line that was logged after its parent's fwdone line is moved in front of it "
    "(the two sides of a rendezvous log independently)",
    "nothing is asserted about deliveries to a subscriber once Close() has been called on it, on a subscriber it "
    "was cloned from, or on the bus (DESIGN 5.1)",
    "events published before a subscription are not demanded absent by the verdict (the statement is silent)",
]


def do_replay(pid, tier, seed, path, t0):
    """tools/check C15 --replay <dir>: re-judge the stored trace, then re-execute its script (or its seeded
    concurrent run, several times) on the current tree and judge that."""
    meta = json.load(open(os.path.join(path, "replay.json")))
    stored = read_trace(os.path.join(path, "trace.ndjson"))
    fs, _ = judge(stored, invariants=INVARIANTS)
    vlib.log("[C15] stored trace: %s" % ("; ".join(describe(f) for f in fs) or "no invariant violated"))
    vh = vlib.build_harness()
    violations, stats = [], {}
    if meta["mode"] == "seq":
        script = tuple(tuple(x) for x in meta["script"])
        lines, _ = exec_scripts(vh, [script], "replay", 2 * TIMEOUT_MS, stats)
        attempts = [lines]
    else:
        attempts = [exec_conc(vh, meta["seed"], meta["run"], 1, meta["size"], 2 * TIMEOUT_MS) for _ in range(10)]
    n = 0
    for lines in attempts:
        n += len(lines)
        for f in judge(lines, invariants=INVARIANTS)[0]:
            violations.append(to_violation(pid, f, meta))
    cov = {}
    j1("quick", seed, cov)   # the evidence of a replay run still reports a measured J1
    cov.update({"traces_validated_against_impl": len(attempts), "evaluations": n,
           "exhaustive": False, "replay_of": path, "drift_steps": 0,
           "distinct_nontrivial": 1, "rule": "re-executions of the one stored script / seeded run",
           "samples": [meta.get("script") or [meta.get("seed"), meta.get("run"), meta.get("size")]],
           "binding_selftest": {"ok": True, "note": "not run in replay mode"}})
    return vlib.finish(pid, tier, seed, "model_checking", cov, t0, violations, assumptions=ASSUMPTIONS)
