"""X03 (extension) -- the provider's per-lease background loops.

  monitor   provider/cluster/monitor.go         deploymentMonitor.run      spec/monitor/Monitor.tla
  withdraw  provider/cluster/lease_withdraw.go  deploymentWithdrawal.run   spec/monitor/Withdraw.tla
            (+ the deployment manager that starts / stops both, provider/cluster/manager.go)
  balance   provider/balance_checker.go         balanceChecker.run         spec/monitor/Balance.tla
  watchdog  provider/manifest/watchdog.go       watchdog.run               spec/monitor/Watchdog.tla

For every part:
J1  the specification is model-checked by TLC (MC_*.cfg).
J2  TLC enumerates behaviours under a forced schedule (the environment moves only when the loop is parked) and
    prints one script per reached state; `vh monitor <part>-replay` replays the prefix-maximal ones on the real
    loop (every neighbour scripted, timers in the driver's hand) and records what the hooks and the fakes saw.
    `vh monitor <part>-free` drives the loop with random, unsynchronised environment actions (VERIF_SEED).
J3  <Part>Trace.tla: TLC evaluates the part's property definitions on the observed states (verdict) and checks
    every observed step against the part's Next (conformance; a mismatch is DRIFT, not a violation).
The statements decided are in docs/monitor.md.
"""
import concurrent.futures
import json
import os
import random
import re
import shutil
import time

import vlib

PROPERTIES = ["X03"]
SPECDIR = os.path.join(vlib.SPEC, "monitor")
HEAP = "2g"
TLC_WORKERS = 2


def log(*a):
    vlib.log("[X03]", *a)


# ------------------------------------------------------------------------------------------------ TLC helpers

def printed(out, tag):
    """values printed by PrintT(<<tag, ToJson(x)>>)"""
    res = []
    for ln in out.splitlines():
        if ln.startswith('<<"%s"' % tag):
            m = re.match(r'<<"%s", "(.*)">>$' % tag, ln)
            if m:
                res.append(json.loads(json.loads('"' + m.group(1) + '"')))
    return res


def maximal(scripts):
    """keep the scripts that are not a proper prefix of another one"""
    keys = sorted(set(tuple((o["op"], o["v"]) for o in s) for s in scripts))
    return [a for i, a in enumerate(keys) if a and not (i + 1 < len(keys) and keys[i + 1][:len(a)] == a)]


def j1(module, cfg, what, coverage=False, timeout=900, workers=TLC_WORKERS, extra_files=None):
    r = vlib.tlc(SPECDIR, module, cfg, workers=workers, timeout=timeout, heap=HEAP, deadlock=False,
                 coverage=coverage, extra_files=extra_files)
    vlib.tlc_require_ok(r, "J1 %s %s" % (module, cfg))
    log("J1 %-9s %-16s %7d states %8d transitions depth %3d  %.1fs" % (what, cfg, r.distinct, r.generated, r.depth,
                                                                        r.wall_s))
    return {"config": cfg, "states": r.distinct, "transitions": r.generated, "depth": r.depth}


def split_runs(lines):
    runs = []
    for l in lines:
        if l["k"] == "start":
            runs.append([])
        if not runs:
            raise vlib.Inconclusive("trace does not begin with a start line")
        runs[-1].append(l)
    return runs


class Finding:
    def __init__(self, part, invariant, run_lines, line_no):
        self.part, self.invariant, self.run_lines, self.line_no = part, invariant, run_lines, line_no


def _tlc_trace(module, cfg, lines):
    d = vlib.scratch("x03-j3-")
    tp = os.path.join(d, "trace.ndjson")
    with open(tp, "w") as fh:
        for l in lines:
            fh.write(json.dumps(l) + "\n")
    r = vlib.tlc(SPECDIR, module, cfg, workers=TLC_WORKERS, timeout=2400, heap=HEAP, deadlock=False,
                 copy_files={"trace.ndjson": tp})
    shutil.rmtree(d, ignore_errors=True)
    return r


def judge(part, module, cfg, lines, max_findings=4):
    """TLC judges a recorded trace (many runs). It stops at the first violation, so the offending run is taken out
    and the rest is judged again, until clean. Returns (findings, states)."""
    runs = split_runs(lines)
    findings, states = [], 0
    while runs:
        flat = [l for r in runs for l in r]
        r = _tlc_trace(module, cfg, flat)
        if r.ok:
            if r.distinct != len(flat):
                raise vlib.Inconclusive("J3 %s: TLC consumed %d of %d trace lines" % (module, r.distinct, len(flat)))
            states += r.distinct
            break
        if not r.violated or r.kind not in ("invariant", "action_property"):
            raise vlib.Inconclusive("J3 %s: TLC failed: %s" % (module, r.error or r.out[-2000:]))
        ls = re.findall(r"/\\ l = (\d+)", r.out)
        if not ls:
            raise vlib.Inconclusive("J3 %s: cannot locate the violating step\n%s" % (module, r.out[-2000:]))
        pos = int(ls[-1]) - 1          # l is the NEXT line (1-based): the state was reached by consuming line l-1
        acc = 0
        for i, run in enumerate(runs):
            if pos <= acc + len(run):
                findings.append(Finding(part, r.violated if r.kind == "invariant" else "Conform", run, pos - acc - 1))
                del runs[i]
                break
            acc += len(run)
        else:
            raise vlib.Inconclusive("J3 %s: violating line %d outside the trace" % (module, pos))
        if len(findings) >= max_findings:
            break
    return findings, states


def distinct_nontrivial(lines, min_lines=4):
    """distinct recorded runs (same lines apart from the run number) in which something happened beyond start / stop"""
    seen = set()
    for r in split_runs(lines):
        if len(r) < min_lines:
            continue
        seen.add(json.dumps([{k: v for k, v in l.items() if k != "run"} for l in r], sort_keys=True))
    return len(seen)


def read_trace(path):
    return [json.loads(l) for l in open(path) if l.strip()]


def vh_run(vh, args, what):
    rc, out = vlib.run([vh, "monitor"] + args, timeout=3000)
    if rc != 0:
        raise vlib.Inconclusive("vh monitor %s failed rc=%d: %s" % (what, rc, out[-3000:]))
    return out


def describe(f):
    bad = f.run_lines[f.line_no] if 0 <= f.line_no < len(f.run_lines) else {}
    return "%s: TLC: %s is false after line %d of run %s: %s" % (f.part, f.invariant, f.line_no + 1,
                                                                  bad.get("run"), json.dumps(bad, sort_keys=True))


def to_violation(pid, f, meta):
    sig = "%s:%s:%s" % (pid, f.part, f.invariant)
    files = {"trace.ndjson": "".join(json.dumps(l) + "\n" for l in f.run_lines),
             "replay.json": json.dumps(dict(meta, part=f.part, invariant=f.invariant))}
    return vlib.Violation(pid, sig, describe(f) + "\n" + json.dumps(meta)[:1500], files)


# ------------------------------------------------------------------------------------------------ part: monitor

MON_INV = "MonitorTrace.cfg"
MON_CONF = "MonitorTraceConform.cfg"


def monitor_scripts(tier, seed):
    """J2: scripts for the deployment monitor. The plain configuration forgets histories (one script per state);
    the deep one tells runs apart by the attempt count a healthy answer reset (VIEW with resetAt) and is sampled."""
    rnd = random.Random(seed)
    variants = "MCVariantsSmall" if tier == "quick" else "MCVariants"
    cfg = open(os.path.join(SPECDIR, "MC_gen.cfg")).read().replace("MCVariantsSmall", variants)
    r = vlib.tlc(SPECDIR, "MonitorGen", "g.cfg", workers=1, timeout=900, heap=HEAP, deadlock=False,
                 extra_files={"g.cfg": cfg})
    vlib.tlc_require_ok(r, "J2 MonitorGen MC_gen")
    vs = printed(r.out, "VARIANTS")[0]
    scripts = maximal(printed(r.out, "SCRIPT"))
    gen_states = r.distinct
    resets = sorted(rnd.sample(range(2, 41), 2 if tier == "quick" else 8) + [41])
    cfg = open(os.path.join(SPECDIR, "MC_gendeep.cfg")).read().replace("WantResets <- AllResets", "WantResets <- MyResets")
    r = vlib.tlc(SPECDIR, "MonitorGenX", "g.cfg", workers=1, timeout=900, heap=HEAP, deadlock=False,
                 extra_files={"g.cfg": cfg, "MonitorGenX.tla": "---- MODULE MonitorGenX ----\nEXTENDS MonitorGen\n"
                              "MyResets == {%s}\n====\n" % ", ".join(map(str, resets))})
    vlib.tlc_require_ok(r, "J2 MonitorGen MC_gendeep")
    deep = maximal(printed(r.out, "SCRIPT"))
    # of the deep scripts keep those that go on to close the lease (the ones the plain configuration cannot tell
    # apart), plus a seeded sample of the rest
    closing = [s for s in deep if ("cret", "ok") in s or ("cret", "err") in s or s[-1][0] in ("result",)]
    rest = [s for s in deep if s not in set(closing)]
    rnd.shuffle(closing)
    rnd.shuffle(rest)
    nclose, nrest = (25, 25) if tier == "quick" else (400, 600)
    deep_sel = closing[:nclose] + rest[:nrest]
    allscripts = sorted(set(scripts) | set(deep_sel))
    return vs, allscripts, {"gen_states": gen_states, "gen_deep_states": r.distinct, "resets": resets,
                            "scripts_plain": len(scripts), "scripts_deep_available": len(deep),
                            "scripts_deep_used": len(deep_sel)}


def monitor_selftest(lines):
    """Corrupt one recorded run in three ways; TLC must reject each:
    (a) a published status is changed, (b) the attempt counter of a loop line is changed (conformance),
    (c) the line of a failed answer is dropped (so the loop is seen to consume an answer nobody gave)."""
    runs = [r for r in split_runs(lines) if sum(1 for l in r if l["k"] == "loop" and len(l["pubs"]) == 1) >= 2
            and any(l["k"] == "ret" for l in r)]
    if not runs:
        return {"ok": False, "why": "no run with two status publications"}
    run = runs[len(runs) // 2]
    a = [dict(l) for l in run]
    for l in a:
        if l["k"] == "loop" and len(l["pubs"]) == 1:
            l["pubs"] = ["deployed" if l["pubs"] == ["pending"] else "pending"]
            break
    fa, _ = judge("monitor", "MonitorTrace", MON_INV, a)
    b = [dict(l) for l in run]
    for l in b:
        if l["k"] == "loop" and l["attempts"] >= 1:
            l["attempts"] += 1
            break
    fb, _ = judge("monitor", "MonitorTrace", MON_CONF, b)
    c = list(run)
    for i, l in enumerate(c):
        if l["k"] == "ret":
            del c[i]
            break
    fc, _ = judge("monitor", "MonitorTrace", MON_INV, c)
    fc2, _ = judge("monitor", "MonitorTrace", MON_CONF, c)
    res = {"corrupt_status": fa[0].invariant if fa else None, "corrupt_attempts": fb[0].invariant if fb else None,
           "drop_answer": (fc[0].invariant if fc else (fc2[0].invariant if fc2 else None))}
    res["ok"] = bool(fa) and bool(fb) and bool(fc or fc2)
    return res


def part_monitor(vh, tier, seed, work):
    cov = {"configs": []}
    cov["configs"].append(j1("MC_Monitor", "MC_small.cfg", "monitor"))
    cov["configs"].append(j1("MC_Monitor", "MC_real.cfg", "monitor"))
    if tier == "thorough":
        cov["configs"].append(j1("MC_Monitor", "MC_live.cfg", "monitor"))
    vs, scripts, gcov = monitor_scripts(tier, seed)
    cov.update(gcov)
    sp, tp, fp = [os.path.join(work, n) for n in ("mon-scripts.json", "mon-trace.ndjson", "mon-free.ndjson")]
    json.dump({"variants": {v["name"]: v for v in vs}, "scripts": [[{"op": o, "v": v} for o, v in s] for s in scripts]},
              open(sp, "w"))
    out = vh_run(vh, ["monitor-replay", "--scripts", sp, "--out", tp], "monitor-replay")
    log("monitor replay:", out.strip().splitlines()[-1])
    nfree = 150 if tier == "quick" else 4000
    out = vh_run(vh, ["monitor-free", "--out", fp, "--seed", str(seed), "--runs", str(nfree)], "monitor-free")
    log("monitor free:  ", out.strip().splitlines()[-1])
    lines, flines = read_trace(tp), read_trace(fp)
    for l in flines:
        l["run"] = "free%d/seed%d" % (l["run"], seed)
    findings, drift = [], []
    states = 0
    CH = 60000
    chunks = []
    for src in (lines, flines):
        cur = []
        for run in split_runs(src):
            if cur and len(cur) + len(run) > CH:
                chunks.append(cur)
                cur = []
            cur = cur + run
        if cur:
            chunks.append(cur)
    with concurrent.futures.ThreadPoolExecutor(max_workers=2) as ex:
        jobs = [(ex.submit(judge, "monitor", "MonitorTrace", MON_INV, c), ex.submit(judge, "monitor", "MonitorTrace", MON_CONF, c))
                for c in chunks]
        for a, b in jobs:
            fs, st = a.result()
            findings += fs
            states += st
            ds, _ = b.result()
            drift += ds
    races = sum(1 for i in range(1, len(flines)) if flines[i]["k"] in ("fire", "ret", "cret", "stop")
                and flines[i - 1]["k"] in ("fire", "ret", "cret", "stop"))
    closes = sum(1 for l in lines + flines if l.get("bcasts", 0) > 0)
    cov.update({"scripts_replayed": len(scripts), "free_runs": nfree, "trace_lines": len(lines) + len(flines),
                "distinct_runs": distinct_nontrivial(lines + flines),
                "trace_states_judged": states, "closes_observed": closes,
                "free_env_actions_while_a_case_was_ready": races,
                "samples": [" ".join(o + (":" + v if v else "") for o, v in s)[:400] for s in scripts[:2]]})
    cov["binding_selftest"] = monitor_selftest(lines)
    metas = {"scripts": sp, "seed": seed}
    return cov, findings, drift, metas



# ------------------------------------------------------------------------------------------------ generic part runner

def judge_all(part, module, inv_cfg, conf_cfg, traces, chunk=60000):
    """verdict + conformance of several recorded traces (lists of lines), in chunks of whole runs"""
    chunks = []
    for src in traces:
        cur = []
        for run in split_runs(src):
            if cur and len(cur) + len(run) > chunk:
                chunks.append(cur)
                cur = []
            cur = cur + run
        if cur:
            chunks.append(cur)
    findings, drift, states = [], [], 0
    with concurrent.futures.ThreadPoolExecutor(max_workers=2) as ex:
        jobs = [(ex.submit(judge, part, module, inv_cfg, c), ex.submit(judge, part, module, conf_cfg, c)) for c in chunks]
        for a, b in jobs:
            fs, st = a.result()
            findings += fs
            states += st
            ds, _ = b.result()
            drift += ds
    return findings, drift, states


def gen_scripts(module, cfg, what):
    r = vlib.tlc(SPECDIR, module, cfg, workers=1, timeout=900, heap=HEAP, deadlock=False)
    vlib.tlc_require_ok(r, "J2 %s %s" % (module, cfg))
    return maximal(printed(r.out, "SCRIPT")), r


def write_scripts(path, scripts, variants=None):
    json.dump({"variants": variants or {}, "scripts": [[{"op": o, "v": v} for o, v in s] for s in scripts]}, open(path, "w"))


def sample_scripts(scripts, n=3):
    step = max(1, len(scripts) // n)
    return [" ".join(o + (":" + v if v else "") for o, v in s)[:300] for s in scripts[::step][:n]]


# ------------------------------------------------------------------------------------------------ part: withdraw

def withdraw_selftest(lines):
    """(a) one broadcast is hidden from a settled line (a marker looks unserved), (b) the kind of a taken event is
    changed (conformance: the head of the queue is something else)."""
    runs = [r for r in split_runs(lines) if any(l["k"] == "loop" and l["ev"] == "withdraw" for l in r)]
    if not runs:
        return {"ok": False, "why": "no run with a served marker"}
    run = runs[len(runs) // 2]
    a = [dict(l) for l in run]
    for l in a:
        if l["k"] == "loop" and l["ev"] == "withdraw":
            l["sent"] -= 1
            l["settled"] = True
            break
    fa, _ = judge("withdraw", "WithdrawTrace", "WithdrawTrace.cfg", a)
    b = [dict(l) for l in run]
    for l in b:
        if l["k"] == "loop" and l["ev"] == "withdraw":
            l["ev"] = "other"
            break
    fb, _ = judge("withdraw", "WithdrawTrace", "WithdrawTraceConform.cfg", b)
    res = {"hide_broadcast": fa[0].invariant if fa else None, "change_event_kind": fb[0].invariant if fb else None}
    res["ok"] = bool(fa) and bool(fb)
    return res


def part_withdraw(vh, tier, seed, work):
    cov = {"configs": [j1("Withdraw", "MC_withdraw.cfg", "withdraw"), j1("Withdraw", "MC_withdraw_live.cfg", "withdraw")]}
    scripts, r = gen_scripts("WithdrawGen", "MC_withdraw_gen.cfg" if tier == "quick" else "MC_withdraw_gen3.cfg", "withdraw")
    sp, tp, fp = [os.path.join(work, n) for n in ("wdr-scripts.json", "wdr-trace.ndjson", "wdr-free.ndjson")]
    write_scripts(sp, scripts)
    out = vh_run(vh, ["withdraw-replay", "--scripts", sp, "--out", tp], "withdraw-replay")
    log("withdraw replay:", out.strip().splitlines()[-1])
    nfree = 150 if tier == "quick" else 3000
    out = vh_run(vh, ["withdraw-free", "--out", fp, "--seed", str(seed), "--runs", str(nfree)], "withdraw-free")
    log("withdraw free:  ", out.strip().splitlines()[-1])
    lines, flines = read_trace(tp), read_trace(fp)
    for l in flines:
        l["run"] = "free%d/seed%d" % (l["run"], seed)
    findings, drift, states = judge_all("withdraw", "WithdrawTrace", "WithdrawTrace.cfg", "WithdrawTraceConform.cfg",
                                        [lines, flines])
    cov.update({"gen_states": r.distinct, "scripts_replayed": len(scripts), "free_runs": nfree,
                "distinct_runs": distinct_nontrivial(lines + flines),
                "trace_lines": len(lines) + len(flines), "trace_states_judged": states,
                "markers_served": sum(1 for l in lines + flines if l.get("ev") == "withdraw"),
                "failed_broadcasts_answered": sum(1 for l in lines + flines if l["k"] == "bret" and l["e"] == "err"),
                "samples": sample_scripts(scripts), "binding_selftest": withdraw_selftest(lines)})
    return cov, findings, drift, {"scripts": sp, "seed": seed}


# ------------------------------------------------------------------------------------------------ part: balance

BAL_KNOWN = ["BalanceTraceKnownA.cfg", "BalanceTraceKnownB.cfg"]


def balance_plans(tier, seed):
    cfg = open(os.path.join(SPECDIR, "MC_balance_gen.cfg")).read()
    if tier != "quick":
        cfg = cfg.replace("MaxDecisions = 4", "MaxDecisions = 5")
    r = vlib.tlc(SPECDIR, "BalanceGen", "g.cfg", workers=2, timeout=1800, heap=HEAP, deadlock=False, extra_files={"g.cfg": cfg})
    vlib.tlc_require_ok(r, "J2 BalanceGen")
    answers = printed(r.out, "ANSWERS")[0]
    keys = sorted(set((tuple(sorted(p["fires"])), p["thr"], tuple((o["op"], o["v"]) for o in p["ops"]))
                      for p in printed(r.out, "PLAN")))
    mx = [a for i, a in enumerate(keys) if a[2] and not (i + 1 < len(keys) and keys[i + 1][:2] == a[:2]
                                                           and keys[i + 1][2][:len(a[2])] == a[2])]
    random.Random(seed).shuffle(mx)
    n = 110 if tier == "quick" else 900
    return answers, mx[:n], {"gen_states": r.distinct, "plans_available": len(mx)}


def balance_selftest(lines):
    """(a) an answer the driver gave is changed from not-below to below: the loop is then seen not to withdraw on a
    low balance; (b) the case of an iteration is changed (conformance)."""
    def pick(pred):
        for r in split_runs(lines):
            for i, l in enumerate(r):
                if pred(r, i):
                    return r, i
        return None, None
    run, i = pick(lambda r, i: r[i]["k"] == "qret" and r[i]["latest"] and r[i]["a"]["name"] in ("above", "equal")
                  and r[0]["thr"] == "set" and i + 1 < len(r) and r[i + 1]["k"] == "loop" and r[i + 1]["cases"] == ["check-result"])
    if run is None:
        return {"ok": False, "why": "no run with a not-low answer taken"}
    a = [dict(l) for l in run]
    a[i]["a"] = {"name": "below", "err": False, "cmp": "below"}
    fa, _ = judge("balance", "BalanceTrace", "BalanceTrace.cfg", a)
    b = [dict(l) for l in run]
    b[i + 1]["cases"] = ["withdraw-result"]
    fb, _ = judge("balance", "BalanceTrace", "BalanceTraceConform.cfg", b)
    res = {"corrupt_answer": fa[0].invariant if fa else None, "corrupt_case": fb[0].invariant if fb else None}
    res["ok"] = bool(fa) and bool(fb)
    return res


def part_balance(vh, tier, seed, work):
    cov = {"configs": [j1("MC_Balance", "MC_balance_intended.cfg", "balance"), j1("MC_Balance", "MC_balance_asfound.cfg", "balance"),
                       j1("MC_Balance", "MC_balance_live.cfg", "balance")]}
    r = vlib.tlc(SPECDIR, "MC_Balance", "MC_balance_defect.cfg", workers=TLC_WORKERS, timeout=600, heap=HEAP, deadlock=False)
    cov["model_reproduces_asfound_defect"] = (r.violated == "WithdrawTickJustified")
    answers, plans, gcov = balance_plans(tier, seed)
    cov.update(gcov)
    sp, tp, fp = [os.path.join(work, n) for n in ("bal-plans.json", "bal-trace.ndjson", "bal-free.ndjson")]
    json.dump({"answers": {a["name"]: a for a in answers},
               "plans": [{"fires": list(f), "thr": t, "ops": [{"op": o, "v": v} for o, v in ops]} for f, t, ops in plans]},
              open(sp, "w"))
    out = vh_run(vh, ["balance-replay", "--scripts", sp, "--out", tp], "balance-replay")
    log("balance replay:", out.strip().splitlines()[-1])
    nfree = 40 if tier == "quick" else 600
    out = vh_run(vh, ["balance-free", "--out", fp, "--seed", str(seed), "--runs", str(nfree)], "balance-free")
    log("balance free:  ", out.strip().splitlines()[-1])
    lines, flines = read_trace(tp), read_trace(fp)
    for l in flines:
        l["run"] = "free%d/seed%d" % (l["run"], seed)
    allruns = split_runs(lines) + split_runs(flines)
    clear = [l for r in allruns if not any(x.get("amb") for x in r) for l in r]
    findings, states = judge("balance", "BalanceTrace", "BalanceTrace.cfg", lines + flines)
    for cfg in BAL_KNOWN:      # the two faces of the one as-found defect: judged apart, one witness each
        fs, _ = judge("balance", "BalanceTrace", cfg, lines + flines, max_findings=1)
        findings += fs
    drift, _ = judge("balance", "BalanceTrace", "BalanceTraceConform.cfg", clear)
    cov.update({"scripts_replayed": len(plans), "free_runs": nfree, "trace_lines": len(lines) + len(flines),
                "distinct_runs": distinct_nontrivial(lines + flines),
                "trace_states_judged": states, "runs_left_out_of_conformance_as_ambiguous": len(allruns) - len(split_runs(clear)),
                "withdrawals_observed": sum(l.get("cases", []).count("withdraw-start") for l in lines + flines),
                "queries_answered": sum(1 for l in lines + flines if l["k"] == "qret"),
                "samples": [json.dumps({"fires": f, "thr": t, "ops": [o + (":" + v if v else "") for o, v in ops]}) for f, t, ops in plans[:3]],
                "binding_selftest": balance_selftest(lines)})
    return cov, findings, drift, {"plans": sp, "seed": seed}


# ------------------------------------------------------------------------------------------------ part: watchdog

def watchdog_selftest(lines):
    """(a) a run stopped before its timeout is given a broadcast; (b) the report to the service is dropped."""
    runs = [r for r in split_runs(lines) if any(l["k"] == "ended" and l["via"] == "stop" for l in r)]
    if not runs:
        return {"ok": False, "why": "no stopped run"}
    a = [dict(l) for l in runs[0]]
    for l in a:
        if l["k"] == "ended":
            l["bcasts"] = 1
    fa, _ = judge("watchdog", "WatchdogTrace", "WatchdogTrace.cfg", a)
    b = [dict(l) for l in runs[0]]
    for l in b:
        if l["k"] in ("ended", "post"):
            l["notified"] = 0
    fb, _ = judge("watchdog", "WatchdogTrace", "WatchdogTrace.cfg", b)
    res = {"add_broadcast_after_stop": fa[0].invariant if fa else None, "drop_report": fb[0].invariant if fb else None}
    res["ok"] = bool(fa) and bool(fb)
    return res


def part_watchdog(vh, tier, seed, work):
    cov = {"configs": [j1("Watchdog", "MC_watchdog_intended.cfg", "watchdog"), j1("Watchdog", "MC_watchdog_asfound.cfg", "watchdog")]}
    r = vlib.tlc(SPECDIR, "Watchdog", "MC_watchdog_defect.cfg", workers=1, timeout=600, heap=HEAP, deadlock=False)
    cov["model_reproduces_asfound_defect"] = (r.violated == "NothingLeft")
    r = vlib.tlc(SPECDIR, "WatchdogGen", "MC_watchdog_gen.cfg", workers=1, timeout=600, heap=HEAP, deadlock=False)
    vlib.tlc_require_ok(r, "J2 WatchdogGen")
    keys = sorted(set((p["fires"], tuple((o["op"], o["v"]) for o in p["ops"])) for p in printed(r.out, "SCRIPT")))
    scripts = [a for i, a in enumerate(keys) if a[1] and not (i + 1 < len(keys) and keys[i + 1][0] == a[0]
                                                                and keys[i + 1][1][:len(a[1])] == a[1])]
    sp, tp, fp = [os.path.join(work, n) for n in ("wd-scripts.json", "wd-trace.ndjson", "wd-free.ndjson")]
    json.dump({"scripts": [{"fires": f, "ops": [{"op": o, "v": v} for o, v in ops]} for f, ops in scripts]}, open(sp, "w"))
    out = vh_run(vh, ["watchdog-replay", "--scripts", sp, "--out", tp], "watchdog-replay")
    log("watchdog replay:", out.strip().splitlines()[-1])
    nfree = 60 if tier == "quick" else 1500
    out = vh_run(vh, ["watchdog-free", "--out", fp, "--seed", str(seed), "--runs", str(nfree)], "watchdog-free")
    log("watchdog free:  ", out.strip().splitlines()[-1])
    lines, flines = read_trace(tp), read_trace(fp)
    for l in flines:
        l["run"] = "free%d/seed%d" % (l["run"], seed)
    findings, states = judge("watchdog", "WatchdogTrace", "WatchdogTrace.cfg", lines + flines)
    for cfg in ("WatchdogTraceKnownA.cfg", "WatchdogTraceKnownB.cfg"):
        fs, _ = judge("watchdog", "WatchdogTrace", cfg, lines + flines, max_findings=1)
        findings += fs
    drift, _ = judge("watchdog", "WatchdogTrace", "WatchdogTraceConform.cfg", lines + flines)
    cov.update({"gen_states": r.distinct, "scripts_replayed": len(scripts), "free_runs": nfree,
                "distinct_runs": distinct_nontrivial(lines + flines),
                "trace_lines": len(lines) + len(flines), "trace_states_judged": states,
                "free_runs_timeout_won": sum(1 for l in flines if l["k"] == "timeout"),
                "free_runs_stop_won": sum(1 for l in flines if l["k"] == "ended" and l["via"] == "stop"),
                "samples": [json.dumps({"fires": f, "ops": [o + (":" + v if v else "") for o, v in ops]}) for f, ops in scripts[:3]],
                "binding_selftest": watchdog_selftest(lines)})
    return cov, findings, drift, {"scripts": sp, "seed": seed}


# ------------------------------------------------------------------------------------------------ part: lease

def lease_selftest(lines):
    """(a) a marker's broadcasts are hidden; (b) the manager state of a line is changed (conformance)."""
    runs = [r for r in split_runs(lines) if any(l["k"] == "marker" and l["wloops"] >= 1 for l in r)]
    if not runs:
        return {"ok": False, "why": "no run with an answered marker"}
    a = [dict(l) for l in runs[0]]
    for l in a:
        if l["k"] == "marker" and l["wloops"] >= 1:
            l["bcasts"] = 0
            break
    fa, _ = judge("lease", "LeaseTrace", "LeaseTrace.cfg", a)
    b = [dict(l) for l in runs[0]]
    for l in b:
        if l["k"] == "dret" and l["mgr"] == "deploy-complete":
            l["mgr"] = "deploy-active"
            break
    fb, _ = judge("lease", "LeaseTrace", "LeaseTraceConform.cfg", b)
    fb2, _ = judge("lease", "LeaseTrace", "LeaseTrace.cfg", b)
    res = {"hide_broadcasts": fa[0].invariant if fa else None, "corrupt_manager_state": (fb[0].invariant if fb else (fb2[0].invariant if fb2 else None))}
    res["ok"] = bool(fa) and bool(fb or fb2)
    return res


def part_lease(vh, tier, seed, work):
    cov = {"configs": [j1("Lease", "MC_lease_intended.cfg", "lease"), j1("Lease", "MC_lease_asfound.cfg", "lease")]}
    r = vlib.tlc(SPECDIR, "Lease", "MC_lease_defect.cfg", workers=1, timeout=600, heap=HEAP, deadlock=False)
    cov["model_reproduces_asfound_defect"] = (r.violated == "OneWithdrawalPerMarker")
    cfg = open(os.path.join(SPECDIR, "MC_lease_gen.cfg")).read()
    if tier != "quick":
        cfg = cfg.replace("MaxManifests = 3  MaxMarkers = 2", "MaxManifests = 4  MaxMarkers = 3")
    r = vlib.tlc(SPECDIR, "LeaseGen", "g.cfg", workers=1, timeout=900, heap=HEAP, deadlock=False, extra_files={"g.cfg": cfg})
    vlib.tlc_require_ok(r, "J2 LeaseGen")
    byk = {tuple((o["op"], o["v"]) for o in s): s for s in printed(r.out, "SCRIPT")}
    keys = sorted(byk)
    scripts = [byk[a] for i, a in enumerate(keys) if a and not (i + 1 < len(keys) and keys[i + 1][:len(a)] == a)]
    sp, tp = [os.path.join(work, n) for n in ("lease-scripts.json", "lease-trace.ndjson")]
    json.dump({"scripts": scripts}, open(sp, "w"))
    out = vh_run(vh, ["lease-replay", "--scripts", sp, "--out", tp], "lease-replay")
    log("lease replay:   ", out.strip().splitlines()[-1])
    lines = read_trace(tp)
    findings, states = judge("lease", "LeaseTrace", "LeaseTrace.cfg", lines)
    for c in ("LeaseTraceKnownA.cfg", "LeaseTraceKnownB.cfg"):
        fs, _ = judge("lease", "LeaseTrace", c, lines, max_findings=1)
        findings += fs
    drift, _ = judge("lease", "LeaseTrace", "LeaseTraceConform.cfg", lines)
    cov.update({"gen_states": r.distinct, "scripts_replayed": len(scripts), "free_runs": 0, "trace_lines": len(lines),
                "distinct_runs": distinct_nontrivial(lines),
                "trace_states_judged": states, "markers_published": sum(1 for l in lines if l["k"] == "marker"),
                "max_withdrawal_loops_alive": max(l["wloops"] for l in lines),
                "samples": [" ".join(o["op"] + (":" + o["v"] if o["v"] else "") for o in s) for s in scripts[:3]],
                "binding_selftest": lease_selftest(lines)})
    return cov, findings, drift, {"scripts": sp, "seed": seed}

# ------------------------------------------------------------------------------------------------ the check

PARTS = [("monitor", part_monitor), ("withdraw", part_withdraw), ("balance", part_balance),
         ("watchdog", part_watchdog), ("lease", part_lease)]
TRACE = {"monitor": ("MonitorTrace", MON_INV), "withdraw": ("WithdrawTrace", "WithdrawTrace.cfg"),
         "balance": ("BalanceTrace", "BalanceTrace.cfg"), "watchdog": ("WatchdogTrace", "WatchdogTrace.cfg"),
         "lease": ("LeaseTrace", "LeaseTrace.cfg")}


def run(pid, tier, seed, replay):
    t0 = time.time()
    if replay:
        return run_replay(pid, replay)
    vh = vlib.build_harness()
    work = vlib.scratch("x03-")
    coverage = {"parts": {}, "exhaustive": False}
    violations, drift_total = [], 0
    states = transitions = traces = evals = distinct = 0
    selftests = {}
    def timed(fn):
        t = time.time()
        res = fn(vh, tier, seed, work)
        res[0]["wall_s"] = round(time.time() - t, 1)
        return res
    with concurrent.futures.ThreadPoolExecutor(max_workers=2) as ex:      # two parts at a time, two TLC workers each
        futures = [(name, ex.submit(timed, fn)) for name, fn in PARTS]
        results = [(name, f.result()) for name, f in futures]
    for name, (cov, findings, drift, meta) in results:
        coverage["parts"][name] = cov
        log("part %-9s %5.1fs  %d runs, %d lines judged" % (name, cov["wall_s"], cov.get("scripts_replayed", 0) + cov.get("free_runs", 0),
                                                             cov.get("trace_lines", 0)))
        for c in cov.get("configs", []):
            states += c["states"]
            transitions += c["transitions"]
        traces += cov.get("scripts_replayed", 0) + cov.get("free_runs", 0)
        evals += cov.get("trace_lines", 0)
        distinct += cov.get("distinct_runs", 0)
        selftests[name] = cov.get("binding_selftest")
        for d in drift:
            drift_total += 1
            vlib.log("DRIFT " + describe(d))
        seen = set()
        for f in findings:
            if (f.part, f.invariant) in seen:
                continue
            seen.add((f.part, f.invariant))
            violations.append(to_violation(pid, f, dict(meta, tier=tier)))
    bad = [n for n, s in selftests.items() if not (s and s.get("ok"))]
    if bad and not violations:      # (on a broken loop the recorded runs may not offer what the self-test corrupts)
        raise vlib.Inconclusive("binding self-test failed for %s: %s" % (bad, json.dumps(selftests)))
    coverage.update({"states": states, "transitions": transitions, "traces_validated_against_impl": traces,
                     "evaluations": evals, "drift_steps": drift_total,
                     "distinct_nontrivial": distinct,
                     "distinct_nontrivial_rule": "recorded runs on the real loops that differ in at least one line (run number "
                                                 "apart) and have at least four lines, i.e. something happened between start and stop",
                     "binding_selftest": {"ok": not bad, "parts": selftests},
                     "samples": coverage["parts"]["monitor"].get("samples", [])})
    return vlib.finish(pid, tier, seed, "model_checking", coverage, t0, violations,
                       assumptions=["cluster client, chain tx client, bank query client are scripted fakes",
                                    "monitor timers are channels of the harness (verif-tagged seam vtTimer)"])


def run_replay(pid, path):
    """Judge a saved offending run again (trace.ndjson + replay.json of a violation directory)."""
    meta = json.load(open(os.path.join(path, "replay.json")))
    lines = read_trace(os.path.join(path, "trace.ndjson"))
    module, cfg = TRACE[meta["part"]]
    fs, _ = judge(meta["part"], module, cfg, lines)
    if fs:
        print("VIOLATION property=%s replay=%s" % (pid, path), flush=True)
        return 1
    print("OK property=%s replay=%s" % (pid, path), flush=True)
    return 0
