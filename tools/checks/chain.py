"""Chain family: C01-C08, C16 decided with spec/chain (Chain.tla / ChainProps.tla).

J1  TLC model-checks MC_Chain (exhaustive small config, or -simulate for larger ones) with every invariant and
    step property of ChainProps.
J2  The same TLC run exports the action path of every distinct state it visited (NODE lines) and the action
    alphabet; harness/chainh replays the path trie on the real AkashApp (real bank, real hook wiring), trying the
    whole alphabet (rejected transactions included) at a seeded sample of the states.
J3  ChainTrace.tla: TLC evaluates the same ChainProps definitions on every recorded state/step (verdict) and
    checks every recorded step against Apply (conformance; drift is reported, not an alarm).
"""
import concurrent.futures as cf
import hashlib
import json
import os
import random
import re
import subprocess
import time

import shutil
import sys
import vlib

PROPERTIES = ["C01", "C02", "C03", "C04", "C05", "C06", "C07", "C08", "C16"]
SPEC = os.path.join(vlib.SPEC, "chain")

BASE = dict(MinDeposit=2, BidMinDeposit=1, OrderMaxBids=20, BidDepositChoices=[1], KeyChoices="NoKeys", AttrChoices="NoAttrs")
FAMILIES = {
    # one group: lifecycle / same-block histories
    "S": dict(BASE, Tenants=["t1"], Providers=["p1", "p2"], Auditors=[], DSeqs=[1, 2], GSeqs=[1], OSeqs=[1, 2, 3],
              GroupChoices="GroupChoicesS", DepositChoices=[2, 3], PriceChoices=[1, 2], AmountChoices=[1, 2],
              Versions=[1, 2], Gaps=[1, 2, 3], InitCoins=6),
    # two groups: concurrently open payments of different rates, weighted/even overdraft distribution
    "A": dict(BASE, OrderMaxBids=1, Tenants=["t1"], Providers=["p1", "p2", "p3"], Auditors=[], DSeqs=[1], GSeqs=[1, 2], OSeqs=[1, 2],
              GroupChoices="GroupChoicesA", DepositChoices=[2, 3, 5, 7], PriceChoices=[1, 2, 3], AmountChoices=[1, 3],
              Versions=[1], Gaps=[1, 2, 4], InitCoins=12),
    # two tenants x two deployments with colliding sequence numbers: frame conditions
    "B": dict(BASE, Tenants=["t1", "t2"], Providers=["p1", "p2"], Auditors=[], DSeqs=[1, 2, 3], GSeqs=[1, 2], OSeqs=[1, 2],
              GroupChoices="GroupChoicesA", DepositChoices=[2, 4], PriceChoices=[1, 2], AmountChoices=[1],
              Versions=[1, 2], Gaps=[1, 2], InitCoins=10),
    # requirements, attestations, provider attributes
    "R": dict(BASE, Tenants=["t1"], Providers=["p1", "p2"], Auditors=["a1", "a2"], DSeqs=[1, 2], GSeqs=[1], OSeqs=[1, 2],
              GroupChoices="GroupChoicesR", DepositChoices=[3], PriceChoices=[1, 3], AmountChoices=[1],
              AttrChoices="AttrChoicesR", KeyChoices="KeyChoicesR", Versions=[1], Gaps=[1, 2], InitCoins=8),
    # exhaustive, tiny: one provider holding leases of two deployments with different requirements (C08 update guard)
    "RX": dict(BASE, Tenants=["t1"], Providers=["p1"], Auditors=[], DSeqs=[1, 2], GSeqs=[1], OSeqs=[1],
               GroupChoices="GroupChoicesRX", DepositChoices=[3], PriceChoices=[1], AmountChoices=[], AttrChoices="AttrChoicesRX",
               Versions=[1], Gaps=[], InitCoins=8, MaxHeight=1, Variants=True),
    # exhaustive, small (quick tier): one provider x two order generations / two providers x one order generation
    "SQ1": dict(BASE, Tenants=["t1"], Providers=["p1"], Auditors=[], DSeqs=[1], GSeqs=[1], OSeqs=[1, 2],
                GroupChoices="GroupChoicesS", DepositChoices=[2, 3], PriceChoices=[1, 2], AmountChoices=[1],
                Versions=[1], Gaps=[1, 2], InitCoins=4, MaxHeight=4),
    "SQ2": dict(BASE, Tenants=["t1"], Providers=["p1", "p2"], Auditors=[], DSeqs=[1], GSeqs=[1], OSeqs=[1],
                GroupChoices="GroupChoicesS", DepositChoices=[2], PriceChoices=[1, 2], AmountChoices=[1],
                Versions=[1], Gaps=[1, 2], InitCoins=3, MaxHeight=4),
    "SQ3": dict(BASE, Tenants=["t1"], Providers=["p1"], Auditors=[], DSeqs=[1], GSeqs=[1, 2], OSeqs=[1],
                GroupChoices="GroupChoicesS2", DepositChoices=[2], PriceChoices=[1], AmountChoices=[1],
                Versions=[1], Gaps=[1, 2], InitCoins=3, MaxHeight=4, Variants=True),
    # two groups x two order generations, one provider: leases at mirrored (gseq, oseq) coordinates
    "SQ5": dict(BASE, Tenants=["t1"], Providers=["p1"], Auditors=[], DSeqs=[1], GSeqs=[1, 2], OSeqs=[1, 2],
                GroupChoices="GroupChoicesS2", DepositChoices=[4], PriceChoices=[1], AmountChoices=[],
                Versions=[1], Gaps=[1], InitCoins=6, MaxHeight=2),
    # two deployments whose sequence numbers agree modulo 2^32 (table entries 1 and 6), a tenant that is also a registered
    # provider (self-bid, also spelled in upper case), deposits below the minimum, zero / too high prices, coins in a
    # foreign denomination: unusual-but-valid inputs, nearly all of which must be rejected
    "SQ6": dict(BASE, Tenants=["t1"], Providers=["p1"], Auditors=[], DSeqs=[1, 6], GSeqs=[1], OSeqs=[1],
                GroupChoices="GroupChoicesS", DepositChoices=[1, 2], PriceChoices=[0, 1, 3], AmountChoices=[1],
                BidMinDeposit=2, BidDepositChoices=[1, 2], Versions=[1], Gaps=[], InitCoins=6, MaxHeight=1, Variants=True),
    # the tenant's address is written in upper-case bech32 in every message (the same account): the records are keyed by
    # that spelling, and everything that decodes an id back (escrow hooks, event parsers) must find them. (A provider's
    # spelling does not reach an id: CreateBid stores the bid under the canonical address.)
    "UP": dict(BASE, Tenants=["T1"], Providers=["p1"], Auditors=[], DSeqs=[1], GSeqs=[1], OSeqs=[1, 2],
               GroupChoices="GroupChoicesS", DepositChoices=[2], PriceChoices=[1], AmountChoices=[1],
               Versions=[1], Gaps=[1, 2], InitCoins=3, MaxHeight=4, UpperParties=["T1"]),
    "SB": dict(BASE, Tenants=["t1"], Providers=["t1"], Auditors=[], DSeqs=[1], GSeqs=[1], OSeqs=[1],
               GroupChoices="GroupChoicesS", DepositChoices=[2], PriceChoices=[1], AmountChoices=[],
               Versions=[1], Gaps=[], InitCoins=4, MaxHeight=1, Variants=True),
    # auditor lists: every (all-of, any-of) shape x attestations of two auditors
    "RA": dict(BASE, Tenants=["t1"], Providers=["p1"], Auditors=["a1", "a2"], DSeqs=[1], GSeqs=[1], OSeqs=[1],
               GroupChoices="GroupChoicesRA", DepositChoices=[3], PriceChoices=[1], AmountChoices=[], AttrChoices="AttrChoicesRA",
               KeyChoices="KeyChoicesRA", Versions=[1], Gaps=[], InitCoins=5, MaxHeight=1),
    # exhaustive: every state and every transition of this bounded model is visited by TLC
    "SX": dict(BASE, Tenants=["t1"], Providers=["p1", "p2"], Auditors=[], DSeqs=[1], GSeqs=[1], OSeqs=[1, 2],
               GroupChoices="GroupChoicesS", DepositChoices=[2], PriceChoices=[1], AmountChoices=[1],
               Versions=[1], Gaps=[1, 2], InitCoins=3, MaxHeight=4),
}

# escrow keeper driven directly (MC_Escrow): numerically exhaustive
ESCROW_FAMILIES = {
    "E": dict(Tenants=["t1"], Providers=["p1", "p2"], Auditors=[], DSeqs=[1], GSeqs=[1], OSeqs=[1], MinDeposit=0, BidMinDeposit=0,
              DepositChoices=[0, 1, 3, 4], AmountChoices=[2], RateChoices=[1, 2], PayOSeqs=[1], Gaps=[1, 2], MaxHeight=5, InitCoins=6),
    "E3": dict(Tenants=["t1"], Providers=["p1", "p2", "p3"], Auditors=[], DSeqs=[1], GSeqs=[1], OSeqs=[1], MinDeposit=0, BidMinDeposit=0,
               DepositChoices=[0, 2, 5, 7], AmountChoices=[1, 3], RateChoices=[1, 2, 3], PayOSeqs=[1], Gaps=[1, 2, 3], MaxHeight=7, InitCoins=12),
    # three concurrent payees, small (quick tier): order-dependent even distribution of the overdraft remainder
    "E3q": dict(Tenants=["t1"], Providers=["p1", "p2", "p3"], Auditors=[], DSeqs=[1], GSeqs=[1], OSeqs=[1], MinDeposit=0, BidMinDeposit=0,
                DepositChoices=[5], AmountChoices=[], RateChoices=[1, 2], PayOSeqs=[1], Gaps=[1, 2], MaxHeight=3, InitCoins=5),
    # the same with equal rates only and a second (bystander) account whose coins sit in the same module account, so that
    # an overpayment has something to take
    "E3b": dict(Tenants=["t1"], Providers=["p1", "p2", "p3"], Auditors=[], DSeqs=[1], GSeqs=[1], OSeqs=[1], MinDeposit=0, BidMinDeposit=0,
                DepositChoices=[5], AmountChoices=[], RateChoices=[1], PayOSeqs=[1], Gaps=[1, 2], MaxHeight=3, InitCoins=8,
                BystanderDeposits=[3]),
    # simulation only: larger amounts, two payment slots per provider
    "EL": dict(Tenants=["t1"], Providers=["p1", "p2", "p3"], Auditors=[], DSeqs=[1], GSeqs=[1], OSeqs=[1, 2], MinDeposit=0, BidMinDeposit=0,
               DepositChoices=[0, 5, 17, 40, 100], AmountChoices=[1, 7, 30], RateChoices=[1, 2, 3, 7, 10], PayOSeqs=[1, 2],
               Gaps=[1, 2, 5, 11], MaxHeight=1000, InitCoins=400),
}
FAMILIES.update(ESCROW_FAMILIES)

# which families matter for which property (quick tier); thorough runs all of them
QUICK = {"C01": ["SQ1", "SQ3", "A", "E", "E3b"], "C02": ["E", "E3q", "A", "S"], "C03": ["SQ1", "SQ2", "SQ3", "S", "E"],
         "C04": ["SQ1", "SQ2", "SQ3", "SQ5", "S"], "C05": ["SQ1", "SQ2", "SQ3", "SQ5", "S"], "C06": ["B", "R", "SQ2", "SQ3"],
         "C07": ["R", "RX", "E", "A"], "C08": ["RX", "RA", "R"], "C16": ["SQ1", "SQ2", "SQ3", "R"]}
# every property's quick tier also sees every small exhaustive world (a change often shows only in a world built for
# another property: mirrored coordinates, a bystander account, two leases of one provider)
SMALL = ["SQ3", "SQ5", "SQ6", "SB", "UP", "RX", "RA", "E3b"]
# the escrow-keeper worlds have escrow accounts with no deployment behind them: only the properties that speak about the
# escrow module alone are judged there
ESCROW_ONLY_OK = {"C01", "C02", "C03", "C06", "C07"}
for _p in QUICK:
    QUICK[_p] = QUICK[_p] + [f for f in SMALL if f not in QUICK[_p] and (f not in ESCROW_FAMILIES or _p in ESCROW_ONLY_OK)]
# C07 executes every step five times (three repetitions, a second instance, a restarted instance): fewer worlds
QUICK["C07"] = ["R", "RX", "A", "SQ3", "SQ6", "SB", "UP", "RA", "E3b"]
THOROUGH = {"C01": ["SX", "E", "EL", "S", "A", "B"], "C02": ["SX", "E", "E3q", "EL", "A", "S"], "C03": ["SX", "E", "EL", "S", "A"],
            "C04": ["SX", "SQ3", "SQ5", "S", "A", "B"], "C05": ["SX", "SQ3", "SQ5", "S", "A", "B"], "C06": ["SX", "RX", "E", "B", "R", "S"],
            "C07": ["SX", "RX", "R", "S", "A"], "C08": ["RX", "RA", "SX", "R"], "C16": ["SX", "RX", "SQ3", "S", "A", "R", "B"]}
# the thorough tier contains every world of the quick tier
for _p in THOROUGH:
    THOROUGH[_p] = THOROUGH[_p] + [f for f in QUICK[_p] if f not in THOROUGH[_p] and f not in ("SQ1", "SQ2")]   # SQ1, SQ2 are inside SX
EXHAUSTIVE = {"SX", "SQ1", "SQ2", "SQ3", "SQ5", "SQ6", "SB", "RX", "RA", "E", "E3", "E3q", "E3b", "UP"}
PAR = max(2, min(8, vlib.NCPU // 2))     # concurrent harness processes / J3 JVMs per family
FAMILY_PAR = 2                           # families in flight at a time
ROUNDTRIPS = 3        # per harness shard: states at which the genesis export/import round trip is recorded
NODE_CAP_QUICK = 80000
NODE_CAP_THOROUGH = 250000
J1_INVS = "InvC01 InvC02 InvC03 InvC04 InvC05"
J1_PROPS = "StepC01 StepC02 StepC03 StepC06 StepC08"


def tla_set(xs):
    return "{" + ", ".join(json.dumps(x) if isinstance(x, str) else str(x) for x in xs) + "}"


def escrow_cfg(fam, sim, depth):
    c = FAMILIES[fam]
    lines = ["SPECIFICATION Spec", "VIEW View", "CONSTANTS"]
    for k in ("Tenants", "Providers", "Auditors", "DSeqs", "GSeqs", "OSeqs", "DepositChoices", "AmountChoices", "RateChoices",
              "PayOSeqs", "Gaps"):
        lines.append("  %s = %s" % (k, tla_set(c[k])))
    lines.append("  BystanderDeposits = %s" % tla_set(c.get("BystanderDeposits", [])))
    lines.append("  ProvRank <- ProvRankDef")
    for k in ("MinDeposit", "BidMinDeposit", "InitCoins"):
        lines.append("  %s = %d" % (k, c[k]))
    lines.append("  OrderMaxBids = %d" % c.get("OrderMaxBids", 20))
    lines.append("  MaxHeight = %d" % (1000 if sim else c["MaxHeight"]))
    lines.append("  MaxSteps = %d" % (depth if sim else 80))
    lines.append("  OnlyOK = %s" % ("TRUE" if sim else "FALSE"))
    lines.append("INVARIANTS InvC01 InvC02 InvC03 %s" % ("ExportNode" if sim else "ExportNodeEdges"))
    lines.append("PROPERTIES StepC01 StepC02 StepC03 StepC06")
    lines.append("CHECK_DEADLOCK FALSE")
    return "\n".join(lines) + "\n"


def mc_cfg(fam, sim, depth):
    if fam in ESCROW_FAMILIES:
        return escrow_cfg(fam, sim, depth)
    c = FAMILIES[fam]
    lines = ["SPECIFICATION Spec", "VIEW View", "CONSTANTS"]
    for k in ("Tenants", "Providers", "Auditors", "DSeqs", "GSeqs", "OSeqs", "DepositChoices", "BidDepositChoices",
              "PriceChoices", "AmountChoices", "Versions", "Gaps"):
        lines.append("  %s = %s" % (k, tla_set(c[k])))
    for k in ("GroupChoices", "AttrChoices", "KeyChoices"):
        lines.append("  %s <- %s" % (k, c[k]))
    lines.append("  ProvRank <- ProvRankDef")
    for k in ("MinDeposit", "BidMinDeposit", "InitCoins", "OrderMaxBids"):
        lines.append("  %s = %d" % (k, c[k]))
    lines.append("  MaxHeight = %d" % (1000 if sim else c["MaxHeight"]))
    lines.append("  MaxSteps = %d" % (depth if sim else 60))
    lines.append("  OnlyOK = %s" % ("TRUE" if sim else "FALSE"))
    lines.append("  Variants = %s" % ("TRUE" if c.get("Variants") else "FALSE"))
    lines.append("INVARIANTS %s %s" % (J1_INVS, "ExportNode" if sim else "ExportNodeEdges"))
    lines.append("PROPERTIES %s" % J1_PROPS)
    lines.append("CHECK_DEADLOCK FALSE")
    return "\n".join(lines) + "\n"


def trace_cfg(fam, which):
    c = FAMILIES[fam]
    t = open(os.path.join(SPEC, "ChainTrace.cfg.tmpl")).read()
    rep = {"TENANTS": c["Tenants"], "PROVIDERS": c["Providers"], "AUDITORS": c["Auditors"], "DSEQS": c["DSeqs"],
           "GSEQS": c["GSeqs"], "OSEQS": sorted(set(c["OSeqs"]) | {max(c["OSeqs"]) + 1}) if fam not in ESCROW_FAMILIES else c["PayOSeqs"],
           "WHICH": which}
    for k, v in rep.items():
        t = t.replace("{%s}" % k, tla_set(v))
    return (t.replace("BIDMINDEP", str(c["BidMinDeposit"])).replace("MINDEP", str(c["MinDeposit"]))
            .replace("ORDERMAXBIDS", str(c.get("OrderMaxBids", 20))))


_LINE = re.compile(r'^<<"(NODE|ALPHABET)", "(.*?)"(?:, "OK", "(.*)")?>>$')


def _unq(t):
    return t.replace('\\"', '"').replace("\\\\", "\\")


def parse_export(out):
    """NODE lines -> path lines for the harness: a JSON array (path) or {"p": path, "x": successful actions there}."""
    nodes, alpha = {}, None
    for line in out.splitlines():
        m = _LINE.match(line)
        if not m:
            continue
        js = _unq(m.group(2))
        if m.group(1) == "ALPHABET":
            alpha = json.loads(js)
        elif m.group(3) is not None:
            nodes[js] = '{"p":%s,"x":%s}' % (js, _unq(m.group(3)))
        else:
            nodes.setdefault(js, js)
    return [nodes[k] for k in sorted(nodes, key=lambda s: (len(s), s))], alpha


def j1(fam, sim, seed, num, depth, timeout):
    cfg = mc_cfg(fam, sim, depth)
    module = "MC_Escrow" if fam in ESCROW_FAMILIES else "MC_Chain"
    if sim:
        workers = min(8, vlib.NCPU)
        r = vlib.tlc(SPEC, module, "MC.cfg", workers=workers, timeout=timeout, extra_files={"MC.cfg": cfg},
                     simulate=dict(num=max(1, num // workers), depth=depth + 2, seed=seed), heap="6g")
    else:
        r = vlib.tlc(SPEC, module, "MC.cfg", workers=vlib.NCPU, timeout=timeout, extra_files={"MC.cfg": cfg}, heap="12g")
    vlib.tlc_require_ok(r, "J1 %s family %s (%s)" % (module, fam, "simulate" if sim else "exhaustive"))
    nodes, alpha = parse_export(r.out)
    if not nodes or alpha is None:
        raise vlib.Inconclusive("J1 exported no behaviours for family %s" % fam)
    return r, nodes, alpha


def run_harness(vh, fam, work, nodes, alpha, expand, seed, shards, reps):
    c = FAMILIES[fam]
    wcfg = dict(tenants=c["Tenants"], providers=c["Providers"], auditors=c["Auditors"], initCoins=c["InitCoins"],
                minDeposit=c["MinDeposit"], bidMinDeposit=c["BidMinDeposit"], orderMaxBids=c.get("OrderMaxBids", 20),
                foreignCoins=3 if c.get("Variants") else 0, upperParties=c.get("UpperParties", []))
    json.dump(wcfg, open(os.path.join(work, "world.json"), "w"))
    # every shard gets its own slice of the exported states (a path carries its ancestors), so no process holds them all
    for i in range(shards):
        with open(os.path.join(work, "paths.%d.ndjson" % i), "w") as fh:
            for n in nodes[i::shards]:
                fh.write(n + "\n")
    json.dump(alpha, open(os.path.join(work, "alphabet.json"), "w"))
    maxh = c.get("MaxHeight", 0)
    per = max(1, expand // shards) if expand else 0

    def one(i):
        out = os.path.join(work, "trace.%d.ndjson" % i)
        cmd = [vh, "chain", "explore", "--config", os.path.join(work, "world.json"), "--paths", os.path.join(work, "paths.%d.ndjson" % i),
               "--alphabet", os.path.join(work, "alphabet.json"), "--out", out, "--nodes", str(per), "--seed", str(seed + i),
               "--shard", "0", "--shards", "1", "--reps", str(reps), "--reps-audit", str(max(4, reps)),
               "--maxheight", str(maxh), "--all-paths", "--roundtrips", str(ROUNDTRIPS)] + (["--second-app", "--noise"] if reps >= 3 else [])
        env = dict(os.environ, GOGC="50", GOMAXPROCS="3" if reps >= 3 else "2")
        rc, txt = vlib.run(cmd, timeout=3000, env=env)
        if rc != 0:
            raise vlib.Inconclusive("harness failed (family %s shard %d): %s" % (fam, i, txt[-2000:]))
        return out, json.loads(txt.strip().splitlines()[-1])

    with cf.ThreadPoolExecutor(max_workers=min(PAR, shards)) as ex:
        return list(ex.map(one, range(shards)))


_FAIL = re.compile(r'^<<"FAIL", "(C\d+)", "(\w+)", (\d+)>>$')
_DRIFT = re.compile(r'^<<"DRIFT", (\d+), ')


def j3(fam, trace, which, timeout=1800):
    r = vlib.tlc(SPEC, "ChainTrace", "T.cfg", workers=1, timeout=timeout, extra_files={"T.cfg": trace_cfg(fam, which)},
                 copy_files={"trace.ndjson": trace}, heap="3g")
    fails, drift = [], []
    for line in r.out.splitlines():
        m = _FAIL.match(line)
        if m:
            fails.append((m.group(1), m.group(2), int(m.group(3))))
            continue
        m = _DRIFT.match(line)
        if m:
            drift.append((int(m.group(1)), line))
    if not r.ok:
        raise vlib.Inconclusive("J3 ChainTrace did not complete on %s: %s" % (trace, r.error or r.out[-2000:]))
    return r, fails, drift


def load_trace(path):
    return [json.loads(l) for l in open(path)]


def script_of(lines, idx):
    """The action path from the initial state to line idx (1-based ids)."""
    path = []
    cur = lines[idx - 1]
    while cur["parent"] != 0:
        path.append(cur["act"])
        cur = lines[cur["parent"] - 1]
    return list(reversed(path))


def selftest(fam, trace, pid):
    """Binding self-test: corrupt one recorded field, and rewrite one recorded action; TLC must reject both."""
    lines = load_trace(trace)[:400]
    ids = {l["id"] for l in lines}
    lines = [l for l in lines if l["parent"] in ids or l["parent"] == 0]
    cand = [l for l in lines if l["ok"] and l["act"]["act"] not in ("Init", "NextBlock")]
    if not cand:
        return {"skipped": "no successful transaction among the first lines"}
    d = vlib.scratch("chain-self-")
    res = {}
    # (a) corrupt a recorded balance
    a = json.loads(json.dumps(lines))
    vic = cand[len(cand) // 2]["id"]
    for l in a:
        if l["id"] == vic:
            l["state"]["bank"]["escrow"] += 1
    pa = os.path.join(d, "a.ndjson")
    open(pa, "w").write("".join(json.dumps(l) + "\n" for l in a))
    _, f1, d1 = j3(fam, pa, ["CONF", "C01"], timeout=600)
    res["corrupt_balance_rejected"] = bool(any(x[0] == vic for x in d1) and any(x[2] == vic for x in f1))
    # (b) relabel a recorded action
    b = json.loads(json.dumps(lines))
    for l in b:
        if l["id"] == vic:
            l["act"] = {"act": "NextBlock", "gap": 1}
    pb = os.path.join(d, "b.ndjson")
    open(pb, "w").write("".join(json.dumps(l) + "\n" for l in b))
    _, f2, d2 = j3(fam, pb, ["CONF", "C06"], timeout=600)
    res["relabelled_action_rejected"] = bool(any(x[0] == vic for x in d2))
    return res


_CASE = re.compile(r'^<<"CASE", "(.*)">>$', re.M)
_CFAIL = re.compile(r'^<<"FAIL", "C16", "EventCodec", (\d+), "([\w-]+)">>$', re.M)


def codec_stage(vh, cov, violations):
    """C16, second sentence: every event type x boundary value class through the real emit/decode pair (EventCodec.tla)."""
    r = vlib.tlc(SPEC, "EventCodec", "EventCodec_gen.cfg", workers=1, timeout=600, heap="2g")
    vlib.tlc_require_ok(r, "J1 EventCodec")
    cases = [_unq(m.group(1)) for m in _CASE.finditer(r.out)]
    if len(cases) < 100:
        raise vlib.Inconclusive("EventCodec exported %d cases" % len(cases))
    d = vlib.scratch("codec-")
    open(os.path.join(d, "cases.ndjson"), "w").write("\n".join(cases) + "\n")
    out = os.path.join(d, "codec.ndjson")
    rc, txt = vlib.run([vh, "chain", "codec", "--cases", os.path.join(d, "cases.ndjson"), "--out", out], timeout=600)
    if rc != 0:
        raise vlib.Inconclusive("codec harness failed: " + txt[-1500:])
    rj = vlib.tlc(SPEC, "EventCodec", "EventCodec_judge.cfg", workers=1, timeout=600, heap="2g", copy_files={"codec.ndjson": out})
    if not rj.ok:
        raise vlib.Inconclusive("EventCodec judge did not complete: %s" % (rj.error or rj.out[-1500:]))
    lines = open(out).read().splitlines()
    for m in _CFAIL.finditer(rj.out):
        ln = lines[int(m.group(1)) - 1]
        violations.append(vlib.Violation("C16", "EventCodec/%s" % m.group(2), "event codec case: %s" % ln, {"codec_case.json": ln}))
    # self-test: a line whose decoded price differs must be rejected
    bad = [json.loads(x) for x in lines[:50]]
    vic = next((i for i, x in enumerate(bad) if "dseq" in x["case"]), None)
    if vic is not None:
        bad[vic]["dec"]["dseq"] = "12" if bad[vic]["dec"].get("dseq") != "12" else "1"
        pb = os.path.join(d, "bad.ndjson")
        open(pb, "w").write("".join(json.dumps(x) + "\n" for x in bad))
        rb = vlib.tlc(SPEC, "EventCodec", "EventCodec_judge.cfg", workers=1, timeout=300, heap="1g", copy_files={"codec.ndjson": pb})
        cov["codec_selftest_rejected"] = bool([m for m in _CFAIL.finditer(rb.out) if int(m.group(1)) == vic + 1])
        if not cov["codec_selftest_rejected"]:
            raise vlib.Inconclusive("event codec self-test: corrupted line not rejected")
    cov["codec_cases"] = len(cases)
    cov["evaluations"] += len(cases)
    cov["traces_validated_against_impl"] += 1
    cov["samples"].append({"event_codec_case": json.loads(lines[len(lines) // 2])})


def run(pid, tier, seed, replay):
    t0 = time.time()
    vh = vlib.build_harness()
    if replay:
        return do_replay(pid, vh, replay, t0, seed)
    thorough = tier == "thorough"
    plans = []
    if thorough:
        for f in THOROUGH[pid]:
            if f in EXHAUSTIVE:
                # every state, every successful transition, whole alphabet at every state (C07 runs every step five
                # times, so there the whole alphabet is tried at a seeded sample of 15 000 states)
                plans.append((f, False, 0, 0, 15000 if pid == "C07" else 0))
            else:
                plans.append((f, True, 320, 40 if f == "EL" else 32, 1500))
    else:
        for f in QUICK[pid]:
            if f in EXHAUSTIVE:
                plans.append((f, False, 0, 0, 800))    # exhaustive J1; the alphabet is replayed at a seeded sample of its states
            else:
                plans.append((f, True, 64, 26, 240))
    cov = dict(states=0, transitions=0, traces_validated_against_impl=0, evaluations=0, drift_steps=0, configs=[],
               samples=[], exhaustive=False)
    distinct = set()
    violations, drifts = [], []
    selft = None
    reps = 3 if pid == "C07" else 1      # repetitions on sibling copies of the pre-state only matter for C07

    def family(plan):
        fam, sim, num, depth, expand = plan
        out = dict(fam=fam, sim=sim, violations=[], drifts=[], samples=[], distinct=set(), traces=0, selft=None)
        r1, nodes, alpha = j1(fam, sim, seed, num, depth, timeout=3000)
        exported = len(nodes)
        cap = NODE_CAP_THOROUGH if thorough else NODE_CAP_QUICK
        if len(nodes) > cap:
            # a seeded sample of the states TLC visited (their ancestors are executed as well)
            rnd = random.Random(seed * 7919 + len(nodes))
            nodes = sorted(rnd.sample(nodes, cap), key=lambda s: (len(s), s))
        work = vlib.scratch("chain-%s-" % fam)
        est = len(nodes) * 2 + min(expand or len(nodes), len(nodes)) * len(alpha)
        shards = max(2, est // 6000 + 1)
        outs = run_harness(vh, fam, work, nodes, alpha, expand, seed, shards, reps=reps)
        nsteps = sum(o[1]["steps"] for o in outs)
        with cf.ThreadPoolExecutor(max_workers=min(PAR, shards)) as ex:
            res = list(ex.map(lambda o: j3(fam, o[0], [pid, "CONF"]), outs))
        for (tr, _), (r3, fails, drift) in zip(outs, res):
            lines = None
            if r3.distinct != sum(1 for _ in open(tr)):
                raise vlib.Inconclusive("J3 consumed %d of the lines of %s" % (r3.distinct, tr))
            out["traces"] += 1
            if fails or drift or len(out["samples"]) < 1:
                lines = load_trace(tr)
            for (p, name, l) in fails:
                st = lines[l - 1]
                sig = "%s/%s/%s" % (name, st["act"]["act"], "ok" if st["ok"] else "rejected")
                script = script_of(lines, l)
                out["violations"].append(vlib.Violation(pid, sig, "family %s line %d\nscript: %s\nstep: %s" % (
                    fam, l, json.dumps(script), json.dumps({k: st[k] for k in ("act", "ok", "err", "events", "signers", "genesisOK", "genesisErr", "digests")})),
                    {"script.json": json.dumps({"family": fam, "script": script}), "step.json": json.dumps(st, indent=1)}))
            for (l, txt) in drift:
                out["drifts"].append("family %s: %s script=%s" % (fam, txt, json.dumps(script_of(lines, l))))
            if lines and len(out["samples"]) < 1:
                deep = max(lines, key=lambda x: x["id"] if x["ok"] else 0)
                out["samples"].append({"family": fam, "script": script_of(lines, deep["id"])[-12:]})
            # distinct (pre-state, action) pairs
            h = {}
            for ln in open(tr):
                o = json.loads(ln)
                h[o["id"]] = hashlib.md5(json.dumps(o["state"], sort_keys=True).encode()).hexdigest()[:12]
                if o["parent"]:
                    out["distinct"].add((fam, h[o["parent"]], json.dumps(o["act"], sort_keys=True)))
            if out["selft"] is None and fam == plans[0][0]:
                out["selft"] = selftest(fam, tr, pid)
        out.update(exported=exported, r1=r1, nsteps=nsteps, replayed=len(nodes), alphabet=len(alpha))
        shutil.rmtree(work, ignore_errors=True)
        return out

    # two families at a time: the single-threaded stretches of one (TLC export, J3 start-up) overlap the other's harness
    with cf.ThreadPoolExecutor(max_workers=1 if thorough else FAMILY_PAR) as fex:
        results = list(fex.map(family, plans))
    for out in results:
        fam, sim, r1, exported = out["fam"], out["sim"], out["r1"], out["exported"]
        violations += out["violations"]
        drifts += out["drifts"]
        distinct |= out["distinct"]
        cov["traces_validated_against_impl"] += out["traces"]
        if len(cov["samples"]) < 3:
            cov["samples"] += out["samples"]
        if selft is None:
            selft = out["selft"]
        if sim:
            cov["states"] += exported
            cov["transitions"] += exported
        else:
            cov["states"] += r1.distinct
            cov["transitions"] += r1.generated
            cov["exhaustive"] = True
        cov["evaluations"] += out["nsteps"]
        cov["configs"].append({"family": fam, "mode": "simulate" if sim else "exhaustive", "model_states": r1.distinct or exported,
                               "model_transitions": r1.generated or exported, "exported_states": exported, "replayed_states": out["replayed"],
                               "alphabet": out["alphabet"], "impl_steps": out["nsteps"], "j1_wall_s": round(r1.wall_s, 1)})
    if pid == "C16":
        codec_stage(vh, cov, violations)
    if pid in ("C06", "C07"):
        # certificate transactions (x/cert) belong to "every marketplace transaction" of these two statements; the cert
        # family's specification and harness decide their part: signer and frame for C06, repeated execution (also across
        # a certificate's validity boundary and in a second instance) for C07
        if os.path.dirname(os.path.abspath(__file__)) not in sys.path:
            sys.path.insert(0, os.path.dirname(os.path.abspath(__file__)))
        import cert
        cv, ccov = cert.extra_stage(pid, vh, tier, seed)
        violations += cv
        cov.update(ccov)
    cov["drift_steps"] = len(drifts)
    for dmsg in drifts[:20]:
        vlib.log("DRIFT " + dmsg)
    cov["distinct_nontrivial"] = len(distinct)
    cov["rule"] = ("steps executed on the real application; distinct = distinct (abstract pre-state, action) pairs; every one is "
                   "non-trivial in the sense that it is a transaction (accepted or rejected) or block advance applied to a state TLC reached")
    cov["binding_selftest"] = selft
    if selft and not all(v for k, v in selft.items() if k != "skipped"):
        raise vlib.Inconclusive("binding self-test failed: %s" % selft)
    return vlib.finish(pid, tier, seed, "model_checking", cov, t0, violations,
                       ["TLC, Go toolchain, Cosmos-SDK bank/auth keepers", "ante handler not executed (signatures/fees): GetSigners() is compared instead",
                        "projection functions of harness/chainh (field copies and id tables)"])


def do_replay(pid, vh, path, t0, seed):
    sp = os.path.join(path, "script.json") if os.path.isdir(path) else path
    spec = json.load(open(sp))
    fam = spec["family"]
    work = vlib.scratch("chain-replay-")
    outs = run_harness(vh, fam, work, [json.dumps(spec["script"])], [], 0, seed, 1, 2)
    r3, fails, drift = j3(fam, outs[0][0], [pid, "CONF"])
    for f in fails:
        print("replay: FAIL %s %s at line %d" % f)
    for d in drift:
        print("replay: %s" % d[1])
    if fails:
        print("VIOLATION property=%s replay=%s" % (pid, path))
        return 1
    print("replay: property %s holds on the script" % pid)
    return 0
