"""C17 -- on-chain certificates (x/cert): unique per owner+serial, revocation permanent, always listable.

J1  TLC model-checks spec/cert/Cert.tla (transactions + every query) for the constants of this run.
J2  TLC exports every edge of the bounded transaction graph; `vh cert graph` executes every edge once on the
    real application (real messages through the app's msg service router, real gRPC Query/Certificates with
    every filter x page size, real keeper iterators) and records one ndjson line per step; `vh cert paths`
    replays longer seeded scripts (more certificates than a page holds).
J3  TLC validates the recorded lines through spec/cert/CertTrace.tla: the C17 definitions evaluated on the
    observed registry / query results give the verdict; step / result conformance is counted as drift.
"""
import concurrent.futures
import json
import os
import random
import re
import time

import vlib

PROPERTIES = ["C17"]
SPEC_DIR = os.path.join(vlib.SPEC, "cert")

MID_CLASSES = ["s255", "s256", "s2e64", "s2e159"]
# longer than the 20 octets RFC 5280 allows; Go's x509 creates and parses them, so they can be submitted
BIG_CLASSES = ["s2e160", "s2e160p1", "s2e168", "s2e255", "s2e319"]
ALL_CLASSES = ["z0", "s1"] + MID_CLASSES + BIG_CLASSES
DEC = {"z0": "0", "s1": "1", "s255": "255", "s256": "256", "s2e64": "2^64", "s2e159": "2^159", "s2e160": "2^160",
       "s2e160p1": "2^160+1", "s2e168": "2^168", "s2e255": "2^255", "s2e319": "2^319"}


VALUE = {"z0": 0, "s1": 1, "s8": 8, "s9": 9, "s10": 10, "s255": 255, "s256": 256, "s2e64": 2 ** 64, "s2e159": 2 ** 159,
         "s2e160": 2 ** 160, "s2e160p1": 2 ** 160 + 1, "s2e168": 2 ** 168, "s2e255": 2 ** 255, "s2e319": 2 ** 319}
DEC.update({"s8": "8", "s9": "9", "s10": "10"})

# Ways a request may SPELL a serial (MsgRevokeCertificate.ID.Serial, CertificateFilter.Serial). Their DECIMAL reading
# is decided here, not by the code: an optional "+" and decimal digits (leading zeros allowed) name that number;
# anything else is no decimal number. (A "-" spelling is left out on purpose, see docs/cert.md.)
SPELL_ALPHABET = ["010", "08", "09", "0010", "011", "012", "+10", "+8", "+0010", "00", " 10", "10 ", "1_0", "1e1",
                  "0x8", "0xa", "0XA", "0x10", "0o12", "0b1000"]


def reading(sp, serials):
    if not re.fullmatch(r"\+?[0-9]+", sp):
        return "invalid"
    n = int(sp)
    for c in serials:
        if VALUE[c] == n:
            return c
    return "other"


def spellings_of(p):
    out = [{"sp": "", "rd": c} for c in p["serials"]]
    for sp in p.get("spell", []):
        out.append({"sp": sp, "rd": reading(sp, p["serials"])})
    return out


def spell_config(tier, seed):
    """Serials 8, 9, 10 and requests that spell them in other ways than canonical decimal."""
    big = tier == "thorough"
    return dict(owners=["A", "B"], serials=["s8", "s9", "s10"], bodies=2, foreign=[], max_ops=4 if big else 3,
                page_sizes=[0, 1], spell=list(SPELL_ALPHABET), queries="new", n_paths=40 if big else 12,
                path_len=20 if big else 12, n_deliver=10 if big else 4, chunks=8 if big else 4, light=True)


# ------------------------------------------------------------------------------------------------
# parameters of a run

def params_for(tier, seed):
    rnd = random.Random(seed)
    if tier == "quick":
        # 0, 1, one of the classic sizes and one serial longer than 20 octets
        serials = ["z0", "s1", rnd.choice(MID_CLASSES), rnd.choice(BIG_CLASSES)]
        serials = [c for c in ALL_CLASSES if c in serials]
        return dict(owners=["A", "B"], serials=serials, bodies=2, foreign=[rnd.choice(serials)], max_ops=4,
                    page_sizes=[0, 1, 2],
                    queries="new", n_paths=30, path_len=14, n_deliver=8, chunks=12)
    serials = ["z0", "s1", "s256", "s2e64", "s2e159", rnd.choice(BIG_CLASSES)]
    return dict(owners=["A", "B"], serials=serials, bodies=2, foreign=[rnd.choice(serials)], max_ops=5,
                page_sizes=[0, 1, 2, 3],
                queries="new", n_paths=100, path_len=28, n_deliver=40, chunks=16)


def tla_set(xs):
    return "{" + ", ".join(json.dumps(x) if isinstance(x, str) else str(x) for x in xs) + "}"


def make_cfg(base_name, p, impl=None, max_ops=None):
    """Constants of this run substituted into a shipped cfg file."""
    text = open(os.path.join(SPEC_DIR, base_name)).read()
    text = re.sub(r"Owners = \{[^}]*\}", "Owners = " + tla_set(p["owners"]), text)
    text = re.sub(r"Serials = \{[^}]*\}", "Serials = " + tla_set(p["serials"]), text)
    fb = p["bodies"] + 1      # the not-self-issued body (subject = owner, issuer = another owner)
    text = re.sub(r"\bBodies = \{[^}]*\}", "Bodies = " + tla_set(list(range(1, fb + 1))), text)
    text = re.sub(r"ForeignBodies = \{[^}]*\}", "ForeignBodies = " + tla_set([fb]), text)
    text = re.sub(r"ForeignSerials = \{[^}]*\}", "ForeignSerials = " + tla_set(p.get("foreign", [])), text)
    text = re.sub(r"PageSizes = \{[^}]*\}", "PageSizes = " + tla_set(p["page_sizes"]), text)
    if impl is not None:
        text = re.sub(r'Impl = "[a-z]*"', 'Impl = "%s"' % impl, text)
    text = re.sub(r"MaxOps = \d+", "MaxOps = %d" % (p["max_ops"] if max_ops is None else max_ops), text)
    return text


def keys_module(keyorder, p=None):
    body = ", ".join('<<"%s","%s">>' % (o, s) for o, s in keyorder)
    if p is None:
        spl = [{"sp": "", "rd": s} for s in sorted(set(s for _, s in keyorder))]
    else:
        spl = spellings_of(p)
    spl_txt = ", ".join("[sp |-> %s, rd |-> %s]" % (json.dumps(x["sp"]), json.dumps(x["rd"])) for x in spl)
    return ("------------------------------ MODULE CertKeys ------------------------------\n"
            "\\* generated from `vh cert info` for this run\n"
            "KeySeqGen == << %s >>\n"
            "SpellingsGen == { %s }\n"
            "=============================================================================\n" % (body, spl_txt))


def vh_args(p):
    return ["--owners", ",".join(p["owners"]), "--serials", ",".join(p["serials"]), "--bodies", str(p["bodies"]),
            "--pagesizes", ",".join(str(x) for x in p["page_sizes"]), "--foreign", ",".join(p.get("foreign", [])),
            "--spellings", json.dumps(spellings_of(p))]


# ------------------------------------------------------------------------------------------------
# J2: edges from TLC, scripts

def state_id(codes, keyorder):
    parts = []
    for c, (o, s) in zip(codes, keyorder):
        if c:
            parts.append("%s/%s=%s%d" % (o, s, "v" if c < 20 else "r", c % 10))
    return ",".join(sorted(parts))


def export_edges(p, keys_mod, keyorder, out_path):
    cfg = make_cfg("MC_Cert_export.cfg", p)
    r = vlib.tlc(SPEC_DIR, "CertMC", "export.cfg", workers=4, timeout=1500,
                 extra_files={"export.cfg": cfg, "CertKeys.tla": keys_mod})
    vlib.tlc_require_ok(r, "J2 edge export")
    n = 0
    with open(out_path, "w") as fh:
        for line in r.out.splitlines():
            if not line.startswith('"{'):
                continue
            try:
                e = json.loads(json.loads(line))
            except ValueError:
                raise vlib.Inconclusive("J2 export: unparsable edge line: " + line[:200])
            a = e["act"]
            a.pop("ok", None)
            fh.write(json.dumps({"from": state_id(e["from"], keyorder), "act": a,
                                 "to": state_id(e["to"], keyorder)}) + "\n")
            n += 1
    if n != r.generated - 1:
        raise vlib.Inconclusive("J2 export: %d edges printed but TLC generated %d successors" % (n, r.generated - 1))
    return n, r


def random_scripts(p, seed, n, length):
    """Longer linear scripts (mostly admissible transactions, some inadmissible) so that registries hold more
    certificates than a page: the bounded graph only reaches MaxOps of them."""
    rnd = random.Random(seed * 7919 + 17)
    owners, fb = p["owners"], p["bodies"] + 1
    issuer = {o: owners[(i + 1) % len(owners)] for i, o in enumerate(owners)}   # as `vh cert info` reports

    def body(s):
        # certificates of the foreign-issued classes are often the not-self-issued body
        if s in p.get("foreign", []) and rnd.random() < 0.5:
            return fb
        return rnd.randint(1, p["bodies"])
    spelled = [x for x in spellings_of(p) if x["sp"]]
    scripts = []
    for _ in range(n):
        reg = {}
        sc = []
        for _ in range(length):
            roll = rnd.random()
            o = rnd.choice(p["owners"])
            s = rnd.choice(p["serials"])
            free = [(oo, ss) for oo in p["owners"] for ss in p["serials"] if (oo, ss) not in reg]
            valid = [k for k, v in reg.items() if v == "valid"]
            if roll < 0.55 and free:
                o, s = rnd.choice(free)
                a = dict(k="create", signer=o, mo=o, o=o, s=s, b=body(s))
            elif roll < 0.75 and valid:
                o, s = rnd.choice(valid)
                a = dict(k="revoke", signer=o, mo="", o=o, s=s, b=0)
                if spelled and rnd.random() < 0.6:
                    x = rnd.choice(spelled)      # the serial spelled some other way; s = what it names in decimal
                    a.update(s=x["rd"], sp=x["sp"])
            elif roll < 0.85:
                other = rnd.choice(p["owners"])
                mo = rnd.choice([o, other])
                a = dict(k="create", signer=other, mo=mo, o=o, s=s, b=body(s))
                if a["b"] == fb and rnd.random() < 0.6:
                    # the account in the ISSUER name submits, under its own name, the certificate that names o
                    a.update(signer=issuer[o], mo=issuer[o])
            elif roll < 0.93:
                a = dict(k="revoke", signer=rnd.choice(p["owners"]), mo="", o=o, s=s, b=0)
            else:
                a = dict(k="create", signer=o, mo=o, o=o, s=s, b=body(s))
            # bookkeeping of what the script intends (only to bias the generator; nothing is judged here)
            if a["k"] == "create" and a["signer"] == a["mo"] == a["o"] and (a["o"], a["s"]) not in reg:
                reg[(a["o"], a["s"])] = "valid"
            elif a["k"] == "revoke" and a["signer"] == a["o"] and reg.get((a["o"], a["s"])) == "valid":
                reg[(a["o"], a["s"])] = "revoked"
            sc.append(a)
        scripts.append(sc)
    return scripts


# ------------------------------------------------------------------------------------------------
# J3

def split_chunks(lines, n):
    """Split the trace at `load` lines into about n chunks of similar size."""
    if n <= 1 or len(lines) < 2 * n:
        return [(0, lines)]
    target = len(lines) / float(n)
    chunks, cur, start = [], [], 0
    for i, ln in enumerate(lines):
        if cur and len(cur) >= target and ln.startswith('{"ev":"load"'):
            chunks.append((start, cur))
            cur, start = [], i
        cur.append(ln)
    if cur:
        chunks.append((start, cur))
    return chunks


_RE_QFAIL = re.compile(r'<<"QFAIL", "(\w+)", (\d+), (\d+)>>')
_RE_DRIFT = re.compile(r'<<"DRIFT", (.*)>>')
_RE_DTOT = re.compile(r'<<"DRIFT_TOTAL", (\d+), (\d+)>>')
_RE_CT = re.compile(r'<<"CTFAIL", "(\w+)", (\d+), (\d+)>>')
_RE_L = re.compile(r"/\\ l = (\d+)")


class J3Result:
    def __init__(self):
        self.ok = False
        self.violated = None
        self.line = None      # 1-based index (within the chunk) of the offending line
        self.qindex = None
        self.drift = 0
        self.drift_lines = []
        self.ctfails = []     # (tag, line, qindex): listings paged with count_total on which QComplete is false
        self.tlc = None


def validate(lines, p, keys_mod, scratch_dir, name, timeout=3000, cfg_name="CertTrace.cfg"):
    """Run CertTrace on one chunk of recorded lines."""
    path = os.path.join(scratch_dir, name + ".ndjson")
    with open(path, "w") as fh:
        fh.write("".join(lines))
    cfg = make_cfg(cfg_name, p, max_ops=0)
    r = vlib.tlc(SPEC_DIR, "CertTrace", "trace.cfg", workers=1, timeout=timeout,
                 extra_files={"trace.cfg": cfg, "CertKeys.tla": keys_mod}, copy_files={"trace.ndjson": path})
    j = J3Result()
    j.tlc = r
    seen = set()
    for m in _RE_DRIFT.finditer(r.out):
        if m.group(1) not in seen:
            seen.add(m.group(1))
            j.drift_lines.append(m.group(1))
    j.drift = len(seen)
    j.ctfails = sorted(set((m.group(1), int(m.group(2)), int(m.group(3))) for m in _RE_CT.finditer(r.out)),
                       key=lambda x: (x[1], x[2]))
    if r.ok:
        tot = _RE_DTOT.findall(r.out)
        if not tot:
            raise vlib.Inconclusive("J3 %s: trace not consumed to the end (no drift total printed)" % name)
        if r.depth != len(lines) + 1:
            raise vlib.Inconclusive("J3 %s: consumed %d of %d lines" % (name, r.depth - 1, len(lines)))
        j.drift = max(j.drift, max(int(x[0]) for x in tot))
        if max(int(x[1]) for x in tot) != len(j.ctfails):
            raise vlib.Inconclusive("J3 %s: count_total verdicts printed %d, counted %s" % (name, len(j.ctfails), tot))
        j.ok = True
        return j
    if r.violated is None:
        raise vlib.Inconclusive("J3 %s: TLC failed: %s" % (name, (r.error or r.out[-2000:])))
    j.violated = r.violated
    if r.violated == "T_AllConsumed":
        raise vlib.Inconclusive("J3 %s: trace not consumed to the end" % name)
    ls = _RE_L.findall(r.out)
    if ls:
        j.line = int(ls[-1])
    for m in _RE_QFAIL.finditer(r.out):
        if j.line is None or int(m.group(2)) == j.line:
            j.qindex = int(m.group(3))
            j.line = int(m.group(2))
    return j


def describe_q(q):
    f = q["f"]
    return "%s/%s f=(o=%s,s=%s%s,st=%s) ps=%d" % (q["k"], q["via"], f["o"] or "*", f["s"] or "*",
                                                  (" spelled %r" % q["sp"]) if q.get("sp") else "", f["st"] or "*", q["ps"])


def describe_act(d):
    if d["ev"] == "create":
        return "create(signer=%s,msg.owner=%s,subject-cn=%s,issuer-cn=%s,serial=%s,body=%d)" % (
            d["signer"], d["mo"], d["o"], d.get("iss", "?"), d["s"], d["b"])
    if d["ev"] == "revoke":
        return "revoke(signer=%s,id=%s/%s%s)" % (d["signer"], d["o"], d["s"],
                                                 (" spelled %r" % d["sp"]) if d.get("sp") else "")
    return d["ev"]


def act_of(d):
    return dict(k=d["ev"], signer=d["signer"], mo=d["mo"], o=d["o"], s=d["s"], b=d["b"], sp=d.get("sp", ""))


CT_KNOWN_SIG = "T_ListingComplete:list:count_total:next_key-overwritten-by-nonmatching-key"


def violation_from(j, chunk_lines, paths, p, origin, ct=None, pid="C17"):
    """Turn a TLC verdict on recorded lines into a Violation with a replayable script.
    ct = (tag, line, qindex): a count_total listing on which TLC found QComplete false (non-stopping verdict)."""
    violated, line, qindex = j.violated, j.line, j.qindex
    if ct is not None:
        violated, line, qindex = "T_ListingComplete", ct[1], ct[2]
    idx = (line or 1) - 1
    d = json.loads(chunk_lines[idx])
    prev = json.loads(chunk_lines[idx - 1]) if idx > 0 else None
    # script: how the harness reached the source state, then the step
    script = None
    if origin == "graph":
        src = d["sid"] if d["ev"] == "load" else (prev["sid"] if prev else "")
        script = list(paths.get(src, []))
        if d["ev"] != "load":
            script.append(act_of(d))
    else:
        k = idx
        script = []
        while k >= 0:
            dk = json.loads(chunk_lines[k])
            if dk["ev"] == "load":
                break
            script.insert(0, act_of(dk))
            k -= 1
    what = violated
    detail = "TLC: %s is false on line %d of the recorded trace (%s)\n" % (violated, idx + 1, origin)
    detail += "step: %s -> ok=%s %s %s\n" % (describe_act(d), d["ok"], d["stage"], d["err"])
    if d.get("note"):
        detail += "note: %s\n" % d["note"]
    if d.get("digests"):
        detail += "digests: %s\n" % d["digests"]
    if prev is not None:
        detail += "registry before: %s\n" % (prev["sid"] or "(empty)")
    detail += "registry after:  %s\n" % (d["sid"] or "(empty)")
    sig = what
    if qindex is not None and 0 < qindex <= len(d["q"]):
        q = d["q"][qindex - 1]
        detail += "query: %s -> ok=%s err=%s pages=%s\n" % (describe_q(q), q["ok"], q["err"], json.dumps(q["pages"]))
        zero = any(e["s"] == "z0" for e in d["reg"])
        sig = "%s:%s:%s%s" % (what, q["k"], "failed" if not q["ok"] else "wrong-result",
                              ":serial-0-registered" if zero else "")
        if ct is not None:
            sig = CT_KNOWN_SIG if ct[0] == "asfound" else "T_ListingComplete:list:count_total:other"
    else:
        sig = "%s:%s" % (what, d["ev"])
    detail += "script: %s\n" % json.dumps(script)
    files = {"script.ndjson": json.dumps(script) + "\n", "params.json": json.dumps(p),
             "mode.txt": "deliver" if origin == "deliver" else "paths",
             "trace_prefix.ndjson": "".join(chunk_lines[max(0, idx - 3): idx + 1])}
    if pid != "C17":
        sig = "%s:cert:%s" % (pid, sig)
    return vlib.Violation(pid, sig, detail, files)


# ------------------------------------------------------------------------------------------------
# binding self-test: corrupt recorded material, TLC must reject

def selftest(lines, p, keys_mod, sdir):
    """Three corruptions of a genuine recorded prefix; each must be rejected by TLC (CertTrace)."""
    # a prefix that contains at least two accepted steps with query results
    pref, acc = [], 0
    for ln in lines:
        pref.append(ln)
        d = json.loads(ln)
        if d["ev"] != "load" and d["ok"] and d["hasq"]:
            acc += 1
        if acc >= 2 and len(pref) >= 6:
            break
    if acc < 1:
        return {"ran": False, "reason": "no accepted step recorded"}
    objs = [json.loads(x) for x in pref]
    results = {}

    ex = concurrent.futures.ThreadPoolExecutor(max_workers=5)
    futs = {}

    def run(name, mutated):
        futs[name] = ex.submit(validate, [json.dumps(o, separators=(",", ":")) + "\n" for o in mutated], p, keys_mod,
                               sdir, "selftest-" + name)

    fbase = ex.submit(validate, pref, p, keys_mod, sdir, "selftest-base")
    # (1) drop one certificate from one listing page
    m = json.loads(json.dumps(objs))
    done = False
    for o in m:
        for q in o["q"]:
            if q["k"] == "list" and q["ok"] and q["pages"] and q["pages"][0]:
                q["pages"][0] = q["pages"][0][1:]
                done = True
                break
        if done:
            break
    run("drop_listed_item", m)
    # (2) report a listing as failed
    m = json.loads(json.dumps(objs))
    for o in m:
        if o["q"]:
            o["q"][len(o["q"]) // 2]["ok"] = False
            break
    run("listing_failed", m)
    # (3) drop the event of an accepted transaction: the certificate then appears out of nowhere
    m = json.loads(json.dumps(objs))
    for i, o in enumerate(m):
        if o["ev"] == "create" and o["ok"] and i + 1 < len(m):
            nxt = m[i + 1]
            if nxt["ev"] != "load":
                del m[i]
                break
            # next line is a load: turn the create into a refused revoke by someone else, keeping its effect
            o["ev"], o["ok"] = "revoke", False
            break
    run("drop_create_event", m)
    # (4) un-revoke / flip a state in a projected registry without an event
    m = json.loads(json.dumps(objs))
    for i, o in enumerate(m):
        if o["ev"] != "load" and o["reg"] and not (o["ev"] == "revoke" and o["ok"]):
            e = o["reg"][0]
            if e["st"] == "valid":
                e["st"] = "revoked"
                o["q"], o["hasq"] = [], False
                break
    run("flip_state", m)
    base = fbase.result()
    results["unmodified"] = "accepted" if base.ok else "rejected:" + str(base.violated)
    for name, f in futs.items():
        j = f.result()
        results[name] = "rejected:" + str(j.violated) if not j.ok else "ACCEPTED"
    ex.shutdown()
    results["ok"] = (results["unmodified"] == "accepted" and
                     all(v.startswith("rejected") for k, v in results.items() if k not in ("unmodified", "ok")))
    return results


# ------------------------------------------------------------------------------------------------

def run_harness(vh, mode, p, infile, outfile, extra=None):
    cmd = [vh, "cert", mode] + vh_args(p) + ["--in", infile, "--out", outfile] + (extra or [])
    rc, txt = vlib.run(cmd, timeout=3000)
    if rc != 0:
        raise vlib.Inconclusive("harness `vh cert %s` failed rc=%d:\n%s" % (mode, rc, txt[-3000:]))
    try:
        return json.loads(txt.strip().splitlines()[-1])
    except (ValueError, IndexError):
        raise vlib.Inconclusive("harness `vh cert %s`: no stats line:\n%s" % (mode, txt[-2000:]))


def validate_all(lines, p, keys_mod, sdir, name, nchunks, cfg_name="CertTrace.cfg"):
    chunks = split_chunks(lines, nchunks)
    out = []
    with concurrent.futures.ThreadPoolExecutor(max_workers=min(len(chunks), max(2, vlib.NCPU - 2))) as ex:
        futs = [ex.submit(validate, c, p, keys_mod, sdir, "%s-%d" % (name, i), 3000, cfg_name)
                for i, (_, c) in enumerate(chunks)]
        for (start, c), f in zip(chunks, futs):
            out.append((start, c, f.result()))
    return out


def second_config(seed):
    """Thorough only: three owners (C sorts before A and B: 00..01) over three serial classes."""
    rnd = random.Random(seed * 31 + 5)
    extra = rnd.choice(MID_CLASSES + BIG_CLASSES)
    serials = [c for c in ALL_CLASSES if c in ("z0", "s1", extra)]
    return dict(owners=["A", "B", "C"], serials=serials, bodies=2, foreign=[rnd.choice(serials)], max_ops=4,
                page_sizes=[0, 1, 2],
                queries="new", n_paths=40, path_len=24, n_deliver=0, chunks=8)


def third_config(seed):
    """Thorough only: every serial class beyond 20 octets next to 1 and 255, short histories."""
    serials = ["s1", "s255"] + BIG_CLASSES
    return dict(owners=["A", "B"], serials=serials, bodies=2, foreign=["s2e160"], max_ops=3, page_sizes=[0, 1, 2],
                queries="new", n_paths=40, path_len=24, n_deliver=10, chunks=8)


def explore(p, seed, vh, sdir, tag):
    """J1 + J2 + J3 for one set of constants. Returns (violations, parts) -- parts feed the evidence."""
    vlib.log("[C17] %s: owners=%s serials=%s (%s) maxops=%d" % (
        tag, p["owners"], p["serials"], ",".join(DEC[s] for s in p["serials"]), p["max_ops"]))
    rc, txt = vlib.run([vh, "cert", "info"] + vh_args(p), timeout=300)
    if rc != 0:
        raise vlib.Inconclusive("vh cert info failed:\n" + txt[-2000:])
    info = json.loads(txt.strip().splitlines()[-1])
    keyorder = [tuple(x) for x in info["keyorder"]]
    keys_mod = keys_module(keyorder, p)

    # ---- J1 (runs concurrently with J2; joined before J3)
    pool = concurrent.futures.ThreadPoolExecutor(max_workers=3)
    f_j1 = pool.submit(vlib.tlc, SPEC_DIR, "CertMC", "j1.cfg", workers=min(6, vlib.NCPU), timeout=1500,
                       extra_files={"j1.cfg": make_cfg("MC_Cert_small.cfg", p), "CertKeys.tla": keys_mod})
    # vacuity guard: the same properties must be able to fail -- the as-found variants of the model do
    light = bool(p.get("light"))      # secondary configuration of the quick tier: no vacuity guards, no self-test
    f_j1b = f_j1c = None
    if not light:
        f_j1b = pool.submit(vlib.tlc, SPEC_DIR, "CertMC", "j1b.cfg", workers=2, timeout=600,
                            extra_files={"j1b.cfg": make_cfg("MC_Cert_d4.cfg", p, max_ops=2), "CertKeys.tla": keys_mod})
        f_j1c = pool.submit(vlib.tlc, SPEC_DIR, "CertMC", "j1c.cfg", workers=2, timeout=600,
                            extra_files={"j1c.cfg": make_cfg("MC_Cert_asfound.cfg", p, max_ops=4), "CertKeys.tla": keys_mod})

    # ---- J2
    def f(name):
        return os.path.join(sdir, tag + "-" + name)

    n_edges, j2 = export_edges(p, keys_mod, keyorder, f("edges.ndjson"))
    vlib.log("[C17] J2: %d edges over %d registry states exported in %.1fs" % (n_edges, j2.distinct, j2.wall_s))
    gstats = run_harness(vh, "graph", p, f("edges.ndjson"), f("graph.ndjson"),
                         ["--queries", p["queries"], "--pathsout", f("paths.json")])
    vlib.log("[C17] J2 graph walk on the real app: %s" % json.dumps(gstats, sort_keys=True))
    if gstats.get("steps", 0) + gstats.get("unreached_edges", 0) != n_edges:
        raise vlib.Inconclusive("graph walk executed %s of %d edges" % (gstats, n_edges))
    # a store that differs from the model (or from the representative of its abstract state) is drift, never a
    # reason to stop: every step was recorded from the actual state and is judged by TLC below
    walk_drift = {k: gstats.get(k, 0) for k in ("differs_from_model", "representative_mismatch",
                                                "rematerialise_mismatch", "unreached_edges") if gstats.get(k)}
    if walk_drift:
        vlib.log("DRIFT graph walk: %s" % json.dumps(walk_drift, sort_keys=True))
    scripts = random_scripts(p, seed, p["n_paths"], p["path_len"])
    with open(f("scripts.ndjson"), "w") as fh:
        for sc in scripts:
            fh.write(json.dumps(sc) + "\n")
    pstats = run_harness(vh, "paths", p, f("scripts.ndjson"), f("scripttrace.ndjson"))
    vlib.log("[C17] J2 scripts on the real app: %s" % json.dumps(pstats, sort_keys=True))
    # the same kind of scripts as signed transactions through ante handler, blocks and commits; queries over ABCI
    dstats, dlines = {}, []
    if p["n_deliver"]:
        dscripts = random_scripts(p, seed + 1000003, p["n_deliver"], p["path_len"])
        with open(f("dscripts.ndjson"), "w") as fh:
            for sc in dscripts:
                fh.write(json.dumps(sc) + "\n")
        dstats = run_harness(vh, "deliver", p, f("dscripts.ndjson"), f("deliver.ndjson"))
        vlib.log("[C17] J2 signed transactions in blocks on the real app: %s" % json.dumps(dstats, sort_keys=True))
        dlines = open(f("deliver.ndjson")).readlines()

    j1 = f_j1.result()
    j1b = f_j1b.result() if f_j1b else None
    j1c = f_j1c.result() if f_j1c else None
    pool.shutdown()
    vlib.tlc_require_ok(j1, "J1 Cert.tla")
    vlib.log("[C17] J1: %d states, %d transitions, depth %d, %.1fs" % (j1.distinct, j1.generated, j1.depth, j1.wall_s))
    if not light and (j1b.violated != "Prop_Queries" or j1c.violated != "Prop_Queries"):
        raise vlib.Inconclusive("J1 vacuity guard: the as-found variants of the model (D4; count_total) do not "
                                "violate Prop_Queries (%r, %r)" % (j1b, j1c))

    # ---- J3
    glines = open(f("graph.ndjson")).readlines()
    plines = open(f("scripttrace.ndjson")).readlines()
    paths = json.load(open(f("paths.json")))
    t3 = time.time()
    results = [("graph", s, c, j) for s, c, j in validate_all(glines, p, keys_mod, sdir, tag + "-graph", p["chunks"])]
    results += [("paths", s, c, j) for s, c, j in
                validate_all(plines, p, keys_mod, sdir, tag + "-paths", max(2, p["chunks"] // 3))]
    if dlines:
        results += [("deliver", s, c, j) for s, c, j in
                    validate_all(dlines, p, keys_mod, sdir, tag + "-deliver", max(2, p["chunks"] // 4))]
    nlines = len(glines) + len(plines) + len(dlines)
    vlib.log("[C17] J3: %d lines validated by TLC in %.1fs" % (nlines, time.time() - t3))
    violations, drift, n_ct = [], 0, 0
    ct_seen = set()
    for origin, start, chunk, j in results:
        drift += j.drift
        for dl in j.drift_lines[:20]:
            vlib.log("DRIFT %s chunk@%d: %s" % (origin, start, dl))
        if not j.ok:
            violations.append(violation_from(j, chunk, paths, p, origin))
        n_ct += len(j.ctfails)
        for ct in j.ctfails:      # one representative per kind: the first (shortest in the graph walk)
            if ct[0] not in ct_seen:
                ct_seen.add(ct[0])
                violations.append(violation_from(j, chunk, paths, p, origin, ct=ct))
    # distinct non-trivial: distinct (source registry, transaction) pairs executed whose transaction was accepted,
    # plus distinct non-empty registries whose full query set was judged
    accepted_pairs, judged_states = set(), set()
    prev_sid = ""
    nq = 0
    for ln in glines + plines + dlines:
        d = json.loads(ln)
        if d["ev"] != "load" and d["ok"]:
            accepted_pairs.add((prev_sid, d["ev"], d["signer"], d["o"], d["s"], d["b"]))
        if d["hasq"]:
            nq += len(d["q"])
            if d["sid"]:
                judged_states.add(d["sid"])
        prev_sid = d["sid"]
    stopped = any(not j.ok for _, _, _, j in results)
    if light:
        st = {"ran": False, "reason": "secondary configuration"}
    else:
        st = selftest(glines, p, keys_mod, sdir) if not stopped else {"ran": False, "reason": "violations present"}
    if not stopped and not light and not st.get("ok"):
        raise vlib.Inconclusive("binding self-test failed: %s" % json.dumps(st))
    samples = []
    for sid in list(paths.keys())[-2:]:
        samples.append({"graph_state": sid, "reached_by": paths[sid]})
    samples.append({"script": scripts[0][:8]})
    parts = {
        "states": j1.distinct, "transitions": j1.generated,
        "traces": gstats.get("segments", 0) + 1 + pstats.get("segments", 0) + dstats.get("segments", 0),
        "evaluations": gstats.get("steps", 0) + pstats.get("steps", 0) + dstats.get("steps", 0),
        "nq": nq, "n_ct": n_ct, "distinct": len(accepted_pairs) + len(judged_states), "samples": samples,
        "drift": drift, "walk_drift": walk_drift, "selftest": st, "lines": nlines,
        "config": {"owners": p["owners"], "serials": {s: DEC[s] for s in p["serials"]}, "max_ops": p["max_ops"],
                   "page_sizes": p["page_sizes"], "page_modes": ["key", "total", "offset"], "bodies": p["bodies"],
                   "spellings": [x for x in spellings_of(p) if x["sp"]],
                   "not_self_issued": {"body": p["bodies"] + 1, "serials": p.get("foreign", []),
                                       "issuer_of": info.get("foreign_issuer_of")},
                   "keyorder": ["%s/%s" % k for k in keyorder]},
        "j1": {"distinct": j1.distinct, "generated": j1.generated, "depth": j1.depth, "wall_s": round(j1.wall_s, 1),
               "d4_variant_violates": j1b.violated if j1b else None,
               "asfound_variant_violates": j1c.violated if j1c else None},
        "j2": {"edges": n_edges, "graph": gstats, "scripts": pstats, "signed_tx_scripts": dstats},
    }
    return violations, parts


def run(pid, tier, seed, replay):
    t0 = time.time()
    vh = vlib.build_harness()
    sdir = vlib.scratch("cert-")
    if replay:
        return run_replay(pid, tier, seed, replay, vh, sdir, t0)
    vlib.log("[C17] tier=%s seed=%s" % (tier, seed))
    configs = [("main", params_for(tier, seed)), ("spell", spell_config(tier, seed))]
    if tier == "thorough":
        configs.append(("owners3", second_config(seed)))
        configs.append(("bigserials", third_config(seed)))
    violations, allparts = [], []
    for tag, p in configs:
        v, parts = explore(p, seed, vh, sdir, tag)
        violations += v
        allparts.append((tag, parts))
    # one representative per signature
    seen, uniq = set(), []
    for v in violations:
        if v.signature not in seen:
            seen.add(v.signature)
            uniq.append(v)
    main = allparts[0][1]
    coverage = {
        "states": sum(x["states"] for _, x in allparts), "transitions": sum(x["transitions"] for _, x in allparts),
        "traces_validated_against_impl": sum(x["traces"] for _, x in allparts),
        "evaluations": sum(x["evaluations"] for _, x in allparts),
        "query_results_judged": sum(x["nq"] for _, x in allparts),
        "count_total_listings_incomplete": sum(x["n_ct"] for _, x in allparts),
        "distinct_nontrivial": sum(x["distinct"] for _, x in allparts),
        "rule": "graph walk: every edge (registry state, transaction) of TLC's bounded transaction graph executed once on the "
                "real app from a stored representative of its source state; scripts: seeded random transaction sequences "
                "from the empty registry, once through the emulated runTx and once (other scripts) as signed transactions "
                "delivered in blocks with commits and ABCI queries. distinct_nontrivial = distinct (source registry, "
                "accepted transaction) pairs + distinct non-empty registries on which all queries (filters x page sizes x "
                "paging styles, iterators, lookups) were judged",
        "samples": main["samples"],
        "exhaustive": all(not x["walk_drift"].get("unreached_edges") for _, x in allparts),
        "drift_steps": sum(x["drift"] for _, x in allparts),
        "graph_walk_drift": {tag: x["walk_drift"] for tag, x in allparts},
        "binding_selftest": main["selftest"],
        "configs": {tag: x["config"] for tag, x in allparts},
        "j1": {tag: x["j1"] for tag, x in allparts},
        "j2": {tag: x["j2"] for tag, x in allparts},
        "trace_lines": sum(x["lines"] for _, x in allparts),
    }
    assumptions = [
        "graph walk and plain scripts: a transaction is emulated as baseapp.runTx minus fees: GetSigners() must be exactly "
        "the signing account, ValidateBasic, then the handler the app registered in its MsgServiceRouter on a CacheContext "
        "branch; the signed-transaction scripts go through the real ante handler, DeliverTx, Commit and ABCI Query instead",
        "in the graph walk one concrete store (a CacheContext branch rebuilt from its script) represents each abstract "
        "registry; the harness checks that every other way of reaching it yields byte-identical store contents",
        "the projected registry is read from the raw store values (x509 body -> owner CN, serial), not through the keeper",
        "pagination: the union of the pages obtained by following next_key (DESIGN 5.1), also with count_total set, and "
        "by stepping the offset",
        "entries a listing returns beyond those its filter matches are drift, not a violation",
    ]
    return vlib.finish(pid, tier, seed, "model_checking", coverage, t0, uniq, assumptions)


# ------------------------------------------------------------------------------------------------
# stages run on behalf of the chain family (tools/checks/chain.py): certificate transactions for C06 and C07

def _info(vh, p):
    rc, txt = vlib.run([vh, "cert", "info"] + vh_args(p), timeout=300)
    if rc != 0:
        raise vlib.Inconclusive("vh cert info failed:\n" + txt[-2000:])
    info = json.loads(txt.strip().splitlines()[-1])
    keyorder = [tuple(x) for x in info["keyorder"]]
    return keyorder, keys_module(keyorder, p)


def _small_main():
    return dict(owners=["A", "B"], serials=["z0", "s1", "s256"], bodies=2, foreign=["s1"], max_ops=3, page_sizes=[0],
                queries="none", n_deliver=4, path_len=10, chunks=4, light=True)


def _stage_c06(pid, vh, tier, seed, sdir):
    """C06 for certificates: GetSigners() of create / revoke is exactly the owner the message names (T_C06_Signers);
    a create / revoke changes no record but the owner+serial it names, decimal reading (T_C06_Touch)."""
    violations, cov = [], {"states": 0, "transitions": 0, "traces_validated_against_impl": 0, "evaluations": 0,
                           "configs": {}, "drift_steps": 0}
    sp = spell_config("quick", seed)
    sp.update(queries="none", n_deliver=4, path_len=10)
    for tag, p in (("spell", sp), ("main", _small_main())):
        keyorder, keys_mod = _info(vh, p)

        def f(name):
            return os.path.join(sdir, "c06-%s-%s" % (tag, name))
        n_edges, j2 = export_edges(p, keys_mod, keyorder, f("edges.ndjson"))
        gstats = run_harness(vh, "graph", p, f("edges.ndjson"), f("graph.ndjson"),
                             ["--queries", "none", "--pathsout", f("paths.json")])
        dscripts = random_scripts(p, seed + 77, p["n_deliver"], p["path_len"])
        with open(f("dscripts.ndjson"), "w") as fh:
            for sc in dscripts:
                fh.write(json.dumps(sc) + "\n")
        dstats = run_harness(vh, "deliver", p, f("dscripts.ndjson"), f("deliver.ndjson"), ["--queries", "none"])
        paths = json.load(open(f("paths.json")))
        for origin, fn, n in (("graph", f("graph.ndjson"), p["chunks"]), ("deliver", f("deliver.ndjson"), 1)):
            lines = open(fn).readlines()
            for start, chunk, j in validate_all(lines, p, keys_mod, sdir, "c06-%s-%s" % (tag, origin), n, "CertTraceC06.cfg"):
                cov["drift_steps"] += j.drift
                if not j.ok:
                    violations.append(violation_from(j, chunk, paths, p, origin, pid=pid))
        cov["states"] += j2.distinct
        cov["transitions"] += n_edges
        cov["evaluations"] += gstats.get("steps", 0) + dstats.get("steps", 0)
        cov["traces_validated_against_impl"] += gstats.get("segments", 0) + 1 + dstats.get("segments", 0)
        cov["configs"][tag] = {"owners": p["owners"], "serials": p["serials"], "max_ops": p["max_ops"],
                               "spellings": len(p.get("spell", [])), "graph": gstats, "signed_tx": dstats}
    cov["samples"] = [{"signed_tx_script": dscripts[0][:6]}]
    cov["rule"] = ("every edge of TLC's bounded certificate-transaction graph (Cert.tla, queries off) executed once on the "
                   "real app, plus signed transactions delivered in blocks; TLC judges T_C06_Signers and T_C06_Touch")
    return violations, cov


def _stage_c07(pid, vh, tier, seed, sdir):
    """C07 for certificates: repeated executions of the same create / revoke on the same state, in two application
    instances, before and after the wall clock passed the validity edge of timed certificates, must agree."""
    p = dict(owners=["A", "B"], serials=["z0", "s1", "s8", "s10"], bodies=2, foreign=["s1"], max_ops=0, page_sizes=[0],
             spell=list(SPELL_ALPHABET), queries="none")
    keyorder, keys_mod = _info(vh, p)
    nbf, naf = p["bodies"] + 2, p["bodies"] + 3    # becomes valid at the edge / expires at the edge
    rnd = random.Random(seed * 131 + 7)
    # the timed certificates first, so that pass A meets them well before the edge
    first = []
    for o in p["owners"]:
        for s, b in (("s1", nbf), ("s8", naf), ("z0", nbf)):
            first.append(dict(k="create", signer=o, mo=o, o=o, s=s, b=b, sp=""))
    first.append(dict(k="revoke", signer="A", mo="", o="A", s="s1", b=0, sp=""))
    first.append(dict(k="revoke", signer="B", mo="", o="B", s="s8", b=0, sp="010"))
    scripts = [first]
    for sc in random_scripts(p, seed + 99, 14 if tier == "quick" else 60, 12):
        for a in sc:
            if a["k"] == "create" and rnd.random() < 0.3:
                a["b"] = rnd.choice([nbf, naf])
        scripts.append(sc)
    inp, outp = os.path.join(sdir, "c07-scripts.ndjson"), os.path.join(sdir, "c07-det.ndjson")
    with open(inp, "w") as fh:
        for sc in scripts:
            fh.write(json.dumps(sc) + "\n")
    stats = run_harness(vh, "det", p, inp, outp, ["--queries", "none", "--reps", "2", "--window", "2500"])
    if not stats.get("timed_before_edge") or not stats.get("timed_after_edge"):
        raise vlib.Inconclusive("C07 certificate stage: timed certificates were not executed on both sides of their "
                                "validity edge (%s)" % json.dumps(stats))
    lines = open(outp).readlines()
    violations = []
    for start, chunk, j in validate_all(lines, p, keys_mod, sdir, "c07", 2, "CertTraceC07.cfg"):
        if not j.ok:
            violations.append(violation_from(j, chunk, {}, p, "paths", pid=pid))
    cov = {"evaluations": stats.get("executions", 0), "steps": stats.get("steps", 0),
           "traces_validated_against_impl": stats.get("segments", 0), "det": stats,
           "samples": [{"timed_script": first[:4]}],
           "rule": "every certificate transaction of every script executed 2x on sibling branches in one application "
                   "instance, then, after the wall clock passed the validity edge of the timed certificate bodies "
                   "(NotBefore / NotAfter = edge), 2x in a second instance; digests = result, error text, gas, events, "
                   "store bytes; TLC judges T_Deterministic"}
    return violations, cov


def extra_stage(pid, vh, tier, seed):
    """Certificate transactions for a property of the chain family. pid "C06" or "C07"; vh = path of the built harness
    binary (vlib.build_harness()). Returns (violations, coverage): violations are vlib.Violation objects carrying the
    GIVEN pid; coverage is a dict to merge into the caller's evidence. Raises vlib.Inconclusive on tool trouble."""
    sdir = vlib.scratch("cert-%s-" % pid.lower())
    t0 = time.time()
    if pid == "C06":
        v, cov = _stage_c06(pid, vh, tier, seed, sdir)
    elif pid == "C07":
        v, cov = _stage_c07(pid, vh, tier, seed, sdir)
    else:
        return [], {}
    seen, uniq = set(), []
    for x in v:
        if x.signature not in seen:
            seen.add(x.signature)
            uniq.append(x)
    cov["wall_s"] = round(time.time() - t0, 1)
    return uniq, {"cert_stage": cov}


def run_replay(pid, tier, seed, replay, vh, sdir, t0):
    """Re-execute a saved script on the current tree and re-judge it."""
    p = json.load(open(os.path.join(replay, "params.json")))
    script = os.path.join(replay, "script.ndjson")
    rc, txt = vlib.run([vh, "cert", "info"] + vh_args(p), timeout=300)
    if rc != 0:
        raise vlib.Inconclusive("vh cert info failed:\n" + txt[-2000:])
    info = json.loads(txt.strip().splitlines()[-1])
    keyorder = [tuple(x) for x in info["keyorder"]]
    keys_mod = keys_module(keyorder, p)
    out = os.path.join(sdir, "replay.ndjson")
    mode = "paths"
    if os.path.exists(os.path.join(replay, "mode.txt")):
        mode = open(os.path.join(replay, "mode.txt")).read().strip() or "paths"
    stats = run_harness(vh, mode, p, script, out)
    lines = open(out).readlines()
    j = validate(lines, p, keys_mod, sdir, "replay")
    for dl in j.drift_lines[:20]:
        vlib.log("DRIFT replay: %s" % dl)
    violations = [] if j.ok else [violation_from(j, lines, {}, p, "paths")]
    seen = set()
    for ct in j.ctfails:
        if ct[0] not in seen:
            seen.add(ct[0])
            violations.append(violation_from(j, lines, {}, p, "paths", ct=ct))
    coverage = {"evaluations": stats.get("steps", 0), "distinct_nontrivial": max(2, stats.get("accepted", 0)),
                "rule": "replay of one saved script", "samples": [json.loads(open(script).readline())],
                "states": 1, "transitions": max(1, stats.get("steps", 0)), "traces_validated_against_impl": 1,
                "drift_steps": j.drift, "replay": replay}
    # a replay does not overwrite the evidence of the property
    new = [v for v in violations if not vlib.known_finding(pid, v.signature)]
    for v in violations:
        vlib.log("[%s] replay verdict: %s\n%s" % (pid, v.signature, v.detail))
    for v in violations:
        kf = vlib.known_finding(pid, v.signature)
        if kf:
            print("KNOWN-FINDING: property=%s %s" % (pid, kf.get("what", v.signature)), flush=True)
    if new:
        print("VIOLATION property=%s replay=%s" % (pid, replay), flush=True)
        return 1
    print("OK property=%s replay=%s" % (pid, replay), flush=True)
    return 0
