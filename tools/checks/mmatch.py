"""C10 - manifest integrity (family mmatch).

J1  TLC model-checks spec/mmatch/ManifestMatch.tla: the greedy matching loop of validation/manifest.go transcribed
    as recursive operators = the independent multiset oracle, for every (deployment groups, manifest) pair within
    the configured bounds, soundness and completeness; plus ManifestGate.tla (the version gate, hash uninterpreted
    injective).
J2  the same TLC runs print the enumerated pairs (every match, every near miss, a seeded sample of the rest);
    `vh mmatch run` concretises each under 6 schemes into real manifest.Manifest / dtypes.Group values and runs the
    real validation functions, the real provider/manifest Service.Submit path (version gate) and the real
    sdl.ManifestVersion (bases, JSON key orders, every single-field mutation found by reflection). The gate scenarios
    include BATCHES (several Submit calls queued while the scripted chain query is held in flight) and record what the
    provider announces on the real bus (event.ManifestReceived), which is judged like the replies.
J3  TLC (ManifestMatchTrace.tla) judges the recorded observations with the same TLA+ definitions.
"""
import json
import os
import re
import time

import vlib

PROPERTIES = ["C10"]
SPEC = os.path.join(vlib.SPEC, "mmatch")

# (cfg, module, exports pairs?)
QUICK = [("MC_q_res", True), ("MC_q_ep", True), ("MC_q_grp", True), ("MC_q_grp3", True), ("MC_q_zero", True), ("MC_q_act", False)]
THOROUGH = [("MC_q_ep", True), ("MC_q_zero", True), ("MC_q_grp3", True), ("MC_t_act", False), ("MC_t_res", True), ("MC_t_grp", True),
            ("MC_t_u3r3c4", True), ("MC_t_u3r4c2", False), ("MC_t_ep", True), ("MC_t_grp2", True),
            ("MC_t_grp3", True), ("MC_t_zero", False), ("MC_t_u2r4c4", False), ("MC_t_u3r4c4", False)]

_RE_BAD = re.compile(r'^<<"BAD", "(\w+)", (\d+)>>$', re.M)
_RE_DRIFT = re.compile(r'^<<"DRIFTLINE", (\d+)>>$', re.M)
_RE_MSPACE = re.compile(r'<<"MSPACE", (\d+)>>')
_RE_CEX = re.compile(r'^<<"COUNTEREXAMPLE", (".*")>>$', re.M)


def tlc(*a, **kw):
    """vlib.tlc, retried when the JVM ends abnormally (no "Finished in", no TLC error message): on the shared box
    TLC processes are occasionally killed from outside (memory pressure, other jobs' clean-up)."""
    for attempt in (1, 2, 3):
        r = vlib.tlc(*a, **kw)
        if "Finished in" in r.out or "Error:" in r.out or attempt == 3:
            return r
        vlib.log("[C10] TLC ended abnormally (rc=%s, %d bytes of output), retrying (%d/2)" % (r.rc, len(r.out), attempt))
    return r


def _cfg_with_seed(cfg, seed, slice_mod=1):
    """The cfg text with SampleRes (and, for a sliced run, SliceRes) derived from the seed."""
    text = open(os.path.join(SPEC, cfg + ".cfg")).read()
    m = re.search(r"SampleMod = (\d+)", text)
    mod = int(m.group(1)) if m else 1
    text = re.sub(r"SampleRes = \d+", "SampleRes = %d" % (seed % mod), text)
    text = re.sub(r"SliceMod = \d+", "SliceMod = %d" % slice_mod, text)
    return re.sub(r"SliceRes = \d+", "SliceRes = %d" % (seed % slice_mod), text)


# the two largest configurations: pairs they enumerate, and the wall-clock budget each may use. Their SliceMod is
# chosen from the pair rate measured on this machine in this run (1 = exhaustive, which is what an otherwise idle
# 16-core box gets); a loaded box judges a seeded 1/SliceMod share of the chain states (against EVERY manifest) and
# the evidence says so.
HEAVY = {"MC_t_u2r4c4": 21920000, "MC_t_u3r4c4": 89200000}
HEAVY_BUDGET_S = 420


def _exported(out):
    pairs = []
    for line in out.splitlines():
        if line.startswith('"{'):
            try:
                pairs.append(json.loads(line))   # TLC prints the JSON text as a TLA+ string
            except ValueError:
                raise vlib.Inconclusive("unparsable export line from TLC: %s" % line[:200])
    return pairs


def j1(tier, seed, cov):
    """Model-check every configuration; return the list of exported pair texts (deduplicated, ordered)."""
    cfgs = QUICK if tier == "quick" else THOROUGH
    seen, pairs, cex = set(), [], []
    states = transitions = pair_evals = 0
    configs = {}
    rate = None   # pairs per second, measured on the larger configurations of this run
    for cfg, _exports in cfgs:
        name = "seeded_" + cfg + ".cfg"
        t0 = time.time()
        slice_mod = 1
        if cfg in HEAVY and rate:
            slice_mod = max(1, int(-(-HEAVY[cfg] // (rate * HEAVY_BUDGET_S))))
        r = tlc(SPEC, "MCMatch", name, extra_files={name: _cfg_with_seed(cfg, seed, slice_mod)}, heap="6g",
                timeout=1500 if tier == "quick" else 3000)
        for txt in _RE_CEX.findall(r.out):
            cex.append(json.loads(txt))
        if not r.ok and not cex:
            vlib.tlc_require_ok(r, "J1 " + cfg)
        m = _RE_MSPACE.search(r.out)
        msp = int(m.group(1)) if m else 1
        judged_states = r.out.count('"EVAL"') if slice_mod > 1 else r.distinct
        n_pairs = judged_states * msp if m else r.distinct
        if m and n_pairs > 500000 and slice_mod == 1 and "focus" not in open(os.path.join(SPEC, cfg + ".cfg")).read():
            rr = n_pairs / max(1.0, time.time() - t0 - 3)
            rate = rr if rate is None else max(rate, rr)
        if slice_mod > 1:
            cov["exhaustive"] = False
        states += r.distinct
        transitions += r.generated
        pair_evals += n_pairs
        got = 0
        for p in _exported(r.out):
            if p not in seen:
                seen.add(p)
                pairs.append(p)
                got += 1
        configs[cfg] = {"distinct_states": r.distinct, "generated": r.generated, "manifest_space": msp if m else None,
                        "pairs_checked": n_pairs, "pairs_exported": got, "wall_s": round(time.time() - t0, 1),
                        "slice": "1/%d of the chain states (seeded), every manifest" % slice_mod if slice_mod > 1 else "all",
                        "ok": r.ok}
        vlib.log("[C10] J1 %-12s states=%d pairs=%d exported=%d %.1fs %s%s" % (
            cfg, r.distinct, n_pairs, got, time.time() - t0, "ok" if r.ok else "COUNTEREXAMPLE",
            " (slice 1/%d)" % slice_mod if slice_mod > 1 else ""))
    # derived manifests (split / merge / reorder / slightly alter): exhaustive small, simulation large
    t0 = time.time()
    r = tlc(SPEC, "MCDerive", "MC_drv_small.cfg", timeout=900)
    vlib.tlc_require_ok(r, "J1 MC_drv_small")
    configs["MC_drv_small"] = {"distinct_states": r.distinct, "generated": r.generated, "wall_s": round(time.time() - t0, 1), "ok": True}
    states += r.distinct
    transitions += r.generated
    t0 = time.time()
    n_sim = 12 if tier == "quick" else 150
    r = tlc(SPEC, "MCDerive", "MC_drv_sim.cfg", workers=1, timeout=1500, simulate=dict(num=n_sim, depth=40, seed=seed))
    vlib.tlc_require_ok(r, "J1 MC_drv_sim (simulation)")
    m = re.search(r"(\d+) states checked", r.out)
    sim_states = int(m.group(1)) if m else 0
    got = 0
    for p in _exported(r.out):
        if p not in seen:
            seen.add(p)
            pairs.append(p)
            got += 1
    configs["MC_drv_sim"] = {"simulation": True, "behaviours": n_sim, "states_checked": sim_states, "pairs_exported": got,
                             "wall_s": round(time.time() - t0, 1), "ok": True}
    vlib.log("[C10] J1 derive: small exhaustive %d states; simulation %d behaviours, %d states, %d pairs exported" % (
        configs["MC_drv_small"]["distinct_states"], n_sim, sim_states, got))
    # the version gate
    t0 = time.time()
    r = tlc(SPEC, "MCGate", "MC_gate.cfg", timeout=900)
    vlib.tlc_require_ok(r, "J1 MC_gate")
    configs["MC_gate"] = {"distinct_states": r.distinct, "generated": r.generated, "wall_s": round(time.time() - t0, 1), "ok": True}
    states += r.distinct
    transitions += r.generated
    # the gate with batched submissions (requests queued while the chain query is in flight) and announcements
    t0 = time.time()
    r = tlc(SPEC, "MCGate", "MC_gate_batch.cfg", timeout=1500)
    vlib.tlc_require_ok(r, "J1 MC_gate_batch")
    configs["MC_gate_batch"] = {"distinct_states": r.distinct, "generated": r.generated, "wall_s": round(time.time() - t0, 1), "ok": True}
    states += r.distinct
    transitions += r.generated
    # non-vacuity: under the rule "keep the first QUEUED request of a batch" TLC must refute AnnounceSound
    rv = tlc(SPEC, "MCGate", "MC_gate_batch_seeded.cfg", timeout=900)
    if rv.ok or rv.violated != "AnnounceSound":
        raise vlib.Inconclusive("the batch model does not refute AnnounceSound under StoreRule=firstQueued (vacuous model?)")
    configs["MC_gate_batch"]["refutes_first_queued_rule"] = True
    # histories: re-submission of an accepted manifest after version updates (v1 -> v2 -> v1 included)
    configs["MC_gate_hist"] = {"ran": False}
    if tier == "thorough":   # (quick relies on MC_gate_batch, <=2 versions, and on the witness below)
        t0 = time.time()
        r = tlc(SPEC, "MCGate", "MC_gate_hist.cfg", timeout=1500)
        vlib.tlc_require_ok(r, "J1 MC_gate_hist")
        configs["MC_gate_hist"] = {"distinct_states": r.distinct, "generated": r.generated, "wall_s": round(time.time() - t0, 1), "ok": True}
        states += r.distinct
        transitions += r.generated
    # non-vacuity: a "retry fast path" that skips the version check must be refuted (ReplySound) by TLC
    rv = tlc(SPEC, "MCGate", "MC_gate_retry_seeded.cfg", timeout=900)
    if rv.ok or rv.violated != "ReplySound":
        raise vlib.Inconclusive("the gate model does not refute ReplySound under StoreRule=retryFastPath (vacuous model?)")
    configs["MC_gate_hist"]["refutes_retry_fast_path"] = True
    if tier == "thorough":   # non-vacuity: "the gate never accepts" must be refuted by TLC
        for vac in ("MC_gate_vac1.cfg", "MC_gate_vac2.cfg"):
            rv = tlc(SPEC, "MCGate", vac, timeout=900)
            if rv.ok or rv.kind != "invariant":
                raise vlib.Inconclusive("vacuity witness %s was not refuted: the gate spec accepts nothing" % vac)
        configs["MC_gate"]["vacuity_witnesses_refuted"] = 2
    cov["states"] = states
    cov["transitions"] = transitions
    cov["pairs_model_checked"] = pair_evals
    cov["configs"] = configs
    # model-only counterexamples are first replayed on the code (DESIGN section 5)
    for c in cex:
        if c not in seen:
            seen.add(c)
            pairs.append(c)
    return pairs, cex


def j2(vh, pairs, work, seed, n_gate, n_hash, perms):
    inp = os.path.join(work, "pairs.ndjson")
    with open(inp, "w") as fh:
        for p in pairs:
            fh.write(p + "\n")
    obs = os.path.join(work, "obs.ndjson")
    summ = os.path.join(work, "summary.json")
    rc, out = vlib.run([vh, "mmatch", "run", "-in", inp, "-out", obs, "-summary", summ, "-seed", str(seed),
                        "-gate", str(n_gate), "-hash", str(n_hash), "-perms", str(perms), "-sdlroot", vlib.REPO], timeout=1500)
    if rc != 0:
        raise vlib.Inconclusive("harness failed (rc=%d):\n%s" % (rc, out[-3000:]))
    return inp, obs, json.load(open(summ))


J3_CHUNK = int(os.environ.get("VERIF_MMATCH_J3_CHUNK", "45000"))   # observations per TLC run (a 55k-line trace costs TLC about 6 GB)


def _j3_one(trace_path, timeout):
    r = tlc(SPEC, "ManifestMatchTrace", "ManifestMatchTrace.cfg", workers=4, timeout=timeout, heap="10g",
            copy_files={"trace.ndjson": trace_path}, extra_args=["-continue"])
    bad = [(m.group(1), int(m.group(2))) for m in _RE_BAD.finditer(r.out)]
    drift = sorted({int(m.group(1)) for m in _RE_DRIFT.finditer(r.out)})
    # with -continue TLC goes on after a violated invariant and still ends with "No error has been found"
    flagged = set(re.findall(r"Error: Invariant (\w+) is violated", r.out))
    other_errors = [e for e in re.findall(r"^Error: (.*)$", r.out, re.M)
                    if not e.startswith("Invariant ") and not e.startswith("The behavior up to this point")]
    if other_errors or "Finished in" not in r.out or not r.distinct:
        raise vlib.Inconclusive("J3: TLC failed without judging (rc=%s): %s\n%s" % (r.rc, other_errors[:3], r.out[-1500:]))
    if "InputWellFormed" in flagged:
        raise vlib.Inconclusive("J3: an observation uses a unit class the trace cfg does not know")
    if flagged != {b[0] for b in bad}:
        raise vlib.Inconclusive("J3: invariants flagged by TLC %s do not match the BAD lines it printed %s" % (
            sorted(flagged), sorted({b[0] for b in bad})))
    return bad, drift, r


def j3(trace_path, work=None, timeout=1500):
    """TLC judges the observations. Returns (bad: [(invariant, line)], drift: [line], stats).
    Large traces are judged in chunks; every hash observation goes into the first chunk because the two hash
    invariants speak about all of them together (they are evaluated once, on line 1 of a chunk)."""
    raw = open(trace_path).read().splitlines()
    idx_hash = [i for i, l in enumerate(raw) if l.startswith('{"kind":"hash"')]
    hs = set(idx_hash)
    idx_rest = [i for i in range(len(raw)) if i not in hs]
    if len(raw) <= J3_CHUNK or work is None:
        chunks = [list(range(len(raw)))]
    else:
        n_chunks = max(1, -(-len(idx_rest) // J3_CHUNK))
        size = -(-len(idx_rest) // n_chunks)       # balanced chunks; the (light) hash observations go first, alone
        chunks = [list(idx_hash)] if idx_hash else []
        chunks += [idx_rest[k:k + size] for k in range(0, len(idx_rest), size)]
    bad, drift, judged, wall = [], [], 0, 0.0
    for n, ch in enumerate(chunks):
        path = trace_path
        if len(chunks) > 1:
            path = os.path.join(work, "chunk%d.ndjson" % n)
            with open(path, "w") as fh:
                for i in ch:
                    fh.write(raw[i] + "\n")
        b, d, r = _j3_one(path, timeout)
        for inv, l in b:
            # the hash invariants report line 1 of their chunk: keep 1 (they are explained from all hash lines)
            bad.append((inv, l if inv.startswith("Hash") else ch[l - 1] + 1))
        drift += [ch[l - 1] + 1 for l in d]
        judged += r.distinct
        wall += r.wall_s
        if len(chunks) > 1:
            vlib.log("[C10] J3 chunk %d/%d: %d observations, %d flagged, %.1fs" % (n + 1, len(chunks), len(ch), len(b), r.wall_s))
    if judged != len(raw):
        raise vlib.Inconclusive("J3 judged %d observations of %d" % (judged, len(raw)))
    return bad, sorted(drift), {"states": judged, "wall_s": round(wall, 1), "chunks": len(chunks)}


def _strip_idx(path):
    return re.sub(r"\[\d+\]", "", path).lstrip(".")


def _hash_offenders(lines):
    """Explain HashStable / HashSensitive violations: which (kid, hid) collide, with what variants / paths."""
    by_kid, by_hid = {}, {}
    for x in lines:
        if x.get("kind") == "hash":
            by_kid.setdefault(x["kid"], []).append(x)
            by_hid.setdefault(x["hid"], []).append(x)
    unstable, insensitive = [], []
    for kid, xs in by_kid.items():
        if len({x["hid"] for x in xs}) > 1:
            first = xs[0]["hid"]
            odd = sorted({re.sub(r"\d+$", "", x["variant"]) for x in xs if x["hid"] != first})
            unstable.append((odd, xs))
    for hid, xs in by_hid.items():
        if len({x["kid"] for x in xs}) > 1:
            base_kids = {x["kid"] for x in xs if x["variant"] != "mut"}   # a mutant may legitimately BE another base
            muts = sorted({_strip_idx(x["path"]) + ":" + x["op"] for x in xs
                           if x["variant"] == "mut" and (not base_kids or x["kid"] not in base_kids)})
            insensitive.append((muts or ["two-bases"], xs))
    return unstable, insensitive


def violations_from(bad, lines, pairs_file):
    """One Violation per distinct signature (at most a few per invariant)."""
    out, per_inv = [], {}
    hash_done = set()
    for inv, l in bad:
        if inv in ("HashStable", "HashSensitive"):
            if inv in hash_done:
                continue
            hash_done.add(inv)
            unstable, insensitive = _hash_offenders(lines)
            groups = unstable if inv == "HashStable" else insensitive
            sigs = sorted({",".join(g[0]) for g in groups})
            for s in sigs[:6]:
                ex = next(g[1] for g in groups if ",".join(g[0]) == s)
                what = ("same manifest, different version across: " if inv == "HashStable"
                        else "different manifests, same version; field(s): ")
                out.append(vlib.Violation("C10", "%s:%s" % (inv, s), what + s + "\n" + "\n".join(json.dumps(x) for x in ex[:6]),
                                          {"pairs.ndjson": (pairs_file,), "offending.ndjson": "".join(json.dumps(x) + "\n" for x in ex[:50])}))
            continue
        if per_inv.get(inv, 0) >= 3:
            continue
        per_inv[inv] = per_inv.get(inv, 0) + 1
        x = lines[l - 1]
        pair = json.dumps({"d": x["d"], "m": x["m"]}, sort_keys=True, separators=(",", ":"))
        sig = "%s:%s" % (inv, pair)
        if x["kind"] in ("gate", "batch", "history"):
            sig = "%s:%s:%s" % (inv, x["scenario"], pair)
        out.append(vlib.Violation("C10", sig, "observation %d judged by TLC invariant %s:\n%s" % (l, inv, json.dumps(x)),
                                  {"pairs.ndjson": json.dumps({"d": x["d"], "m": x["m"]}) + "\n", "observation.json": json.dumps(x, indent=1)}))
    return out


def selftest(lines, work):
    """Binding self-test: corrupt one recorded field of each kind; TLC must reject each corruption."""
    pick = []
    want = []

    def cp(x):
        return json.loads(json.dumps(x))
    p = next((x for x in lines if x["kind"] == "pair" and all(r["resrej"] for r in x["res"])), None)
    if p:
        p = cp(p)
        p["res"][len(p["res"]) // 2]["accepted"] = True
        pick.append(p)
        want.append(("ImplSound", len(pick)))
    p = next((x for x in lines if x["kind"] == "pair" and all(r["accepted"] for r in x["res"])), None)
    if p:
        p = cp(p)
        p["res"][0]["crossok"] = False
        pick.append(p)
        want.append(("ImplComplete", len(pick)))
    g = next((x for x in lines if x["kind"] == "gate" and not x["accepted"] and x["sub"] != (x["updates"][-1] if x["updates"] else x["chain"])), None)
    if g:
        g = cp(g)
        g["accepted"] = True
        pick.append(g)
        want.append(("GateSound", len(pick)))
    b = next((x for x in lines if x["kind"] == "batch" and x["announced"]
              and any(not s["accepted"] and s["hid"] not in x["announced"] for s in x["subs"])), None)
    if b:
        b = cp(b)
        b["announced"] = [next(s["hid"] for s in b["subs"] if not s["accepted"] and s["hid"] not in b["announced"])]
        pick.append(b)   # the provider announces the manifest it refused
        want.append(("AnnounceSound", len(pick)))
    hl = next((x for x in lines if x["kind"] == "history"
               and any(st["op"] == "sub" and not st["accepted"] and st["err"].startswith("manifest version") for st in x["steps"])), None)
    if hl:
        hl = cp(hl)
        st = next(st for st in hl["steps"] if st["op"] == "sub" and not st["accepted"] and st["err"].startswith("manifest version"))
        st["accepted"] = True        # a stale re-submission claimed accepted
        pick.append(hl)
        want.append(("HistorySound", len(pick)))
    hs = [x for x in lines if x["kind"] == "hash"]
    if hs:
        mid = hs[0]["mid"]
        blk = [cp(x) for x in hs if x["mid"] == mid][:12]
        mut = next((x for x in blk if x["variant"] == "mut"), None)
        if mut and len(blk) > 2:
            first = len(pick) + 1
            mut["hid"] = blk[0]["hid"]          # a mutated manifest with the base's version
            blk[1]["hid"] = 10 ** 9             # the repeat run with another version
            pick += blk
            # hash invariants are evaluated on line 1 of the trace as a whole
            want += [("HashSensitive", 1), ("HashStable", 1)]
            _ = first
    if not pick:
        return {"ran": False, "reason": "no observation to corrupt"}
    path = os.path.join(work, "selftest.ndjson")
    with open(path, "w") as fh:
        for x in pick:
            fh.write(json.dumps(x) + "\n")
    bad, _drift, _r = j3(path, None, timeout=600)
    got = set(bad)
    missing = [w for w in want if w not in got]
    return {"ran": True, "corruptions": len(want), "rejected": len(want) - len(missing),
            "kinds": [w[0] for w in want], "passed": not missing, "missing": missing}


def run(pid, tier, seed, replay):
    t0 = time.time()
    cov = {"exhaustive": True, "tier_bounds": "see configs"}
    vh = vlib.build_harness()
    work = vlib.scratch("mmatch-")
    if replay:
        src = os.path.join(replay, "pairs.ndjson") if os.path.isdir(replay) else replay
        pairs = [l.strip() for l in open(src) if l.strip()]
        cex = []
        cov.update(states=max(1, len(pairs)), transitions=max(1, len(pairs)), replay=src, exhaustive=False)
        n_gate, n_hash, perms = len(pairs), len(pairs), 2
    else:
        pairs, cex = j1(tier, seed, cov)
        n_gate, n_hash, perms = (150, 120, 2) if tier == "quick" else (1500, 1200, 4)
    pairs_file, obs, summ = j2(vh, pairs, work, seed, n_gate, n_hash, perms)
    lines = [json.loads(l) for l in open(obs)]
    bad, drift, r3 = j3(obs, work)
    violations = violations_from(bad, lines, pairs_file)
    if cex and not violations:
        raise vlib.Inconclusive("J1 produced %d model-only counterexample(s) that the real code does not reproduce: "
                                "specification error\n%s" % (len(cex), cex[0][:600]))
    for l in drift[:20]:
        vlib.log("DRIFT C10 observation %d: the transcription disagrees with the code: %s" % (l, json.dumps(lines[l - 1])[:600]))
    st = selftest(lines, work)
    if st.get("ran") and not st.get("passed"):
        raise vlib.Inconclusive("binding self-test failed: TLC did not reject corrupted observations %s" % st.get("missing"))
    if summ.get("opaque"):
        vlib.log("[C10] WARNING: manifest fields that reflection cannot mutate (hash sensitivity not tested): %s" % summ["opaque"])
    kinds = {}
    for x in lines:
        kinds[x["kind"]] = kinds.get(x["kind"], 0) + 1
    nontrivial = summ["accepted_pairs"] + summ["resrej_pairs"] + summ["gate_accepted"] + len(summ.get("sites") or [])
    cov.update({
        "traces_validated_against_impl": len(lines),
        "evaluations": summ["pair_evals"] + summ["gate_submits"] + summ["hash_lines"],
        "distinct_nontrivial": nontrivial,
        "rule": "pairs accepted by the real code + pairs rejected by its resource comparison + "
                                    "submissions accepted through Service.Submit + distinct mutated manifest field sites",
        "observations": kinds,
        "pairs_replayed": summ["pairs"], "pair_evaluations": summ["pair_evals"], "schemes": 6,
        "accepted_pairs": summ["accepted_pairs"], "resrej_pairs": summ["resrej_pairs"],
        "gate_pairs": summ["gate_pairs"], "gate_submits": summ["gate_submits"], "gate_accepted": summ["gate_accepted"],
        "gate_batches": summ.get("gate_batches", 0), "gate_histories": summ.get("gate_histories", 0), "announcements_observed": summ.get("announcements", 0),
        "sdl_files": summ.get("sdl_files", 0), "sdl_real_pairs": summ.get("sdl_pairs", 0), "sdl_real_pairs_accepted": summ.get("sdl_accepted", 0),
        "hash_bases": summ["hash_bases"], "hash_lines": summ["hash_lines"], "hash_mutants": summ["hash_mutants"],
        "hash_field_sites": summ.get("sites"), "hash_opaque_fields": summ.get("opaque") or [],
        "drift_steps": len(drift),
        "binding_selftest": st,
        "j3": r3,
        "samples": [json.loads(p) for p in pairs[len(pairs) // 3: len(pairs) // 3 + 3]],
        "seeds": [seed],
    })
    assumptions = [
        "SHA-256 is collision free (Hash is an uninterpreted injective function in ManifestGate.tla)",
        "on-chain groups have distinct names and replica counts >= 1 (x/deployment ValidateDeploymentGroups); strings are valid UTF-8",
        "exhaustive within the bounds listed in coverage.configs; beyond them nothing is claimed",
        "MC_t_u3r4c4 enumerates the chain side up to renaming of unit classes (the transcription and the oracle only test classes for equality)",
    ]
    return vlib.finish(pid, tier, seed, "model_checking", cov, t0, violations, assumptions)
