"""X02 -- the provider's hostname reservation service (provider/cluster/hostname.go), extension component.

J1  Hostname.tla model-checked by TLC: one caller with the full alphabet of calls, several callers with every
    interleaving of their calls, the loop's select and the shutdown; liveness (every call returns) separately.
J2  (a) TLC exports one shortest call sequence to every reachable (in-use map, shutdown) state of the one-caller
        model and the alphabet of calls: every call of the alphabet is replayed from every such state on the real
        service (`vh hostname seq`), followed by CanReserve probes of every free name for every deployment;
    (b) simulated long call sequences of the one-caller model, replayed the same way;
    (c) simulated behaviours of the several-callers model become the programs of free-running callers
        (`vh hostname conc`: free, and burst = callers piled up on a held loop, then the shutdown).
J3  HostnameTrace.tla: TLC evaluates Hostname.tla's property definitions on the values recorded from the
    implementation (verdict) and compares every recorded step with the action of Hostname.tla it claims to be
    (conformance / drift).  HostnameLin.tla: TLC searches a linearization of every concurrent execution using
    only what the callers saw.
"""
import concurrent.futures
import json
import os
import random
import re
import shutil
import threading
import time

import vlib

PROPERTIES = ["X02"]
SPECDIR = os.path.join(vlib.SPEC, "hostname")
HEAP = "3g"
CHUNK_LINES = 60000        # trace lines per TLC process in J3
STUCK_TICKS = 600          # 5 ms ticks of running time without progress before the harness gives a wait up
INF = 2000000000

HOSTS = {"f1": "xblocked.example.com", "f2": "xdom.example.org", "f3": "dom.example.org.evil.io",
         "bx": "blocked.example.com", "bd": "sub.dom.example.org", "bb": "dom.example.org"}
BLOCKED_CONFIG = ["blocked.example.com", ".dom.example.org"]
BLOCKED = {"bx", "bd", "bb"}
DEPS = {"d1": ("akash1ownera", 1), "d2": ("akash1ownera", 2), "d3": ("akash1ownerb", 1)}
CLIENTS = ["c1", "c2", "c3", "c4"]


def universe(hosts, deps=("d1", "d2", "d3")):
    return {"hosts": [{"id": h, "name": HOSTS[h]} for h in hosts],
            "deps": [{"id": d, "owner": DEPS[d][0], "dseq": DEPS[d][1]} for d in deps],
            "blocked_config": BLOCKED_CONFIG}


def tla_set(xs):
    return "{" + ", ".join('"%s"' % x for x in xs) + "}"


def consts(u, clients, alphabet, maxnames, maxops, keephist, genlen=99, trace=False):
    hosts = [h["id"] for h in u["hosts"]]
    t = "CONSTANTS\n  Hosts = %s\n  Blocked = %s\n  Deps = %s\n" % (
        tla_set(hosts), tla_set([h for h in hosts if h in BLOCKED]), tla_set([d["id"] for d in u["deps"]]))
    if clients is not None:
        t += "  Clients = %s\n  Alphabet <- %s\n  MaxOps = %d\n  KeepHist = %s\n" % (
            tla_set(clients), alphabet, maxops, "TRUE" if keephist else "FALSE")
        t += ("  TMaxNames = %d\n" % maxnames) if trace else ("  MaxNames = %d\n  GenLen = %d\n" % (maxnames, genlen))
    return t


def mc_cfg(u, clients, alphabet, maxnames, maxops, keephist=False, view=False, invariants=(), properties=(),
           genlen=99, constraint=None):
    t = consts(u, clients, alphabet, maxnames, maxops, keephist, genlen) + "SPECIFICATION Spec\n"
    if view:
        t += "VIEW view\n"
    if invariants:
        t += "INVARIANTS " + " ".join(invariants) + "\n"
    if properties:
        t += "PROPERTIES " + " ".join(properties) + "\n"
    if constraint:
        t += "CONSTRAINT " + constraint + "\n"
    return t + "CHECK_DEADLOCK FALSE\n"


SAFETY = ["TypeOK", "Exclusive", "BlockedFree", "AnsweredOnce", "NoOrphan"]

# ------------------------------------------------------------------------------------------------ J1 / J2


def _printed(out, tag):
    """PrintT(<<tag, json-string>>) lines -> decoded JSON values."""
    res = []
    for line in out.splitlines():
        m = re.match(r'<<"%s", "(.*)">>$' % tag, line)
        if m:
            res.append(json.loads(m.group(1).replace('\\"', '"').replace("\\\\", "\\")))
    return res


def _ops_of(hist):
    ops = []
    for e in hist:
        q = e["q"]
        if q["op"] == "shutdown":
            ops.append({"op": "shutdown"})
        else:
            ops.append({"op": q["op"], "d": q["d"], "names": list(q["names"])})
    return ops


def j1_seq_and_witnesses(u, maxnames, maxops, stats):
    """One caller, the full alphabet: J1 (safety + step properties) and, from the same run, J2(a): the alphabet
    and one shortest call sequence per reachable settled (held, sd)."""
    cfg = mc_cfg(u, ["c1"], "FullAlphabet", maxnames, maxops, keephist=True, view=True,
                 invariants=SAFETY + ["ExportWitness"], properties=["StepPropsHold"])
    r = vlib.tlc(SPECDIR, "MCHostname", "G.cfg", workers=1, timeout=1500, heap=HEAP, deadlock=False,
                 extra_files={"G.cfg": cfg, "MCHostname.tla": _mc_with_alphabet_export()})
    vlib.tlc_require_ok(r, "J1 one caller")
    stats["j1"].append({"config": "one caller, full alphabet (<=%d names), %d calls" % (maxnames, maxops),
                        "distinct": r.distinct, "generated": r.generated, "depth": r.depth, "wall_s": round(r.wall_s, 1)})
    alpha = _printed(r.out, "ALPHA")
    if len(alpha) != 1:
        raise vlib.Inconclusive("J2: alphabet export missing")
    alphabet = [{"op": q["op"], "d": q["d"], "names": list(q["names"])} for q in alpha[0]]
    wit = {}
    for w in _printed(r.out, "WITNESS"):
        key = (json.dumps(w["held"], sort_keys=True), w["sd"])
        ops = _ops_of(w["hist"])
        if key not in wit or len(ops) < len(wit[key]):
            wit[key] = ops
    return alphabet, wit, r


def _mc_with_alphabet_export():
    s = open(os.path.join(SPECDIR, "MCHostname.tla")).read()
    return s.replace('ASSUME PrintT(<<"ALPHABET", Cardinality(Alphabet)>>)',
                     'ASSUME PrintT(<<"ALPHA", ToJson(Alphabet)>>)')


def probes(u):
    free = [h["id"] for h in u["hosts"] if h["id"] not in BLOCKED]
    return [{"op": "can", "d": d["id"], "names": [h]} for h in free for d in u["deps"]]


def gen_simulated(u, clients, alphabet, maxnames, maxops, genlen, num, depth, seed):
    cfg = mc_cfg(u, clients, alphabet, maxnames, maxops, keephist=True, invariants=["ExportHist"], genlen=genlen,
                 constraint="HistBound")
    r = vlib.tlc(SPECDIR, "MCHostname", "S.cfg", workers=1, timeout=900, heap=HEAP, deadlock=False,
                 extra_files={"S.cfg": cfg}, simulate=dict(num=num, depth=depth, seed=seed))
    vlib.tlc_require_ok(r, "J2 simulation")
    seen, out = set(), []
    for h in _printed(r.out, "HIST"):
        k = json.dumps(h, sort_keys=True)
        if k not in seen and h:
            seen.add(k)
            out.append(h)
    return out


def programs_from(hists, prefix, rnd):
    progs = []
    for i, h in enumerate(hists):
        clients, begun, after = {}, 0, -1
        for e in h:
            if e["q"]["op"] == "shutdown":
                after = begun
            else:
                clients.setdefault(e["c"], []).append({"op": e["q"]["op"], "d": e["q"]["d"], "names": list(e["q"]["names"])})
                begun += 1
        if len(clients) < 2:
            continue
        if i % 4 == 1:
            after = -1      # a quarter of the programs run without a shutdown (the context is cancelled when all returned)
        progs.append({"id": "%s%d" % (prefix, i), "mode": "burst" if i % 3 == 2 else "free", "clients": clients,
                      "shutdown_after": after})
    return progs


# ------------------------------------------------------------------------------------------------ harness

def write_ndjson(path, rows):
    with open(path, "w") as fh:
        for r in rows:
            fh.write(json.dumps(r) + "\n")


def read_ndjson(path):
    return [json.loads(l) for l in open(path) if l.strip()]


def run_vh(vh, mode, upath, inpath, outpath, seed, ticks, reps=None):
    cmd = [vh, "hostname", mode, "-universe", upath, "-scripts" if mode == "seq" else "-programs", inpath,
           "-out", outpath, "-seed", str(seed), "-stuck-ticks", str(ticks)]
    if reps:
        cmd += ["-reps", str(reps)]
    rc, out = vlib.run(cmd, timeout=3000)
    if rc not in (0, 3):
        raise vlib.Inconclusive("vh hostname %s failed rc=%d: %s" % (mode, rc, out[-2000:]))
    m = re.search(r"\{.*\}", out)
    return rc, (json.loads(m.group(0)) if m else {})


def split_runs(lines):
    runs = []
    for l in lines:
        if l["e"] == "reset":
            runs.append([])
        runs[-1].append(l)
    return runs


# ------------------------------------------------------------------------------------------------ J3

class Finding:
    def __init__(self, kind, name, run_lines, line_no):
        self.kind = kind            # "V" (verdict) | "DRIFT"
        self.name = name            # property / action name
        self.run_lines = run_lines  # the recorded lines of the run
        self.line_no = line_no      # index (within the run) of the line whose consumption showed it


def _judge_chunk(args):
    runs, u, tmax = args
    flat = [l for r in runs for l in r]
    d = vlib.scratch("hostname-j3-")
    tp = os.path.join(d, "trace.ndjson")
    write_ndjson(tp, flat)
    cfg = consts(u, CLIENTS, "TraceAlphabet", tmax, 1000000, False, trace=True) + "SPECIFICATION TSpec\nCHECK_DEADLOCK FALSE\n"
    r = vlib.tlc(SPECDIR, "HostnameTrace", "T.cfg", workers=1, timeout=3000, heap=HEAP, deadlock=False,
                 extra_files={"T.cfg": cfg}, copy_files={"trace.ndjson": tp})
    shutil.rmtree(d, ignore_errors=True)
    if not r.ok:
        raise vlib.Inconclusive("J3: TLC failed: %s" % (r.error or r.out[-2000:]))
    m = re.search(r'<<"WALKED", (\d+)>>', r.out)
    if not m or int(m.group(1)) != len(flat):
        raise vlib.Inconclusive("J3: TLC walked %s of %d trace lines" % (m.group(1) if m else "?", len(flat)))
    starts, acc = [], 0
    for run in runs:
        starts.append(acc)
        acc += len(run)
    findings = []
    for kind, name, l in re.findall(r'<<"(V|DRIFT)", "(\w+)", (\d+), \d+>>', r.out):
        pos = int(l) - 1
        k = max(i for i, s in enumerate(starts) if s <= pos)
        findings.append(Finding(kind, name, runs[k], pos - starts[k]))
    return findings, r.distinct


def judge(lines, u, tmax=3):
    """TLC walks the recorded runs (HostnameTrace.tla), in chunks of whole runs, a few TLC processes at a time.
    Returns (findings, states)."""
    chunks, cur, n = [], [], 0
    for run in split_runs(lines):
        if cur and n + len(run) > CHUNK_LINES:
            chunks.append(cur)
            cur, n = [], 0
        cur.append(run)
        n += len(run)
    if cur:
        chunks.append(cur)
    findings, states = [], 0
    with concurrent.futures.ThreadPoolExecutor(max_workers=3) as ex:
        for fs, st in ex.map(_judge_chunk, [(c, u, tmax) for c in chunks]):
            findings += fs
            states += st
    return findings, states


def histories(lines):
    """What the callers alone saw, per run: operations with invocation / return positions."""
    hs = []
    for run in split_runs(lines):
        ops, open_, sd = [], {}, None
        for i, l in enumerate(run):
            e = l["e"]
            if e in ("call", "relcall"):
                o = {"c": l["c"], "op": l["op"], "d": l["d"], "names": l["names"], "r": "none", "s": i, "e": INF}
                ops.append(o)
                open_[l["c"]] = o
            elif e == "recv" and l["c"] in open_:
                o = open_.pop(l["c"])
                o["r"], o["e"] = l["r"], i
            elif e == "relret" and l["c"] in open_:
                open_.pop(l["c"])["e"] = i
            elif e == "cancel":
                sd = {"c": "env", "op": "shutdown", "d": "none", "names": [], "r": "none", "s": i, "e": INF}
                ops.append(sd)
            elif e == "done" and sd is not None:
                sd["e"] = i
        hs.append({"run": run[0]["run"], "ops": ops})
    return hs


def linearize(hs, u):
    """HostnameLin.tla: returns (indices of the histories with no linearization, states)."""
    bad, states = [], 0
    for k in range(0, len(hs), 4000):
        part = hs[k:k + 4000]
        d = vlib.scratch("hostname-lin-")
        hp = os.path.join(d, "hist.ndjson")
        write_ndjson(hp, part)
        cfg = consts(u, None, None, 0, 0, False) + "SPECIFICATION LSpec\nPOSTCONDITION Post\nCHECK_DEADLOCK FALSE\n"
        r = vlib.tlc(SPECDIR, "HostnameLin", "L.cfg", workers=1, timeout=3000, heap=HEAP, deadlock=False,
                     extra_files={"L.cfg": cfg}, copy_files={"hist.ndjson": hp})
        shutil.rmtree(d, ignore_errors=True)
        m = re.search(r'<<"LINEARIZABLE", (\d+), (\d+)>>', r.out)
        if not r.ok or not m or int(m.group(2)) != len(part):
            raise vlib.Inconclusive("Lin: TLC failed: %s" % (r.error or r.out[-2000:]))
        miss = [int(x) for x in re.findall(r'<<"NONLIN", (\d+), \d+>>', r.out)]
        if int(m.group(1)) + len(miss) != len(part):
            raise vlib.Inconclusive("Lin: inconsistent report")
        bad += [k + i - 1 for i in miss]
        states += r.distinct
    return bad, states


def binding_selftest(lines, u, dirty=()):
    """Corrupt a recorded run in three ways and require TLC to reject each; corrupt an answer of a concurrent
    history and require the linearizability search to fail.  The run is one TLC found nothing wrong with, with a
    granted reservation and an effective release that a later request follows."""
    def fit(r):
        if r[0]["id"] in dirty:
            return False
        rel = [i for i, l in enumerate(r) if l["e"] == "release" and l["post"] != []]
        return (any(l["e"] == "request" and l["op"] == "reserve" and l["r"] == "ok" and l["names"] for l in r)
                and any(l["e"] == "request" for l in r[rel[0] + 1:]) if rel else False)
    runs = [r for r in split_runs(lines) if fit(r)]
    if not runs:
        return {"ok": False, "why": "no clean run with a granted reservation and an effective release followed by a request"}
    run = runs[len(runs) // 2]
    res = {}
    a = [dict(l) for l in run]       # (a) a granted reservation loses one of its names in the logged map
    for l in a:
        if l["e"] == "request" and l["op"] == "reserve" and l["r"] == "ok" and l["names"]:
            l["post"] = [p for p in l["post"] if p[0] != l["names"][0]]
            break
    fa, _ = judge(a, u)
    res["drop_granted_name"] = sorted({f.name for f in fa if f.kind == "V"})
    b = list(run)                    # (b) a release trace point is dropped
    for i, l in enumerate(b):
        if l["e"] == "release" and l["post"] != []:
            del b[i]
            break
    fb, _ = judge(b, u)
    res["drop_release_line"] = sorted({f.name for f in fb})
    c = [dict(l) for l in run]       # (c) a granted answer is turned into a refusal
    for l in c:
        if l["e"] == "request" and l["op"] == "reserve" and l["r"] == "ok" and l["names"]:
            l["r"], l["why"], l["host"] = "notallowed", "inuse", l["names"][0]
            break
    fc, _ = judge(c, u)
    res["flip_answer"] = sorted({f.name for f in fc if f.kind == "V"})
    hs = histories(run)
    for o in hs[0]["ops"]:
        if o["op"] == "reserve" and o["r"] == "ok":
            o["r"] = "notallowed"
            break
    bad, _ = linearize(hs, u)
    res["flip_answer_linearizability"] = "rejected" if bad else "accepted"
    res["ok"] = bool(res["drop_granted_name"]) and bool(res["drop_release_line"]) and bool(res["flip_answer"]) and bool(bad)
    return res


# ------------------------------------------------------------------------------------------------ verdicts

def step_text(l):
    if l["e"] == "request":
        return "%s %s %s pre=%s -> %s post=%s" % (l["op"], l["d"], ",".join(l["names"]), _m(l["pre"]), l["r"], _m(l["post"]))
    if l["e"] == "release":
        return "release %s -> post=%s" % (",".join(l["names"]), _m(l["post"]))
    if l["e"] in ("call", "relcall"):
        return "%s %s %s %s late=%s" % (l["e"], l["op"], l["d"], ",".join(l["names"]), l["late"])
    if l["e"] in ("recv", "extra"):
        return "%s %s" % (l["e"], l["r"])
    return l["e"] + (" " + l["note"] if l["note"] else "")


def _m(pairs):
    return "{" + ",".join("%s:%s" % (p[0], p[1]) for p in pairs) + "}"


def to_violation(pid, f, meta, u):
    bad = f.run_lines[f.line_no] if 0 <= f.line_no < len(f.run_lines) else {}
    sig = "%s:%s:%s" % (pid, f.name, step_text(bad) if meta["mode"] == "seq" else bad.get("e", "?"))
    detail = "TLC: %s is false at line %d of the run (%s): %s\n%s" % (
        f.name, f.line_no + 1, meta["mode"], json.dumps(bad), json.dumps(meta["input"]))
    files = {"trace.ndjson": "".join(json.dumps(l) + "\n" for l in f.run_lines),
             "replay.json": json.dumps({"mode": meta["mode"], "input": meta["input"], "universe": u,
                                        "property": f.name, "seed": meta.get("seed", 1)})}
    return vlib.Violation(pid, sig, detail, files)


def confirm_stuck(vh, meta, u, seed):
    """A caller that did not return counts only if it shows again when the same input runs alone with a doubled
    watchdog (three attempts for free-running programs)."""
    d = vlib.scratch("hostname-confirm-")
    up, ip, op = os.path.join(d, "u.json"), os.path.join(d, "in.ndjson"), os.path.join(d, "out.ndjson")
    json.dump(u, open(up, "w"))
    write_ndjson(ip, [meta["input"]])
    for _ in range(1 if meta["mode"] == "seq" else 3):
        run_vh(vh, "seq" if meta["mode"] == "seq" else "conc", up, ip, op, seed, 2 * STUCK_TICKS)
        lines = read_ndjson(op)
        if any(l["e"] == "stuck" for l in lines):
            return lines
    return None


# ------------------------------------------------------------------------------------------------ the callers' protocol

USE_PROPS = ["UseExclusive", "DeployedHeld", "NoLeak", "BlockedNeverDeployed", "ReleaseOwn"]


def use_cfg(u, impl, invariants=(), properties=(), view=True, export=False):
    t = consts(u, None, None, 0, 0, False) + '  Manifests <- UseManifests\n  Impl = "%s"\nSPECIFICATION USpec\n' % impl
    if view:
        t += "VIEW uview\n"
    if invariants:
        t += "INVARIANTS " + " ".join(invariants) + "\n"
    if properties:
        t += "PROPERTIES " + " ".join(properties) + "\n"
    if export:
        t += "ACTION_CONSTRAINT UEdge\n"
    return t + "CHECK_DEADLOCK FALSE\n"


def use_j1_and_scripts(u, stats):
    """HostnameUse.tla: the intended variant satisfies everything; the as-found model satisfies NoLeak,
    BlockedNeverDeployed, ReleaseOwn and violates UseExclusive and DeployedHeld (the finding, stated on the model);
    the as-found run also exports one stimulus script per transition of the model."""
    def tlc(cfg, workers=2):
        return vlib.tlc(SPECDIR, "MCHostnameUse", "U.cfg", workers=workers, timeout=1500, heap=HEAP, deadlock=False,
                        extra_files={"U.cfg": cfg})
    r = tlc(use_cfg(u, "intended", ["Safe", "UseExclusive", "DeployedHeld"], ["ReleaseOwnHolds"]))
    vlib.tlc_require_ok(r, "J1 use layer, intended")
    stats["j1"].append({"config": "use layer, intended variant, %d deployments" % len(u["deps"]), "distinct": r.distinct,
                        "generated": r.generated, "depth": r.depth, "wall_s": round(r.wall_s, 1)})
    model = {}
    for inv in ("UseExclusive", "DeployedHeld"):
        rv = tlc(use_cfg(u, "asfound", [inv]))
        model[inv] = "violated" if rv.violated == inv else "holds"
    r = tlc(use_cfg(u, "asfound", ["Safe"], ["ReleaseOwnHolds"], export=True), workers=1)
    vlib.tlc_require_ok(r, "J1 use layer, as found")
    stats["j1"].append({"config": "use layer, as found, %d deployments (NoLeak, BlockedNeverDeployed, ReleaseOwn)" % len(u["deps"]),
                        "distinct": r.distinct, "generated": r.generated, "depth": r.depth, "wall_s": round(r.wall_s, 1)})
    scripts = []
    for sc in _printed(r.out, "SCRIPT"):
        scripts.append({"id": "u%d" % len(scripts), "steps": [{"k": x["k"], "d": x["d"], "m": list(x["m"])} for x in sc]})
    return scripts, model


def judge_use(lines, u):
    """HostnameUseTrace.tla on the recorded use runs: (findings, lines walked)."""
    chunks, cur, n = [], [], 0
    for run in split_runs(lines):
        if cur and n + len(run) > CHUNK_LINES:
            chunks.append(cur)
            cur, n = [], 0
        cur.append(run)
        n += len(run)
    if cur:
        chunks.append(cur)

    def one(runs):
        flat = [l for r in runs for l in r]
        d = vlib.scratch("hostname-use-")
        tp = os.path.join(d, "trace.ndjson")
        write_ndjson(tp, flat)
        cfg = consts(u, None, None, 0, 0, False) + '  Manifests <- TraceManifests\n  Impl = "asfound"\nSPECIFICATION UTSpec\nCHECK_DEADLOCK FALSE\n'
        r = vlib.tlc(SPECDIR, "HostnameUseTrace", "T.cfg", workers=1, timeout=3000, heap=HEAP, deadlock=False,
                     extra_files={"T.cfg": cfg}, copy_files={"trace.ndjson": tp})
        shutil.rmtree(d, ignore_errors=True)
        m = re.search(r'<<"WALKED", (\d+)>>', r.out)
        if not r.ok or not m or int(m.group(1)) != len(flat):
            raise vlib.Inconclusive("J3 use: TLC failed or did not walk the trace: %s" % (r.error or r.out[-1500:]))
        starts, acc = [], 0
        for run in runs:
            starts.append(acc)
            acc += len(run)
        fs = []
        for kind, name, l in re.findall(r'<<"(V|DRIFT)", "(\w+)", (\d+), \d+>>', r.out):
            pos = int(l) - 1
            k = max(i for i, st in enumerate(starts) if st <= pos)
            fs.append(Finding(kind, name, runs[k], pos - starts[k]))
        return fs, len(flat)
    findings, walked = [], 0
    with concurrent.futures.ThreadPoolExecutor(max_workers=3) as ex:
        for fs, n in ex.map(one, chunks):
            findings += fs
            walked += n
    return findings, walked


def use_layer(pid, vh, work, seed, quick, stats):
    """The callers' protocol on the real cluster service. Returns (violations, coverage part)."""
    u = universe(["f1", "f2", "bx"], ("d1", "d2") if quick else ("d1", "d2", "d3"))
    scripts, model = use_j1_and_scripts(u, stats)
    total = len(scripts)
    if not quick and total > 200000:
        rnd = random.Random(seed)
        scripts = rnd.sample(scripts, 200000)
    up, sp, tp = os.path.join(work, "u_use.json"), os.path.join(work, "use.scripts.ndjson"), os.path.join(work, "use.trace.ndjson")
    json.dump(u, open(up, "w"))
    write_ndjson(sp, scripts)
    rc, out = vlib.run([vh, "hostname", "use", "-universe", up, "-scripts", sp, "-out", tp, "-seed", str(seed)], timeout=3000)
    if rc != 0:
        raise vlib.Inconclusive("vh hostname use failed rc=%d: %s" % (rc, out[-2000:]))
    stat = json.loads(re.search(r"\{.*\}", out).group(0))
    lines = read_ndjson(tp)
    findings, walked = judge_use(lines, u)
    by_id = {s["id"]: s for s in scripts}
    violations, seen, drift, counts = [], set(), 0, {}
    first = set()
    first_line = {}
    for f in findings:
        if f.kind == "V":
            first_line.setdefault((f.run_lines[0]["id"], f.name), f.line_no)
    for f in findings:
        if f.kind == "DRIFT":
            drift += 1
            if drift <= 10:
                vlib.log("DRIFT (use) %s at line %d of run %s: %s" % (f.name, f.line_no + 1, f.run_lines[0]["id"],
                                                                      json.dumps(f.run_lines[f.line_no])))
            continue
        key = (f.run_lines[0]["id"], f.name)
        if key in first:        # a state predicate stays false: the step that made it false is the finding
            continue
        first.add(key)
        if f.name == "UseExclusive" and first_line.get((key[0], "DeployedHeld"), f.line_no + 1) <= f.line_no:
            # two deployments can share a deployed name only if one of them is deployed with a name it does not hold:
            # where that happened earlier in the run it is the finding, this is its consequence
            counts["consequence:UseExclusive"] = counts.get("consequence:UseExclusive", 0) + 1
            continue
        bad = f.run_lines[f.line_no]
        sig = "%s:%s:%s" % (pid, f.name, bad["e"] + ("-" + bad["kind"] if bad.get("kind") else ""))
        counts[sig] = counts.get(sig, 0) + 1
        if sig in seen:
            continue
        seen.add(sig)
        sc = by_id[f.run_lines[0]["id"]]
        detail = "TLC: %s is false after line %d of the run (use of the hostname service by the cluster service): %s\n%s" % (
            f.name, f.line_no + 1, json.dumps(bad), json.dumps(sc))
        files = {"trace.ndjson": "".join(json.dumps(l) + "\n" for l in f.run_lines),
                 "replay.json": json.dumps({"mode": "use", "input": sc, "universe": u, "property": f.name, "seed": seed})}
        violations.append(vlib.Violation(pid, sig, detail, files))
    # binding self-test: a deployed name disappears from the logged map of a clean run
    dirty = {f.run_lines[0]["id"] for f in findings}
    clean = [r for r in split_runs(lines) if r[0]["id"] not in dirty and any(l["e"] == "deliver" and l["kind"] == "new" and l["held"] for l in r)]
    st = {"ok": False, "why": "no clean run with a granted first manifest"}
    if clean:
        a = [dict(l) for l in clean[len(clean) // 2]]
        for l in a:
            if l["e"] == "deliver" and l["kind"] == "new" and l["held"]:
                l["held"] = l["held"][1:]
                break
        fa, _ = judge_use(a, u)
        st = {"drop_held_name": sorted({f.name for f in fa}), "ok": any(f.kind == "V" and f.name == "DeployedHeld" for f in fa)}
    cov = {"model": model, "scripts_exported": total, "scripts_replayed": stat.get("runs", 0), "stimuli": stat.get("steps", 0),
           "trace_lines_walked_by_tlc": walked, "drift_steps": drift, "verdicts_by_signature": counts, "binding_selftest": st,
           "deployments": len(u["deps"]), "sample": scripts[len(scripts) // 2]}
    return violations, cov, st["ok"]


# ------------------------------------------------------------------------------------------------ the check

def run(pid, tier, seed, replay):
    t0 = time.time()
    vh = vlib.build_harness()
    if replay:
        return run_replay(pid, vh, replay, seed, t0)
    rnd = random.Random(seed)
    quick = tier == "quick"
    stats = {"j1": []}
    work = vlib.scratch("hostname-")

    u_seq = universe(["f1", "f2", "bx", "bd"] if quick else ["f1", "f2", "f3", "bx", "bd", "bb"])
    u_small = universe(["f1", "bx"], ("d1", "d2"))
    u_two = universe(["f1", "f2", "bx"], ("d1", "d2"))
    u_conc = universe(["f1", "f2", "f3", "bx"])

    # ---- J1 for several callers runs in the background while the implementation is exercised
    j1_err, j1_res = [], []

    def j1_conc():
        try:
            jobs = [("3 callers x 1 call, {f1,bx} x {d1,d2}", u_small, ["c1", "c2", "c3"], 1, 1, SAFETY, ["StepPropsHold"]),
                    ("liveness: 2 callers x 2 calls, every call returns under WF(Progress)", u_small, ["c1", "c2"], 1, 2,
                     ["TypeOK", "NoOrphan"], ["EveryCallReturns"])]
            if not quick:
                jobs += [("2 callers x 2 calls, {f1,f2,bx} x {d1,d2}, lists of <= 2 names", u_two, ["c1", "c2"], 2, 2, SAFETY,
                          ["StepPropsHold"]),
                         ("3 callers x 2 calls, {f1,bx} x {d1,d2}", u_small, ["c1", "c2", "c3"], 1, 2, SAFETY,
                          ["StepPropsHold"])]
            for name, u, cl, mn, mo, inv, props in jobs:
                r = vlib.tlc(SPECDIR, "MCHostname", "C.cfg", workers=3, timeout=3000, heap="4g", deadlock=False,
                             extra_files={"C.cfg": mc_cfg(u, cl, "SmallAlphabet", mn, mo, invariants=inv, properties=props)})
                vlib.tlc_require_ok(r, "J1 " + name)
                j1_res.append({"config": name, "distinct": r.distinct, "generated": r.generated, "depth": r.depth,
                               "wall_s": round(r.wall_s, 1)})
            # vacuity: the model does refuse names in use and does answer ErrNotRunning
            for probe in ("NeverRefusedInUse", "NeverNotRunning"):
                r = vlib.tlc(SPECDIR, "MCHostname", "P.cfg", workers=1, timeout=600, heap=HEAP, deadlock=False,
                             extra_files={"P.cfg": mc_cfg(u_small, ["c1", "c2"], "SmallAlphabet", 1, 2, invariants=[probe])})
                if r.violated != probe:
                    raise vlib.Inconclusive("vacuity probe %s was not violated: %r" % (probe, r))
        except Exception as e:  # noqa: BLE001
            j1_err.append(e)

    th = threading.Thread(target=j1_conc)
    th.start()

    # ---- J1 one caller + J2(a)
    alphabet, wit, r_seq = j1_seq_and_witnesses(u_seq, 2, 3, stats)
    pr = probes(u_seq)
    scripts = []
    for (hk, sdk), path in sorted(wit.items()):
        for q in alphabet:
            scripts.append({"id": "e%d" % len(scripts), "ops": path + [q] + pr})
    n_edge = len(scripts)
    exhaustive_states = len(wit)

    # ---- J2(b): long simulated sequences
    n_long, glen = (150, 20) if quick else (1500, 30)
    long_hists = gen_simulated(u_seq, ["c1"], "FullAlphabet", 2 if quick else 3, glen, glen, n_long, 6 * glen, seed)
    for h in long_hists:
        scripts.append({"id": "s%d" % len(scripts), "ops": _ops_of(h) + pr})

    # ---- J2(c): programs of free-running callers
    n_prog, reps = (250, 2) if quick else (2500, 4)
    conc_hists = gen_simulated(u_conc, ["c1", "c2", "c3"], "SmallAlphabet", 2, 4, 11, n_prog, 80, seed + 1)
    conc_hists += gen_simulated(u_conc, CLIENTS, "SmallAlphabet", 2, 3, 12, n_prog // 2, 80, seed + 2)
    progs = programs_from(conc_hists, "p", rnd)

    # ---- executions on the real service
    up_seq, up_conc = os.path.join(work, "u_seq.json"), os.path.join(work, "u_conc.json")
    json.dump(u_seq, open(up_seq, "w"))
    json.dump(u_conc, open(up_conc, "w"))
    sp, st = os.path.join(work, "scripts.ndjson"), os.path.join(work, "seq.trace.ndjson")
    pp, pt = os.path.join(work, "programs.ndjson"), os.path.join(work, "conc.trace.ndjson")
    write_ndjson(sp, scripts)
    write_ndjson(pp, progs)
    rc1, seq_stat = run_vh(vh, "seq", up_seq, sp, st, seed, STUCK_TICKS)
    rc2, conc_stat = run_vh(vh, "conc", up_conc, pp, pt, seed, STUCK_TICKS, reps=reps)
    seq_lines, conc_lines = read_ndjson(st), read_ndjson(pt)
    vlib.log("[X02] %d scripts (%d from every state x alphabet, %d simulated), %d programs x %d: %d + %d calls on the real service"
             % (len(scripts), n_edge, len(scripts) - n_edge, len(progs), reps, seq_stat.get("calls", 0), conc_stat.get("calls", 0)))

    # ---- J3
    f_seq, s1 = judge(seq_lines, u_seq)
    f_conc, s2 = judge(conc_lines, u_conc)
    hs = histories(conc_lines)
    nonlin, s3 = linearize(hs, u_conc)
    th.join()
    if j1_err:
        raise j1_err[0]
    stats["j1"] += j1_res

    # ---- the callers' protocol on the real cluster service
    use_violations, use_cov, use_selftest_ok = use_layer(pid, vh, work, seed, quick, stats)

    # ---- verdict
    by_id_seq = {s["id"]: s for s in scripts}
    by_id_conc = {p["id"]: p for p in progs}
    violations, drift, seen, unconfirmed = [], 0, set(), 0

    def meta_of(f, mode):
        rid = f.run_lines[0]["id"]
        if mode == "seq":
            return {"mode": "seq", "input": by_id_seq[rid], "seed": seed}
        return {"mode": "conc", "input": by_id_conc[rid.split("#")[0]], "seed": seed}

    for mode, fs in (("seq", f_seq), ("conc", f_conc)):
        for f in fs:
            if f.kind == "DRIFT":
                drift += 1
                if drift <= 10:
                    vlib.log("DRIFT %s at line %d of run %s: %s" % (f.name, f.line_no + 1, f.run_lines[0]["id"],
                                                                    json.dumps(f.run_lines[f.line_no])))
                continue
            meta = meta_of(f, mode)
            if f.name in ("NoStuck", "NoOrphan"):
                key = ("stuck", f.run_lines[0]["id"])
                if key in seen:
                    continue
                seen.add(key)
                if len([k for k in seen if k[0] == "stuck"]) > 3:
                    continue
                again = confirm_stuck(vh, meta, u_seq if mode == "seq" else u_conc, seed)
                if again is None:
                    unconfirmed += 1
                    vlib.log("[X02] a wait that was given up did not show again alone with a doubled watchdog: ignored")
                    continue
            v = to_violation(pid, f, meta, u_seq if mode == "seq" else u_conc)
            if v.signature not in seen:
                seen.add(v.signature)
                violations.append(v)
    for k in nonlin[:5]:
        run_lines = split_runs(conc_lines)[k]
        f = Finding("V", "Linearizable", run_lines, len(run_lines) - 1)
        v = to_violation(pid, f, meta_of(f, "conc"), u_conc)
        if v.signature not in seen:
            seen.add(v.signature)
            violations.append(v)
    violations = violations[:8] + use_violations

    # ---- binding self-test, on a run nothing was found in; without it a clean verdict means nothing
    dirty = {f.run_lines[0]["id"] for f in f_conc}
    selftest = binding_selftest(conc_lines, u_conc, dirty)
    unknown = [v for v in violations if not vlib.known_finding(pid, v.signature)]
    if not (selftest["ok"] and use_selftest_ok) and not unknown:
        raise vlib.Inconclusive("binding self-test failed: %s %s" % (json.dumps(selftest), json.dumps(use_cov["binding_selftest"])))

    steps = set()
    for l in seq_lines + conc_lines:
        if l["e"] in ("request", "release"):
            steps.add(step_text(l))
    concurrent_runs = sum(1 for h in hs if _overlaps(h))
    coverage = {
        "states": sum(j["distinct"] for j in stats["j1"]),
        "transitions": sum(j["generated"] for j in stats["j1"]),
        "configs": stats["j1"],
        "traces_validated_against_impl": len(split_runs(seq_lines)) + len(split_runs(conc_lines)) + use_cov["scripts_replayed"],
        "evaluations": seq_stat.get("calls", 0) + conc_stat.get("calls", 0) + use_cov["stimuli"],
        "trace_lines_walked_by_tlc": s1 + s2 + use_cov["trace_lines_walked_by_tlc"],
        "linearizability": {"histories": len(hs), "with_overlapping_calls": concurrent_runs, "not_linearizable": len(nonlin),
                            "search_states": s3},
        "distinct_nontrivial": len(steps),
        "rule": "distinct loop steps observed on the real service: (map before, request, answer, map after) "
                                    "and (released names, map after)",
        "exhaustive": seq_stat.get("runs", 0) == len(scripts),
        "exhaustive_scope": "every call of the alphabet (%d calls: reserve/can x %d deployments x lists of <= 2 of %d names, "
                            "duplicates and the empty list included; releases) from every reachable (in-use map, shut down or not) "
                            "of the one-caller model (%d states), on the real service" % (
                                len(alphabet), len(u_seq["deps"]), len(u_seq["hosts"]), exhaustive_states),
        "scripts": {"state_x_alphabet": n_edge, "simulated_sequences": len(scripts) - n_edge,
                    "programs": len(progs), "executions_per_program": reps,
                    "burst_programs": sum(1 for p in progs if p["mode"] == "burst"),
                    "programs_with_shutdown": sum(1 for p in progs if p["shutdown_after"] >= 0)},
        "samples": [scripts[n_edge // 3], scripts[-1], progs[0], progs[min(2, len(progs) - 1)]],
        "drift_steps": drift + use_cov["drift_steps"],
        "use_layer": use_cov,
        "stuck_unconfirmed": unconfirmed,
        "runs_not_executed_after_stuck_runs": (len(scripts) - seq_stat.get("runs", 0)) + (len(progs) * reps - conc_stat.get("runs", 0)),
        "binding_selftest": selftest,
        "seeds": [seed],
    }
    assumptions = [
        "the in-use map is read at add-only trace points inside the service's loop (build tag verif); the service is started "
        "through a verif-tagged export of newHostnameService",
        "concurrent executions are those the Go scheduler produced under seeded jitter and the burst schedule, not all",
        "a caller that never returns is a watchdog expiry in running time, confirmed alone with a doubled watchdog",
        "configured blocked names are lower-case (an entry written in upper case blocks nothing: docs/hostname.md)",
    ]
    return vlib.finish(pid, tier, seed, "model_checking", coverage, t0, violations, assumptions)


def _overlaps(h):
    ops = [o for o in h["ops"] if o["op"] != "shutdown"]
    return any(a is not b and a["s"] < b["s"] < a["e"] for a in ops for b in ops)


def run_replay(pid, vh, path, seed, t0):
    rp = os.path.join(path, "replay.json")
    if not os.path.exists(rp):
        raise vlib.Inconclusive("no replay.json under %s" % path)
    meta = json.load(open(rp))
    u = meta["universe"]
    d = vlib.scratch("hostname-replay-")
    up, ip, op = os.path.join(d, "u.json"), os.path.join(d, "in.ndjson"), os.path.join(d, "out.ndjson")
    json.dump(u, open(up, "w"))
    write_ndjson(ip, [meta["input"]])
    if meta["mode"] == "use":
        rc, out = vlib.run([vh, "hostname", "use", "-universe", up, "-scripts", ip, "-out", op, "-seed", str(meta.get("seed", seed))],
                           timeout=600)
        if rc != 0:
            raise vlib.Inconclusive("vh hostname use failed: " + out[-1500:])
        fs, _ = judge_use(read_ndjson(op), u)
        vs = [f for f in fs if f.kind == "V" and f.name == meta["property"]]
        for f in vs[:3]:
            vlib.log("replay: %s false after line %d: %s" % (f.name, f.line_no + 1, json.dumps(f.run_lines[f.line_no])))
        if vs:
            print("VIOLATION property=%s replay=%s" % (pid, path), flush=True)
            return 1
        print("OK property=%s replay (not reproduced)" % pid, flush=True)
        return 0
    run_vh(vh, "seq" if meta["mode"] == "seq" else "conc", up, ip, op, meta.get("seed", seed), STUCK_TICKS,
           reps=None if meta["mode"] == "seq" else 20)
    lines = read_ndjson(op)
    fs, _ = judge(lines, u)
    bad, _ = linearize(histories(lines), u) if meta["mode"] != "seq" else ([], 0)
    vs = [f for f in fs if f.kind == "V"]
    for f in vs[:5]:
        vlib.log("replay: %s false at line %d: %s" % (f.name, f.line_no + 1, json.dumps(f.run_lines[f.line_no])))
    if vs or bad:
        print("VIOLATION property=%s replay=%s" % (pid, path), flush=True)
        return 1
    print("OK property=%s replay (not reproduced)" % pid, flush=True)
    return 0
