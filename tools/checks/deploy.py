"""C14 -- provider deployment manager (provider/cluster/manager.go + routing in provider/cluster/service.go):
never two cluster operations for a lease at once; never a deploy started after teardown was requested; if the lease
closes, teardown is invoked after the last deploy finished and reservation + hostnames are then released; absent a
close / failed deploy, the last deploy uses the most recently received manifest (obligations that need further steps
are waived once provider shutdown was requested, DESIGN 5.1).

J1  TLC model-checks spec/deploy/DeployManager.tla: the forced-schedule model (Atomic, the export source) and every
    interleaving of the fine-grained model (service loop, manager loop, op goroutine, hostname service, environment).
J2  every stable state of the forced-schedule model is one stimulus script (history variable `script`, printed by a
    state constraint); `vh deploy replay` drives the real cluster.NewService through each of them: scripted
    cluster.Client whose Deploy/TeardownLease block on gates, real bus, the real hostname service behind a gate hook,
    veriftrace hooks in manager.go/service.go reporting every loop iteration.  `vh deploy free` runs the same system
    with no gates, concurrent publishers and random delays/failures.
J3  TLC reads the recorded steps through DeployManagerTrace.tla: the C14 operators of DeployManager.tla are evaluated
    on the history observed from the real code at every quiescent point (verdict); every recorded step must be the
    matching specification action with the logged post-state (conformance; a mismatch is DRIFT, not an alarm).
"""
import concurrent.futures as cf
import json
import os
import random
import re
import shutil
import sys
import time

import vlib

PROPERTIES = ["C14"]
SPEC = os.path.join(vlib.SPEC, "deploy")
CLAUSES = {
    "a": "two cluster operations in flight for the lease at the same time",
    "b": "deploy started after teardown was requested",
    "c": "lease closed: no teardown after the last deploy finished / reservation or hostnames not released",
    "d": "last deploy did not use the most recently received manifest",
}

CONSTS = """CONSTANTS
  Impl = "%(impl)s"
  MaxManifests = %(mm)d
  MaxClosed = %(mc)d
  MaxDeployErr = %(de)d
  MaxTdErr = %(te)d
  MaxAttempts = %(att)d
  AllowShutdown = %(shut)s
  NContents = %(nc)d
  FreshOnly = %(fresh)s
  Preexisting = %(pre)s
  Atomic = %(atomic)s
  MaxStimuli = %(ms)d
"""


def mc_cfg(export=False, invariants=True, **kw):
    d = mc_defaults()
    d.update(kw)
    t = CONSTS % d + "INIT Init\nNEXT Next\n"
    if invariants:
        t += "INVARIANTS TypeOK Safety AtQuiescence\n"
    if export:
        t += "CONSTRAINT ExportConstraint\n"
    return t


def trace_cfg(atomic, impl="intended"):
    d = dict(impl=impl, mm=100000, mc=100000, de=100000, te=100000, att=50, pre="FALSE", shut="TRUE", nc=4, fresh="FALSE",
             atomic="TRUE" if atomic else "FALSE", ms=10000000)
    return CONSTS % d + "INIT TInit\nNEXT TNext\n"


def scripts_of(out):
    s = set()
    for m in re.finditer(r'<<"SCRIPT", "(.*?)">>', out):
        s.add(tuple(json.loads(m.group(1).replace('\\"', '"'))))
    return s


# ---------------------------------------------------------------------------------------------------------
# J2: replay on the real code

def run_vh(vh, args, timeout):
    rc, out = vlib.run([vh, "deploy"] + args, timeout=timeout)
    summ = None
    for l in out.splitlines():
        if l.startswith("{") and '"scripts"' in l:
            summ = json.loads(l)
    if rc != 0 or summ is None:
        raise vlib.Inconclusive("vh deploy %s failed rc=%s\n%s" % (args[0], rc, out[-3000:]))
    return summ, out


def read_traces(path):
    """-> {id: [record, ...]} in file order"""
    by, cur = {}, None
    for line in open(path):
        r = json.loads(line)
        if r["e"] == "reset":
            cur = r["id"]
            by[cur] = []
        by[cur].append(r)
    return by


def write_traces(path, by, ids):
    with open(path, "w") as fh:
        for i in ids:
            for r in by[i]:
                fh.write(json.dumps(r) + "\n")


# ---------------------------------------------------------------------------------------------------------
# J3: TLC on recorded traces

_RES = re.compile(r'<<"RESULT", ([\d, -]+)>>')
_END = re.compile(r'<<"END", ([\d, -]+)>>')
_STUCK = re.compile(r'<<"STUCK", (-?\d+)>>')
_SKIP = re.compile(r'<<"SKIPPED", (-?\d+)>>')


def judge(trace_path, atomic, impl="intended", timeout=1200):
    """-> {id: dict(fail=set of clause letters, dpos=int, notq=bool, noobs=bool, ended=bool, stuck=bool, nobs=int)}"""
    r = vlib.tlc(SPEC, "DeployManagerTrace", "t.cfg", workers=1, timeout=timeout, deadlock=False,
                 extra_files={"t.cfg": trace_cfg(atomic, impl)}, copy_files={"trace.ndjson": trace_path})
    if not r.ok:
        raise vlib.Inconclusive("trace validation did not finish: %s\n%s" % (r, (r.error or r.out[-3000:])))
    res = {}

    def g(i):
        return res.setdefault(i, dict(fail=set(), dpos=0, notq=False, noobs=False, ended=False, stuck=False,
                                      skipped=False, nobs=0))
    for m in set(_RES.findall(r.out)):
        tid, pos, dpos, obs, q, a, b, c, d = [int(x) for x in m.split(",")]
        e = g(tid)
        e["nobs"] += 1
        for n, v in zip("abcd", (a, b, c, d)):
            if not v:
                e["fail"].add(n)
        if not obs:
            e["noobs"] = True
        if dpos == 0 and not q:
            e["notq"] = True
    for m in set(_END.findall(r.out)):
        tid, dpos, a, b = [int(x) for x in m.split(",")]
        e = g(tid)
        e["ended"] = True
        e["dpos"] = max(e["dpos"], dpos)
        if not a:
            e["fail"].add("a")
        if not b:
            e["fail"].add("b")
    for m in set(_STUCK.findall(r.out)):
        g(int(m))["stuck"] = True
    for m in set(_SKIP.findall(r.out)):
        g(int(m))["skipped"] = True
    return res, r


def show(rec):
    return {k: v for k, v in rec.items() if v not in ("-", 0, False, "")}


# ---------------------------------------------------------------------------------------------------------

def selftest(by, verdicts, work):
    """Binding self-test: one recorded execution, accepted as is; with the Teardown call dropped the C14 verdict must
    turn false; with one logged manager state flipped conformance must reject it; with the manifest of the last Deploy
    call changed clause (d) must turn false."""
    base_c = base_d = None
    for i, recs in sorted(by.items(), key=lambda kv: (len(kv[1]), kv[0])):
        if i >= 1000000:
            continue   # burst variants are validated against the interleaved model; the self-test uses Atomic
        v = verdicts.get(i)
        if not v or v["fail"] or v["dpos"] or v["notq"] or not v["ended"]:
            continue
        es = [(r["e"], r["c"], r["t"]) for r in recs]
        if base_c is None and ("op_begin", "Teardown", "-") in es and ("svc_route", "-", "closed") in es \
                and ("op_begin", "Deploy", "-") in es \
                and any(r["e"] == "mgr" and r["state"] == "deploy-complete" for r in recs) \
                and not any(r["e"] == "req_shutdown" for r in recs):
            base_c = recs
        nb = [r for r in recs if r["e"] == "op_begin" and r["c"] == "Deploy"]
        if base_d is None and len(nb) >= 2 and nb[-1]["m"] in (1, 2) and not any(
                r["e"] in ("req_shutdown", "pub_closed") or (r["e"] == "op_return" and r["r"] == "err") for r in recs):
            base_d = recs
        if base_c and base_d:
            break
    if not (base_c and base_d):
        return {"ok": False, "reason": "no conforming execution with a teardown / with two deploys among the replays"}

    def rid(recs, n):
        out = [dict(r) for r in recs]
        out[0]["id"] = n
        return out
    t = {}
    t[1] = rid(base_c, 1)
    t[2] = [r for r in rid(base_c, 2) if not (r["e"] in ("op_begin", "op_return") and r["c"] == "Teardown")]
    t[3] = rid(base_c, 3)
    for r in t[3]:
        if r["e"] == "mgr" and r["state"] == "deploy-complete":
            r["state"] = "deploy-active"
            break
    t[4] = rid(base_d, 4)
    last = [r for r in t[4] if r["e"] == "op_begin" and r["c"] == "Deploy"][-1]
    last["m"] = 3 - last["m"]   # the other content
    p = os.path.join(work, "selftest.ndjson")
    write_traces(p, t, [1, 2, 3, 4])
    v, _ = judge(p, atomic=True, timeout=300)
    out = {
        "uncorrupted_accepted": bool(v.get(1) and not v[1]["fail"] and v[1]["dpos"] == 0),
        "dropped_teardown_call_rejected_by_clause_c": bool(v.get(2) and "c" in v[2]["fail"]),
        "flipped_manager_state_rejected_by_conformance": bool(v.get(3) and v[3]["dpos"] > 0 and not v[3]["fail"]),
        "stale_manifest_rejected_by_clause_d": bool(v.get(4) and "d" in v[4]["fail"]),
    }
    out["ok"] = all(out.values())
    return out


def nontrivial_key(recs):
    """distinct non-trivial execution class: the sequence of (manager select case, state after it) the real manager
    went through plus the outcomes of the service's routing decisions; trivial = the manager never ran."""
    k = []
    for r in recs:
        if r["e"] == "mgr":
            k.append((r["case"], r["r"], r["state"], r["issued"], r["exit"]))
        elif r["e"] == "svc_route":
            k.append((r["t"], r["out"]))
    return tuple(k) if any(x for x in k if len(x) == 5) else None


def run(pid, tier, seed, replay):
    t0 = time.time()
    quick = tier == "quick"
    rng = random.Random(seed)
    vh = vlib.build_harness()
    work = vlib.scratch("deploy-")
    nproc = max(2, min(12, vlib.NCPU - 2))

    if replay:
        return do_replay(pid, tier, seed, replay, vh, work, t0)

    pool = cf.ThreadPoolExecutor(max_workers=8)

    # ---- J1 + export ------------------------------------------------------------------------------------
    if quick:
        # "contents": manifests are values (2 contents, 3 manifests: A-A-A, A-A-B, A-B-A, A-B-B at every point of the
        # deploy window), no close / failure / shutdown: the setting of clause (d)
        exp = {"forced": dict(), "forced-preexisting": dict(pre="TRUE", ms=8),
               "forced-contents": dict(mm=3, nc=2, fresh="FALSE", mc=0, de=0, te=0, shut="FALSE", ms=10),
               "forced-contents-close": dict(mm=3, nc=2, fresh="FALSE", mc=1, de=0, te=0, shut="FALSE", ms=7)}
        free = {"interleaved": dict(atomic="FALSE", att=2, ms=7),
                "interleaved-contents": dict(atomic="FALSE", att=2, mm=3, nc=2, fresh="FALSE", mc=0, de=0, te=0,
                                             shut="FALSE", ms=8),
                "interleaved-preexisting": dict(atomic="FALSE", att=2, ms=5, pre="TRUE")}
    else:
        exp = {"forced": dict(mm=3, mc=2, de=2, te=2, ms=12),
               "forced-preexisting": dict(mm=3, mc=2, de=2, te=2, ms=11, pre="TRUE"),
               "forced-contents": dict(mm=4, nc=3, fresh="FALSE", mc=0, de=0, te=0, shut="FALSE", ms=11),
               "forced-contents-faults": dict(mm=3, nc=2, fresh="FALSE", mc=1, de=1, te=1, ms=10),
               "forced-contents-preexisting": dict(mm=3, nc=2, fresh="FALSE", mc=0, de=0, te=0, shut="FALSE", ms=8,
                                                   pre="TRUE")}
        free = {"interleaved": dict(atomic="FALSE", att=2, ms=8, mm=3),
                "interleaved-contents": dict(atomic="FALSE", att=2, mm=3, nc=2, fresh="FALSE", mc=0, de=0, te=0,
                                             shut="FALSE", ms=8),
                "interleaved-preexisting": dict(atomic="FALSE", att=2, ms=6, pre="TRUE"),
                "interleaved-total-teardown-failure": dict(atomic="FALSE", att=2, te=3, ms=7, mc=2)}
    futs = {}
    for name, kw in exp.items():
        futs[name] = pool.submit(vlib.tlc, SPEC, "MC_DeployManager", "x.cfg", workers=4 if quick else 6, timeout=1500,
                                 deadlock=False, extra_files={"x.cfg": mc_cfg(export=True, **kw)})
    for name, kw in free.items():
        futs[name] = pool.submit(vlib.tlc, SPEC, "MC_DeployManager", "x.cfg", workers=4 if quick else 8, timeout=2400,
                                 deadlock=False, extra_files={"x.cfg": mc_cfg(**kw)})
    # the as-found model must reproduce the predicted counterexample (vacuity guard for the invariants)
    futs["asfound-selfcheck"] = pool.submit(vlib.tlc, SPEC, "MC_DeployManager", "x.cfg", workers=2, timeout=600,
                                            deadlock=False, extra_files={"x.cfg": mc_cfg(impl="asfound")})

    scripts = []   # (stim tuple, pre)
    seen, prio = set(), set()
    configs = {}
    for name in exp:
        r = futs[name].result()
        vlib.tlc_require_ok(r, "J1 " + name)
        ss = scripts_of(r.out)
        configs[name] = dict(constants=str(dict(mc_defaults(), **exp[name])), distinct=r.distinct, generated=r.generated,
                             depth=r.depth, scripts=len(ss), wall_s=round(r.wall_s, 1))
        scripts += [(s, name.endswith("preexisting")) for s in sorted(ss) if (s, name.endswith("preexisting")) not in seen]
        seen.update((s, name.endswith("preexisting")) for s in ss)
        if "contents" in name:
            prio.update((s, name.endswith("preexisting")) for s in ss)
    if not scripts:
        raise vlib.Inconclusive("no scripts exported from the forced-schedule model")
    total_scripts = len(scripts)
    cap = 4000 if quick else 20000
    exhaustive = True
    if len(scripts) > cap:
        # always keep the small complete configuration (no pre-existing deployment), sample the rest
        keep = [s for s in scripts if not s[1]] if quick else [s for s in scripts if s in prio][:8000]
        ks = set(keep)
        rest = [s for s in scripts if s not in ks]
        rng.shuffle(rest)
        scripts = keep + rest[: max(0, cap - len(keep))]
        exhaustive = False
    if not quick:
        # total teardown failure: all 50 attempts fail (about 135 s of real back-off); thorough tier only
        scripts.append((("m1", "hok", "dok", "c") + ("terr",) * 50, False))
    scripts = [dict(id=i, stim=list(s), pre=p) for i, (s, p) in enumerate(scripts)]
    log("J2: %d scripts (of %d exported)" % (len(scripts), total_scripts))

    # burst variants: adjacent stimuli joined "x+y(+z)" are applied back to back, so that several select cases of the
    # real loops are ready at once and the runtime picks (validated against the interleaved model)
    bursts = []
    for sc in scripts:
        st = sc["stim"]
        if len(st) < 2 or len(st) > 40:
            continue
        g, i = [], 0
        while i < len(st):
            if i + 1 < len(st) and rng.random() < 0.5:
                n = 3 if (i + 2 < len(st) and rng.random() < 0.3) else 2
                g.append("+".join(st[i:i + n]))
                i += n
            else:
                g.append(st[i])
                i += 1
        if any("+" in x for x in g):
            bursts.append(dict(id=1000000 + sc["id"], stim=g, pre=sc["pre"], burst=True))
    log("J2: %d burst variants" % len(bursts))
    # bystander variants: a second lease of the same deployment (other gseq) is deployed first and never closed; the
    # script must play out identically and leave it alone (routing keys). Shutdown scripts are left out: the bystander's
    # exit waits for the hostname service, which the harness may be holding at the gate.
    bys = [dict(id=2000000 + sc["id"], stim=sc["stim"], pre=False, by=True) for sc in scripts
           if not sc["pre"] and "s" not in sc["stim"] and len(sc["stim"]) <= 40]
    nby = 300 if quick else 6000
    if len(bys) > nby:
        rng.shuffle(bys)
        bys = bys[:nby]
    log("J2: %d bystander variants" % len(bys))
    # hostname variants: manifest contents have a hostname dimension. The first manifest names hostA+hostB (what the
    # manager reserves); under "move" every later content names another host instead of hostA, under "drop" no host.
    # Judged as before: at quiescence after a close everything RESERVED for the lease (hostA) is free again for another
    # deployment. Hostnames merely added by an update are not looked at (hostname extension, finding F1).
    cand = [sc for sc in scripts if "c" in sc["stim"] and "s" not in sc["stim"] and len(sc["stim"]) <= 40
            and any(x[0] == "m" and x not in ("m", "m1") for x in sc["stim"])]
    cand.sort(key=lambda sc: (len(sc["stim"]), sc["pre"], sc["stim"]))
    nh = 100 if quick else 3000
    pick = cand[:nh] + rng.sample(cand[nh:], min(nh, len(cand) - nh)) if len(cand) > nh else cand
    hvs = [dict(id=3000000 + 2 * sc["id"] + k, stim=sc["stim"], pre=sc["pre"], hosts=h)
           for sc in pick for k, h in enumerate(("move", "drop"))]
    log("J2: %d hostname variants" % len(hvs))

    # ---- J2 replay (sharded over processes; one system under test at a time per process) -----------------
    def shard(items, n):
        order = list(range(len(items)))
        rng.shuffle(order)
        out = [[] for _ in range(n)]
        for k, i in enumerate(order):
            out[k % n].append(items[i])
        return [x for x in out if x]
    shards = [(sh, True) for sh in shard([s for s in scripts if len(s["stim"]) <= 40], nproc)]
    long_ones = [s for s in scripts if len(s["stim"]) > 40]
    if long_ones:
        shards.append((long_ones, True))
    shards += [(sh, False) for sh in shard(bursts, max(2, nproc // 2))]
    shards += [(sh, True) for sh in shard(bys, max(2, nproc // 3))]
    shards += [(sh, True) for sh in shard(hvs, max(2, nproc // 3))]
    rfuts = []
    for k, (sh, atomic) in enumerate(shards):
        ip, op = os.path.join(work, "s%d.ndjson" % k), os.path.join(work, "t%d.ndjson" % k)
        with open(ip, "w") as fh:
            for s in sh:
                fh.write(json.dumps(s) + "\n")
        rfuts.append((op, atomic, pool.submit(run_vh, vh, ["replay", "-v", "-in", ip, "-out", op], 2400)))
    # free-running executions
    nfree_p, nfree_n = (6, 300) if quick else (12, 2000)
    ffuts = []
    for k in range(nfree_p):
        op = os.path.join(work, "f%d.ndjson" % k)
        ffuts.append((op, k, pool.submit(run_vh, vh, ["free", "-seed", str(seed * 100 + k), "-runs", str(nfree_n),
                                                       "-out", op], 2400)))

    steps = forced_order = 0
    for op, atomic, f in rfuts:
        summ, _ = f.result()
        steps += summ["steps"]
        forced_order += summ["forced_order"]
    # ---- J3 --------------------------------------------------------------------------------------------
    jf = [(op, pool.submit(judge, op, atomic)) for op, atomic, _ in rfuts]
    fsteps = 0
    for op, k, f in ffuts:
        summ, _ = f.result()
        fsteps += summ["steps"]
        forced_order += summ["forced_order"]
    jff = [(op, k, pool.submit(judge, op, False)) for op, k, _ in ffuts]

    by, verd = {}, {}
    for op, f in jf:
        v, _ = f.result()
        b = read_traces(op)
        by.update(b)
        verd.update(v)
    fby, fverd = {}, {}
    for op, k, f in jff:
        v, _ = f.result()
        b = read_traces(op)
        for i in b:
            fby[(k, i)] = b[i]
            fverd[(k, i)] = v.get(i)
    for name in list(free) + ["asfound-selfcheck"]:
        r = futs[name].result()
        if name == "asfound-selfcheck":
            if r.ok or r.violated not in ("Safety", "AtQuiescence"):
                raise vlib.Inconclusive("as-found model does not reproduce the predicted counterexample: %r" % r)
            configs[name] = dict(violated=r.violated, depth=r.depth, note="model self-check, must violate")
            continue
        vlib.tlc_require_ok(r, "J1 " + name)
        configs[name] = dict(constants=str(dict(mc_defaults(), **free[name])), distinct=r.distinct,
                             generated=r.generated, depth=r.depth, wall_s=round(r.wall_s, 1))

    # ---- verdict ---------------------------------------------------------------------------------------
    sid = {s["id"]: s for s in scripts + bursts + bys + hvs}
    violations, drift, inconclusive = [], [], []
    groups = {}
    for i, recs in by.items():
        v = verd.get(i)
        if v is not None and v["skipped"]:
            inconclusive.append("script %s %s: skipped (the process had given up)" % (i, " ".join(sid[i]["stim"])))
            continue
        if v is None or not v["ended"] or v["noobs"] or (v["stuck"] and not v["fail"]):
            inconclusive.append("script %s %s: %s" % (i, " ".join(sid[i]["stim"]), "stuck" if v and v["stuck"] else
                                                      "no verdict / observation unavailable"))
            continue
        if v["dpos"] or v["notq"]:
            drift.append((i, v["dpos"]))
        if v["fail"]:
            groups.setdefault("".join(sorted(v["fail"])), []).append(i)
    for cl, ids in sorted(groups.items()):
        # stable signature: prefer a plain forced-schedule script over its burst / bystander variants
        best = min(ids, key=lambda i: (bool(sid[i].get("burst")), bool(sid[i].get("by")), bool(sid[i].get("hosts")),
                                       len(sid[i]["stim"]),
                                       sid[i]["pre"], sid[i]["stim"]))
        s = sid[best]
        sig = "C14:%s:%s%s%s" % (cl, "pre " if s["pre"] else "", ("bystander " if s.get("by") else "") + ("hosts=%s " % s["hosts"] if s.get("hosts") else ""), " ".join(s["stim"]))
        detail = "%d replayed scripts fail clause(s) %s\n" % (len(ids), ", ".join("(%s) %s" % (c, CLAUSES[c]) for c in cl))
        detail += "shortest: %s (pre-existing deployment: %s)\n" % (" ".join(s["stim"]), s["pre"])
        detail += "\n".join(json.dumps(show(r)) for r in by[best])
        violations.append(vlib.Violation(pid, sig, detail, {
            "script.json": json.dumps(dict(stim=s["stim"], pre=s["pre"], burst=bool(s.get("burst")), by=bool(s.get("by")),
                                          hosts=s.get("hosts", ""))),
            "trace.ndjson": "".join(json.dumps(r) + "\n" for r in by[best])}))
    fgroups = {}
    for key, recs in fby.items():
        v = fverd.get(key)
        if v is not None and v["skipped"]:
            inconclusive.append("free run %s: skipped (the process had given up)" % (key,))
            continue
        if v is None or not v["ended"] or v["noobs"] or (v["stuck"] and not v["fail"]):
            inconclusive.append("free run %s: %s" % (key, recs[0]["script"]))
            continue
        if v["dpos"] or v["notq"]:
            drift.append((key, v["dpos"]))
        if v["fail"]:
            fgroups.setdefault("".join(sorted(v["fail"])), []).append(key)
    for cl, keys in sorted(fgroups.items()):
        if cl in groups:
            continue   # already reported from a deterministic script
        best = min(keys, key=lambda k: len(fby[k]))
        sig = "C14:%s:free-running" % cl
        detail = "%d free-running executions fail clause(s) %s\n%s\n" % (
            len(keys), ", ".join("(%s) %s" % (c, CLAUSES[c]) for c in cl), fby[best][0]["script"])
        detail += "\n".join(json.dumps(show(r)) for r in fby[best])
        violations.append(vlib.Violation(pid, sig, detail, {
            "trace.ndjson": "".join(json.dumps(r) + "\n" for r in fby[best]), "free.txt": fby[best][0]["script"]}))

    for key, dpos in drift[:8]:
        recs = by[key] if key in by else fby[key]
        vlib.log("DRIFT C14 execution %s (%s): specification stops following at step %d" % (key, recs[0]["script"], dpos))
    if forced_order:
        vlib.log("DRIFT C14 %d recorded events had no causal predecessor in the observation" % forced_order)

    st = selftest(by, verd, work) if by else {"ok": False, "reason": "no replays"}
    if inconclusive and not violations:
        raise vlib.Inconclusive("%d executions without a verdict, e.g. %s" % (len(inconclusive), inconclusive[:3]))
    if inconclusive:
        log("%d executions without a verdict (stuck / skipped), e.g. %s" % (len(inconclusive), inconclusive[:2]))
    if not st["ok"] and not violations and not drift:
        raise vlib.Inconclusive("binding self-test failed: %s" % st)

    keys = set()
    for recs in list(by.values()) + list(fby.values()):
        k = nontrivial_key(recs)
        if k is not None:
            keys.add(k)
    main = configs.get("interleaved", {})
    samples = [" ".join(sid[i]["stim"]) for i in sorted(by, key=lambda i: -len(by[i]))[:2]]
    samples += [" ".join(sid[i]["stim"]) for i in sorted(by)[:2]]
    if fby:
        k0 = sorted(fby)[0]
        samples.append([show(r) for r in fby[k0]][:14])
    coverage = {
        "states": int(sum(c.get("distinct", 0) for c in configs.values())),
        "transitions": int(sum(c.get("generated", 0) for c in configs.values())),
        "traces_validated_against_impl": len(by) + len(fby),
        "forced_schedule_scripts_replayed": len([i for i in by if i < 1000000]),
        "burst_variants_replayed": len([i for i in by if 1000000 <= i < 2000000]),
        "bystander_variants_replayed": len([i for i in by if 2000000 <= i < 3000000]),
        "hostname_variants_replayed": len([i for i in by if i >= 3000000]),
        "free_running_executions": len(fby),
        "evaluations": steps + fsteps,
        "distinct_nontrivial": len(keys),
        "rule": "distinct sequences of (manager select case taken, its argument, state after it, operation issued, "
                "left the loop) and service routing outcomes observed on the real code; an execution in which the "
                "manager never took a select case is trivial and not counted",
        "samples": samples,
        "exhaustive": bool(exhaustive),
        "exhaustive_note": "every stable state of the forced-schedule model within the stated constants is one script, "
                           "each replayed on the real code" + ("" if exhaustive else " (seeded sample above the cap)") +
                           "; the interleaved models are exhaustive in TLC only; free-running executions are samples",
        "drift_steps": len(drift) + forced_order,
        "executions_without_verdict": len(inconclusive),
        "binding_selftest": st,
        "configs": configs,
        "clauses_failed": {k: len(v) for k, v in groups.items()},
        "seeds": {"VERIF_SEED": seed},
        "interleaved_states": main.get("distinct", 0),
    }
    assumptions = [
        "one lease / one deployment manager per system under test; managers of different leases share only the service loop",
        "teardown 'requested' = the manager accepted the request on teardownch (rendezvous); a deploy is 'started' when "
        "the manager calls startDeploy",
        "obligations that need further steps are waived once provider shutdown was requested (DESIGN 5.1)",
        "a lease that closes before any Deploy was started needs no teardown, only the release of reservation and hostnames",
        "manifest ids increase in publication order",
        "retry back-off of doTeardown is real time (100 ms .. 3 s); total failure (50 attempts) is replayed in the thorough tier only",
    ]
    return vlib.finish(pid, tier, seed, "model_checking", coverage, t0, violations, assumptions)


def mc_defaults():
    return dict(impl="intended", mm=2, mc=1, de=1, te=1, att=50, pre="FALSE", atomic="TRUE", ms=9, shut="TRUE", nc=4,
                fresh="TRUE")


def log(*a):
    vlib.log("[C14]", *a)


def do_replay(pid, tier, seed, path, vh, work, t0):
    """Re-execute the script saved with a violation on the current tree and re-judge it."""
    p = path
    if os.path.isdir(p):
        p = os.path.join(p, "script.json")
    if not os.path.exists(p):
        raise vlib.Inconclusive("no script.json under %s (free-running executions are not re-executable; their trace is "
                                "in trace.ndjson)" % path)
    s = json.load(open(p))
    ip, op = os.path.join(work, "s.ndjson"), os.path.join(work, "t.ndjson")
    with open(ip, "w") as fh:
        fh.write(json.dumps(dict(id=0, stim=s["stim"], pre=s.get("pre", False), burst=bool(s.get("burst")),
                                 by=bool(s.get("by")), hosts=s.get("hosts", ""))) + "\n")
    run_vh(vh, ["replay", "-in", ip, "-out", op], 600)
    v, _ = judge(op, not s.get("burst"))
    by = read_traces(op)
    for r in by[0]:
        print(json.dumps(show(r)))
    e = v.get(0)
    if e is None or not e["ended"] or e["stuck"]:
        raise vlib.Inconclusive("replay produced no verdict")
    if e["dpos"]:
        vlib.log("DRIFT C14 specification stops following at step %d" % e["dpos"])
    if e["fail"]:
        sig = "C14:%s:%s%s" % ("".join(sorted(e["fail"])), "pre " if s.get("pre") else "", " ".join(s["stim"]))
        viol = [vlib.Violation(pid, sig, "replay of %s fails clause(s) %s" % (path, sorted(e["fail"])),
                               {"script.json": json.dumps(s),
                                "trace.ndjson": "".join(json.dumps(r) + "\n" for r in by[0])})]
        new = [x for x in viol if not vlib.known_finding(pid, x.signature)]
        for x in viol:
            if x not in new:
                print("KNOWN-FINDING: property=%s %s" % (pid, x.signature))
        if new:
            d = vlib.save_replay(pid, "replayed", new[0].replay_files)
            print("VIOLATION property=%s replay=%s" % (pid, d))
            return 1
    print("OK property=%s replay=%s" % (pid, path))
    return 0
