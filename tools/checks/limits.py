"""C19 -- only deployments within the network's resource and price limits are admitted.

J1  TLC model-checks spec/limits/Limits.tla over the covering enumeration of abstract create-deployment messages
    (constants = the limits table read from the running code): Verdict(m)="ok" => WithinLimits(m), stored
    deployments within limits, rejected => no effect.  The as-found variant (no bound on the group count) must
    fail J1 (the spec can tell the difference).
J2  the enumerated messages (+ random ones from a TLC simulation of the field-by-field builder) are concretised
    and executed on the real application by `vh limits run`.
J3  TLC (LimitsTrace.tla) judges every recorded line with the same property operators; verdict lines are parsed
    here.  p1/p2/p3 false = violation (from the real code's behaviour); conf false = drift.
"""
import json
import os
import random
import shutil
import time
from concurrent.futures import ThreadPoolExecutor

import vlib

PROPERTIES = ["C19"]
SPEC_DIR = os.path.join(vlib.SPEC, "limits")

CONST_ORDER = ["Denom", "DepositDenom", "OtherDenom", "UnitCPU", "UnitMem", "UnitSto",
               "MinUnitCPU", "MaxUnitCPU", "MaxGroupCPU", "MinUnitMem", "MaxUnitMem", "MaxGroupMem",
               "MinUnitSto", "MaxUnitSto", "MaxGroupSto",
               "MinUnitCPUB", "MaxUnitCPUB", "MaxGroupCPUB", "MinUnitMemB", "MaxUnitMemB", "MaxGroupMemB",
               "MinUnitStoB", "MaxUnitStoB", "MaxGroupStoB", "MinUnitCount", "MaxUnitCount",
               "MinUnitPrice", "MaxUnitPrice", "MaxGroupCount", "MaxGroupUnits", "VersionLen", "MinDeposit", "Funds", "BaseDSeq",
               "MidCPU", "MidMem", "MidSto", "MidOff", "MidCount", "MidPrice", "MidDeposit", "BuildSteps"]


BOFF = 524288


def interior(consts, seed):
    """Seed-chosen interior points (strictly between the bounds) for the 'mid' classes."""
    rnd = random.Random(seed * 7919 + 13)
    c = dict(consts)

    def between(lo, hi):
        if hi - lo < 2:
            raise vlib.Inconclusive("limits table leaves no interior value between %d and %d" % (lo, hi))
        return rnd.randint(lo + 1, hi - 1)
    c["MidCPU"] = between(c["MinUnitCPU"] + 1, c["MaxUnitCPU"] - 1)
    c["MidMem"] = between(c["MinUnitMem"] + 1, c["MaxUnitMem"] - 1)
    c["MidSto"] = between(c["MinUnitSto"] + 1, c["MaxUnitSto"] - 1)
    c["MidOff"] = rnd.randint(0, 1000)     # the spec subtracts 500 (cfg files have no negative numbers)
    c["MidCount"] = between(c["MinUnitCount"] + 1, c["MaxUnitCount"] - 1)
    c["MidPrice"] = between(c["MinUnitPrice"] + 1, c["MaxUnitPrice"] - 1)
    c["MidDeposit"] = between(c["MinDeposit"] + 1, min(c["Funds"] - 1, 4 * c["MinDeposit"]))
    c["BuildSteps"] = 14
    return c


ALL_FAMS = ["shapes", "single", "dep", "names", "totals", "pairs", "cross", "mix", "update", "trunc"]


def render_cfg(consts, tier, impl, kind, fams=None):
    """kind: mc (covering enumeration, exported), mc_noexport, sim (random builder), trace."""
    lines = ["CONSTANTS", '    Impl = "%s"' % impl, '    Tier = "%s"' % tier,
             "    Fams = {%s}" % ", ".join('"%s"' % f for f in (fams or ALL_FAMS))]
    for k in CONST_ORDER:
        v = consts[k]
        if k.endswith("B") and k[:-1] in consts and not isinstance(v, str):
            v = int(v) + BOFF                 # `b` parts of the limits: offset, cfg files have no negative numbers
        lines.append("    %s = %s" % (k, json.dumps(v) if isinstance(v, str) else int(v)))
    if kind in ("mc", "mc_noexport"):
        lines += ["INIT Init", "NEXT Next",
                  "INVARIANTS AdmitImpliesWithin AcceptedOnlyWithin StoredWithinLimits",
                  "PROPERTY RejectedNoEffect"]
        if kind == "mc":
            lines.append("ACTION_CONSTRAINT ExportMsg")
    elif kind in ("sim", "sim2"):
        lines += ["INIT BuildInit", "NEXT BuildNext" if kind == "sim" else "NEXT BuildNext2",
                  "INVARIANTS AdmitImpliesWithin AcceptedOnlyWithin StoredWithinLimits",
                  "ACTION_CONSTRAINT ExportMsg"]
    elif kind == "trace":
        lines += ["INIT TInit", "NEXT TNext"]
    return "\n".join(lines) + "\n"


def printed_json(out):
    """PrintT(ToJson(x)) lines of a TLC run -> list of decoded values."""
    res = []
    for line in out.splitlines():
        if line.startswith('"{') and line.endswith('}"'):
            try:
                res.append(json.loads(json.loads(line)))
            except ValueError:
                raise vlib.Inconclusive("unparsable TLC print line: " + line[:200])
    return res


def canon(m):
    return json.dumps(m, sort_keys=True, separators=(",", ":"))


# ---------------------------------------------------------------------------------------------------------

def get_table(vh):
    rc, out = vlib.run([vh, "limits", "table"], timeout=120)
    if rc != 0:
        raise vlib.Inconclusive("vh limits table failed:\n" + out[-2000:])
    return json.loads(out.strip().splitlines()[-1])


FAM_GROUPS = {
    "tiny": [ALL_FAMS],
    "quick": [["pairs"], ["single", "totals"], ["shapes", "dep", "names", "cross", "mix", "update", "trunc"]],
    "thorough": [["totals"], ["cross"], ["pairs", "mix"], ["single"], ["shapes", "dep", "names", "update", "trunc"]],
}


def j1_one(consts, tier, impl, fams, export, timeout):
    cfg = render_cfg(consts, tier, impl, "mc" if export else "mc_noexport", fams)
    return vlib.tlc(SPEC_DIR, "Limits", "MC_gen.cfg", extra_files={"MC_gen.cfg": cfg}, timeout=timeout, deadlock=False,
                    heap="3g", workers=max(2, vlib.NCPU // 4))


def j1(consts, tier, impl, export=True, timeout=1500):
    """Model-check the covering enumeration, one TLC run per group of families, in parallel.
    Returns (results, exported messages, states, generated)."""
    groups = FAM_GROUPS[tier]
    with ThreadPoolExecutor(max_workers=len(groups)) as ex:
        rs = list(ex.map(lambda f: j1_one(consts, tier, impl, f, export, timeout), groups))
    return rs


def j1_sim(consts, num, seed, timeout=900, kind="sim"):
    """TLC -simulate of a message builder: sim = any field any class (14 steps), sim2 = groups of valid units around
    the per-group totals (5 steps)."""
    c = dict(consts)
    if kind == "sim2":
        c["BuildSteps"] = 5
    cfg = render_cfg(c, "quick", "intended", kind)
    return vlib.tlc(SPEC_DIR, "Limits", "SIM_gen.cfg", extra_files={"SIM_gen.cfg": cfg}, timeout=timeout,
                    workers=1, simulate=dict(num=num, depth=c["BuildSteps"] + 3, seed=seed), deadlock=False, heap="1500m")


def run_harness(vh, msgs, seed, workdir, name="trace"):
    inp = os.path.join(workdir, name + ".msgs.ndjson")
    outp = os.path.join(workdir, name + ".ndjson")
    with open(inp, "w") as fh:
        for x in msgs:
            fh.write(json.dumps(x, separators=(",", ":")) + "\n")
    rc, out = vlib.run([vh, "limits", "run", "-in", inp, "-out", outp, "-seed", str(seed)], timeout=2400)
    if rc != 0:
        raise vlib.Inconclusive("vh limits run failed (rc=%d):\n%s" % (rc, out[-3000:]))
    return inp, outp


def run_fuzz(vh, n, seed, first, workdir, name="fuzz"):
    """Free-running direction: n random concrete messages generated and executed by the harness (recorded lines only)."""
    outp = os.path.join(workdir, name + ".ndjson")
    rc, out = vlib.run([vh, "limits", "fuzz", "-n", str(n), "-seed", str(seed), "-first", str(first), "-out", outp],
                       timeout=2400)
    if rc != 0:
        raise vlib.Inconclusive("vh limits fuzz failed (rc=%d):\n%s" % (rc, out[-3000:]))
    return outp


def judge(consts, trace_path, timeout=1500):
    """Run LimitsTrace on one ndjson file; returns list of verdict dicts (one per line)."""
    n = sum(1 for _ in open(trace_path))
    cfg = render_cfg(consts, "quick", "intended", "trace")
    r = vlib.tlc(SPEC_DIR, "LimitsTrace", "TRACE_gen.cfg", extra_files={"TRACE_gen.cfg": cfg},
                 copy_files={"trace.ndjson": trace_path}, workers=1, timeout=timeout, deadlock=False, heap="4g")
    if not r.ok:
        raise vlib.Inconclusive("LimitsTrace: TLC failed on %s (rc=%s violated=%s)\n%s" % (
            trace_path, r.rc, r.violated, (r.error or r.out[-3000:])))
    verdicts = [v for v in printed_json(r.out) if "p1" in v]
    if len(verdicts) != n or r.distinct != n + 1:
        raise vlib.Inconclusive("LimitsTrace judged %d of %d lines (distinct states %d)" % (len(verdicts), n, r.distinct))
    return verdicts


def judge_chunks(consts, trace_path, workdir, chunk, par):
    lines = open(trace_path).read().splitlines()
    files = []
    for i in range(0, len(lines), chunk):
        p = os.path.join(workdir, "chunk%04d.ndjson" % (i // chunk))
        with open(p, "w") as fh:
            fh.write("\n".join(lines[i:i + chunk]) + "\n")
        files.append(p)
    with ThreadPoolExecutor(max_workers=par) as ex:
        parts = list(ex.map(lambda p: judge(consts, p), files))
    return [v for part in parts for v in part], len(files)


def selftest(consts, trace_path, workdir, verdicts):
    """Binding self-test: corrupt one recorded field per property on real recorded lines; TLC must reject each.
    The lines are taken among those TLC judged clean (so the test also works on a tree that violates C19)."""
    vd = {v["id"]: v for v in verdicts}
    rej = acc = None
    for raw in open(trace_path):
        ln = json.loads(raw)
        v = vd[ln["id"]]
        if not (v["p1"] and v["p2"] and v["p3"]):
            continue
        if (acc is None and ln["accepted"] and ln["msg"]["kind"] == "create" and ln["msg"]["groups"]
                and ln["msg"]["groups"][0]["units"]):
            acc = ln
        if rej is None and not ln["accepted"] and ln["msg"]["kind"] == "create" and not v["within"]:
            rej = ln
        if acc is not None and rej is not None:
            break
    if acc is None or rej is None:
        return {"ok": False, "skipped": "no clean accepted / clean rejected-outside-limits line in the trace"}
    c1 = json.loads(json.dumps(rej))                      # claim the out-of-limits message was accepted
    c1["accepted"], c1["reason"], c1["id"] = True, "ok", 1
    c2 = json.loads(json.dumps(rej))                      # a rejected message that changed the bank store
    c2["after"]["digest"]["bank"] = "0" * 16
    c2["id"] = 2
    c3 = json.loads(json.dumps(acc))                      # stored record differs from the admitted message: cpu over max
    g = c3["after"]["deployments"][-1]["groups"][0]["units"][0]
    g["cpu"] = {"k": "lin", "a": consts["MaxUnitCPU"] + 1, "b": 0}
    c3["id"] = 3
    c4 = json.loads(json.dumps(rej))                      # a rejected message that left a deployment behind
    c4["after"]["deployments"] = acc["after"]["deployments"]
    c4["id"] = 4
    o1 = json.loads(json.dumps(rej)); o1["id"] = 5        # untouched controls
    o2 = json.loads(json.dumps(acc)); o2["id"] = 6
    p = os.path.join(workdir, "selftest.ndjson")
    with open(p, "w") as fh:
        for x in (c1, c2, c3, c4, o1, o2):
            fh.write(json.dumps(x) + "\n")
    v = {x["id"]: x for x in judge(consts, p)}
    ok = (not v[1]["p1"] and not v[2]["p2"] and not v[3]["p3"] and not v[4]["p2"]
          and all(v[i]["p1"] and v[i]["p2"] and v[i]["p3"] for i in (5, 6)))
    res = {"corrupt_accepted_flag_rejected_by_p1": not v[1]["p1"], "corrupt_bank_digest_rejected_by_p2": not v[2]["p2"],
           "corrupt_stored_cpu_rejected_by_p3": not v[3]["p3"], "leftover_deployment_rejected_by_p2": not v[4]["p2"],
           "controls_pass": all(v[i]["p1"] and v[i]["p2"] and v[i]["p3"] for i in (5, 6)), "ok": ok}
    return res


def describe(m):
    """Short human description of an abstract message (for samples / violation detail)."""
    gs = m["groups"]
    return {"kind": m.get("kind"), "idc": m["idc"], "groups": len(gs), "units": [len(g["units"]) for g in gs][:6],
            "names": [g["name"] for g in gs][:4], "version": m["version"], "deposit": m["deposit"], "ddenom": m["ddenom"],
            "unit[1][1]": gs[0]["units"][0] if gs and gs[0]["units"] else None}


# ---------------------------------------------------------------------------------------------------------

def run(pid, tier, seed, replay):
    t0 = time.time()
    work = vlib.scratch("limits-")
    vh = vlib.build_harness()
    table = get_table(vh)
    consts = interior(table["tla"], seed)
    assumptions = [
        "messages are delivered as baseapp.runTx does minus the ante handler: proto round trip, ValidateBasic, handler "
        "from the app's MsgServiceRouter on a cache branch, panic = rejection",
        "the limits are whatever types.GetValidationConfig() and the chain's DeploymentMinDeposit say at run time",
        "amounts are exact in the a*Unit+b representation (Unit from harness/limitsh/table.go); values not of a named "
        "class and above 2e9 units project to 'other', treated as outside every bound",
        "each message is run against the same base state (one valid deployment) on its own cache branch",
    ]

    if replay:
        return do_replay(pid, tier, seed, replay, vh, consts, work, t0, assumptions)

    # ---- J1: design check + enumeration; in parallel: the as-found variant and the random builder
    t1 = time.time()
    nsim = 600 if tier == "quick" else 2500
    sim_jobs = [("sim", seed), ("sim2", seed + 1)] if tier == "quick" else \
        [(k, seed + 1000 * i + j) for i in range(8) for j, k in enumerate(("sim", "sim2"))]
    with ThreadPoolExecutor(max_workers=5) as ex:       # j1 itself fans out into one TLC per family group
        f_main = ex.submit(j1, consts, tier, "intended", True, 2400)
        f_asf = ex.submit(j1, consts, "tiny", "asfound", False, 600)
        f_sims = [ex.submit(j1_sim, consts, nsim, sd, 900, kind) for kind, sd in sim_jobs]
        main, ra = f_main.result(), f_asf.result()[0]
        rss, sim_failed = [], 0
        for f in f_sims:            # sampling on top of the enumeration: a slow machine yields fewer samples, not a failure
            try:
                rss.append(f.result())
            except vlib.Inconclusive as e:
                sim_failed += 1
                vlib.log("[C19] simulation job dropped: %s" % str(e)[:120])
        if not rss:
            raise vlib.Inconclusive("every TLC simulation job timed out")
    exported, states, generated = [], 0, 0
    for fams, r in zip(FAM_GROUPS[tier], main):
        vlib.tlc_require_ok(r, "J1 Limits (Impl=intended, Tier=%s, Fams=%s)" % (tier, fams))
        ex = [x for x in printed_json(r.out) if "verdict" in x]
        if not ex or r.generated != 2 * len(ex):
            raise vlib.Inconclusive("J1 export incomplete for %s: %d messages printed, %d states generated" % (
                fams, len(ex), r.generated))
        exported += ex
        states += r.distinct
        generated += r.generated
    for x in exported:
        if x["verdict"] == "ok" and not x["within"]:
            raise vlib.Inconclusive("J1 passed but an exported message is admitted outside limits (spec error)")
    # the spec must be able to express the defect class: as found (no group-count bound), J1 fails
    asfound_detected = (not ra.ok) and ra.violated in ("AdmitImpliesWithin", "AcceptedOnlyWithin", "StoredWithinLimits")
    if not asfound_detected:
        raise vlib.Inconclusive("J1 vacuity guard: Impl=asfound did not violate the invariants (%r)" % ra)
    # random messages from the product space (TLC simulation of the builder)
    sim = []
    for rs in rss:
        if not rs.ok:
            raise vlib.Inconclusive("J1 simulation failed: rc=%s violated=%s\n%s" % (
                rs.rc, rs.violated, (rs.error or rs.out[-600:])))
        sim += [x for x in printed_json(rs.out) if "verdict" in x]
    vlib.log("[C19] J1: %d messages enumerated (%d distinct states) + %d simulated, as-found variant violates %s, %.1fs" % (
        len(exported), states, len(sim), ra.violated, time.time() - t1))

    msgs, seen, expect = [], set(), {}
    fam_count = {}
    for x in exported + sim:
        k = canon(x["m"])
        if k in seen:
            continue
        seen.add(k)
        i = len(msgs) + 1
        msgs.append({"id": i, "fam": x["fam"], "m": x["m"]})
        expect[i] = (x["verdict"], x["within"])
        fam_count[x["fam"]] = fam_count.get(x["fam"], 0) + 1

    # ---- J2: execute on the real code
    t1 = time.time()
    inp, trace = run_harness(vh, msgs, seed, work)
    nfuzz = 1500 if tier == "quick" else 40000
    fz = run_fuzz(vh, nfuzz, seed, len(msgs) + 1, work)
    with open(trace, "a") as fh:
        fh.write(open(fz).read())
    fuzz_info = {"n": nfuzz, "seed": seed, "first": len(msgs) + 1}
    vlib.log("[C19] J2: %d enumerated + %d random concrete messages executed on the real app in %.1fs" % (
        len(msgs), nfuzz, time.time() - t1))

    # ---- J3: TLC judges the recorded lines
    t2 = time.time()
    verdicts, nchunks = judge_chunks(consts, trace, work, chunk=1700 if tier == "quick" else 6000, par=min(4, vlib.NCPU))
    vlib.log("[C19] J3: %d lines judged by TLC in %d runs, %.1fs" % (len(verdicts), nchunks, time.time() - t2))
    if len(verdicts) != len(msgs) + nfuzz:
        raise vlib.Inconclusive("J3 judged %d of %d lines" % (len(verdicts), len(msgs) + nfuzz))
    st = selftest(consts, trace, work, verdicts)

    return conclude(pid, tier, seed, t0, consts, table, msgs, trace, verdicts, assumptions, dict(
        states=states, transitions=generated - len(exported), j1_messages=len(exported), sim_messages=len(sim),
        families=fam_count, asfound_spec_violates=ra.violated, binding_selftest=st, tlc_trace_runs=nchunks,
        fuzz=fuzz_info, sim_jobs=len(sim_jobs), sim_jobs_dropped=sim_failed), work)


def conclude(pid, tier, seed, t0, consts, table, msgs, trace, verdicts, assumptions, cov, work):
    lines = {}
    for raw in open(trace):
        ln = json.loads(raw)
        lines[ln["id"]] = ln
    bym = {m["id"]: m for m in msgs}
    violations, drift, reason_drift, accepted, outside = [], 0, 0, 0, 0
    reasons = {}
    for v in verdicts:
        ln = lines[v["id"]]
        accepted += 1 if v["accepted"] else 0
        outside += 0 if v["within"] else 1
        reasons[ln["reason"]] = reasons.get(ln["reason"], 0) + 1
        bad = []
        if not v["p1"]:
            bad.append(("accepted outside limits: " + ",".join(sorted(v["why"])),
                        "a create-deployment message violating {%s} was ACCEPTED by the real code" % ",".join(sorted(v["why"]))))
        if not v["p2"]:
            bad.append(("rejected with effect: " + ln["reason"],
                        "a rejected create-deployment message (%s) changed the state" % ln["err"]))
        if not v["p3"]:
            bad.append(("stored deployment outside limits: " + ",".join(sorted(v["swhy"])),
                        "after the message a stored deployment violates {%s}" % ",".join(sorted(v["swhy"]))))
        for sig, what in bad:
            detail = "%s\nmessage: %s\nresult: accepted=%s reason=%s err=%s\nspec verdict: %s" % (
                what, json.dumps(describe(ln["msg"])), ln["accepted"], ln["reason"], ln["err"], v["expect"])
            files = {"trace.ndjson": json.dumps(ln) + "\n", "seed": str(seed) + "\n"}
            if v["id"] in bym:
                files["msgs.ndjson"] = json.dumps(bym[v["id"]]) + "\n"
            else:                                       # a random concrete message: regenerated from its seed
                files["fuzz.json"] = json.dumps(dict(cov.get("fuzz", {}), id=v["id"])) + "\n"
            violations.append(vlib.Violation(pid, sig, detail, files))
        if bad:
            continue                                  # a violation is reported as such, not as drift
        if not v["conf"]:
            drift += 1
            if drift <= 20:
                vlib.log("DRIFT C19 id=%d fam=%s: code %s (%s), spec says %s; msg=%s" % (
                    v["id"], ln["fam"], "accepted" if ln["accepted"] else "rejected", ln["reason"], v["expect"],
                    json.dumps(describe(ln["msg"]))))
        elif not v["reasonok"]:
            reason_drift += 1
            if reason_drift <= 10:
                vlib.log("REASON-DRIFT C19 id=%d: code %s (%s), spec %s" % (v["id"], ln["reason"], ln["err"][:120], v["expect"]))
    samples = []
    for want in ("ok", "total-mem", "unit-cpu", "panic", "dup-name"):
        for v in verdicts:
            ln = lines[v["id"]]
            if ln["reason"] == want:
                samples.append({"msg": describe(ln["msg"]), "accepted": ln["accepted"], "reason": ln["reason"],
                                "err": ln["err"][:160], "within_limits": v["within"]})
                break
    coverage = dict(cov)
    coverage.update(
        traces_validated_against_impl=len(verdicts), evaluations=len(verdicts), distinct_nontrivial=outside,
        fuzz_messages=sum(1 for ln in lines.values() if ln["fam"] == "fuzz"),
        rule="distinct abstract create-deployment messages (deduplicated on the whole message) enumerated by TLC from the "
             "covering families of Limits.tla plus TLC simulations of the two message builders, plus random concrete messages "
             "generated by the harness (family fuzz, not deduplicated); non-trivial = violates at least one clause of "
             "WithinLimits (each must be refused by the real code)",
        accepted=accepted, rejected=len(verdicts) - accepted, outcome_reasons=reasons, samples=samples,
        exhaustive=False, exhaustive_note="every member of every covering family is model-checked and executed; the full "
                                          "product of all class combinations and the interior of the ranges are only "
                                          "sampled (TLC simulation, random concrete messages)",
        drift_steps=drift, reason_drift=reason_drift, limits_table=table["raw"], units=
        {k: consts[k] for k in ("UnitCPU", "UnitMem", "UnitSto")},
        interior_points={k: consts[k] for k in consts if k.startswith("Mid")}, stores_in_frame=table["stores"])
    st = cov.get("binding_selftest")
    if st is not None and not st.get("ok") and not violations:
        raise vlib.Inconclusive("binding self-test failed: %s" % st)
    return vlib.finish(pid, tier, seed, "model_checking", coverage, t0, violations, assumptions)


def do_replay(pid, tier, seed, path, vh, consts, work, t0, assumptions):
    """Re-execute the saved message(s) on the current tree and re-judge them with TLC."""
    d = path if os.path.isdir(path) else os.path.dirname(path)
    extra = {}
    sd = os.path.join(d, "seed")
    if os.path.exists(sd):
        seed = int(open(sd).read().strip())
        consts = interior(get_table(vh)["tla"], seed)
    fj = os.path.join(d, "fuzz.json")
    if os.path.exists(fj) and not (os.path.isfile(path) and path.endswith("msgs.ndjson")):
        fz = json.load(open(fj))
        allf = run_fuzz(vh, fz["n"], fz["seed"], fz["first"], work, "replay-fuzz")
        trace = os.path.join(work, "replay.ndjson")
        with open(trace, "w") as fh:
            fh.write("".join(l for l in open(allf) if json.loads(l)["id"] == fz["id"]))
        msgs, src = [], fj
        extra = {"fuzz": {k: fz[k] for k in ("n", "seed", "first")}}
    else:
        src = os.path.join(path, "msgs.ndjson") if os.path.isdir(path) else path
        if not os.path.exists(src):
            raise vlib.Inconclusive("replay: %s not found" % src)
        msgs = [json.loads(l) for l in open(src) if l.strip()]
        inp, trace = run_harness(vh, msgs, seed, work, "replay")
    verdicts = judge(consts, trace)
    table = get_table(vh)
    r = j1(consts, "tiny", "intended", export=False, timeout=600)[0]
    vlib.tlc_require_ok(r, "J1 Limits (replay)")
    return conclude(pid, tier, seed, t0, consts, table, msgs, trace, verdicts, assumptions,
                    dict(extra, states=r.distinct, transitions=r.generated - r.distinct // 2, replay=src), work)
