"""C18 -- SDL translation is deterministic, faithful and self-consistent.

J1  TLC model-checks spec/sdl/Sdl.tla over a bounded space of abstract SDL v2 documents (MCSdlQuick / MCSdlThorough):
    the intended translation Groups(doc)/Manifest(doc) is deterministic under re-runs and key reordering, faithful
    to every declared field (independent per-field oracle) and self-consistent (ManifestMatch).  Two negative
    controls must FAIL J1 (the spec can tell the difference): the as-found translation that never copies `command`
    (MC_asfound) and a translation that walks mappings without sorting (MC_nosort).
J2  the documents TLC enumerated are exported (docs.ndjson); `vh sdl run` renders each to YAML text in several
    mapping-key orders (canonical, reversed, seeded shuffles), in two OS processes, runs the REAL sdl.Read/ReadFile,
    DeploymentGroups, Manifest, Version (repeated calls) and the REAL validation.ValidateManifestWithDeployment, and
    records the projected outputs.
J3  TLC (SdlTrace.tla) judges every recorded run with the same operators: FaithfulFailures, DeterministicStep, the
    recorded cross-validation verdict; conformance to Out(doc) is drift.  Verdict lines are parsed here.
"""
import collections
import json
import os
import subprocess
import time
from concurrent.futures import ThreadPoolExecutor

import vlib

PROPERTIES = ["C18"]
SPEC_DIR = os.path.join(vlib.SPEC, "sdl")

TIERS = {
    # module, cfg, J1 timeout, perms proc1, calls proc1, perms proc2, calls proc2, docs per J3 chunk
    "quick": dict(module="MCSdlQuick", cfg="MC_quick.cfg", j1_timeout=600, p1=3, c1=2, p2=2, c2=1, chunk=150),
    "thorough": dict(module="MCSdlThorough", cfg="MC_thorough.cfg", j1_timeout=3000, p1=4, c1=2, p2=3, c2=1, chunk=1000),
    "replay": dict(module="MCSdlTiny", cfg="MC_tiny.cfg", j1_timeout=600, p1=4, c1=2, p2=3, c2=2, chunk=250),
}


def printed_json(out):
    res = []
    for line in out.splitlines():
        if line.startswith('"{') and line.endswith('}"'):
            try:
                res.append(json.loads(json.loads(line)))
            except ValueError:
                raise vlib.Inconclusive("unparsable TLC print line: " + line[:200])
    return res


# ---------------------------------------------------------------------------------------------------------
# J1

def j1(module, cfg, timeout, workers="auto"):
    r = vlib.tlc(SPEC_DIR, module, cfg, timeout=timeout, deadlock=False, heap="8g", workers=workers)
    return r


def negative_controls():
    """The spec must be able to tell the intended translation from the two broken ones."""
    a = j1("MCSdlTiny", "MC_asfound.cfg", 600, workers=2)
    n = j1("MCSdlTiny", "MC_nosort.cfg", 600, workers=2)
    res = {"asfound_command_dropped_violates": a.violated, "unsorted_walk_violates": n.violated}
    if a.violated != "Faithful" or n.violated != "Determinism":
        raise vlib.Inconclusive("J1 negative controls did not fail as they must: %s\n%s\n%s" % (
            res, a.error or "", n.error or ""))
    return res


# ---------------------------------------------------------------------------------------------------------
# J2

def run_harness(vh, docs_path, workdir, seed, cfg, yaml_dir=None):
    """Two OS processes of the harness over the same documents, different key permutations."""
    procs = []
    outs = []
    for proc, (base, perms, calls) in enumerate([(0, cfg["p1"], cfg["c1"]), (cfg["p1"], cfg["p2"], cfg["c2"])], 1):
        outp = os.path.join(workdir, "runs%d.ndjson" % proc)
        cmd = [vh, "sdl", "run", "--docs", docs_path, "--out", outp, "--perms", str(perms), "--perm-base", str(base),
               "--seed", str(seed), "--proc", str(proc), "--calls", str(calls)]
        if yaml_dir and proc == 1:
            cmd += ["--yaml-dir", yaml_dir]
        procs.append(subprocess.Popen(cmd, stdout=subprocess.PIPE, stderr=subprocess.STDOUT))
        outs.append(outp)
    for p in procs:
        try:
            txt, _ = p.communicate(timeout=2400)
        except subprocess.TimeoutExpired:
            for q in procs:
                q.kill()
            raise vlib.Inconclusive("vh sdl run timed out")
        if p.returncode != 0:
            raise vlib.Inconclusive("vh sdl run failed rc=%d:\n%s" % (p.returncode, txt.decode("utf-8", "replace")[-3000:]))
    return outs


def merge(docs_path, run_paths, workdir, chunk):
    """One behaviour per document: its doc line, then its run lines of process 1, then those of process 2.
    Returns (chunk files, number of docs, number of run lines, {id: doc text})."""
    docs = [ln.rstrip("\n") for ln in open(docs_path) if ln.strip()]
    runs = collections.defaultdict(list)
    nruns = 0
    for rp in run_paths:
        for ln in open(rp):
            ln = ln.rstrip("\n")
            if not ln:
                continue
            # the id is the third field of the line written by the harness: {"ev":"run","id":N,...
            i = int(ln.split('"id":', 1)[1].split(",", 1)[0])
            runs[i].append(ln)
            nruns += 1
    files = []
    fh = None
    for i, d in enumerate(docs, 1):
        if (i - 1) % chunk == 0:
            if fh:
                fh.close()
            p = os.path.join(workdir, "trace%05d.ndjson" % ((i - 1) // chunk))
            files.append(p)
            fh = open(p, "w")
        if not runs.get(i):
            raise vlib.Inconclusive("harness recorded no run for document %d" % i)
        fh.write('{"ev":"doc","id":%d,"doc":%s}\n' % (i, d))
        for r in runs[i]:
            fh.write(r + "\n")
    if fh:
        fh.close()
    return files, len(docs), nruns, docs


# ---------------------------------------------------------------------------------------------------------
# J3

def judge(trace_path, timeout=1500):
    """SdlTrace on one ndjson file -> list of verdict dicts of the lines TLC did not find good."""
    n = sum(1 for _ in open(trace_path))
    for attempt in (1, 2, 3):
        r = vlib.tlc(SPEC_DIR, "SdlTrace", "SdlTrace.cfg", copy_files={"trace.ndjson": trace_path}, workers=1,
                     timeout=timeout, deadlock=False, heap="2g")
        if r.ok or "Error:" in r.out:
            break
        # the JVM died without a TLC error (killed under memory pressure on a shared machine): run it again
        vlib.log("[C18] SdlTrace JVM exited rc=%s without a TLC verdict on %s (attempt %d), retrying" % (
            r.rc, os.path.basename(trace_path), attempt))
        time.sleep(2 * attempt)
    if not r.ok:
        raise vlib.Inconclusive("SdlTrace: TLC failed on %s (rc=%s violated=%s)\n%s" % (
            trace_path, r.rc, r.violated, (r.error or r.out[-3000:])))
    if r.distinct != n + 1:
        raise vlib.Inconclusive("SdlTrace walked %d states for %d recorded lines" % (r.distinct, n))
    return [v for v in printed_json(r.out) if "faithful" in v]


def selftest(trace_paths, flagged_ids, workdir):
    """Binding self-test: corrupt one recorded field per clause on real recorded lines, drop one recorded service;
    TLC must flag exactly those lines and none of the untouched ones. Uses behaviours the main J3 found clean."""
    good = []
    for tp in trace_paths:
        behaviours, cur = [], None
        for raw in open(tp):
            ln = json.loads(raw)
            if ln["ev"] == "doc":
                cur = [ln]
                behaviours.append(cur)
            else:
                cur.append(ln)
        good += [b for b in behaviours if len(b) >= 4 and b[0]["id"] not in flagged_ids
                 and all(x["out"]["state"] == "ok" and x["xval"] == "ok" for x in b[1:])]
        if len(good) >= 5:
            break
    if len(good) < 5:
        return {"ok": False, "skipped": "fewer than 5 clean accepted documents to corrupt"}
    good = [json.loads(json.dumps(b)) for b in good[:5]]
    orig = [json.loads(json.dumps(b)) for b in good]
    for k, b in enumerate(good, 1):           # renumber, so that line -> behaviour is easy to read back
        for x in b:
            x["id"] = k
    # 1: image of one service in one run changed        -> faithful: image   (and determinism against the previous run)
    good[0][2]["out"]["manifest"][0]["services"][0]["image"] += "-x"
    # 2: version hash of one run changed                 -> determinism
    v = good[1][2]["out"]["version"]
    good[1][2]["out"]["version"] = ("0" if v[0] != "0" else "1") + v[1:]
    # 3: the real validator's verdict replaced by an error -> validates
    good[2][1]["xval"] = "invalid manifest: corrupted by self-test"
    # 4: one recorded service dropped from every run (event removed) -> faithful: manifest-service
    for x in good[3][1:]:
        x["out"]["manifest"][0]["services"] = x["out"]["manifest"][0]["services"][1:]
    # 5: untouched control; 6..10: the untouched originals of 1..5 (what they are flagged for does not count)
    twins = [json.loads(json.dumps(b)) for b in orig]
    for k, b in enumerate(twins, 6):
        for x in b:
            x["id"] = k
    p = os.path.join(workdir, "selftest.ndjson")
    with open(p, "w") as fh:
        for b in good + twins:
            for x in b:
                fh.write(json.dumps(x, separators=(",", ":")) + "\n")
    bad = collections.defaultdict(list)
    for v in judge(p):
        bad[v["id"]].append(v)

    def reasons(vs):
        out = set()
        for v in vs:
            out |= {"faithful:" + c for c in v["faithful"]}
            if not v["determinism"]:
                out.add("determinism")
            if not v["validates"]:
                out.add("validates")
        return out
    new = {k: reasons(bad[k]) - reasons(bad[k + 5]) for k in range(1, 6)}
    res = {
        "corrupt_image_rejected_by_faithful": "faithful:image@manifest" in new[1],
        "corrupt_version_rejected_by_determinism": "determinism" in new[2],
        "corrupt_validator_verdict_rejected": "validates" in new[3],
        "dropped_service_rejected_by_faithful": bool({"faithful:service@manifest", "faithful:extra-service@manifest"} & new[4]),
        "control_passes": not new[5],
    }
    res["ok"] = all(res.values())
    return res


# ---------------------------------------------------------------------------------------------------------

def doc_class(d):
    """Feature class of an abstract document (for coverage counts only)."""
    svcs = d["services"]
    return (len(svcs), len(d["compute"]), len(d["placement"]), len(d["deployment"]),
            tuple(sorted((bool(s["command"]), bool(s["args"]), bool(s["env"]),
                          tuple((e["port"], e["as"], e["proto"], len(e["to"]), len(e["accept"])) for e in s["expose"]))
                         for s in svcs)),
            tuple(sorted((c["cpu"]["form"], c["mem"]["suffix"], c["mem"]["tenths"], c["storage"]["suffix"], bool(c["cpuArch"]),
                          len(c["storageAttrs"])) for c in d["compute"])))


def describe(d):
    return {"services": [{"name": s["name"], "command": s["command"], "args": s["args"], "env": s["env"],
                          "expose": s["expose"]} for s in d["services"]],
            "compute": [{"name": c["name"], "cpu": c["cpu"], "mem": c["mem"], "storage": c["storage"]} for c in d["compute"]],
            "deployment": d["deployment"]}


def signature_of(v):
    sigs = []
    for c in sorted({c.split("@")[0] for c in v["faithful"]}):     # "<field>@<output>" -> one signature per field
        sigs.append("faithful:" + c)
    if not v["determinism"]:
        sigs.append("determinism")
    if not v["validates"]:
        sigs.append("cross-validation")
    return sigs


def run(pid, tier, seed, replay):
    t0 = time.time()
    vh = vlib.build_harness()
    work = vlib.scratch("sdl-")
    mode = "replay" if replay else tier
    cfg = TIERS[mode]

    # ---- J1
    with ThreadPoolExecutor(max_workers=2) as ex:
        f_neg = ex.submit(negative_controls)
        r = j1(cfg["module"], cfg["cfg"], cfg["j1_timeout"])
        neg = f_neg.result()
    vlib.tlc_require_ok(r, "J1 %s" % cfg["cfg"])
    vlib.log("[C18] J1 %s: %d states (%d generated), depth %d, %.1fs; negative controls: %s" % (
        cfg["cfg"], r.distinct, r.generated, r.depth, r.wall_s, neg))
    if replay:
        docs_path = os.path.join(replay, "docs.ndjson") if os.path.isdir(replay) else replay
        if not os.path.exists(docs_path):
            raise vlib.Inconclusive("no documents to replay at %s" % docs_path)
    else:
        # TLC wrote one file per slice (MCSdl!ExportDocs): concatenate in slice order
        parts = sorted(f for f in os.listdir(r.dir) if f.startswith("docs_") and f.endswith(".ndjson"))
        if not parts:
            raise vlib.Inconclusive("J1 exported no documents")
        docs_path = os.path.join(work, "docs.ndjson")
        with open(docs_path, "w") as out:
            for f in parts:
                for ln in open(os.path.join(r.dir, f)):
                    if ln.strip():
                        out.write(ln if ln.endswith("\n") else ln + "\n")

    # ---- J2
    yaml_dir = None
    t1 = time.time()
    run_paths = run_harness(vh, docs_path, work, seed, cfg)
    files, ndocs, nruns, docs = merge(docs_path, run_paths, work, cfg["chunk"])
    vlib.log("[C18] J2: %d documents, %d runs on the real code in %.1fs, %d trace chunks" % (
        ndocs, nruns, time.time() - t1, len(files)))

    # ---- J3 (+ binding self-test, concurrently)
    t2 = time.time()
    par = max(2, min(vlib.NCPU, 16))
    with ThreadPoolExecutor(max_workers=par) as ex:
        parts = list(ex.map(judge, files))
    bad = [v for part in parts for v in part]
    st = selftest(files, {v["id"] for v in bad}, work)
    vlib.log("[C18] J3: %d lines judged by TLC in %.1fs, %d flagged; self-test %s" % (
        ndocs + nruns, time.time() - t2, len(bad), st))

    # ---- verdicts
    accepted = set()
    rejected_ids = set()
    for rp in run_paths:
        for ln in open(rp):
            i = int(ln.split('"id":', 1)[1].split(",", 1)[0])
            if '"out":{"state":"ok"' in ln:
                accepted.add(i)
            else:
                rejected_ids.add(i)
    if not accepted:
        raise vlib.Inconclusive("the real sdl.Read accepted none of the %d documents: nothing to judge" % ndocs)

    by_sig = collections.OrderedDict()
    drift = collections.Counter()
    drift_lines = 0
    for v in sorted(bad, key=lambda x: (x["id"], x["proc"], x["perm"], x["call"])):
        for s in signature_of(v):
            by_sig.setdefault(s, []).append(v)
        if v["drift"] and not signature_of(v):
            drift_lines += 1
            for dname in v["drift"]:
                drift[dname] += 1
    for dname, n in drift.items():
        ex_v = next(v for v in bad if dname in v["drift"] and not signature_of(v))
        vlib.log("DRIFT property=C18 %s on %d recorded runs (first: document %d perm %d proc %d)" % (
            dname, n, ex_v["id"], ex_v["perm"], ex_v["proc"]))

    violations = []
    for s, vs in by_sig.items():
        ids = sorted({v["id"] for v in vs})
        first = ids[0]
        keep = ids[:5]
        ydir = os.path.join(work, "yaml-" + s.replace(":", "-"))
        os.makedirs(ydir, exist_ok=True)
        one = os.path.join(ydir, "docs.ndjson")
        with open(one, "w") as fh:
            for i in keep:
                fh.write(docs[i - 1] + "\n")
        # rendered YAML of the first failing document, for the reader
        vlib.run([vh, "sdl", "run", "--docs", one, "--out", os.path.join(ydir, "runs.ndjson"), "--perms", "3",
                  "--seed", str(seed), "--yaml-dir", ydir], timeout=300)
        files_out = {"docs.ndjson": (one,)}
        for fn in sorted(os.listdir(ydir)):
            if fn.startswith("doc1-") and fn.endswith(".yaml"):
                files_out[fn] = (os.path.join(ydir, fn),)
        detail = ("%s: %d recorded runs of %d documents flagged by TLC (SdlTrace.tla); first: document %d\n"
                  "verdict of the first flagged run: %s\ndocument: %s\n"
                  "replay: tools/check C18 --replay <this directory>" % (
                      s, len(vs), len(ids), first, json.dumps(vs[0], sort_keys=True),
                      json.dumps(describe(json.loads(docs[first - 1])), sort_keys=True)))
        violations.append(vlib.Violation(pid, "C18:" + s, detail, files_out))

    if not violations and not st["ok"]:
        # nothing was flagged, but the binding could not be demonstrated: no verdict
        raise vlib.Inconclusive("binding self-test failed: %s" % st)

    classes = {doc_class(json.loads(d)) for i, d in enumerate(docs, 1) if i in accepted}
    sample_ids = sorted(accepted)[:: max(1, len(accepted) // 4)][:4]
    coverage = {
        "states": r.distinct, "transitions": r.generated,
        "configs": [cfg["cfg"], "MC_asfound.cfg (must fail)", "MC_nosort.cfg (must fail)"],
        "negative_controls": neg,
        "traces_validated_against_impl": ndocs,
        "evaluations": nruns,
        "documents": ndocs, "documents_accepted_by_real_read": len(accepted),
        "documents_rejected_by_real_read": len(rejected_ids - accepted),
        "distinct_nontrivial": len(classes),
        "rule": "documents are the DocSpace of %s enumerated by TLC (every combination of the slice choices); each is "
                "rendered in %d key orders over 2 OS processes with %d/%d repeated calls; distinct_nontrivial = number "
                "of distinct feature classes (numbers of services/profiles/placements/deployments, per-service "
                "command/args/env presence and expose shapes, unit text forms) among documents the real sdl.Read "
                "accepted" % (cfg["module"], cfg["p1"] + cfg["p2"], cfg["c1"], cfg["c2"]),
        "samples": [describe(json.loads(docs[i - 1])) for i in sample_ids],
        "exhaustive": True,
        "drift_steps": drift_lines, "drift_kinds": dict(drift),
        "flagged_runs": len([v for v in bad if signature_of(v)]),
        "binding_selftest": st,
        "key_orders_per_document": cfg["p1"] + cfg["p2"], "os_processes": 2,
        "j1_wall_s": round(r.wall_s, 1),
    }
    assumptions = [
        "documents are generated from structure (TLC's bounded DocSpace), not arbitrary YAML text; scalar styles are fixed",
        "the version hash is compared for equality only (SHA-256 collision freeness)",
        "projection of the Go outputs is field copies (harness/sdlh); integers above 2^31-1 are clamped",
        "gopkg.in/yaml.v3, TLC and the Go toolchain are trusted",
    ]
    return vlib.finish(pid, tier, seed, "model_checking", coverage, t0, violations, assumptions)
