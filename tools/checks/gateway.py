"""C09 -- provider gateway: mTLS authentication only for holders of on-chain certificates; tenant scoping.

J1  TLC model-checks spec/gateway/GatewayAuth.tla (MC_GatewayAuth): the transcribed decision procedure of
    utils.go/middleware.go/router.go against the declarative oracle, on every case of the universe
    (certificate class x chain registry x request URL); the as-found variant (MC_asfound.cfg) must FAIL
    (discrimination test: the oracle is able to tell the defective procedure from the repaired one).
J2  the same TLC run writes the universe as ndjson; `vh gateway run` concretises every case (real ECDSA keys,
    real DER, registry published through the real x/cert Msg server and read by the real querier), calls the
    real VerifyPeerCertificate and performs a real TLS 1.3 handshake + HTTP/websocket request against the real
    rest.NewServer, recording what the back end received.
J3  TLC (GatewayAuthTrace, -continue) judges every recorded line with the same TLA+ property definitions:
    AuthHolds / VpcHolds / ScopeHolds = verdict, Conforms = drift.
"""
import collections
import concurrent.futures
import json
import os
import random
import re
import shutil
import subprocess
import time

import vlib

PROPERTIES = ["C09"]
SPEC = os.path.join(vlib.SPEC, "gateway")
VERDICT_INVS = ("AuthHolds", "VpcHolds", "ScopeHolds")
CHUNK = 6000
QUICK_SAMPLE = 20000      # cases of the thorough universe replayed in the quick tier (seeded sample)

_RE_VIOL = re.compile(r"Error: Invariant (\w+) is violated by the initial state:\s*\n(?:/\\ )?l = (\d+)")
_RE_UNIV = re.compile(r'<<\s*"(universe|auth|scope)",\s*\[(.*?)\]\s*>>', re.S)


# ------------------------------------------------------------------------------------------------ J1 / J2

def j1(cfg, timeout):
    r = vlib.tlc(SPEC, "MC_GatewayAuth", cfg, workers=min(8, vlib.NCPU), timeout=timeout, deadlock=False)
    return r


def parse_universe(out):
    u = {}
    for name, body in _RE_UNIV.findall(out):
        u[name] = {k: int(v) for k, v in re.findall(r"(\w+) \|-> (\d+)", body)}
    return u


def exported_cases(r):
    return read_lines(os.path.join(r.dir, "cases_auth.ndjson")), read_lines(os.path.join(r.dir, "cases_scope.ndjson"))


def read_lines(path):
    with open(path) as fh:
        return [ln for ln in fh.read().split("\n") if ln.strip()]


# ------------------------------------------------------------------------------------------------ J3

def judge(trace_lines, workdir, tag, timeout=900):
    """Run GatewayAuthTrace over the recorded lines (chunked, in parallel). Returns {inv: [global line index]}
    and the number of lines TLC evaluated."""
    chunks = [trace_lines[i:i + CHUNK] for i in range(0, len(trace_lines), CHUNK)] or [[]]
    files = []
    for n, ch in enumerate(chunks):
        p = os.path.join(workdir, "%s.%d.ndjson" % (tag, n))
        with open(p, "w") as fh:
            fh.write("\n".join(ch) + ("\n" if ch else ""))
        files.append(p)

    def one(n):
        if not chunks[n]:
            return n, None
        r = vlib.tlc(SPEC, "GatewayAuthTrace", "GatewayAuthTrace.cfg", workers=2, timeout=timeout, deadlock=False,
                     copy_files={"trace.ndjson": files[n]}, extra_args=["-continue"])
        return n, r

    viol = collections.defaultdict(list)
    judged = 0
    with concurrent.futures.ThreadPoolExecutor(max_workers=max(1, min(len(chunks), vlib.NCPU // 2))) as ex:
        for n, r in ex.map(one, range(len(chunks))):
            if r is None:
                continue
            if "Model checking completed" not in r.out or r.distinct != len(chunks[n]):
                raise vlib.Inconclusive("J3: TLC did not judge every recorded line of chunk %d (%d of %d)\n%s" % (
                    n, r.distinct, len(chunks[n]), r.out[-3000:]))
            judged += r.distinct
            for inv, l in _RE_VIOL.findall(r.out):
                viol[inv].append(n * CHUNK + int(l) - 1)
    return viol, judged


# ------------------------------------------------------------------------------------------------ signatures

def _lookup(reg, cn, serial):
    return reg.get("%s/%s" % (cn, serial), {"state": "none", "key": "-", "window": "-", "usage": "-"})


def classify(inv, o):
    """Stable, minimal identification of a violating input: which clause of the statement the accepted client /
    served id fails (first that applies, fixed order)."""
    c, reg = o["cert"], o["reg"]
    if inv == "ScopeHolds":
        for s in o["served"]:
            if s["owner"] != c["cn"]:
                return "scope:owner-not-authenticated-account route=%s" % o["path"]["route"]
            if s["provider"] not in ("P", "-"):
                return "scope:other-provider route=%s" % o["path"]["route"]
        if not (o["tls"] and c["chainLen"] >= 1):
            return "scope:served-without-accepted-client route=%s" % o["path"]["route"]
        return "scope:id-differs-from-url route=%s dseq=%s gseq=%s oseq=%s" % (
            o["path"]["route"], o["path"]["dseq"], o["path"]["gseq"], o["path"]["oseq"])
    where = "handshake" if inv == "AuthHolds" else "verifypeer"
    if c["chainLen"] > 1:
        extra = " chain"
    else:
        extra = ""
    if c["cn"] not in ("X", "Y"):
        return "%s:malformed-cn-accepted%s" % (where, extra)
    if inv == "AuthHolds" and not c["holds"]:
        return "%s:key-not-held%s" % (where, extra)
    e = _lookup(reg, c["cn"], c["serial"])
    own = [_lookup(reg, c["cn"], s) for s in ("s1", "s2")]
    if c["issuer"] != "self":
        return "%s:forged-foreign-issuer-accepted-without-chain-lookup%s" % (where, extra)
    if e["state"] == "none":
        return "%s:unregistered-serial-accepted%s" % (where, extra)
    if e["state"] == "revoked" and not any(x["state"] == "valid" and x["key"] == c["key"] for x in own):
        return "%s:revoked-accepted%s" % (where, extra)
    if not any(x["state"] == "valid" and x["key"] == c["key"] for x in own):
        return "%s:forged-copied-cn-serial-other-key-accepted%s" % (where, extra)
    if c["window"] != "ok":
        return "%s:outside-validity-window-accepted (%s)%s" % (where, c["window"], extra)
    if c["usage"] not in ("client", "both", "none"):
        return "%s:not-for-client-auth-accepted%s" % (where, extra)
    return "%s:other%s" % (where, extra)


# ------------------------------------------------------------------------------------------------ harness

def run_harness(vh, cases_path, out_path, seed, timeout):
    rc, txt = vlib.run([vh, "gateway", "run", "-cases", cases_path, "-out", out_path, "-seed", str(seed),
                        "-workers", str(vlib.NCPU)], timeout=timeout)
    for ln in txt.strip().split("\n")[-6:]:
        vlib.log("[C09] " + ln)
    if rc != 0:
        raise vlib.Inconclusive("harness failed rc=%d\n%s" % (rc, txt[-3000:]))


def check_echo(case_lines, trace_lines):
    """Binding, part 1: every exported case came back exactly once, and the line says which case it ran."""
    seen = {}
    for ln in trace_lines:
        o = json.loads(ln)
        if o["i"] in seen:
            raise vlib.Inconclusive("case %d recorded twice" % o["i"])
        seen[o["i"]] = o
    if sorted(seen) != list(range(1, len(case_lines) + 1)):
        raise vlib.Inconclusive("recorded %d of %d exported cases" % (len(seen), len(case_lines)))
    for i, ln in enumerate(case_lines, 1):
        k = json.loads(ln)
        o = seen[i]
        if k["cert"] != o["cert"] or k["reg"] != o["reg"] or k["path"] != o["path"]:
            raise vlib.Inconclusive("recorded line %d does not echo exported case %d" % (i, i))
    return [json.dumps(seen[i], sort_keys=True) for i in range(1, len(case_lines) + 1)], [seen[i] for i in range(1, len(case_lines) + 1)]


def selftest(objs, workdir, flagged=()):
    """Binding, part 2: corrupt one recorded outcome field / one served id and require TLC to reject the line."""
    flagged = set(flagged)
    objs = [o for n, o in enumerate(objs) if n not in flagged]      # start from lines TLC accepted as they are
    refused = next((o for o in objs if o["cert"]["chainLen"] == 1 and o["cert"]["cn"] == "X" and not o["tls"]
                    and o["cert"]["holds"] and o["cert"]["der"] == "fresh"
                    and all(o["reg"][k]["state"] != "valid" for k in ("X/s1", "X/s2"))), None)
    served = next((o for o in objs if o["served"] and o["tls"]), None)
    if refused is None or served is None:
        return {"ok": False, "why": "no suitable lines to corrupt"}
    a = json.loads(json.dumps(refused))
    a["tls"] = True                      # pretend a refused forged client had been accepted
    b = json.loads(json.dumps(served))
    b["served"][0]["owner"] = "Y"        # pretend the back end had been handed another tenant's lease
    c = json.loads(json.dumps(served))
    c["served"] = []                     # drop the back-end event: must be flagged as non-conforming
    lines = [json.dumps(x, sort_keys=True) for x in (refused, a, served, b, c)]
    viol, judged = judge(lines, workdir, "selftest", timeout=300)
    got = {inv: sorted(v) for inv, v in viol.items()}
    ok = (judged == 5 and 1 in got.get("AuthHolds", []) and 0 not in got.get("AuthHolds", [])
          and 3 in got.get("ScopeHolds", []) and 2 not in got.get("ScopeHolds", [])
          and 4 in got.get("Conforms", []) and 2 not in got.get("Conforms", []))
    return {"ok": ok, "corruptions": ["tls false->true on a refused forged client", "served owner X->Y",
                                      "served event dropped"], "tlc_flagged": got}


# ------------------------------------------------------------------------------------------------ main

def execute(pid, tier, seed, case_lines, workdir, vh, t_budget):
    cases_path = os.path.join(workdir, "cases.ndjson")
    with open(cases_path, "w") as fh:
        fh.write("\n".join(case_lines) + "\n")
    trace_path = os.path.join(workdir, "trace.ndjson")
    run_harness(vh, cases_path, trace_path, seed, t_budget)
    trace_lines, objs = check_echo(case_lines, read_lines(trace_path))
    viol, judged = judge(trace_lines, workdir, "trace")
    return trace_lines, objs, viol, judged


def run(pid, tier, seed, replay):
    t0 = time.time()
    workdir = vlib.scratch("gateway-")
    vh = vlib.build_harness()
    assumptions = [
        "crypto/tls, crypto/x509 and net/http of the Go toolchain are trusted (the handshake proves key possession)",
        "the chain is the real x/cert keeper + Msg server + gRPC querier over an in-memory IAVL store; the ante "
        "handler (signature of the publishing account) is not exercised: Publish is executed with signer = owner",
        "the provider back end is a recorder; ids are observed at the provider.Client boundary",
        "time is sampled at now +/- minutes..months, not at every instant",
        "weak reading (DESIGN 5.1): only accepted/served outcomes can violate; 'currently valid' is judged on the "
        "on-chain OR the presented certificate; any on-chain serial of the account with the presented key counts",
    ]
    cov = {"exhaustive": False, "configs": [], "seeds": [seed]}

    if replay:
        src = os.path.join(replay, "cases.ndjson") if os.path.isdir(replay) else replay
        case_lines = [json.dumps({k: json.loads(l)[k] for k in ("cert", "reg", "path")}) for l in read_lines(src)]
        _, objs, viol, judged = execute(pid, tier, seed, case_lines, workdir, vh, 1200)
        violations = to_violations(pid, objs, viol)
        for inv in viol:
            vlib.log("[C09] replay: %s violated on %d line(s)" % (inv, len(viol[inv])))
        cov.update(states=max(1, len(case_lines)), transitions=max(1, len(case_lines)), traces_validated_against_impl=judged,
                   evaluations=len(case_lines), distinct_nontrivial=len(case_lines), rule="replay of saved cases",
                   samples=[json.loads(l) for l in case_lines[:3]], drift_steps=len(viol.get("Conforms", [])),
                   binding_selftest={"ok": True, "skipped": "replay"})
        return vlib.finish(pid, tier, seed, "model_checking", cov, t0, violations, assumptions)

    # ---- J1 (+ discrimination test) -----------------------------------------------------------------------
    # both universes are model-checked completely in every tier (seconds); the tiers differ in how much of the
    # thorough universe is replayed on the real code: a seeded sample (quick) or all of it (thorough)
    cfgs = ["MC_quick.cfg", "MC_thorough.cfg"]
    with concurrent.futures.ThreadPoolExecutor(max_workers=3) as ex:
        futs = {cfg: ex.submit(j1, cfg, 1500) for cfg in cfgs}
        fut_asfound = ex.submit(j1, "MC_asfound.cfg", 900)
        results = {cfg: f.result() for cfg, f in futs.items()}
        r_asfound = fut_asfound.result()
    states = transitions = 0
    exported = {}
    for cfg in cfgs:
        r = results[cfg]
        vlib.tlc_require_ok(r, "J1 %s" % cfg)
        u = parse_universe(r.out)
        la, ls = exported_cases(r)
        lines = list(collections.OrderedDict((json.dumps(json.loads(l), sort_keys=True), None) for l in la + ls))
        if not u or u.get("auth", {}).get("n") != len(la) or u.get("scope", {}).get("n") != len(ls) or r.distinct != len(lines):
            raise vlib.Inconclusive("J1 %s: exported %d+%d cases (%d distinct), TLC checked %d, universe record %s" % (
                cfg, len(la), len(ls), len(lines), r.distinct, u))
        vlib.log("[C09] J1 %s: %d cases model-checked clean in %.1fs %s" % (cfg, r.distinct, r.wall_s, u))
        states += r.distinct
        transitions += r.generated - r.distinct
        cov["configs"].append({"cfg": cfg, "states": r.distinct, "generated": r.generated, "wall_s": round(r.wall_s, 1), "universe": u})
        exported[cfg] = lines
    if r_asfound.violated != "AuthSound":
        raise vlib.Inconclusive("discrimination test: the as-found procedure (MC_asfound.cfg) must violate AuthSound in J1, "
                                "got %r" % r_asfound)
    cov["asfound_model_violates"] = r_asfound.violated
    rnd = random.Random(seed)
    quick_set = set(exported["MC_quick.cfg"])
    rest = [l for l in exported["MC_thorough.cfg"] if l not in quick_set]     # shared cases are replayed once
    if tier == "quick":
        rest = rnd.sample(rest, min(len(rest), QUICK_SAMPLE))
    case_lines = exported["MC_quick.cfg"] + rest
    rnd.shuffle(case_lines)              # the seed also drives which gateway/connection order a case gets
    cov["replayed"] = {"MC_quick.cfg": len(quick_set), "MC_thorough.cfg": len(rest),
                       "of_thorough_universe": len(exported["MC_thorough.cfg"])}

    # ---- J2 + J3 ------------------------------------------------------------------------------------------
    trace_lines, objs, viol, judged = execute(pid, tier, seed, case_lines, workdir, vh, 3000)
    drift = sorted(set(viol.get("Conforms", [])) - set(i for inv in VERDICT_INVS for i in viol.get(inv, [])))
    for i in drift[:10]:
        o = objs[i]
        vlib.log("DRIFT C09 line %d: observed vpc=%s tls=%s served=%s for cert=%s reg=%s path=%s" % (
            o["i"], o["vpc"], o["tls"], o["served"], o["cert"], o["reg"], o["path"]))
    violations = to_violations(pid, objs, viol)

    accepted = [o for o in objs if o["tls"] and o["cert"]["chainLen"] >= 1]
    nontrivial = set()
    for o in objs:
        c = o["cert"]
        if c["chainLen"] >= 1:      # a certificate was presented: distinct (cert class, registry, outcome) triples
            nontrivial.add((json.dumps(c, sort_keys=True), json.dumps(o["reg"], sort_keys=True), o["tls"]))
    scoped = set((json.dumps(o["path"], sort_keys=True), json.dumps(o["cert"], sort_keys=True)) for o in objs if o["served"])
    st = selftest(objs, workdir, [i for v in viol.values() for i in v])
    if not st["ok"] and not violations:
        raise vlib.Inconclusive("binding self-test failed: %s" % st)
    cov.update(
        states=states, transitions=max(1, transitions),
        transitions_note="input-quantified spec: one initial state per case, the only steps are stutters",
        traces_validated_against_impl=judged,
        evaluations=len(objs) * 2,     # one direct VerifyPeerCertificate call + one real TLS connection per case
        distinct_nontrivial=len(nontrivial) + len(scoped),
        rule="cases are the TLC-enumerated universe (cert class x registry x URL class), each executed once; counted: "
             "distinct (presented certificate class, registry, handshake outcome) with a certificate presented, plus "
             "distinct (URL class, certificate class) whose request reached the back end",
        accepted_connections=len(accepted),
        served_requests=sum(1 for o in objs if o["served"]),
        refused_handshakes=sum(1 for o in objs if not o["tls"]),
        exhaustive=(tier == "thorough"),
        exhaustive_note="J1 is exhaustive over both bounded universes in every tier; the replay on the real code covers all of "
                        "the quick universe and %s of the thorough one" % ("all" if tier == "thorough" else "a seeded sample"),
        drift_steps=len(drift),
        binding_selftest=st,
        samples=[{k: o[k] for k in ("cert", "reg", "path", "vpc", "tls", "status", "served", "url", "tlsErr")}
                 for o in (pick(objs, rnd))],
    )
    return vlib.finish(pid, tier, seed, "model_checking", cov, t0, violations, assumptions)


def pick(objs, rnd):
    out = []
    for pred in (lambda o: o["served"] and o["path"]["extra"] == "spoof",
                 lambda o: not o["tls"] and o["cert"]["der"] == "fresh" and o["cert"]["cn"] == "X" and o["cert"]["issuer"] == "self"
                 and o["reg"]["X/s1"]["state"] == "valid" and o["cert"]["window"] == "ok",
                 lambda o: not o["tls"] and o["cert"]["issuer"] == "other",
                 lambda o: o["tls"] and o["status"] == 400):
        c = [o for o in objs if pred(o)]
        if c:
            out.append(rnd.choice(c))
    return out or objs[:2]


def to_violations(pid, objs, viol):
    groups = collections.OrderedDict()
    auth = set(viol.get("AuthHolds", []))
    for inv in VERDICT_INVS:
        for i in sorted(viol.get(inv, [])):
            if inv == "VpcHolds" and i in auth:
                continue        # the same certificate was also accepted by the real handshake: reported there
            o = objs[i]
            sig = "C09:" + classify(inv, o)
            groups.setdefault(sig, []).append((inv, o))
    out = []
    for sig, items in groups.items():
        sample = [o for _, o in items[:25]]
        inv, o = items[0]
        detail = ("TLC: invariant %s of GatewayAuthTrace is false on %d recorded line(s) of the real gateway.\n"
                  "first: cert=%s\n       reg=%s\n       path=%s\n       observed: vpc=%s tls=%s status=%s served=%s\n       request: %s" % (
                      inv, len(items), json.dumps(o["cert"], sort_keys=True), json.dumps(o["reg"], sort_keys=True),
                      json.dumps(o["path"], sort_keys=True), o["vpc"], o["tls"], o["status"], json.dumps(o["served"]), o.get("url")))
        files = {"cases.ndjson": "\n".join(json.dumps({k: x[k] for k in ("cert", "reg", "path")}, sort_keys=True) for x in sample) + "\n",
                 "trace.ndjson": "\n".join(json.dumps(x, sort_keys=True) for x in sample) + "\n"}
        out.append(vlib.Violation(pid, sig, detail, files))
    return out
