"""C09 -- provider gateway: mTLS authentication only for holders of on-chain certificates; tenant scoping.

J1  TLC model-checks spec/gateway/GatewayAuth.tla (MC_GatewayAuth): the transcribed decision procedure of
    utils.go / crypto/tls / middleware.go / router.go against the declarative oracle, on every case of two bounded
    universes (certificate class x chain registry x request URL class, plus TLS session resumption cases).
    Two discrimination tests: the as-found procedure (MC_asfound.cfg) must FAIL AuthSound, the strict reading of
    "currently" (MC_strict.cfg) must FAIL RevocationEffective -- the oracle can tell them apart.
J2  the same TLC runs write the universes as ndjson; `vh gateway run` concretises every line (real ECDSA keys,
    real DER, registry published through the real x/cert Msg server and read by the real querier), calls the
    real VerifyPeerCertificate and performs real TLS 1.3 handshakes + HTTP/websocket requests against the real
    rest.NewServer, recording what the back end received. Free-running direction: concurrent keep-alive
    sessions of many tenants and forgers against ONE gateway.
J3  TLC (GatewayAuthTrace, -continue) judges every recorded line with the same TLA+ property definitions:
    AuthHolds / VpcHolds / ScopeHolds / ResumeHolds / ResumeScopeHolds = verdict, Conforms = drift,
    RevocationEffective = strict-reading OBSERVATION (never a verdict).
"""
import collections
import concurrent.futures
import json
import os
import random
import re
import time

import vlib

PROPERTIES = ["C09"]
SPEC = os.path.join(vlib.SPEC, "gateway")
VERDICT_INVS = ("AuthHolds", "VpcHolds", "ScopeHolds", "ResumeHolds", "ResumeScopeHolds")
OBSERVATION_INV = "RevocationEffective"
CHUNK = 8000
QUICK_SAMPLE = 3000      # cases of the thorough universe replayed in the quick tier (seeded sample)
SESSIONS = {"quick": (128, 24), "thorough": (512, 48)}     # free-running: (sessions, requests per session)
BURSTS = {"quick": (32, 40), "thorough": (64, 80)}         # stream storm: (burst sessions, rounds); one round = all at once

_RE_VIOL = re.compile(r"Error: Invariant (\w+) is violated by the initial state:\s*\n(?:/\\ )?l = (\d+)")
_RE_UNIV = re.compile(r'<<\s*"(universe|auth|scope|resume|seq|race)",\s*\[(.*?)\]\s*>>', re.S)
ECHO_KEYS = ("kind", "cert", "reg", "path", "change", "present", "steps")
PARTS = ("auth", "scope", "resume", "seq", "race")
SEQ_SRC = {}     # first line index of a sequence -> the sequence as exported (for replay files)


# ------------------------------------------------------------------------------------------------ J1 / J2

def j1(cfg, timeout):
    return vlib.tlc(SPEC, "MC_GatewayAuth", cfg, workers=min(4, vlib.NCPU), timeout=timeout, deadlock=False, heap="4g")


def parse_universe(out):
    u = {}
    for name, body in _RE_UNIV.findall(out):
        u[name] = {k: int(v) for k, v in re.findall(r"(\w+) \|-> (\d+)", body)}
    return u


def read_lines(path):
    with open(path) as fh:
        return [ln for ln in fh.read().split("\n") if ln.strip()]


def exported_cases(r):
    return [read_lines(os.path.join(r.dir, "cases_%s.ndjson" % part)) for part in PARTS]


# ------------------------------------------------------------------------------------------------ J3

def judge(trace_lines, workdir, tag, timeout=1200):
    """Run GatewayAuthTrace over the recorded lines (chunked, in parallel). Returns {inv: [global line index]}
    and the number of lines TLC evaluated."""
    chunks = [trace_lines[i:i + CHUNK] for i in range(0, len(trace_lines), CHUNK)] or [[]]
    files = []
    for n, ch in enumerate(chunks):
        p = os.path.join(workdir, "%s.%d.ndjson" % (tag, n))
        with open(p, "w") as fh:
            fh.write("\n".join(ch) + ("\n" if ch else ""))
        files.append(p)

    def one(n):
        if not chunks[n]:
            return n, None
        r = vlib.tlc(SPEC, "GatewayAuthTrace", "GatewayAuthTrace.cfg", workers=2, timeout=timeout, deadlock=False, heap="1g",
                     copy_files={"trace.ndjson": files[n]}, extra_args=["-continue"])
        return n, r

    viol = collections.defaultdict(list)
    judged = 0
    with concurrent.futures.ThreadPoolExecutor(max_workers=max(1, min(len(chunks), vlib.NCPU // 2))) as ex:
        for n, r in ex.map(one, range(len(chunks))):
            if r is None:
                continue
            if "Model checking completed" not in r.out or r.distinct != len(chunks[n]):
                raise vlib.Inconclusive("J3: TLC did not judge every recorded line of chunk %d (%d of %d)\n%s" % (
                    n, r.distinct, len(chunks[n]), (r.error or r.out[-3000:])))
            judged += r.distinct
            for inv, l in _RE_VIOL.findall(r.out):
                viol[inv].append(n * CHUNK + int(l) - 1)
    return viol, judged


# ------------------------------------------------------------------------------------------------ signatures

def _lookup(reg, cn, serial):
    return reg.get("%s/%s" % (cn, serial), {"state": "none", "key": "-", "window": "-", "usage": "-"})


def classify(inv, o):
    """Stable, minimal identification of a violating input: which clause of the statement the accepted client /
    served id fails (first that applies, fixed order)."""
    c, reg = o["cert"], o["reg"]
    if inv in ("ScopeHolds", "ResumeScopeHolds"):
        pre = "scope" if inv == "ScopeHolds" else "resume-scope"
        ident = c
        if inv == "ResumeScopeHolds" and not o.get("resumed") and o.get("present") == "nocert":
            ident = {"cn": "-", "chainLen": 0}
        for s in o["served"]:
            if s["owner"] != ident["cn"]:
                return "%s:owner-not-authenticated-account route=%s" % (pre, o["path"]["route"])
            if s["provider"] not in ("P", "-"):
                return "%s:other-provider route=%s" % (pre, o["path"]["route"])
        if not (o["tls"] and ident["chainLen"] >= 1):
            return "%s:served-without-accepted-client route=%s" % (pre, o["path"]["route"])
        return "%s:id-differs-from-url route=%s dseq=%s gseq=%s oseq=%s" % (
            pre, o["path"]["route"], o["path"]["dseq"], o["path"]["gseq"], o["path"]["oseq"])
    if inv == "ResumeHolds":
        return "resume:%s-connection-accepted-without-valid-proof change=%s present=%s" % (
            "resumed" if o.get("resumed") else "second", o.get("change"), o.get("present"))
    where = "handshake" if inv == "AuthHolds" else "verifypeer"
    extra = " chain" if c["chainLen"] > 1 else ""
    if c["cn"] not in ("X", "Y"):
        return "%s:malformed-cn-accepted%s" % (where, extra)
    if inv == "AuthHolds" and not c["holds"]:
        return "%s:key-not-held%s" % (where, extra)
    e = _lookup(reg, c["cn"], c["serial"])
    own = [_lookup(reg, c["cn"], s) for s in ("s1", "s2")]
    if c["issuer"] != "self":
        return "%s:forged-foreign-issuer-accepted-without-chain-lookup%s" % (where, extra)
    if e["state"] == "none":
        return "%s:unregistered-serial-accepted%s" % (where, extra)
    if e["state"] == "revoked" and not any(x["state"] == "valid" and x["key"] == c["key"] for x in own):
        return "%s:revoked-accepted%s" % (where, extra)
    if not any(x["state"] == "valid" and x["key"] == c["key"] for x in own):
        return "%s:forged-copied-cn-serial-other-key-accepted%s" % (where, extra)
    usable = [x for x in own if x["state"] == "valid" and x["key"] == c["key"]
              and x["window"] == "ok" and x["usage"] in ("client", "both", "none", "any", "clientUnk")]
    if not usable and c["der"] != "onchain":
        return "%s:remade-certificate-accepted-for-published-one-not-currently-valid%s" % (where, extra)
    if c["window"] != "ok":
        return "%s:outside-validity-window-accepted (%s)%s" % (where, c["window"], extra)
    if c["usage"] not in ("client", "both", "none", "any", "clientUnk"):
        return "%s:not-for-client-auth-accepted%s" % (where, extra)
    return "%s:other%s" % (where, extra)


def to_violations(pid, objs, viol):
    groups = collections.OrderedDict()
    auth = set(viol.get("AuthHolds", []))
    for inv in VERDICT_INVS:
        for i in sorted(viol.get(inv, [])):
            if inv == "VpcHolds" and i in auth:
                continue        # the same certificate was also accepted by the real handshake: reported there
            o = objs[i]
            groups.setdefault("C09:" + classify(inv, o), []).append((inv, o))
    out = []
    for sig, items in groups.items():
        sample = [o for _, o in items[:25]]
        inv, o = items[0]
        detail = ("TLC: invariant %s of GatewayAuthTrace is false on %d recorded line(s) of the real gateway.\n"
                  "first: cert=%s\n       reg=%s\n       path=%s\n       observed: vpc=%s tls=%s status=%s served=%s%s\n       request: %s" % (
                      inv, len(items), json.dumps(o["cert"], sort_keys=True), json.dumps(o["reg"], sort_keys=True),
                      json.dumps(o["path"], sort_keys=True), o["vpc"], o["tls"], o["status"], json.dumps(o["served"]),
                      (" change=%s present=%s tls0=%s resumed=%s" % (o.get("change"), o.get("present"), o.get("tls0"), o.get("resumed"))
                       if o["kind"] == "resume" else ""), o.get("url")))
        def src(x):     # a step of a sequence is replayed with its whole sequence (the history is the point)
            if x.get("seq") in SEQ_SRC:
                return SEQ_SRC[x["seq"]]
            return {k: x[k] for k in ECHO_KEYS if k in x}
        replay_lines = list(collections.OrderedDict((json.dumps(src(x), sort_keys=True), None) for x in sample))
        files = {"cases.ndjson": "\n".join(replay_lines) + "\n",
                 "trace.ndjson": "\n".join(json.dumps(x, sort_keys=True) for x in sample) + "\n"}
        out.append(vlib.Violation(pid, sig, detail, files))
    return out


# ------------------------------------------------------------------------------------------------ harness

def run_harness(vh, cases_path, out_path, seed, timeout):
    rc, txt = vlib.run([vh, "gateway", "run", "-cases", cases_path, "-out", out_path, "-seed", str(seed),
                        "-workers", str(vlib.NCPU)], timeout=timeout)
    for ln in txt.strip().split("\n")[-6:]:
        vlib.log("[C09] " + ln)
    if rc != 0:
        raise vlib.Inconclusive("harness failed rc=%d\n%s" % (rc, txt[-3000:]))


def make_bursts(rnd, singles, nburst, rounds):
    """Stream storm: tenants X and Y of shared worlds, genuine certificates, websocket streaming routes only (logs,
    kubeevents), a few hot coordinates. Round k = request k of EVERY burst session, sent at the same instant."""
    cases = [o for o in singles if o["kind"] == "case"]
    seqs = [o for o in singles if o["kind"] == "seq"]
    hot = [o["path"] for o in cases if o["path"]["route"] in ("logs", "events") and o["path"]["dseq"] in ("own", "other")
           and o["path"]["gseq"] == "own" and o["path"]["oseq"] == "own" and o["path"]["extra"] in ("none", "spoof")]
    hot = [json.loads(x) for x in sorted(set(json.dumps(p, sort_keys=True) for p in hot))]
    out = []
    n = 0
    while seqs and hot and len(out) < nburst:
        n += 1
        sq = rnd.choice(seqs)
        ids = {json.dumps(st["cert"], sort_keys=True): st["cert"] for st in sq["steps"]}
        for cert in ids.values():
            out.append({"kind": "session", "burst": True, "world": 2000000000 + n, "cert": cert, "reg": sq["reg"],
                        "paths": [rnd.choice(hot) for _ in range(rounds)]})
    return out[:nburst]


def make_sessions(rnd, singles, nsess, nreq):
    """Free-running direction: client identities taken from the exported universe (genuine ones and anything), each
    with a random sequence of request URL classes of the universe. Half of the sessions come in PAIRS that share one
    world: tenant X and tenant Y, each with its genuine certificate, same registry, same lease numbers, hitting the
    same few URL coordinates on the same gateway at the same time."""
    cases = [o for o in singles if o["kind"] == "case"]
    paths = [o["path"] for o in cases]
    seqs = [o for o in singles if o["kind"] == "seq"]
    genuine = [o for o in cases if o["cert"]["der"] == "onchain" and o["cert"]["holds"] and o["cert"]["chainLen"] == 1
               and _lookup(o["reg"], o["cert"]["cn"], o["cert"]["serial"])["state"] == "valid"
               and o["cert"]["window"] == "ok" and o["cert"]["usage"] in ("client", "both", "none", "any", "clientUnk")]
    hot = [p for p in paths if p["dseq"] in ("own", "other") and p["gseq"] == "own" and p["oseq"] == "own"] or paths
    out = []
    n = 0
    while len(out) < nsess:
        n += 1
        if n % 2 == 0 and seqs and len(out) + 2 <= nsess:
            sq = rnd.choice(seqs)
            ids = {json.dumps(st["cert"], sort_keys=True): st["cert"] for st in sq["steps"]}
            for cert in ids.values():       # the two tenants of the sequence universe
                out.append({"kind": "session", "world": 1000000000 + n, "cert": cert, "reg": sq["reg"],
                            "paths": [rnd.choice(hot) for _ in range(nreq)]})
            continue
        src = rnd.choice(genuine) if (n % 4 == 1 and genuine) else rnd.choice(cases)
        out.append({"kind": "session", "cert": src["cert"], "reg": src["reg"], "paths": [rnd.choice(paths) for _ in range(nreq)]})
    return out


def execute(seed, singles, sessions, workdir, vh, t_budget):
    """J2 + J3 on a list of single lines (case / resume dicts) and session dicts."""
    expected = {}
    lines = []
    i = 0
    SEQ_SRC.clear()
    for o in singles:
        if o["kind"] in ("seq", "race"):      # one input line, one recorded line per step
            lines.append(json.dumps(dict(o, i=i + 1)))
            SEQ_SRC[i + 1] = o
            for st in o["steps"]:
                i += 1
                expected[i] = {"kind": "case", "cert": st["cert"], "reg": o["reg"], "path": st["path"]}
            continue
        i += 1
        expected[i] = {k: o[k] for k in ECHO_KEYS if k in o}
        lines.append(json.dumps(dict(o, i=i)))
    for s in sessions:
        lines.append(json.dumps(dict(s, i=i + 1)))
        for p in s["paths"]:
            i += 1
            expected[i] = {"kind": "case", "cert": s["cert"], "reg": s["reg"], "path": p}
    cases_path = os.path.join(workdir, "in.ndjson")
    with open(cases_path, "w") as fh:
        fh.write("\n".join(lines) + "\n")
    trace_path = os.path.join(workdir, "trace.ndjson")
    run_harness(vh, cases_path, trace_path, seed, t_budget)

    # binding, part 1: every line came back exactly once and says which case it ran
    got = {}
    orphans = []
    for ln in read_lines(trace_path):
        o = json.loads(ln)
        if o["i"] < 0:
            orphans.append(o)
            continue
        if o["i"] in got:
            raise vlib.Inconclusive("line %d recorded twice" % o["i"])
        got[o["i"]] = o
    if sorted(got) != sorted(expected):
        raise vlib.Inconclusive("recorded %d of %d expected lines" % (len(got), len(expected)))
    for n, e in expected.items():
        o = got[n]
        if any(o.get(k) != v for k, v in e.items()):
            raise vlib.Inconclusive("recorded line %d does not echo the exported case" % n)
    objs = [got[n] for n in sorted(got)] + orphans
    trace_lines = [json.dumps(o, sort_keys=True) for o in objs]
    viol, judged = judge(trace_lines, workdir, "trace")
    return objs, viol, judged, len(orphans)


def selftest(objs, workdir, flagged=()):
    """Binding, part 2: corrupt one recorded outcome field / one served id / drop one back-end event and require
    TLC to reject exactly the corrupted lines."""
    flagged = set(flagged)
    objs = [o for n, o in enumerate(objs) if n not in flagged and o["kind"] == "case"]   # lines TLC accepted as they are
    refused = next((o for o in objs if o["cert"]["chainLen"] == 1 and o["cert"]["cn"] == "X" and not o["tls"]
                    and o["cert"]["holds"] and o["cert"]["der"] == "fresh"
                    and all(o["reg"][k]["state"] != "valid" for k in ("X/s1", "X/s2"))), None)
    served = next((o for o in objs if o["served"] and o["tls"]), None)
    if refused is None or served is None:
        return {"ok": False, "why": "no suitable lines to corrupt"}
    a = json.loads(json.dumps(refused))
    a["tls"] = True                      # pretend a refused forged client had been accepted
    b = json.loads(json.dumps(served))
    b["served"][0]["owner"] = "Y" if served["cert"]["cn"] != "Y" else "X"   # another tenant's lease handed to the back end
    c = json.loads(json.dumps(served))
    c["served"] = []                     # drop the back-end event: must be flagged as non-conforming
    lines = [json.dumps(x, sort_keys=True) for x in (refused, a, served, b, c)]
    viol, judged = judge(lines, workdir, "selftest", timeout=300)
    got = {inv: sorted(v) for inv, v in viol.items()}
    ok = (judged == 5 and got.get("AuthHolds") == [1] and got.get("ScopeHolds") == [3]
          and got.get("Conforms") == [1, 3, 4])
    return {"ok": ok, "corruptions": ["tls false->true on a refused forged client", "served owner -> other tenant",
                                      "served event dropped"], "tlc_flagged": got}


ASSUMPTIONS = [
    "crypto/tls, crypto/x509 and net/http of the Go toolchain are trusted (the handshake proves key possession)",
    "the chain is the real x/cert keeper + Msg server + gRPC querier over an in-memory IAVL store; the ante "
    "handler (signature of the publishing account) is not exercised: Publish is executed with signer = owner",
    "the provider back end is a recorder; ids are observed at the provider.Client boundary",
    "time is sampled deep inside and at the edges (2 s behind, 2 min ahead) of each validity class, not at every instant",
    "reading: only accepted/served outcomes can violate; 'currently valid' is judged on the PUBLISHED certificate "
    "(state valid, inside its window, usable for client auth) at the moment key possession is proven (full handshake); "
    "byte identity of the presented certificate with the published one is not demanded; any on-chain serial of the "
    "account with the presented key counts; a malformed id in the URL only has to stay inside the authenticated account",
]


def run(pid, tier, seed, replay):
    t0 = time.time()
    workdir = vlib.scratch("gateway-")
    vh = vlib.build_harness()
    cov = {"exhaustive": False, "configs": [], "seeds": [seed]}
    rnd = random.Random(seed)

    if replay:
        src = os.path.join(replay, "cases.ndjson") if os.path.isdir(replay) else replay
        singles = []
        for l in read_lines(src):
            o = json.loads(l)
            o.setdefault("kind", "case")
            singles.append({k: o[k] for k in ECHO_KEYS if k in o})
        nlines = sum(len(o["steps"]) if o["kind"] in ("seq", "race") else 1 for o in singles)
        objs, viol, judged, _ = execute(seed, singles, [], workdir, vh, 1200)
        violations = to_violations(pid, objs, viol)
        for inv in viol:
            vlib.log("[C09] replay: %s false on %d line(s)" % (inv, len(viol[inv])))
        cov.update(states=max(1, nlines), transitions=max(1, nlines), traces_validated_against_impl=judged,
                   evaluations=nlines, distinct_nontrivial=max(2, nlines), rule="replay of saved cases",
                   samples=singles[:3], drift_steps=len(viol.get("Conforms", [])),
                   binding_selftest={"ok": True, "skipped": "replay"})
        return vlib.finish(pid, tier, seed, "model_checking", cov, t0, violations, ASSUMPTIONS)

    # ---- J1 (+ discrimination tests) ----------------------------------------------------------------------
    # both universes are model-checked completely in every tier (seconds); the tiers differ in how much of the
    # thorough universe is replayed on the real code: a seeded sample (quick) or all of it (thorough)
    cfgs = ["MC_quick.cfg", "MC_thorough.cfg"]
    with concurrent.futures.ThreadPoolExecutor(max_workers=6) as ex:
        futs = {cfg: ex.submit(j1, cfg, 1500) for cfg in cfgs}
        fut_asfound = ex.submit(j1, "MC_asfound.cfg", 900)
        fut_strict = ex.submit(j1, "MC_strict.cfg", 900)
        fut_memory = ex.submit(j1, "MC_memory.cfg", 900)
        fut_shared = ex.submit(j1, "MC_shared.cfg", 900)
        results = {cfg: f.result() for cfg, f in futs.items()}
        r_asfound, r_strict, r_memory = fut_asfound.result(), fut_strict.result(), fut_memory.result()
        r_shared = fut_shared.result()
    states = transitions = 0
    exported = {}
    for cfg in cfgs:
        r = results[cfg]
        vlib.tlc_require_ok(r, "J1 %s" % cfg)
        u = parse_universe(r.out)
        parts = exported_cases(r)
        lines = list(collections.OrderedDict((l, None) for part in parts for l in part))
        if (not u or [u.get(k, {}).get("n") for k in PARTS] != [len(p) for p in parts]
                or r.distinct != len(lines)):
            raise vlib.Inconclusive("J1 %s: exported %s cases (%d distinct), TLC checked %d, universe record %s" % (
                cfg, [len(p) for p in parts], len(lines), r.distinct, u))
        vlib.log("[C09] J1 %s: %d cases model-checked clean in %.1fs %s" % (cfg, r.distinct, r.wall_s, u))
        states += r.distinct
        transitions += r.generated - r.distinct
        cov["configs"].append({"cfg": cfg, "states": r.distinct, "generated": r.generated, "wall_s": round(r.wall_s, 1), "universe": u})
        exported[cfg] = lines
    if r_asfound.violated != "AuthSound":
        raise vlib.Inconclusive("discrimination test: the as-found procedure (MC_asfound.cfg) must violate AuthSound in J1, got %r" % r_asfound)
    if r_strict.violated != "RevocationEffective":
        raise vlib.Inconclusive("discrimination test: the strict reading (MC_strict.cfg) must violate RevocationEffective in J1, got %r" % r_strict)
    cov["asfound_model_violates"] = r_asfound.violated
    if r_memory.violated != "SeqSound":
        raise vlib.Inconclusive("discrimination test: a router remembering lease ids per coordinates (MC_memory.cfg) must violate SeqSound in J1, got %r" % r_memory)
    cov["strict_reading_model_violates"] = r_strict.violated
    cov["remembering_router_model_violates"] = r_memory.violated
    if r_shared.violated != "RaceSound":
        raise vlib.Inconclusive("discrimination test: handshakes sharing one verdict per certificate id (MC_shared.cfg) must violate RaceSound in J1, got %r" % r_shared)
    cov["shared_verdict_model_violates"] = r_shared.violated
    quick_set = set(exported["MC_quick.cfg"])
    rest = [l for l in exported["MC_thorough.cfg"] if l not in quick_set]     # shared cases are replayed once
    if tier == "quick":
        small = ('"kind":"resume"', '"kind":"seq"', '"kind":"race"')                           # the few resumption / sequence cases: always all
        resume_rest = [l for l in rest if any(k in l for k in small)]
        other = [l for l in rest if not any(k in l for k in small)]
        rest = resume_rest + rnd.sample(other, min(len(other), QUICK_SAMPLE))
    singles = [json.loads(l) for l in exported["MC_quick.cfg"] + rest]
    rnd.shuffle(singles)                 # the seed also drives which gateway/connection order a case gets
    nsess, nreq = SESSIONS[tier]
    sessions = make_sessions(rnd, singles, nsess, nreq)
    nburst, rounds = BURSTS[tier]
    bursts = make_bursts(rnd, singles, nburst, rounds)
    sessions = sessions + bursts
    cov["replayed"] = {"MC_quick.cfg": len(quick_set), "MC_thorough.cfg": len(rest),
                       "of_thorough_universe": len(exported["MC_thorough.cfg"]),
                       "free_running_sessions": nsess, "requests_per_session": nreq}

    # ---- J2 + J3 ------------------------------------------------------------------------------------------
    objs, viol, judged, norphans = execute(seed, singles, sessions, workdir, vh, 3000)
    bad = set(i for inv in VERDICT_INVS for i in viol.get(inv, []))
    drift = sorted(set(viol.get("Conforms", [])) - bad)
    for i in drift[:10]:
        o = objs[i]
        vlib.log("DRIFT C09 line %d (%s): observed vpc=%s tls=%s served=%s%s for cert=%s reg=%s path=%s" % (
            o["i"], o["kind"], o["vpc"], o["tls"], o["served"],
            (" tls0=%s resumed=%s change=%s present=%s" % (o.get("tls0"), o.get("resumed"), o.get("change"), o.get("present"))
             if o["kind"] == "resume" else ""), o["cert"], o["reg"], o["path"]))
    if len(drift) > 10:
        vlib.log("DRIFT C09: %d more line(s)" % (len(drift) - 10))
    violations = to_violations(pid, objs, viol)

    # strict reading of "currently" (a revoked certificate keeps being served on resumed TLS sessions): observation only
    obs = sorted(viol.get(OBSERVATION_INV, []))
    if obs:
        o = next((objs[i] for i in obs if objs[i]["served"]), objs[obs[0]])
        vlib.log("OBSERVATION C09 (strict reading, not a verdict): on %d recorded line(s) a client was served as %s on a NEW "
                 "connection although the registry no longer holds a valid certificate for its key (TLS session resumption: "
                 "tickets are issued and VerifyPeerCertificate is not invoked on resumption); first: change=%s present=%s "
                 "resumed=%s served=%s" % (len(obs), o["cert"]["cn"], o.get("change"), o.get("present"), o.get("resumed"), o["served"]))

    cases = [o for o in objs if o["kind"] == "case"]
    resumes = [o for o in objs if o["kind"] == "resume"]
    accepted = [o for o in cases if o["tls"] and o["cert"]["chainLen"] >= 1]
    nontrivial = set()
    for o in cases:
        c = o["cert"]
        if c["chainLen"] >= 1:      # a certificate was presented: distinct (cert class, registry, outcome) triples
            nontrivial.add((json.dumps(c, sort_keys=True), json.dumps(o["reg"], sort_keys=True), o["tls"]))
    scoped = set((json.dumps(o["path"], sort_keys=True), json.dumps(o["cert"], sort_keys=True)) for o in cases if o["served"])
    resumed = set((json.dumps(o["cert"], sort_keys=True), json.dumps(o["reg"], sort_keys=True), o["change"], o["present"],
                   json.dumps(o["path"], sort_keys=True)) for o in resumes if o.get("resumed"))
    st = selftest(objs, workdir, [i for v in viol.values() for i in v])
    if not st["ok"] and not violations:
        raise vlib.Inconclusive("binding self-test failed: %s" % st)
    sess_lines = [o for o in cases if o.get("session")]
    cov.update(
        states=states, transitions=max(1, transitions),
        transitions_note="input-quantified spec: one initial state per case, the only steps are stutters",
        traces_validated_against_impl=judged,
        evaluations=len(cases) + len(cases) - len(sess_lines) + 3 * len(resumes),
        evaluations_note="per case one direct VerifyPeerCertificate call and one real TLS connection + request; per resumption "
                         "case two connections; per session request one request over a kept-alive or new connection",
        distinct_nontrivial=len(nontrivial) + len(scoped) + len(resumed),
        rule="cases are the TLC-enumerated universes (cert class x registry x URL class; resumption cases), each executed once; "
             "counted: distinct (presented certificate class, registry, handshake outcome) with a certificate presented, plus "
             "distinct (URL class, certificate class) whose request reached the back end, plus distinct resumption cases whose "
             "second connection was a TLS resumption",
        accepted_connections=len(accepted),
        served_requests=sum(1 for o in cases if o["served"]),
        refused_handshakes=sum(1 for o in cases if not o["tls"]),
        sequence_and_overlap_steps=sum(1 for o in cases if o.get("seq")),
        resumption_cases=len(resumes),
        resumed_connections=sum(1 for o in resumes if o.get("resumed")),
        stream_storm={"burst_sessions": len(bursts), "rounds": rounds, "streams": sum(1 for o in cases if o.get("session", 0) >= 100000),
                      "served": sum(1 for o in cases if o.get("session", 0) >= 100000 and o["served"])},
        free_running={"sessions": nsess, "paired_sessions_sharing_a_world": sum(1 for x in sessions if x.get("world")), "requests": len(sess_lines), "served": sum(1 for o in sess_lines if o["served"]),
                      "orphan_backend_calls": norphans},
        strict_reading_observations=len(obs),
        exhaustive=(tier == "thorough"),
        exhaustive_note="J1 is exhaustive over both bounded universes in every tier; the replay on the real code covers all of "
                        "the quick universe and %s of the thorough one" % ("all" if tier == "thorough" else "a seeded sample"),
        drift_steps=len(drift),
        binding_selftest=st,
        samples=[{k: o[k] for k in ("kind", "cert", "reg", "path", "vpc", "tls", "status", "served", "url", "tlsErr",
                                    "change", "present", "tls0", "resumed") if k in o} for o in pick(objs, rnd)],
    )
    return vlib.finish(pid, tier, seed, "model_checking", cov, t0, violations, ASSUMPTIONS)


def pick(objs, rnd):
    out = []
    for pred in (lambda o: o["kind"] == "case" and o["served"] and o["path"]["extra"] == "spoof",
                 lambda o: o["kind"] == "case" and not o["tls"] and o["cert"]["der"] == "fresh" and o["cert"]["cn"] == "X"
                 and o["cert"]["issuer"] == "self" and o["reg"]["X/s1"]["state"] == "valid" and o["cert"]["window"] == "ok",
                 lambda o: o["kind"] == "case" and not o["tls"] and o["cert"]["issuer"] == "other",
                 lambda o: o["kind"] == "case" and o["tls"] and o["status"] == 400,
                 lambda o: o["kind"] == "resume" and o.get("resumed") and o["change"] == "revoke" and o["served"]):
        c = [o for o in objs if pred(o)]
        if c:
            out.append(rnd.choice(c))
    return out or objs[:2]
