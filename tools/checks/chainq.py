"""Extension component X01: the READ SIDE of the chain modules (spec/chainq: ChainQuery.tla).

gen   TLC runs the marketplace model of spec/chain (MC_ChainQuery, AskMode = "gen": exhaustive for the small families,
      -simulate for the rich ones) and prints the action path and the SHAPE of every state it visits; the check picks
      states of distinct shapes as roots (seeded).
J1    MC_ChainQuery, AskMode = "full": the roots are the initial states; EVERY request of the request universe of a
      root is a step (Ask / WalkStart / WalkNext / WalkEnd) answered by the operational model; the properties are
      invariants.  The same run exports the request plan of every root (J2).
J2    harness/chainqh replays the root paths on the real AkashApp and issues the planned requests against the real
      gRPC query servers (through the application's GRPCQueryRouter) and the escrow keeper's getters.
J3    ChainQueryTrace.tla: TLC judges every recorded (state, request, response) with the SAME property definitions
      (verdict) and compares it with the operational model (conformance, drift must be 0).
"""
import concurrent.futures as cf
import json
import os
import random
import re
import time

import vlib

PROPERTIES = ["X01"]
SPEC = os.path.join(vlib.SPEC, "chainq")
CHAIN = os.path.join(vlib.SPEC, "chain")
CHAIN_FILES = {n: os.path.join(CHAIN, n) for n in ("Chain.tla", "ChainProps.tla", "MC_Chain.tla")}
WORKERS = 4          # TLC workers of one run in the thorough tier (two families at a time); the machine is shared
WORKERS_QUICK = 2    # ... in the quick tier (four families at a time)
JOBS = 4             # concurrent J3 / harness processes of one family

BASE = dict(MinDeposit=2, BidMinDeposit=1, OrderMaxBids=20, BidDepositChoices=[1], KeyChoices="NoKeys", AttrChoices="NoAttrs",
            Auditors=[], Versions=[1], AmountChoices=[])
FAMILIES = {
    # exhaustive: one order, two providers, two order generations (open / active / lost / closed bids, re-opened orders)
    "QS": dict(BASE, Tenants=["t1"], Providers=["p1", "p2"], DSeqs=[1], GSeqs=[1], OSeqs=[1, 2], GroupChoices="GroupChoicesS",
               DepositChoices=[2], PriceChoices=[1], Gaps=[1], InitCoins=3, MaxHeight=2, mode="exhaustive"),
    # exhaustive: two groups of one deployment x two order generations (deployment listings join groups; mirrored coordinates)
    "QG": dict(BASE, Tenants=["t1"], Providers=["p1"], DSeqs=[1], GSeqs=[1, 2], OSeqs=[1, 2], GroupChoices="GroupChoicesS2",
               DepositChoices=[4], PriceChoices=[1], Gaps=[1], InitCoins=6, MaxHeight=2, mode="exhaustive"),
    # simulation: two tenants x three deployments (dseq 1, 12, 256) x two groups, two providers: interleaved owners in key order
    "QB": dict(BASE, Tenants=["t1", "t2"], Providers=["p1", "p2"], DSeqs=[1, 2, 3], GSeqs=[1, 2], OSeqs=[1, 2], GroupChoices="GroupChoicesA",
               DepositChoices=[2, 4], PriceChoices=[1, 2], AmountChoices=[1], Gaps=[1, 2], InitCoins=10, mode="simulate"),
    # simulation: provider records and attestations of two auditors (provider / audit query servers)
    "QR": dict(BASE, Tenants=["t1"], Providers=["p1", "p2", "p3"], Auditors=["a1", "a2"], DSeqs=[1], GSeqs=[1], OSeqs=[1],
               GroupChoices="GroupChoicesS", AttrChoices="AttrChoicesRA", KeyChoices="KeyChoicesR", DepositChoices=[3], PriceChoices=[1],
               Gaps=[1], InitCoins=8, mode="simulate"),
}
# (family, roots, simulate num, depth, roots walked while the chain moves, writes per walk, schedules replayed per root)
QUICK = [("QS", 14, 24, 18, 2, 1, 150), ("QG", 8, 16, 18, 1, 1, 150), ("QB", 4, 12, 16, 1, 1, 200), ("QR", 8, 16, 14, 2, 1, 150)]
THOROUGH = [("QS", 100000, 0, 0, 12, 2, 1500), ("QG", 600, 0, 0, 8, 1, 1500), ("QB", 160, 160, 34, 6, 1, 1500), ("QR", 200, 128, 24, 10, 2, 1500)]
MAX_PER_KIND_QUICK = 700


def tla_set(xs):
    return "{" + ", ".join(json.dumps(x) if isinstance(x, str) else str(x) for x in xs) + "}"


def consts(fam):
    c = FAMILIES[fam]
    lines = []
    for k in ("Tenants", "Providers", "Auditors", "DSeqs", "GSeqs", "OSeqs"):
        lines.append("  %s = %s" % (k, tla_set(c[k])))
    for k in ("MinDeposit", "BidMinDeposit", "OrderMaxBids"):
        lines.append("  %s = %d" % (k, c[k]))
    return lines


def mc_cfg(fam, mode, sim_depth=0, impl="intended", max_writes=1):
    c = FAMILIES[fam]
    sim = sim_depth > 0
    lines = ["SPECIFICATION QSpec", "VIEW QView", "CONSTANTS"] + consts(fam)
    for k in ("DepositChoices", "BidDepositChoices", "PriceChoices", "AmountChoices", "Versions", "Gaps"):
        lines.append("  %s = %s" % (k, tla_set(c[k])))
    for k in ("GroupChoices", "AttrChoices", "KeyChoices"):
        lines.append("  %s <- %s" % (k, c[k]))
    lines += ["  ProvRank <- ProvRankDef", "  StrRank <- StrRankDef", "  ByteRank <- ByteRankDef",
              "  InitCoins = %d" % c["InitCoins"],
              "  MaxHeight = %d" % (1000 if sim else c.get("MaxHeight", 1000)),
              "  MaxSteps = %d" % (sim_depth if sim else 60),
              "  OnlyOK = TRUE", '  Impl = "%s"' % impl, "  DefaultLimit = 100", '  AskMode = "%s"' % mode, "  MaxPages = 40",
              "  MaxWrites = %d" % max_writes]
    if mode == "gen":
        lines.append("INVARIANTS QShape")
    elif mode == "wwalk":
        lines.append("INVARIANTS QWWalkOK QWExport")
    else:
        lines.append("INVARIANTS QListOK QGetOK QWalkOK QWalkBounded QExport")
        lines.append("PROPERTIES QReadOnly")
    lines.append("CHECK_DEADLOCK FALSE")
    return "\n".join(lines) + "\n"


def trace_cfg(fam, which, impl="asfound"):
    c = FAMILIES[fam]
    lines = ["SPECIFICATION Spec", "CONSTANTS"] + consts(fam)
    # the request universe names values one beyond the model's sequence numbers; the trace universe is the model's
    lines += ["  ProvRank <- StrRankT", "  StrRank <- StrRankT", "  ByteRank <- ByteRankT", '  Impl = "%s"' % impl, "  DefaultLimit = 100",
              "  Which = %s" % tla_set(which), "INVARIANTS Judge", "POSTCONDITION Accepted", "CHECK_DEADLOCK FALSE"]
    return "\n".join(lines) + "\n"


def world_cfg(fam):
    c = FAMILIES[fam]
    return dict(tenants=c["Tenants"], providers=c["Providers"], auditors=c["Auditors"], initCoins=c["InitCoins"],
                minDeposit=c["MinDeposit"], bidMinDeposit=c["BidMinDeposit"], orderMaxBids=c.get("OrderMaxBids", 20))


def _unq(t):
    return t.replace('\\"', '"').replace("\\\\", "\\")


_SHAPE = re.compile(r'^<<"QSHAPE", "(.*?)", "(.*)">>$')
_QNODE = re.compile(r'^<<"QNODE", (\d+), "(.*?)", "(.*)">>$')


def _workers():
    return WORKERS_QUICK if _TIER["quick"] else WORKERS


_TIER = {"quick": False}


def gen(fam, seed, num, depth, timeout):
    """TLC explores the chain model; returns {shape json: [path json, ...]} and the TLC result."""
    c = FAMILIES[fam]
    cfg = mc_cfg(fam, "gen", depth)
    if num > 0:
        r = vlib.tlc(SPEC, "MC_ChainQuery", "MC.cfg", workers=1, timeout=timeout, extra_files={"MC.cfg": cfg}, copy_files=CHAIN_FILES,
                     simulate=dict(num=num, depth=depth + 2, seed=seed), heap="3g")
    else:
        r = vlib.tlc(SPEC, "MC_ChainQuery", "MC.cfg", workers=_workers(), timeout=timeout, extra_files={"MC.cfg": cfg}, copy_files=CHAIN_FILES,
                     heap="4g")
    vlib.tlc_require_ok(r, "gen MC_ChainQuery family %s" % fam)
    shapes = {}
    for line in r.out.splitlines():
        m = _SHAPE.match(line)
        if m:
            shapes.setdefault(_unq(m.group(2)), set()).add(_unq(m.group(1)))
    if not shapes:
        raise vlib.Inconclusive("gen exported no states for family %s" % fam)
    return r, shapes


def features(shape_json):
    """What a shape offers the read side: lifecycle states per store, record counts, coordinates in use."""
    sh = json.loads(shape_json)
    fs = set()
    for store in ("dep", "grp", "ord", "bid", "lease", "eacct", "epay"):
        recs = sh.get(store) or {}
        if isinstance(recs, list):       # TLC prints the empty function as []
            recs = {}
        fs.add((store, "n", min(len(recs), 8)))
        states = sorted(set(recs.values()))
        fs.add((store, "states", tuple(states)))
        for rid, stt in recs.items():
            parts = rid.split("/")
            fs.add((store, stt))
            fs.add((store, "owner", parts[1] if store == "eacct" else parts[0], stt))
            if store in ("ord", "bid", "lease", "epay") and len(parts) >= 4:
                fs.add((store, "g%s" % parts[2], "o%s" % parts[3], stt))
            if store in ("bid", "lease", "epay") and len(parts) >= 5:
                fs.add((store, "p", parts[4], stt))
    att = sh.get("attest") or []
    fs.add(("attest", "n", len(att)))
    fs.add(("attest", "owners", len(set(a.split("/")[1] for a in att))))
    fs.add(("attest", "auditors", len(set(a.split("/")[0] for a in att))))
    fs.add(("prov", "n", len(sh.get("prov") or [])))
    return fs


def choose_roots(shapes, n, seed):
    """One path per shape. Half of the roots are picked greedily for feature coverage (lifecycle states, record counts,
    coordinates: so that every run sees, e.g., leases of the second order generation and attestations of several
    owners), the other half is a seeded sample of the remaining shapes."""
    rnd = random.Random(seed)
    keys = sorted(shapes)
    if n >= len(keys):
        picked = keys
    else:
        feats = {k: features(k) for k in keys}
        order = keys[:]
        rnd.shuffle(order)
        picked, covered = [], set()
        while len(picked) < (n + 1) // 2:
            best = max(order, key=lambda k: (len(feats[k] - covered), len(k)))
            if not feats[best] - covered:
                break
            picked.append(best)
            covered |= feats[best]
            order.remove(best)
        picked += rnd.sample(order, n - len(picked))
    roots = []
    for k in sorted(picked):
        paths = sorted(shapes[k], key=lambda p: (len(p), p))
        roots.append(paths[rnd.randrange(len(paths))])
    return roots


def j1(fam, roots, timeout, impl="intended"):
    """Exhaustive J1 over (root, request); returns the TLC result and the harness node lines."""
    rtxt = "".join('{"p":%s}\n' % p for p in roots)
    r = vlib.tlc(SPEC, "MC_ChainQuery", "MC.cfg", workers=_workers(), timeout=timeout, copy_files=CHAIN_FILES, heap="4g",
                 extra_files={"MC.cfg": mc_cfg(fam, "full", impl=impl), "roots.ndjson": rtxt})
    if impl != "intended":
        return r, []
    vlib.tlc_require_ok(r, "J1 MC_ChainQuery family %s (%d roots)" % (fam, len(roots)))
    nodes = {}
    for line in r.out.splitlines():
        m = _QNODE.match(line)
        if m:
            i = int(m.group(1))
            nodes[i] = '{"p":%s,"plans":%s,"gets":%s}' % (roots[i - 1], _unq(m.group(2)), _unq(m.group(3)))
    if len(nodes) != len(roots):
        raise vlib.Inconclusive("J1 exported %d plans for %d roots (family %s)" % (len(nodes), len(roots), fam))
    return r, [nodes[i] for i in sorted(nodes)]


_QWALK = re.compile(r'^<<"QWALK", (\d+), "(.*?)", "(.*)", (\d+)>>$')


def j1w(fam, roots, max_writes, timeout):
    """J1 for walks while the chain moves (AskMode = "wwalk"): every interleaving of <= max_writes successful transactions
    with the pages of every walk of WWalks; returns the TLC result and, per root index, the exported schedules."""
    rtxt = "".join('{"p":%s}\n' % p for p in roots)
    r = vlib.tlc(SPEC, "MC_ChainQuery", "MC.cfg", workers=_workers(), timeout=timeout, copy_files=CHAIN_FILES, heap="4g",
                 extra_files={"MC.cfg": mc_cfg(fam, "wwalk", max_writes=max_writes), "roots.ndjson": rtxt})
    vlib.tlc_require_ok(r, "J1 MC_ChainQuery wwalk family %s (%d roots)" % (fam, len(roots)))
    sched = {}
    for line in r.out.splitlines():
        m = _QWALK.match(line)
        if m:
            sched.setdefault(int(m.group(1)), []).append('{"q":%s,"acts":%s}' % (_unq(m.group(2)), _unq(m.group(3))))
    return r, sched


def run_harness(vh, fam, work, nodes, seed, shards, max_per_kind, dedup=True, conc=150):
    json.dump(world_cfg(fam), open(os.path.join(work, "world.json"), "w"))

    def one(i):
        npath = os.path.join(work, "nodes.%d.ndjson" % i)
        with open(npath, "w") as fh:
            for n in nodes[i::shards]:
                fh.write(n + "\n")
        out = os.path.join(work, "trace.%d.ndjson" % i)
        cmd = [vh, "chainq", "run", "--config", os.path.join(work, "world.json"), "--nodes", npath, "--out", out, "--seed", str(seed + i),
               "--max-per-kind", str(max_per_kind), "--concurrent", "4", "--concurrent-sample", str(conc)] + ([] if dedup else ["--no-dedup"])
        rc, txt = vlib.run(cmd, timeout=3000, env=dict(os.environ, GOGC="50", GOMAXPROCS="4"))
        if rc != 0:
            raise vlib.Inconclusive("harness failed (family %s shard %d): %s" % (fam, i, txt[-3000:]))
        return out, json.loads(txt.strip().splitlines()[-1])

    with cf.ThreadPoolExecutor(max_workers=min(JOBS, shards)) as ex:
        return list(ex.map(one, range(shards)))


_FAIL = re.compile(r'^<<"FAIL", "(\w+)", (\d+), (\d+), "([\w-]+)">>$')
_DRIFT = re.compile(r'^<<"DRIFT", (\d+), (\d+), "(\w+)">>$')


def j3(fam, trace, which, timeout=1800):
    r = vlib.tlc(SPEC, "ChainQueryTrace", "T.cfg", workers=1, timeout=timeout, extra_files={"T.cfg": trace_cfg(fam, which)},
                 copy_files=dict(CHAIN_FILES, **{"trace.ndjson": trace}), heap="3g")
    fails, drift = [], []
    for line in r.out.splitlines():
        m = _FAIL.match(line)
        if m:
            fails.append((m.group(1), int(m.group(2)), int(m.group(3)), m.group(4)))
            continue
        m = _DRIFT.match(line)
        if m:
            drift.append((int(m.group(1)), int(m.group(2)), m.group(3)))
    if not r.ok:
        raise vlib.Inconclusive("J3 ChainQueryTrace did not complete on %s: %s" % (trace, r.error or r.out[-2000:]))
    return r, fails, drift


KNOWN_CLASSES = {"count_total-next_key-overwritten": "count_total:next_key-overwritten-by-nonmatching-key",
                 "auditor-filter-ignored": "AuditorAttributes:auditor-filter-ignored"}


def _qr(ln, i):
    """The (request, response) a judgement refers to: request i of a state line, or the whole walk of a walk-under-writes line."""
    if ln.get("ww"):
        return {"q": ln["q"], "r": {"segs": ln["segs"], "acts": ln["acts"], "truncated": ln["truncated"]}}
    return ln["qs"][i - 1]


def signature(name, q, cls):
    if cls in KNOWN_CLASSES:
        return KNOWN_CLASSES[cls]
    mode = q["pg"]["mode"] if q["op"] == "list" else q["op"]
    return "%s:%s:%s" % (name, q["kind"], mode)


def selftest(fam, trace, dirty=()):
    """Binding self-test: one returned record altered, one returned record dropped, one next_key cleared, one digest altered;
    TLC must reject each. Only requests whose recorded judgement was clean are used (dirty: (line, request) pairs to avoid)."""
    lines = [json.loads(x) for x in open(trace)]
    res = {}
    d = vlib.scratch("chainq-self-")
    dirty = set(dirty)

    def find(pred):
        for li, ln in enumerate(lines[1:], start=2):
            for qi, qr in enumerate(ln.get("qs", []), start=1):
                if (li, qi) not in dirty and pred(qr):
                    return li, qi
        return None

    def judge(name, li, mutate):
        ln = json.loads(json.dumps(lines[li - 1]))
        mutate(ln)
        p = os.path.join(d, name + ".ndjson")
        open(p, "w").write(json.dumps(lines[0]) + "\n" + json.dumps(ln) + "\n")
        _, fails, drift = j3(fam, p, ["X01", "CONF"], timeout=600)
        return fails, drift

    # (a) a returned record altered (state of the first item of a non-empty listing)
    a = find(lambda qr: qr["q"]["op"] == "list" and qr["q"]["kind"] in ("orders", "bids", "leases", "deployments") and not qr["r"]["err"]
             and qr["r"]["items"] and qr["q"]["pg"]["mode"] == "none")
    if a:
        li, qi = a

        def m1(ln):
            ln["qs"][qi - 1]["r"]["items"][0]["rec"]["state"] = "tampered"
        fails, drift = judge("a", li, m1)
        res["altered_record_rejected"] = any(f[0] == "PageSound" and f[2] == qi for f in fails)
    # (b) a returned record dropped
    b = find(lambda qr: qr["q"]["op"] == "list" and not qr["r"]["err"] and len(qr["r"]["items"]) >= 1 and qr["q"]["pg"]["mode"] == "none"
             and qr["q"]["kind"] not in ("eaccts", "epays"))
    if b:
        li, qi = b

        def m2(ln):
            ln["qs"][qi - 1]["r"]["items"].pop()
        fails, drift = judge("b", li, m2)
        res["dropped_record_rejected"] = any(f[0] == "PageExact" and f[2] == qi for f in fails) and any(x[1] == qi for x in drift)
    # (c) next_key of a first page cleared although records remain
    c = find(lambda qr: qr["q"]["op"] == "list" and not qr["r"]["err"] and qr["r"]["next"][0] != "" and qr["q"]["pg"]["mode"] == "offset")
    if c:
        li, qi = c

        def m3(ln):
            ln["qs"][qi - 1]["r"]["next"] = ["", 0, 0, 0, ""]
        fails, drift = judge("c", li, m3)
        res["cleared_next_key_rejected"] = any(f[0] == "NextSafe" and f[2] == qi for f in fails)
    # (d) a digest of a joined escrow record altered
    e = find(lambda qr: qr["q"]["op"] == "get" and qr["q"]["kind"] in ("bid", "deployment") and not qr["r"]["err"])
    if e:
        li, qi = e

        def m4(ln):
            ln["qs"][qi - 1]["r"]["items"][0]["acct"]["dg"] = "0000000000000000"
        fails, drift = judge("d", li, m4)
        res["altered_join_digest_rejected"] = any(f[0] == "GetFound" and f[2] == qi for f in fails)
    return res


def selftest_ww(fam, trace):
    """Binding self-test for walks while the chain moves: the records of a later page are dropped; TLC must report WalkStable."""
    lines = [json.loads(x) for x in open(trace)]
    for ln in lines[1:]:
        if ln.get("ww") and len(ln["segs"]) >= 3 and len(ln["states"]) >= 2 and ln["segs"][1]["r"]["items"] and not ln["truncated"]:
            bad = json.loads(json.dumps(ln))
            bad["segs"][1]["r"]["items"] = []
            d = vlib.scratch("chainq-selfw-")
            p = os.path.join(d, "w.ndjson")
            open(p, "w").write(json.dumps(lines[0]) + "\n" + json.dumps(ln) + "\n" + json.dumps(bad) + "\n")
            _, fails, drift = j3(fam, p, ["X01", "CONF"], timeout=600)
            return (not any(f[1] == 2 and f[0] == "WalkStable" for f in fails)) and any(f[1] == 3 and f[0] == "WalkStable" for f in fails)
    return None


def run(pid, tier, seed, replay):
    t0 = time.time()
    vh = vlib.build_harness()
    if replay:
        return do_replay(pid, vh, replay, t0, seed)
    thorough = tier == "thorough"
    _TIER["quick"] = not thorough
    plans = THOROUGH if thorough else QUICK
    cov = dict(states=0, transitions=0, traces_validated_against_impl=0, evaluations=0, drift_steps=0, configs=[], samples=[],
               exhaustive=True, chain_states_explored=0, shapes_seen=0, roots=0)
    violations, drifts = [], []
    selft = None
    selfw = None
    distinct = set()

    def family(plan):
        fam, nroots, num, depth, nw, mw, nsched = plan
        rg, shapes = gen(fam, seed, num, depth, timeout=2400)
        roots = choose_roots(shapes, nroots, seed)
        widx = sorted(range(len(roots)), key=lambda i: (-len(roots[i]), i))[:nw]
        with cf.ThreadPoolExecutor(max_workers=2) as ex2:
            f1 = ex2.submit(j1, fam, roots, 3000)
            fw = ex2.submit(j1w, fam, [roots[i] for i in widx], mw, 3000)
            r1, nodes = f1.result()
            rw, sched = fw.result()
        # walks while the chain moves: on the roots with the longest histories (most records), every interleaving of <= mw
        # successful transactions with the pages of every walk (J1), a seeded sample of the schedules replayed (J2/J3)
        rnd = random.Random(seed * 31 + 7)
        nww = 0
        for j, i in enumerate(widx, start=1):
            ws = sorted(set(sched.get(j, [])))
            nww += len(ws)
            if len(ws) > nsched:
                ws = sorted(rnd.sample(ws, nsched))
            nodes[i] = nodes[i][:-1] + ',"wwalks":[%s]}' % ",".join(ws)
        work = vlib.scratch("chainq-%s-" % fam)
        shards = max(1, min(JOBS, len(nodes) // 3))
        outs = run_harness(vh, fam, work, nodes, seed, shards, 0 if thorough else MAX_PER_KIND_QUICK, conc=400 if thorough else 150)
        with cf.ThreadPoolExecutor(max_workers=JOBS) as ex:
            res = list(ex.map(lambda o: j3(fam, o[0], ["X01", "CONF"]), outs))
        return fam, rg, shapes, roots, r1, outs, res, rw, nww

    with cf.ThreadPoolExecutor(max_workers=2 if thorough else 4) as ex:
        results = list(ex.map(family, plans))

    asfound_seen = {}
    for fam, rg, shapes, roots, r1, outs, res, rw, nww in results:
        nreq = sum(o[1]["requests"] for o in outs)
        nrej = sum(o[1].get("scheduled_writes_rejected", 0) for o in outs)
        if nrej:
            drifts.append("family %s: %d transactions scheduled between pages by the model were rejected by the implementation (write side)" % (fam, nrej))
        for (tr, summ), (r3, fails, drift) in zip(outs, res):
            nlines = sum(1 for _ in open(tr))
            if r3.distinct != nlines:
                raise vlib.Inconclusive("J3 consumed %d of the %d lines of %s" % (r3.distinct, nlines, tr))
            cov["traces_validated_against_impl"] += 1
            lines = None
            if fails or drift or len(cov["samples"]) < 4 or selft is None:
                lines = [json.loads(x) for x in open(tr)]
            for (name, l, i, cls) in fails:
                ln = lines[l - 1]
                qr = _qr(ln, i)
                sig = signature(name, qr["q"], cls)
                if cls in KNOWN_CLASSES:
                    asfound_seen.setdefault(cls, (fam, roots))
                violations.append(vlib.Violation(pid, sig, "family %s: property %s fails\npath: %s\nrequest: %s\nresponse: %s" % (
                    fam, name, json.dumps(ln["path"]), json.dumps(qr["q"]), json.dumps(qr["r"])[:3000]),
                    {"script.json": json.dumps({"family": fam, "path": ln["path"], "q": qr["q"]}), "step.json": json.dumps(qr, indent=1)}))
            for (l, i, what) in drift:
                qr = _qr(lines[l - 1], i)
                drifts.append("family %s line %d request %d (%s): q=%s r=%s" % (fam, l, i, what, json.dumps(qr["q"]), json.dumps(qr["r"])[:600]))
            if lines and len(cov["samples"]) < 4 and len(lines) > 1:
                ln = next(x for x in lines[len(lines) // 2:] + lines[1:] if x.get("qs"))
                qr = ln["qs"][len(ln["qs"]) // 2]
                cov["samples"].append({"family": fam, "path": ln["path"][-6:], "q": qr["q"], "r_err": qr["r"].get("err", ""),
                                       "r_items": len(qr["r"].get("items", qr["r"].get("pages", [])))})
            if selfw is None:
                selfw = selftest_ww(fam, tr)
            if selft is None and lines and len(lines) > 1:
                selft = selftest(fam, tr, [(f[1], f[2]) for f in fails] + [(x[0], x[1]) for x in drift])
            for ln in open(tr):
                o = json.loads(ln)
                if o.get("ww"):
                    distinct.add(hash((fam, json.dumps(o["path"]), json.dumps(o["q"], sort_keys=True), json.dumps(o["acts"], sort_keys=True))))
                elif "qs" in o:
                    sk = json.dumps(o["S"], sort_keys=True)
                    for qr in o["qs"]:
                        distinct.add(hash((fam, sk, json.dumps(qr["q"], sort_keys=True))))
        cov["states"] += r1.distinct + rw.distinct
        cov["transitions"] += r1.generated + rw.generated
        cov["chain_states_explored"] += rg.distinct or sum(len(v) for v in shapes.values())
        cov["shapes_seen"] += len(shapes)
        cov["roots"] += len(roots)
        cov["evaluations"] += nreq
        cov["configs"].append({"family": fam, "chain_exploration": "exhaustive" if rg.distinct else "simulate", "chain_states": rg.distinct, "shapes": len(shapes), "roots": len(roots),
                               "j1_states": r1.distinct, "j1_transitions": r1.generated, "j1_wall_s": round(r1.wall_s, 1),
                               "gen_wall_s": round(rg.wall_s, 1), "impl_requests": nreq,
                               "wwalk_j1_states": rw.distinct, "wwalk_j1_wall_s": round(rw.wall_s, 1), "wwalk_schedules_model": nww,
                               "wwalk_schedules_replayed": sum(o[1].get("walks_under_writes", 0) for o in outs),
                               "impl_requests_concurrent_pass": sum(o[1].get("concurrent_requests", 0) for o in outs),
                               "kinds_skipped_unchanged": sum(o[1]["kinds_skipped_unchanged"] for o in outs),
                               "per_kind": _merge([o[1]["per_kind"] for o in outs]), "errors": _merge([o[1]["errors"] for o in outs])})
    # the as-found model must reproduce, at design level, every as-found behaviour the implementation showed: J1 with
    # Impl = "asfound" on the same roots has to violate the property invariants (otherwise model and classification disagree)
    cov["asfound_model_reproduces"] = {}
    for cls, (fam, roots) in sorted(asfound_seen.items()):
        ra, _ = j1(fam, roots, timeout=1800, impl="asfound")
        cov["asfound_model_reproduces"][cls] = {"family": fam, "violated": ra.violated}
        if ra.violated not in ("QListOK", "QWalkOK"):
            raise vlib.Inconclusive("J1 with Impl=asfound does not reproduce %s on family %s: %r" % (cls, fam, ra))
    # one violation per signature (the first instance; the number of instances is kept in the evidence)
    by_sig, uniq = {}, []
    for v in violations:
        by_sig[v.signature] = by_sig.get(v.signature, 0) + 1
        if by_sig[v.signature] == 1:
            uniq.append(v)
    for v in uniq:
        v.detail = "%d instances in this run; first:\n%s" % (by_sig[v.signature], v.detail)
    violations = uniq
    cov["failed_judgements_by_signature"] = by_sig
    cov["drift_steps"] = len(drifts)
    for dmsg in drifts[:20]:
        vlib.log("DRIFT " + dmsg)
    cov["distinct_nontrivial"] = len(distinct)
    cov["rule"] = ("requests answered by the real query servers; distinct = distinct (projected chain state, request) pairs; a walk "
                   "(all its pages) counts as one request")
    if selft is not None:
        selft["dropped_page_of_walk_under_writes_rejected"] = "skipped: no recorded walk under writes with >= 3 pages" if selfw is None else selfw
    cov["binding_selftest"] = selft
    if not selft or not all(selft.values()) or len(selft) < 4:
        raise vlib.Inconclusive("binding self-test failed: %s" % selft)
    if drifts:
        # conformance is not an alarm, but the shipped spec must say what the code does
        vlib.log("[X01] %d drift steps" % len(drifts))
    return vlib.finish(pid, tier, seed, "model_checking", cov, t0, violations,
                       ["TLC, Go toolchain, Cosmos-SDK store / baseapp gRPC router", "projection functions of harness/chainh and harness/chainqh (field copies, id tables)",
                        "chain states are those the bounded marketplace model of spec/chain reaches (write side: C01-C08)",
                        "requests go through the application's GRPCQueryRouter (proto-encoded), not through a network socket"])


def _merge(ds):
    out = {}
    for d in ds:
        for k, v in d.items():
            out[k] = out.get(k, 0) + v
    return out


def do_replay(pid, vh, path, t0, seed):
    sp = os.path.join(path, "script.json") if os.path.isdir(path) else path
    spec = json.load(open(sp))
    fam = spec["family"]
    r1, nodes = j1(fam, [json.dumps(spec["path"])], timeout=1200)
    work = vlib.scratch("chainq-replay-")
    outs = run_harness(vh, fam, work, nodes, seed, 1, 0, dedup=False)
    r3, fails, drift = j3(fam, outs[0][0], ["X01", "CONF"])
    lines = [json.loads(x) for x in open(outs[0][0])]
    bad = 0
    for (name, l, i, cls) in fails:
        q = lines[l - 1]["qs"][i - 1]["q"]
        sig = signature(name, q, cls)
        known = vlib.known_finding(pid, sig)
        print("replay: FAIL %s request %s (%s)%s" % (name, json.dumps(q), sig, " [known finding]" if known else ""))
        bad += 0 if known else 1
    for dd in drift:
        print("replay: DRIFT line %d request %d (%s)" % dd)
    if bad:
        print("VIOLATION property=%s replay=%s" % (pid, path))
        return 1
    if fails:
        print("replay: property %s: only known findings on the script (%d failed judgements)" % (pid, len(fails)))
    else:
        print("replay: property %s holds on the script" % pid)
    return 0
