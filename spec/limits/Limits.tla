------------------------------- MODULE Limits -------------------------------
(***************************************************************************)
(* C19 -- only deployments within the network's resource and price limits  *)
(* are admitted.                                                           *)
(*                                                                         *)
(* The limits table is a set of CONSTANTS (filled from the running code's  *)
(* types.GetValidationConfig() and chain parameters by the check).  A      *)
(* create-deployment message is an abstract record.  Two definitions of    *)
(* "this message is fine" stand next to each other:                        *)
(*                                                                         *)
(*   WithinLimits(m)  the conjunction in the property statement, written   *)
(*                    declaratively (the oracle);                          *)
(*   Verdict(m)       a transcription of what MsgCreateDeployment.         *)
(*                    ValidateBasic and the CreateDeployment handler check,*)
(*                    in their order, returning the first failing reason   *)
(*                    ("ok" = admitted).                                   *)
(*                                                                         *)
(* The state machine has one action, Submit: the chain state `st` gains    *)
(* the deployment iff Verdict = "ok" (an update-deployment message, the    *)
(* other writer of a field C19 talks about, replaces the version of the    *)
(* base deployment iff UVerdict = "ok").  The properties (C19):            *)
(*   AcceptedOnlyWithin   result = "ok" => WithinLimits(message)           *)
(*   StoredWithinLimits   every stored deployment is WithinLimits          *)
(*   RejectedNoEffect     [][result' # "ok" => st' = st]_vars              *)
(* They are stated through operators over explicit arguments, P_..., so that *)
(* LimitsTrace.tla evaluates the very same definitions on what the real    *)
(* code was observed to do.                                                *)
(*                                                                         *)
(* Amounts.  TLC integers are 32 bit, memory limits are not.  An amount is *)
(* [k |-> "lin", a, b] = a*Unit + b with Unit a per-resource constant      *)
(* (1, or 2^20 when the resource's totals do not fit 32 bits; a limit is   *)
(* such a pair too, b = 0 for the shipped table), -Unit/2 <= b < Unit/2;   *)
(* or one of the named values                                              *)
(* "neg" (-1), "p63" (2^63), "wrap" (2^63 + MinUnit: doubles to an         *)
(* in-range amount modulo 2^64), "u64max" (2^64-1), "over64" (2^64),       *)
(* "ovp" (2^64 + 2*MinUnit) and "ovn" (-(2^64 + MinUnit)): beyond 64 bits, *)
(* opposite signs, low 64 bits of the magnitude in range, sum = MinUnit,   *)
(* "nil" (field absent); and, only ever produced by projecting a concrete   *)
(* number (stored records, random concrete messages), "big" (any other     *)
(* amount above 2e9 units), "vast" (any other amount above 2^64) and       *)
(* "other" (below -1).  The harness maps both ways                         *)
(* (harness/limitsh/abs.go) and is the only place with real numbers.       *)
(***************************************************************************)
EXTENDS Integers, Sequences, FiniteSets, FiniteSetsExt, TLC, Json

CONSTANTS
    Impl,            \* "intended" | "asfound" (as found: no bound on the number of groups, DESIGN D3)
    Tier,            \* "quick" | "thorough" | "tiny": how large the families of Cover are
    Fams,            \* the families Cover contains (a TLC run may take a subset, so that runs go in parallel)
    Denom,           \* denomination prices must be in
    DepositDenom,    \* denomination of the minimum deposit parameter
    OtherDenom,      \* a well-formed denomination that is neither
    UnitCPU, UnitMem, UnitSto,
    MinUnitCPU, MaxUnitCPU, MaxGroupCPU,      \* resource limits, `a` part (whole units) ...
    MinUnitMem, MaxUnitMem, MaxGroupMem,
    MinUnitSto, MaxUnitSto, MaxGroupSto,
    MinUnitCPUB, MaxUnitCPUB, MaxGroupCPUB,   \* ... and `b` part + BOff (cfg files have no negative numbers); all
    MinUnitMemB, MaxUnitMemB, MaxGroupMemB,   \* BOff when the limits are multiples of the unit (the shipped table)
    MinUnitStoB, MaxUnitStoB, MaxGroupStoB,
    MinUnitCount, MaxUnitCount,
    MinUnitPrice, MaxUnitPrice,
    MaxGroupCount, MaxGroupUnits,
    VersionLen, MinDeposit, Funds,
    BaseDSeq,        \* sequence number of the deployment that exists in the base state
    MidCPU, MidMem, MidSto, MidOff, MidCount, MidPrice, MidDeposit,  \* interior points (seed-chosen)
    BuildSteps       \* simulation: number of construction steps of a random message

VARIABLES cur, phase, st, result
vars == <<cur, phase, st, result>>

Res == {"cpu", "mem", "sto"}
Unit     == [cpu |-> UnitCPU,     mem |-> UnitMem,     sto |-> UnitSto]
BOff == 524288
L(a, bo) == [a |-> a, b |-> bo - BOff]           \* a limit: a*Unit + b, |b| <= Unit/2, like any amount
MinUnit  == [cpu |-> L(MinUnitCPU, MinUnitCPUB),   mem |-> L(MinUnitMem, MinUnitMemB),   sto |-> L(MinUnitSto, MinUnitStoB)]
MaxUnit  == [cpu |-> L(MaxUnitCPU, MaxUnitCPUB),   mem |-> L(MaxUnitMem, MaxUnitMemB),   sto |-> L(MaxUnitSto, MaxUnitStoB)]
MaxGroup == [cpu |-> L(MaxGroupCPU, MaxGroupCPUB), mem |-> L(MaxGroupMem, MaxGroupMemB), sto |-> L(MaxGroupSto, MaxGroupStoB)]
Mid      == [cpu |-> MidCPU,      mem |-> MidMem,      sto |-> MidSto]
CountSat == 2147483647     \* any replica count >= 2^31-1 (the harness sends max uint32)

ASSUME /\ Impl \in {"intended", "asfound"}
       /\ \A r \in Res : /\ Unit[r] >= 1 /\ 0 <= MinUnit[r].a /\ MinUnit[r].a < Mid[r] /\ Mid[r] < MaxUnit[r].a
                         /\ MaxUnit[r].a <= MaxGroup[r].a
                         /\ \A x \in {MinUnit[r], MaxUnit[r], MaxGroup[r]} : 2 * x.b >= -Unit[r] /\ 2 * x.b < Unit[r] + 1
       /\ 0 < MinUnitCount /\ MinUnitCount <= MaxUnitCount /\ MaxUnitCount < CountSat
       /\ 0 < MinUnitPrice /\ MinUnitPrice <= MaxUnitPrice
       /\ MaxGroupCount >= 1 /\ MaxGroupUnits >= 1 /\ VersionLen >= 2
       /\ 0 < MinDeposit /\ MinDeposit < MidDeposit /\ MidDeposit < Funds
       /\ Denom # "" /\ DepositDenom # "" /\ OtherDenom \notin {Denom, DepositDenom, ""}

-----------------------------------------------------------------------------
(* Amounts *)

Lin(a, b) == [k |-> "lin", a |-> a, b |-> b]
Sp(k)     == [k |-> k, a |-> 0, b |-> 0]
IsLin(v)  == v.k = "lin"
Huge      == {"p63", "wrap", "u64max", "over64", "ovp", "big", "vast"}   \* values above every limit
Negative  == {"neg", "ovn", "other"}                                     \* values below zero

\* renormalise a*U + b so that b is in [-U/2, U/2)
Norm(r, a, b) == LET U == Unit[r]
                     H == U \div 2
                 IN  Lin(a + ((b + H) \div U), ((b + H) % U) - H)
\* the amount "limit x plus off" of resource r (off in -1..1)
V(r, x, off) == LET v == Norm(r, x.a, x.b + off) IN IF v.a < 0 THEN Sp("neg") ELSE v
\* plain amounts (prices, deposits: unit 1)
N(a) == IF a < 0 THEN Sp("neg") ELSE Lin(a, 0)

\* comparisons of a lin amount with a limit given in units
LEa(v, hi) == v.a < hi \/ (v.a = hi /\ v.b <= 0)
GEa(v, lo) == v.a > lo \/ (v.a = lo /\ v.b >= 0)
Within(v, lo, hi) == IsLin(v) /\ GEa(v, lo) /\ LEa(v, hi)

\* the same against a limit pair
LEl(v, x) == v.a < x.a \/ (v.a = x.a /\ v.b <= x.b)
GEl(v, x) == v.a > x.a \/ (v.a = x.a /\ v.b >= x.b)
WithinL(v, lo, hi) == IsLin(v) /\ GEl(v, lo) /\ LEl(v, hi)

-----------------------------------------------------------------------------
(* The oracle: the property statement, clause by clause *)

UnitWithin(u) ==
    /\ \A r \in Res : WithinL(u[r], MinUnit[r], MaxUnit[r])         \* per-unit CPU, memory, storage bounds
    /\ u.count >= MinUnitCount /\ u.count <= MaxUnitCount            \* replica-count bounds
    /\ Within(u.price, MinUnitPrice, MaxUnitPrice)                   \* price bounds
    /\ u.pdenom = Denom                                              \* priced in the network denomination

\* group total of resource r = sum over units of amount * replicas; positive and at most the per-group bound
TotalWithin(g, r) ==
    LET J  == DOMAIN g.units
        TA == FoldSet(LAMBDA j, acc : acc + g.units[j][r].a * g.units[j].count, 0, J)
        TB == FoldSet(LAMBDA j, acc : acc + g.units[j][r].b * g.units[j].count, 0, J)
        A  == TA + (TB \div Unit[r])
        B  == TB % Unit[r]                                   \* total = A*Unit + B, 0 <= B < Unit
        MA == MaxGroup[r].a + (MaxGroup[r].b \div Unit[r])
        MB == MaxGroup[r].b % Unit[r]                        \* bound = MA*Unit + MB, likewise
    IN  /\ (A > 0 \/ (A = 0 /\ B > 0))
        /\ (A < MA \/ (A = MA /\ B <= MB))

\* a total is only defined (and only computable in 32 bits) for a group whose units are individually fine
Summable(g) == Len(g.units) <= MaxGroupUnits /\ \A j \in DOMAIN g.units : UnitWithin(g.units[j])

AtLeast(v, lo) == v.k \in Huge \/ (IsLin(v) /\ GEa(v, lo))

Clauses == {"group-count", "names", "unit-count", "cpu", "mem", "sto", "replicas", "price", "price-denom",
            "total-cpu", "total-mem", "total-sto", "version", "deposit"}
TotalRes == [x \in {"total-cpu", "total-mem", "total-sto"} |->
                IF x = "total-cpu" THEN "cpu" ELSE IF x = "total-mem" THEN "mem" ELSE "sto"]

\* d: a create-deployment message or a stored deployment (fields groups, version, deposit, ddenom)
ClauseHolds(c, d) ==
    LET G == DOMAIN d.groups
        EachUnit(P(_)) == \A i \in G : \A j \in DOMAIN d.groups[i].units : P(d.groups[i].units[j])
    IN CASE c = "group-count" -> Len(d.groups) >= 1 /\ Len(d.groups) <= MaxGroupCount
         [] c = "names"       -> \A i, j \in G : i # j => d.groups[i].name # d.groups[j].name
         [] c = "unit-count"  -> \A i \in G : Len(d.groups[i].units) >= 1 /\ Len(d.groups[i].units) <= MaxGroupUnits
         [] c \in Res         -> EachUnit(LAMBDA u : WithinL(u[c], MinUnit[c], MaxUnit[c]))
         [] c = "replicas"    -> EachUnit(LAMBDA u : u.count >= MinUnitCount /\ u.count <= MaxUnitCount)
         [] c = "price"       -> EachUnit(LAMBDA u : Within(u.price, MinUnitPrice, MaxUnitPrice))
         [] c = "price-denom" -> EachUnit(LAMBDA u : u.pdenom = Denom)
         [] c \in DOMAIN TotalRes -> \A i \in G : Summable(d.groups[i]) => TotalWithin(d.groups[i], TotalRes[c])
         [] c = "version"     -> d.version = VersionLen
         [] c = "deposit"     -> d.ddenom = DepositDenom /\ AtLeast(d.deposit, MinDeposit)

Violated(d)     == {c \in Clauses : ~ClauseHolds(c, d)}
WithinLimits(d) == \A c \in Clauses : ClauseHolds(c, d)

-----------------------------------------------------------------------------
(* The procedure: x/deployment/types + handler/server.go, check by check, first failure wins *)

GTa(v, hi) == v.k \in Huge \/ (IsLin(v) /\ ~LEa(v, hi))
LTa(v, lo) == v.k \in Negative \/ (IsLin(v) /\ ~GEa(v, lo))
GTl(v, x)  == v.k \in Huge \/ (IsLin(v) /\ ~LEl(v, x))
LTl(v, x)  == v.k \in Negative \/ (IsLin(v) /\ ~GEl(v, x))

\* validateCPU / validateMemory / validateStorage: nil check, then ResourceValue.Value() = Int.Uint64(), which
\* panics outside 0..2^64-1 (runTx recovers: the transaction fails), then the two-sided bound
ResVerdict(r, v) ==
    IF v.k = "nil" THEN "unit-" \o r
    ELSE IF v.k \in Negative \cup {"over64", "ovp", "vast"} THEN "panic"
    ELSE IF GTl(v, MaxUnit[r]) \/ LTl(v, MinUnit[r]) THEN "unit-" \o r
    ELSE "ok"

\* validateResourceGroup: the unit's three resources, then its replica count
UnitVerdict(u) ==
    LET c == ResVerdict("cpu", u.cpu) IN IF c # "ok" THEN c ELSE
    LET m == ResVerdict("mem", u.mem) IN IF m # "ok" THEN m ELSE
    LET s == ResVerdict("sto", u.sto) IN IF s # "ok" THEN s ELSE
    IF u.count > MaxUnitCount \/ u.count < MinUnitCount THEN "unit-count" ELSE "ok"

RECURSIVE UnitsVerdict(_, _)
UnitsVerdict(us, j) == IF j > Len(us) THEN "ok"
                       ELSE LET v == UnitVerdict(us[j]) IN IF v # "ok" THEN v ELSE UnitsVerdict(us, j + 1)

\* limits.add(gLimits.mul(count)) unit after unit, in big integers
RECURSIVE Acc(_, _, _)
Acc(us, r, n) == IF n = 0 THEN Lin(0, 0)
                 ELSE LET p == Acc(us, r, n - 1)
                          s == Norm(r, us[n][r].a * us[n].count, us[n][r].b * us[n].count)
                      IN  Norm(r, p.a + s.a, p.b + s.b)

TotalBad(us, r) == LET t == Acc(us, r, Len(us))
                   IN  GTl(t, MaxGroup[r]) \/ ~(t.a > 0 \/ (t.a = 0 /\ t.b > 0))

\* validateUnitPricing + the denomination check of validateGroupPricing, unit after unit
ValidDenom(d) == d # ""
PriceVerdict(u) ==
    IF u.price.k \in Negative \/ ~ValidDenom(u.pdenom) THEN "price-invalid"      \* Coin.IsValid
    ELSE IF GTa(u.price, MaxUnitPrice) THEN "price-range"
    ELSE IF LTa(u.price, MinUnitPrice) THEN "price-range"
    ELSE IF u.pdenom # Denom THEN "price-denom"
    ELSE "ok"

RECURSIVE PricesVerdict(_, _)
PricesVerdict(us, j) == IF j > Len(us) THEN "ok"
                        ELSE LET v == PriceVerdict(us[j]) IN IF v # "ok" THEN v ELSE PricesVerdict(us, j + 1)

\* GroupSpec.ValidateBasic = ValidateResourceList, then validateGroupPricing
GroupVerdict(g) ==
    IF g.name = "" THEN "empty-name"
    ELSE IF Len(g.units) > MaxGroupUnits THEN "too-many-units"
    ELSE LET uv == UnitsVerdict(g.units, 1) IN IF uv # "ok" THEN uv
    ELSE IF TotalBad(g.units, "cpu") THEN "total-cpu"        \* also refuses a group without units (total 0)
    ELSE IF TotalBad(g.units, "mem") THEN "total-mem"
    ELSE IF TotalBad(g.units, "sto") THEN "total-sto"
    ELSE PricesVerdict(g.units, 1)

RECURSIVE GroupsVerdict(_, _)
GroupsVerdict(gs, i) == IF i > Len(gs) THEN "ok"
                        ELSE LET v == GroupVerdict(gs[i]) IN IF v # "ok" THEN v ELSE GroupsVerdict(gs, i + 1)

DupNames(gs) == \E i, j \in DOMAIN gs : i < j /\ gs[i].name = gs[j].name

Verdict(m) ==
    \* MsgCreateDeployment.ValidateBasic
    IF m.idc = "badowner" THEN "id-owner"
    ELSE IF m.idc = "zero" THEN "id-dseq"
    ELSE IF Len(m.groups) = 0 THEN "no-groups"
    ELSE IF m.version = 0 THEN "empty-version"
    ELSE IF m.version # VersionLen THEN "bad-version"
    ELSE LET gv == GroupsVerdict(m.groups, 1) IN IF gv # "ok" THEN gv
    \* msgServer.CreateDeployment
    ELSE IF m.idc = "exists" THEN "exists"
    ELSE IF m.ddenom # DepositDenom THEN "deposit"
    ELSE IF LTa(m.deposit, MinDeposit) THEN "deposit"
    \* ValidateDeploymentGroups (each group is valid already)
    ELSE IF Impl = "intended" /\ Len(m.groups) > MaxGroupCount THEN "too-many-groups"
    ELSE IF DupNames(m.groups) THEN "dup-name"
    \* escrow AccountCreate: the bank moves the deposit
    ELSE IF GTa(m.deposit, Funds) THEN "funds"
    ELSE "ok"

Admit(m) == Verdict(m) = "ok"

-----------------------------------------------------------------------------
(* State, the Submit relation, the properties *)

\* the deployment as stored: record + groups (gseq 1..n, open) + escrow account holding the deposit
NewDep(m, dseq) ==
    [owner |-> "signer", dseq |-> dseq, state |-> "active",
     gstates |-> [i \in DOMAIN m.groups |-> "open"], gseqs |-> [i \in DOMAIN m.groups |-> i],
     groups |-> m.groups, version |-> m.version, deposit |-> m.deposit, ddenom |-> m.ddenom]

\* s, t: [deps, orders, accounts, bal]; res: the outcome ("ok" or a reason)
SubmitRel(m, dseq, s, res, t) ==
    /\ res = Verdict(m)
    /\ t = IF res = "ok"
           THEN [deps |-> Append(s.deps, NewDep(m, dseq)), orders |-> s.orders + Len(m.groups),
                 accounts |-> s.accounts + 1, bal |-> s.bal - m.deposit.a]
           ELSE s

\* MsgUpdateDeployment: ValidateBasic (id, version) then the handler (exists, active); only the version is kept,
\* the groups the message carries are ignored.  idc = "exists" addresses the base deployment, s.deps[1].
UVerdict(m, s) ==
    IF m.idc = "badowner" THEN "id-owner"
    ELSE IF m.idc = "zero" THEN "id-dseq"
    ELSE IF m.version = 0 THEN "empty-version"
    ELSE IF m.version # VersionLen THEN "bad-version"
    ELSE IF m.idc # "exists" THEN "not-found"
    ELSE IF s.deps[1].state # "active" THEN "closed"
    ELSE "ok"

UpdateRel(m, s, res, t) ==
    /\ res = UVerdict(m, s)
    /\ t = IF res = "ok" THEN [s EXCEPT !.deps[1].version = m.version] ELSE s

StepRel(m, dseq, s, res, t) == IF m.kind = "create" THEN SubmitRel(m, dseq, s, res, t) ELSE UpdateRel(m, s, res, t)

P_AcceptedOnlyWithin(res, m) == (res = "ok" /\ m.kind = "create") => WithinLimits(m)
P_StoredWithin(deps)         == \A i \in DOMAIN deps : WithinLimits(deps[i])
P_RejectedNoEffect(res, s, t) == res # "ok" => t = s

-----------------------------------------------------------------------------
(* The message space: a covering enumeration (see docs/limits.md) *)

ResClasses(r) ==
    {Sp("nil"), Sp("neg"), Lin(0, 0), V(r, MinUnit[r], -1), V(r, MinUnit[r], 0), V(r, MinUnit[r], 1),
     Lin(Mid[r], IF Unit[r] = 1 THEN 0 ELSE MidOff - 500),
     V(r, MaxUnit[r], -1), V(r, MaxUnit[r], 0), V(r, MaxUnit[r], 1),
     V(r, MaxGroup[r], 0), V(r, MaxGroup[r], 1),
     Sp("p63"), Sp("wrap"), Sp("u64max"), Sp("over64"), Sp("ovp"), Sp("ovn")}
CountClasses == {c \in {0, MinUnitCount - 1, MinUnitCount, MinUnitCount + 1, 2, MidCount, MaxUnitCount - 1,
                        MaxUnitCount, MaxUnitCount + 1, CountSat} : c >= 0}
PriceClasses == {N(0), N(MinUnitPrice - 1), N(MinUnitPrice), N(MinUnitPrice + 1), N(MidPrice),
                 N(MaxUnitPrice - 1), N(MaxUnitPrice), N(MaxUnitPrice + 1),
                 Sp("neg"), Sp("p63"), Sp("wrap"), Sp("u64max"), Sp("over64")}
PDenoms == {Denom, OtherDenom, ""}
DepositClasses == {Sp("neg"), N(0), N(MinDeposit - 1), N(MinDeposit), N(MinDeposit + 1), N(MidDeposit),
                   N(Funds), N(Funds + 1), Sp("p63"), Sp("u64max"), Sp("over64")}
DDenoms == {DepositDenom, OtherDenom, ""}
VersionClasses == {0, 1, VersionLen - 1, VersionLen, VersionLen + 1, 2 * VersionLen}
IdClasses == {"fresh", "exists", "zero", "badowner"}

Fields == {"cpu", "mem", "sto", "count", "price", "pdenom"}
FieldClasses(f) == CASE f \in Res -> ResClasses(f)
                     [] f = "count" -> CountClasses
                     [] f = "price" -> PriceClasses
                     [] f = "pdenom" -> PDenoms

BaseUnit == [cpu |-> V("cpu", MinUnit.cpu, 0), mem |-> V("mem", MinUnit.mem, 0), sto |-> V("sto", MinUnit.sto, 0),
             count |-> MinUnitCount, price |-> N(MinUnitPrice), pdenom |-> Denom]
GName(i) == "g" \o ToString(i)
BaseGroup(i, n) == [name |-> GName(i), units |-> [j \in 1..n |-> BaseUnit]]
BaseMsg(G, U) == [kind |-> "create", idc |-> "fresh", groups |-> [i \in 1..G |-> BaseGroup(i, U)], version |-> VersionLen,
                  deposit |-> N(MinDeposit), ddenom |-> DepositDenom]

SetField(m, gi, ui, f, c) == [m EXCEPT !.groups[gi].units[ui][f] = c]

\* (every family is guarded by Fams: TLC evaluates all constant definitions eagerly, used or not)
\* F1 shapes: number of groups x number of units (in every / the first / the last group)
GroupCounts == {0, 1, 2, MaxGroupCount - 1, MaxGroupCount, MaxGroupCount + 1} \cup
               (IF Tier = "thorough" THEN {2 * MaxGroupCount + 1} ELSE {})
UnitCounts  == {0, 1, 2, MaxGroupUnits - 1, MaxGroupUnits, MaxGroupUnits + 1}
ShapeMsg(G, U, w) ==
    [BaseMsg(G, 1) EXCEPT !.groups = [i \in 1..G |->
        BaseGroup(i, IF w = "all" \/ (w = "first" /\ i = 1) \/ (w = "last" /\ i = G) THEN U ELSE 1)]]
F_shapes == IF "shapes" \notin Fams THEN {} ELSE
    {ShapeMsg(G, U, w) : G \in {g \in GroupCounts : g >= 0}, U \in {u \in UnitCounts : u >= 0},
                                 w \in {"all", "first", "last"}}

\* F2 one field of one unit off its base value, at the first/last unit of the first/last group
Shapes == IF Tier = "tiny" THEN {<<1, 1>>}
          ELSE {<<1, 1>>, <<2, 2>>, <<3, 3>>, <<1, MaxGroupUnits>>, <<MaxGroupCount, 1>>} \cup
               (IF Tier = "thorough" THEN {<<MaxGroupCount, MaxGroupUnits>>, <<MaxGroupCount + 1, 1>>,
                                           <<1, MaxGroupUnits + 1>>} ELSE {})
F_single == IF "single" \notin Fams THEN {} ELSE
    UNION {UNION {{SetField(BaseMsg(s[1], s[2]), gi, ui, f, c) : c \in FieldClasses(f)} :
                          gi \in {1, s[1]}, ui \in {1, s[2]}, f \in Fields} : s \in Shapes}

\* F3 deployment-level fields: the full product of id x version x deposit x deposit denomination
F_dep == IF "dep" \notin Fams THEN {} ELSE
    UNION {{[BaseMsg(s[1], s[2]) EXCEPT !.idc = i, !.version = v, !.deposit = d, !.ddenom = dd] :
                    i \in IdClasses, v \in VersionClasses, d \in DepositClasses, dd \in DDenoms} :
                s \in (IF Tier = "thorough" THEN {<<1, 1>>, <<2, 2>>} ELSE {<<1, 1>>})}

\* F4 names: duplicate / empty, at the ends of the list
NameShapes == {2, 3, MaxGroupCount}
F_names == IF "names" \notin Fams THEN {} ELSE
    UNION {
      {[BaseMsg(G, 1) EXCEPT !.groups[p[2]].name = GName(p[1])] :
           p \in {q \in {1, 2, G - 1, G} \X {1, 2, G - 1, G} : q[1] < q[2] /\ q[1] >= 1}}
      \cup {[BaseMsg(G, 1) EXCEPT !.groups[i].name = ""] : i \in {1, G}}
      \cup {[BaseMsg(G, 1) EXCEPT !.groups[1].name = "", !.groups[G].name = ""]}
    : G \in NameShapes}

\* F5 aggregated limits: n units whose amounts of one resource and replica counts range over the values that
\* put the group total below, at and above the per-group bound (all pairs; all triples when thorough)
K(r) == IF MaxUnit[r].a = 0 THEN 2 ELSE MaxGroup[r].a \div MaxUnit[r].a
TotVals(r)   == {V(r, MinUnit[r], 0), Lin(Mid[r], IF Unit[r] = 1 THEN 0 ELSE MidOff - 500), V(r, MaxUnit[r], -1),
                 V(r, MaxUnit[r], 0)}
TotCounts(r) == {c \in {1, 2, K(r), K(r) + 1, MaxUnitCount} : c >= MinUnitCount /\ c <= MaxUnitCount}
TotUnits(r)  == {[[BaseUnit EXCEPT ![r] = v] EXCEPT !.count = c] : v \in TotVals(r), c \in TotCounts(r)}
TotSizes == IF Tier = "thorough" THEN {1, 2, 3} ELSE IF Tier = "tiny" THEN {1} ELSE {1, 2}
F_totals == IF "totals" \notin Fams THEN {} ELSE
    UNION {UNION {{[BaseMsg(1, 1) EXCEPT !.groups[1].units = us] : us \in [1..n -> TotUnits(r)]} :
                          n \in TotSizes} : r \in Res}
            \cup (IF Tier = "thorough"
                  THEN UNION {{[BaseMsg(2, 1) EXCEPT !.groups[2].units = us] : us \in [1..2 -> TotUnits(r)]} : r \in Res}
                  ELSE {})

\* F6 two fields of the same unit (all class pairs; contains amount x replica-count overflow combinations)
FieldPairs == {<<"cpu", "mem">>, <<"cpu", "sto">>, <<"mem", "sto">>,
               <<"cpu", "count">>, <<"mem", "count">>, <<"sto", "count">>, <<"cpu", "price">>, <<"mem", "price">>,
               <<"sto", "price">>, <<"cpu", "pdenom">>, <<"mem", "pdenom">>, <<"sto", "pdenom">>,
               <<"count", "price">>, <<"count", "pdenom">>, <<"price", "pdenom">>}
PairPos == IF Tier = "thorough" THEN {<<1, 1, 1, 1>>, <<2, 2, 1, 1>>, <<2, 2, 2, 2>>, <<2, 2, 1, 2>>}
           ELSE IF Tier = "tiny" THEN {} ELSE {<<1, 1, 1, 1>>}
F_pairs == IF "pairs" \notin Fams THEN {} ELSE
    UNION {UNION {{SetField(SetField(BaseMsg(q[1], q[2]), q[3], q[4], p[1], c1), q[3], q[4], p[2], c2) :
                            c1 \in FieldClasses(p[1]), c2 \in FieldClasses(p[2])} : p \in FieldPairs} : q \in PairPos}

\* F7 (thorough) two fields of two different units (same group / different groups)
CrossPos == {<<1, 1, 1, 2>>, <<1, 1, 2, 1>>, <<1, 2, 2, 2>>}
F_cross == IF "cross" \notin Fams THEN {} ELSE
    IF Tier # "thorough" THEN {} ELSE
    UNION {UNION {{SetField(SetField(BaseMsg(2, 2), q[1], q[2], f1, c1), q[3], q[4], f2, c2) :
                       c1 \in FieldClasses(f1), c2 \in FieldClasses(f2)} : f1 \in Fields, f2 \in Fields} : q \in CrossPos}

\* F8 (thorough) a unit-level or shape violation together with each deployment-level class
F_mix == IF "mix" \notin Fams THEN {} ELSE
    IF Tier # "thorough" THEN {} ELSE
    UNION {{[b EXCEPT !.version = v] : v \in VersionClasses} \cup {[b EXCEPT !.deposit = d] : d \in DepositClasses}
           \cup {[b EXCEPT !.ddenom = dd] : dd \in DDenoms} \cup {[b EXCEPT !.idc = i] : i \in IdClasses} :
           b \in {ShapeMsg(MaxGroupCount + 1, 1, "all"), ShapeMsg(MaxGroupCount, 1, "all"),
                  ShapeMsg(1, MaxGroupUnits + 1, "all"),
                  SetField(BaseMsg(1, 1), 1, 1, "cpu", V("cpu", MaxUnit.cpu, 1)),
                  SetField(BaseMsg(1, 1), 1, 1, "price", N(MaxUnitPrice + 1))}}

\* F9 update-deployment: id x version length x the groups the message carries (ignored by the handler: whatever
\* they are, the stored deployment must stay within limits and keep a version of the right length)
F_update == IF "update" \notin Fams THEN {} ELSE
    {[kind |-> "update", idc |-> i, groups |-> g, version |-> v, deposit |-> Lin(0, 0), ddenom |-> ""] :
        i \in IdClasses, v \in VersionClasses,
        g \in {<<>>, BaseMsg(1, 1).groups, BaseMsg(MaxGroupCount + 1, 1).groups,
               SetField(BaseMsg(1, 1), 1, 1, "cpu", V("cpu", MaxUnit.cpu, 1)).groups,
               [BaseMsg(2, 1) EXCEPT !.groups[2].name = GName(1)].groups}}

\* F10 amounts beyond 64 bits that cancel: two units of one group whose amounts of one resource (or of all three)
\* are ovp and ovn -- individually far outside the per-unit bounds, the low 64 bits of each in range, the group
\* total exactly MinUnit, i.e. within the per-group bound; in either order, in the first or the last group, also
\* next to an ordinary third unit
F_trunc == IF "trunc" \notin Fams THEN {} ELSE
    LET Two(R, o) == [j \in 1..2 |-> [f \in DOMAIN BaseUnit |->
                        IF f \in R THEN Sp(IF (j = 1) = (o = 1) THEN "ovp" ELSE "ovn") ELSE BaseUnit[f]]]
    IN  UNION {{[BaseMsg(1, 1) EXCEPT !.groups[1].units = Two(R, o)],
                [BaseMsg(2, 1) EXCEPT !.groups[2].units = Two(R, o)],
                [BaseMsg(1, 1) EXCEPT !.groups[1].units = Two(R, o) \o <<BaseUnit>>],
                [BaseMsg(1, 1) EXCEPT !.groups[1].units = <<BaseUnit>> \o Two(R, o)]} :
               R \in {{"cpu"}, {"mem"}, {"sto"}, {"cpu", "mem"}, Res}, o \in {1, 2}}

Tag(f, S) == {[fam |-> f, m |-> x, n |-> 0] : x \in S}
AllFams == {"shapes", "single", "dep", "names", "totals", "pairs", "cross", "mix", "update", "trunc"}
Family(f) == CASE f = "shapes" -> F_shapes [] f = "single" -> F_single [] f = "dep" -> F_dep [] f = "names" -> F_names
               [] f = "totals" -> F_totals [] f = "pairs" -> F_pairs [] f = "cross" -> F_cross [] f = "mix" -> F_mix
               [] f = "update" -> F_update [] f = "trunc" -> F_trunc
Cover == UNION {Tag(f, Family(f)) : f \in Fams \cap AllFams}

-----------------------------------------------------------------------------
(* Behaviours: each enumerated message is submitted to the base chain state *)

\* the base state: one deployment (everything at its minimum) by the signer, its order and its escrow account
BaseDep == NewDep([BaseMsg(1, 1) EXCEPT !.groups[1].name = "base"], BaseDSeq)
BaseState == [deps |-> <<BaseDep>>, orders |-> 1, accounts |-> 1, bal |-> Funds]

Init == /\ cur \in Cover
        /\ phase = "submit"
        /\ st = BaseState
        /\ result = "none"

Submit == /\ phase = "submit"
          /\ phase' = "done"
          /\ StepRel(cur.m, BaseDSeq + 1, st, result', st')
          /\ UNCHANGED cur

Next == Submit
Spec == Init /\ [][Next]_vars

\* C19 as properties of the specification
AcceptedOnlyWithin == phase = "done" => P_AcceptedOnlyWithin(result, cur.m)
StoredWithinLimits == P_StoredWithin(st.deps)
RejectedNoEffect   == [][P_RejectedNoEffect(result', st, st')]_vars
\* the procedure against the oracle, on every enumerated message (J1 proper)
AdmitImpliesWithin == (phase = "submit" /\ cur.m.kind = "create" /\ Admit(cur.m)) => WithinLimits(cur.m)

\* J2 export: one line per enumerated message (evaluated once per generated successor)
ExportMsg == (phase = "submit" /\ phase' = "done") =>
                PrintT(ToJson([fam |-> cur.fam, m |-> cur.m, verdict |-> result',
                               within |-> (cur.m.kind = "create" => WithinLimits(cur.m))]))

-----------------------------------------------------------------------------
(* Simulation: random messages from the full product space, built field by field *)

EmptyMsg == [kind |-> "create", idc |-> "fresh", groups |-> <<>>, version |-> VersionLen, deposit |-> N(MinDeposit), ddenom |-> DepositDenom]
BuildInit == /\ cur = [fam |-> "random", m |-> EmptyMsg, n |-> 0]
             /\ phase = "build"
             /\ st = BaseState
             /\ result = "none"

NGroups == Len(cur.m.groups)
LastUnits == Len(cur.m.groups[NGroups].units)
SetCur(m) == cur.n < BuildSteps /\ cur' = [cur EXCEPT !.m = m, !.n = @ + 1] /\ UNCHANGED <<phase, st, result>>

AddGroup == /\ phase = "build" /\ NGroups <= MaxGroupCount
            /\ SetCur([cur.m EXCEPT !.groups = Append(@, [name |-> GName(NGroups + 1), units |-> <<BaseUnit>>])])
AddOddGroup == /\ phase = "build" /\ NGroups <= MaxGroupCount /\ cur.n >= BuildSteps - 3
               /\ \E nm \in {GName(1), ""} :
                    SetCur([cur.m EXCEPT !.groups = Append(@, [name |-> nm, units |-> <<BaseUnit>>])])
AddUnit  == /\ phase = "build" /\ NGroups >= 1 /\ LastUnits <= MaxGroupUnits
            /\ SetCur([cur.m EXCEPT !.groups[NGroups].units = Append(@, BaseUnit)])
SetUnitField == /\ phase = "build" /\ NGroups >= 1 /\ LastUnits >= 1
                /\ \E f \in Fields : \E c \in FieldClasses(f) : SetCur(SetField(cur.m, NGroups, LastUnits, f, c))
SetDepField == /\ phase = "build" /\ cur.n >= BuildSteps - 3
               /\ \/ \E v \in VersionClasses : SetCur([cur.m EXCEPT !.version = v])
                  \/ \E d \in DepositClasses : SetCur([cur.m EXCEPT !.deposit = d])
                  \/ \E dd \in DDenoms : SetCur([cur.m EXCEPT !.ddenom = dd])
                  \/ \E i \in IdClasses : SetCur([cur.m EXCEPT !.idc = i])
\* (TLC's simulator picks an enabled action uniformly, then one of its successors: Finish is held back until the
\* message has a group and some steps were taken, or the step budget is used up)
Finish == /\ phase = "build" /\ ((NGroups >= 1 /\ cur.n >= BuildSteps - 6) \/ cur.n >= BuildSteps)
          /\ phase' = "submit" /\ UNCHANGED <<cur, st, result>>

BuildNext == AddGroup \/ AddOddGroup \/ AddUnit \/ SetUnitField \/ SetDepField \/ Finish \/ Submit

\* second builder: several groups of several individually valid units whose amounts and replica counts are the
\* ones that matter for the per-group totals (random points of the space the `totals` family covers for <= 3 units)
NewGroupU  == /\ phase = "build" /\ NGroups <= MaxGroupCount
              /\ \E r \in Res : \E u \in TotUnits(r) :
                    SetCur([cur.m EXCEPT !.groups = Append(@, [name |-> GName(NGroups + 1), units |-> <<u>>])])
AddTotUnit == /\ phase = "build" /\ NGroups >= 1 /\ LastUnits <= MaxGroupUnits
              /\ \E r \in Res : \E u \in TotUnits(r) :
                    SetCur([cur.m EXCEPT !.groups[NGroups].units = Append(@, u)])
BuildNext2 == NewGroupU \/ AddTotUnit \/ Finish \/ Submit
=============================================================================
