\* Generated by tools/checks/limits.py (render_cfg) from the limits table of the pinned tree, seed 1.
\* The check regenerates this text at run time from `vh limits table`, so a changed table is followed.
\* (the check runs this as five TLC runs over subsets of Fams, in parallel)
CONSTANTS
    Impl = "intended"
    Tier = "thorough"
    Fams = {"shapes", "single", "dep", "names", "totals", "pairs", "cross", "mix", "update", "trunc"}
    Denom = "uakt"
    DepositDenom = "uakt"
    OtherDenom = "uatom"
    UnitCPU = 1
    UnitMem = 1048576
    UnitSto = 1048576
    MinUnitCPU = 10
    MaxUnitCPU = 10000
    MaxGroupCPU = 20000
    MinUnitMem = 1
    MaxUnitMem = 16384
    MaxGroupMem = 32768
    MinUnitSto = 5
    MaxUnitSto = 1048576
    MaxGroupSto = 1048576
    MinUnitCPUB = 524288
    MaxUnitCPUB = 524288
    MaxGroupCPUB = 524288
    MinUnitMemB = 524288
    MaxUnitMemB = 524288
    MaxGroupMemB = 524288
    MinUnitStoB = 524288
    MaxUnitStoB = 524288
    MaxGroupStoB = 524288
    MinUnitCount = 1
    MaxUnitCount = 50
    MinUnitPrice = 1
    MaxUnitPrice = 10000000
    MaxGroupCount = 20
    MaxGroupUnits = 20
    VersionLen = 32
    MinDeposit = 5000000
    Funds = 1495000000
    BaseDSeq = 7
    MidCPU = 3848
    MidMem = 486
    MidSto = 487925
    MidOff = 283
    MidCount = 40
    MidPrice = 3021220
    MidDeposit = 18607679
    BuildSteps = 14
INIT Init
NEXT Next
INVARIANTS AdmitImpliesWithin AcceptedOnlyWithin StoredWithinLimits
PROPERTY RejectedNoEffect
ACTION_CONSTRAINT ExportMsg
