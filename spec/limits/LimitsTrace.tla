---------------------------- MODULE LimitsTrace ----------------------------
(***************************************************************************)
(* J3 for C19: TLC judges what the real code was observed to do.           *)
(* trace.ndjson holds one line per create-deployment message executed on   *)
(* the real application (harness/limitsh): the message as the node decoded *)
(* it (projected), accepted/rejected, and the projection of every store    *)
(* before and after.  Each line is one Submit step of Limits.tla; the      *)
(* variables of Limits are bound to the observed values and the SAME       *)
(* property operators (P_AcceptedOnlyWithin, P_RejectedNoEffect,           *)
(* P_StoredWithin) are evaluated on them:                                  *)
(*   p1  accepted => WithinLimits(message)                                 *)
(*   p2  rejected => nothing changed (every store of the application)      *)
(*   p3  every deployment in the stores afterwards is WithinLimits,        *)
(*       re-derived from the stored records                                *)
(* conf: the step is the one Submit allows (Verdict(m) and its effect) --  *)
(* drift, not a verdict.  One JSON verdict per line is printed; the check  *)
(* requires as many verdicts as lines.                                     *)
(***************************************************************************)
EXTENDS Limits

VARIABLE l

Trace == ndJsonDeserialize("trace.ndjson")

AbsState(p) == [deps |-> p.deployments, orders |-> p.orders, accounts |-> p.accounts, bal |-> p.bal]

StoredWhy(deps) == UNION {Violated(deps[i]) : i \in DOMAIN deps}

\* an accepted create-deployment touches the deployment, market, escrow and bank stores and nothing else
DigestConf(ln) ==
    IF ln.accepted /\ ln.msg.kind = "update"
    THEN \* an accepted update rewrites the deployment record and nothing else
         /\ \A k \in {"rest", "market", "escrow", "bank"} : ln.after.digest[k] = ln.before.digest[k]
         /\ [ln.after EXCEPT !.digest = 0, !.deployments = 0] = [ln.before EXCEPT !.digest = 0, !.deployments = 0]
    ELSE IF ln.accepted
    THEN /\ ln.after.digest.rest = ln.before.digest.rest
         /\ \A k \in {"deployment", "market", "escrow", "bank"} : ln.after.digest[k] # ln.before.digest[k]
         /\ ln.after.balother = ln.before.balother
         /\ ln.after.bids = ln.before.bids /\ ln.after.leases = ln.before.leases
         /\ ln.after.payments = ln.before.payments
    ELSE TRUE

Judge(ln) ==
    LET res == IF ln.accepted THEN "ok" ELSE "rejected"
        s   == AbsState(ln.before)
        t   == AbsState(ln.after)
        v   == IF ln.msg.kind = "create" THEN Verdict(ln.msg) ELSE UVerdict(ln.msg, s)
    IN  [id       |-> ln.id,
         accepted |-> ln.accepted,
         p1       |-> P_AcceptedOnlyWithin(res, ln.msg),
         p2       |-> (res # "ok" => ln.after = ln.before) /\ P_RejectedNoEffect(res, s, t),
         p3       |-> P_StoredWithin(ln.after.deployments),
         why      |-> IF ln.accepted /\ ln.msg.kind = "create" THEN Violated(ln.msg) ELSE {},
         swhy     |-> StoredWhy(ln.after.deployments),
         within   |-> ln.msg.kind = "create" => WithinLimits(ln.msg),
         expect   |-> v,
         conf     |-> StepRel(ln.msg, ln.dseq, s, v, t) /\ (ln.accepted <=> v = "ok") /\ DigestConf(ln),
         reasonok |-> ln.reason = v]

TInit == /\ l = 0
         /\ cur = [fam |-> "none", m |-> EmptyMsg, n |-> 0]
         /\ phase = "trace"
         /\ st = BaseState
         /\ result = "none"

TNext == /\ l < Len(Trace)
         /\ l' = l + 1
         /\ LET ln == Trace[l + 1]
            IN  /\ cur' = [fam |-> ln.fam, m |-> ln.msg, n |-> 0]
                /\ phase' = "done"
                /\ st' = AbsState(ln.after)
                /\ result' = IF ln.accepted THEN "ok" ELSE ln.reason
                /\ PrintT(ToJson(Judge(ln)))
=============================================================================
