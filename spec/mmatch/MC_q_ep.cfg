\* quick: 1 group, 2 classes, <=2 records/side, counts 1..2, endpoints (http,other) in {0,1}^2 per record
SPECIFICATION Spec
CONSTANTS
  UnitSeq <- U2
  GroupNames = {"g1"}
  MaxGroups = 1
  MaxRecs = 2
  MaxCount = 2
  MCountMin = 1
  EpVals <- EpBin
  ChainCanonical = FALSE
  TenantMode = "forall"
  ExportMode = "focus"
  SampleMod = 499
  SampleRes = 0
  NearMod = 2
  SliceMod = 1
  SliceRes = 0
INVARIANTS ForAllManifests
CHECK_DEADLOCK FALSE
