\* thorough: 3 classes x <=3 records x counts 1..4
SPECIFICATION Spec
CONSTANTS
  UnitSeq <- U3
  GroupNames = {"g1"}
  MaxGroups = 1
  MaxRecs = 3
  MaxCount = 4
  MCountMin = 1
  EpVals <- EpNone
  ChainCanonical = FALSE
  TenantMode = "forall"
  ExportMode = "focus"
  SampleMod = 9973
  SampleRes = 0
  NearMod = 1
  SliceMod = 1
  SliceRes = 0
INVARIANTS ForAllManifests
CHECK_DEADLOCK FALSE
