\* quick: <=3 groups over 3 names (repeated names adjacent / non-adjacent, missing, extra, permuted), 1 class, <=1 record/group, count 1
SPECIFICATION Spec
CONSTANTS
  UnitSeq <- U1
  GroupNames = {"g1","g2","g3"}
  MaxGroups = 3
  MaxRecs = 1
  MaxCount = 1
  MCountMin = 1
  EpVals <- EpNone
  ChainCanonical = FALSE
  TenantMode = "forall"
  ExportMode = "focus"
  SampleMod = 7
  SampleRes = 0
  NearMod = 1
  SliceMod = 1
  SliceRes = 0
INVARIANTS ForAllManifests
CHECK_DEADLOCK FALSE
