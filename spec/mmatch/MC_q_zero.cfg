\* quick: manifest services with count 0 allowed (chain side 1..2), 2 classes, <=3 records
SPECIFICATION Spec
CONSTANTS
  UnitSeq <- U2
  GroupNames = {"g1"}
  MaxGroups = 1
  MaxRecs = 3
  MaxCount = 2
  MCountMin = 0
  EpVals <- EpNone
  ChainCanonical = FALSE
  TenantMode = "forall"
  ExportMode = "focus"
  SampleMod = 499
  SampleRes = 0
  NearMod = 1
  SliceMod = 1
  SliceRes = 0
INVARIANTS ForAllManifests
CHECK_DEADLOCK FALSE
