---------------------------- MODULE ManifestGate ----------------------------
(***************************************************************************)
(* C10, the version gate of provider/manifest/manager.go validateRequest   *)
(* (lines 375-393) in front of the matching of ManifestMatch.              *)
(*                                                                         *)
(* The tenant records on chain the hash ("version") of the manifest it     *)
(* intends to send: at creation and again at every update.  The provider's *)
(* manager learns versions from two sources: the deployment it fetches     *)
(* once (data.Deployment.Version) and the EventDeploymentUpdated events it *)
(* sees afterwards (m.versions, appended in arrival order; the last one    *)
(* wins over the fetched one).  A submitted manifest is accepted only if   *)
(* its hash equals that expected version, and then only if it is valid and *)
(* matches the on-chain groups.                                            *)
(*                                                                         *)
(* Hash is an uninterpreted injective function (collision-freeness of      *)
(* SHA-256 is assumed; that the real function is injective on manifests    *)
(* and independent of serialisation order is what the "hash" observations  *)
(* of ManifestMatchTrace establish on the real sdl.ManifestVersion).       *)
(***************************************************************************)
EXTENDS ManifestMatch

CONSTANTS Hash(_),   \* manifest -> version
          MaxDecl    \* versions recorded on chain per deployment (creation + updates)

ASSUME HashInjective == \A a, b \in MSpace : Hash(a) = Hash(b) => a = b

VARIABLES decl,      \* manifests whose hashes the tenant recorded on chain, in order (decl[1] at creation)
          fetched,   \* 0, or the index in decl of the version the manager's one query returned
          versions,  \* indices in decl of the update events the manager has seen, in arrival order
          nextev     \* index in decl of the next update event to be published on the bus
gvars == <<D, M, decl, fetched, versions, nextev>>

ChainVersion == Hash(decl[Len(decl)])
Expected == IF Len(versions) > 0 THEN Hash(decl[versions[Len(versions)]]) ELSE Hash(decl[fetched])

\* manager.validateRequest (requests wait until the data has been fetched)
GateAccept(m) == fetched > 0 /\ Hash(m) = Expected /\ Accept(m, D)

GInit == Init /\ decl = <<>> /\ fetched = 0 /\ versions = <<>> /\ nextev = 2

\* the groups are fixed once the deployment exists (an update changes the version only)
BuildGroups == decl = <<>> /\ Next /\ UNCHANGED <<decl, fetched, versions, nextev>>
Create(m) == decl = <<>> /\ decl' = <<m>> /\ UNCHANGED <<D, M, fetched, versions, nextev>>
Update(m) == Len(decl) \in 1..(MaxDecl - 1) /\ decl' = Append(decl, m) /\ UNCHANGED <<D, M, fetched, versions, nextev>>
\* the manager's single Query().Deployment
Fetch == decl # <<>> /\ fetched = 0 /\ fetched' = Len(decl) /\ UNCHANGED <<D, M, decl, versions, nextev>>
\* an update event reaches the manager ...
SeeUpdate == nextev <= Len(decl) /\ versions' = Append(versions, nextev) /\ nextev' = nextev + 1
             /\ UNCHANGED <<D, M, decl, fetched>>
\* ... or passes before the provider holds a lease on the deployment (no manager yet: the event is dropped)
MissUpdate == nextev <= Len(decl) /\ fetched = 0 /\ versions = <<>> /\ nextev' = nextev + 1
              /\ UNCHANGED <<D, M, decl, fetched, versions>>

GNext == \/ BuildGroups
         \/ \E m \in MSpace : Create(m) \/ Update(m)
         \/ Fetch \/ SeeUpdate \/ MissUpdate
GSpec == GInit /\ [][GNext]_gvars

----------------------------------------------------------------------------
\* accepted => its hash is a version recorded on chain for this deployment (hence, Hash being injective, the
\* manifest IS one the tenant declared) and it matches the on-chain groups
GateSound ==
    \A m \in MSpace : GateAccept(m) =>
        /\ \E k \in DOMAIN decl : Hash(m) = Hash(decl[k]) /\ m = decl[k]
        /\ OracleMatch(m, D)
\* once the manager has caught up with the chain, only the CURRENT version is accepted
CaughtUp == fetched > 0 /\ nextev > Len(decl) /\ (versions = <<>> => fetched = Len(decl))
GateCurrent == \A m \in MSpace : (CaughtUp /\ GateAccept(m)) => (Hash(m) = ChainVersion /\ m = decl[Len(decl)])
\* non-vacuity witnesses (checked as "never" properties in a separate cfg; they must be VIOLATED)
NeverAccepts == \A m \in MSpace : ~GateAccept(m)
NeverStale   == \A m \in MSpace : GateAccept(m) => Hash(m) = ChainVersion
=============================================================================
