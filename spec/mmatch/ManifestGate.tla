---------------------------- MODULE ManifestGate ----------------------------
(***************************************************************************)
(* C10, the version gate of provider/manifest/manager.go validateRequest   *)
(* (lines 375-393) in front of the matching of ManifestMatch.              *)
(*                                                                         *)
(* The tenant records on chain the hash ("version") of the manifest it     *)
(* intends to send: at creation and again at every update.  The provider's *)
(* manager learns versions from two sources: the deployment it fetches     *)
(* once (data.Deployment.Version) and the EventDeploymentUpdated events it *)
(* sees afterwards (m.versions, appended in arrival order; the last one    *)
(* wins over the fetched one).  A submitted manifest is accepted only if   *)
(* its hash equals that expected version, and then only if it is valid and *)
(* matches the on-chain groups.                                            *)
(*                                                                         *)
(* Hash is an uninterpreted injective function (collision-freeness of      *)
(* SHA-256 is assumed; that the real function is injective on manifests    *)
(* and independent of serialisation order is what the "hash" observations  *)
(* of ManifestMatchTrace establish on the real sdl.ManifestVersion).       *)
(***************************************************************************)
EXTENDS ManifestMatch

CONSTANTS Hash(_),   \* manifest -> version
          MaxDecl,   \* versions recorded on chain per deployment (creation + updates)
          MaxSubmits,\* submissions per behaviour (0: the gate is only stated as a predicate, GateAccept)
          StoreRule  \* which manifest of a validated batch the manager keeps and announces:
                     \*   "firstValid"  - the first request that PASSED validateRequest (the code)
                     \*   "firstQueued" - the first request of the batch (a plausible "optimisation"; TLC must refute
                     \*                   AnnounceSound under it - non-vacuity witness of the batch model)
                     \*   "retryFastPath" - first valid, but a re-submission of the last accepted manifest skips the
                     \*                   version check (witness: TLC must refute ReplySound after an update)

ASSUME HashInjective == \A a, b \in MSpace : Hash(a) = Hash(b) => a = b

VARIABLES decl,      \* manifests whose hashes the tenant recorded on chain, in order (decl[1] at creation)
          fetched,   \* 0, or the index in decl of the version the manager's one query returned
          versions,  \* indices in decl of the update events the manager has seen, in arrival order
          nextev,    \* index in decl of the next update event to be published on the bus
          queue,     \* manifests submitted while the chain query is in flight (m.requests), in arrival order
          replies,   \* [m, ok, exp]: every reply given, with the version expected at that moment
          announced  \* [m, exp]: every manifest stored and published in ManifestReceived (what gets deployed)
gvars == <<D, M, decl, fetched, versions, nextev, queue, replies, announced>>
svars == <<queue, replies, announced>>

ChainVersion == Hash(decl[Len(decl)])
Expected == IF Len(versions) > 0 THEN Hash(decl[versions[Len(versions)]]) ELSE Hash(decl[fetched])

\* manager.validateRequest (requests wait until the data has been fetched)
GateAccept(m) == fetched > 0 /\ Hash(m) = Expected /\ Accept(m, D)

GInit == Init /\ decl = <<>> /\ fetched = 0 /\ versions = <<>> /\ nextev = 2
         /\ queue = <<>> /\ replies = <<>> /\ announced = <<>>

\* the groups are fixed once the deployment exists (an update changes the version only)
BuildGroups == decl = <<>> /\ Next /\ UNCHANGED <<decl, fetched, versions, nextev>> /\ UNCHANGED svars
Create(m) == decl = <<>> /\ decl' = <<m>> /\ UNCHANGED <<D, M, fetched, versions, nextev>> /\ UNCHANGED svars
Update(m) == Len(decl) \in 1..(MaxDecl - 1) /\ decl' = Append(decl, m) /\ UNCHANGED <<D, M, fetched, versions, nextev>>
             /\ UNCHANGED svars
\* validateRequests on a batch q with the version `exp` expected: every request is answered, the valid ones ok;
\* one manifest is kept and announced if any request was valid
\* "retryFastPath": a manifest equal to the last one that passed is waved through before the version check
LastOk == {i \in DOMAIN replies : replies[i].ok}
ValidReq(m, exp) == \/ Hash(m) = exp /\ Accept(m, D)
                    \/ /\ StoreRule = "retryFastPath" /\ LastOk # {}
                       /\ replies[CHOOSE i \in LastOk : \A j \in LastOk : j <= i].m = m
BatchReplies(q, exp) == [i \in DOMAIN q |-> [m |-> q[i], ok |-> ValidReq(q[i], exp), exp |-> exp]]
Kept(q, exp) ==
    IF StoreRule = "firstValid"
    THEN q[CHOOSE i \in DOMAIN q : ValidReq(q[i], exp) /\ \A j \in 1..(i - 1) : ~ValidReq(q[j], exp)]
    ELSE q[1]
Validate(q, exp) ==
    /\ replies' = replies \o BatchReplies(q, exp)
    /\ announced' = IF \E i \in DOMAIN q : ValidReq(q[i], exp)
                     THEN Append(announced, [m |-> Kept(q, exp), exp |-> exp]) ELSE announced
    /\ queue' = <<>>
ExpectedWith(f) == IF Len(versions) > 0 THEN Hash(decl[versions[Len(versions)]]) ELSE Hash(decl[f])

\* the manager's single Query().Deployment returns: whatever was queued meanwhile is validated as ONE batch
Fetch == /\ decl # <<>> /\ fetched = 0 /\ fetched' = Len(decl)
         /\ IF queue = <<>> THEN UNCHANGED svars ELSE Validate(queue, ExpectedWith(Len(decl)))
         /\ UNCHANGED <<D, M, decl, versions, nextev>>
\* Service.Submit (the provider holds a lease): queued while the query is in flight, else validated at once
Submit(m) == /\ decl # <<>> /\ Len(queue) + Len(replies) < MaxSubmits
             /\ IF fetched = 0 THEN queue' = Append(queue, m) /\ UNCHANGED <<replies, announced>>
                ELSE Validate(<<m>>, Expected)
             /\ UNCHANGED <<D, M, decl, fetched, versions, nextev>>
\* an update event reaches the manager ...
SeeUpdate == nextev <= Len(decl) /\ versions' = Append(versions, nextev) /\ nextev' = nextev + 1
             /\ UNCHANGED <<D, M, decl, fetched>> /\ UNCHANGED svars
\* ... or passes before the provider holds a lease on the deployment (no manager yet: the event is dropped)
MissUpdate == nextev <= Len(decl) /\ fetched = 0 /\ versions = <<>> /\ nextev' = nextev + 1
              /\ UNCHANGED <<D, M, decl, fetched, versions>> /\ UNCHANGED svars

GNext == \/ BuildGroups
         \/ \E m \in MSpace : Create(m) \/ Update(m) \/ Submit(m)
         \/ Fetch \/ SeeUpdate \/ MissUpdate
GSpec == GInit /\ [][GNext]_gvars

----------------------------------------------------------------------------
\* accepted => its hash is a version recorded on chain for this deployment (hence, Hash being injective, the
\* manifest IS one the tenant declared) and it matches the on-chain groups
GateSound ==
    \A m \in MSpace : GateAccept(m) =>
        /\ \E k \in DOMAIN decl : Hash(m) = Hash(decl[k]) /\ m = decl[k]
        /\ OracleMatch(m, D)
\* once the manager has caught up with the chain, only the CURRENT version is accepted
CaughtUp == fetched > 0 /\ nextev > Len(decl) /\ (versions = <<>> => fetched = Len(decl))
GateCurrent == \A m \in MSpace : (CaughtUp /\ GateAccept(m)) => (Hash(m) = ChainVersion /\ m = decl[Len(decl)])
\* every reply "ok" and every ANNOUNCED manifest (what the provider deploys) had, when it was given / stored, the
\* expected version as its hash, is a manifest whose hash was recorded on chain, and matches the on-chain groups
ReplySound == \A i \in DOMAIN replies : replies[i].ok =>
                  /\ Hash(replies[i].m) = replies[i].exp /\ OracleMatch(replies[i].m, D)
                  /\ \E k \in DOMAIN decl : replies[i].m = decl[k]
AnnounceSound == \A i \in DOMAIN announced :
                  /\ Hash(announced[i].m) = announced[i].exp /\ OracleMatch(announced[i].m, D)
                  /\ \E k \in DOMAIN decl : announced[i].m = decl[k]
\* and nothing is announced that was not answered ok
AnnouncedWasAccepted == \A i \in DOMAIN announced : \E k \in DOMAIN replies :
                            replies[k].ok /\ replies[k].m = announced[i].m /\ replies[k].exp = announced[i].exp
\* non-vacuity witnesses (checked as "never" properties in a separate cfg; they must be VIOLATED)
NeverAccepts == \A m \in MSpace : ~GateAccept(m)
NeverStale   == \A m \in MSpace : GateAccept(m) => Hash(m) = ChainVersion
=============================================================================
