\* version gate: 1 group, 1 unit class, <=2 records, counts 1..2, endpoints {00,10}; <=2 versions on chain
SPECIFICATION GSpec
CONSTANTS
  UnitSeq <- GU1
  GroupNames = {"g1"}
  MaxGroups = 1
  MaxRecs = 2
  MaxCount = 2
  MCountMin = 1
  EpVals <- GEp
  ChainCanonical = FALSE
  TenantMode = "forall"
  ExportMode = "none"
  SampleMod = 1
  SampleRes = 0
  NearMod = 1
  SliceMod = 1
  SliceRes = 0
  Hash <- IdHash
  MaxDecl = 2
  MaxSubmits = 0
  StoreRule = "firstValid"
INVARIANTS NeverStale
CHECK_DEADLOCK FALSE
