\* thorough: <=3 groups over 3 names, 2 classes, <=1 record/group, counts 1..2, endpoints {00,10,01}
SPECIFICATION Spec
CONSTANTS
  UnitSeq <- U2
  GroupNames = {"g1","g2","g3"}
  MaxGroups = 3
  MaxRecs = 1
  MaxCount = 2
  MCountMin = 1
  EpVals <- EpGrp
  ChainCanonical = FALSE
  TenantMode = "forall"
  ExportMode = "none"
  SampleMod = 1
  SampleRes = 0
  NearMod = 1
  SliceMod = 1
  SliceRes = 0
INVARIANTS ForAllManifests
CHECK_DEADLOCK FALSE
