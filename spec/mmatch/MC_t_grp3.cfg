\* thorough: <=3 groups over 3 names, 2 classes, <=1 record/group, count 1, no endpoints
SPECIFICATION Spec
CONSTANTS
  UnitSeq <- U2
  GroupNames = {"g1","g2","g3"}
  MaxGroups = 3
  MaxRecs = 1
  MaxCount = 1
  MCountMin = 1
  EpVals <- EpNone
  ChainCanonical = FALSE
  TenantMode = "forall"
  ExportMode = "focus"
  SampleMod = 997
  SampleRes = 0
  NearMod = 1
  SliceMod = 1
  SliceRes = 0
INVARIANTS ForAllManifests
CHECK_DEADLOCK FALSE
