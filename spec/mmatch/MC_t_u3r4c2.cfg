\* thorough: 3 classes x <=4 records x counts 1..2
SPECIFICATION Spec
CONSTANTS
  UnitSeq <- U3
  GroupNames = {"g1"}
  MaxGroups = 1
  MaxRecs = 4
  MaxCount = 2
  MCountMin = 1
  EpVals <- EpNone
  ChainCanonical = FALSE
  TenantMode = "forall"
  ExportMode = "none"
  SampleMod = 1
  SampleRes = 0
  NearMod = 1
  SliceMod = 1
  SliceRes = 0
INVARIANTS ForAllManifests
CHECK_DEADLOCK FALSE
