\* NON-VACUITY WITNESS (must be violated): re-submission of the last accepted manifest skips the version check.
\* version gate with batched submissions: 1 group, 1 unit class, <=1 record, counts 1..2, endpoints {00,10};
\* <=2 versions on chain, <=3 submissions, queued while the chain query is in flight
SPECIFICATION GSpec
CONSTANTS
  UnitSeq <- GU1
  GroupNames = {"g1"}
  MaxGroups = 1
  MaxRecs = 1
  MaxCount = 1
  MCountMin = 1
  EpVals <- GEp
  ChainCanonical = FALSE
  TenantMode = "forall"
  ExportMode = "none"
  SampleMod = 1
  SampleRes = 0
  NearMod = 1
  SliceMod = 1
  SliceRes = 0
  Hash <- IdHash
  MaxDecl = 2
  MaxSubmits = 3
  StoreRule = "retryFastPath"
INVARIANTS ReplySound
CHECK_DEADLOCK FALSE
