\* thorough: 3 classes x <=4 records x counts 1..4; chain side up to renaming of the classes (canonical first-use order), manifest side everything
SPECIFICATION Spec
CONSTANTS
  UnitSeq <- U3
  GroupNames = {"g1"}
  MaxGroups = 1
  MaxRecs = 4
  MaxCount = 4
  MCountMin = 1
  EpVals <- EpNone
  ChainCanonical = TRUE
  TenantMode = "forall"
  ExportMode = "none"
  SampleMod = 1
  SampleRes = 0
  NearMod = 1
  SliceMod = 1
  SliceRes = 0
INVARIANTS ForAllManifests
CHECK_DEADLOCK FALSE
