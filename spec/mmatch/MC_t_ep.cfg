\* thorough: 2 classes x <=3 records x counts 1..2 x endpoints {00,10,01}
SPECIFICATION Spec
CONSTANTS
  UnitSeq <- U2
  GroupNames = {"g1"}
  MaxGroups = 1
  MaxRecs = 3
  MaxCount = 2
  MCountMin = 1
  EpVals <- EpGrp
  ChainCanonical = FALSE
  TenantMode = "forall"
  ExportMode = "focus"
  SampleMod = 99991
  SampleRes = 0
  NearMod = 29
  SliceMod = 1
  SliceRes = 0
INVARIANTS ForAllManifests
CHECK_DEADLOCK FALSE
