\* derived manifests, exhaustive: 1 group, 2 classes, <=2 records on chain, counts 1..2, endpoints {00,10}, <=3 edits
SPECIFICATION DSpec
CONSTANTS
  UnitSeq <- DU2
  GroupNames = {"g1"}
  MaxGroups = 1
  MaxRecs = 2
  MaxCount = 2
  MCountMin = 1
  EpVals <- DEpS
  ChainCanonical = FALSE
  TenantMode = "derive"
  ExportMode = "none"
  SampleMod = 1
  SampleRes = 0
  NearMod = 1
  SliceMod = 1
  SliceRes = 0
  MaxEdits = 3
  MaxMRecs = 3
INVARIANTS DerivedMatch DerivedMiss DerivedProps DExport
CHECK_DEADLOCK FALSE
