\* thorough: tenant as actions (states are pairs), 2 classes, <=2 records, counts 1..2, endpoints {0,1}^2
SPECIFICATION Spec
CONSTANTS
  UnitSeq <- U2
  GroupNames = {"g1"}
  MaxGroups = 1
  MaxRecs = 2
  MaxCount = 2
  MCountMin = 1
  EpVals <- EpBin
  ChainCanonical = FALSE
  TenantMode = "actions"
  ExportMode = "none"
  SampleMod = 1
  SampleRes = 0
  NearMod = 1
  SliceMod = 1
  SliceRes = 0
INVARIANTS Soundness CrossSound Completeness GreedyIsOracle GroupLevel AllPropsAgree Export
CHECK_DEADLOCK FALSE
