\* thorough: <=2 groups over 2 names, 2 classes, <=2 records/group, counts 1..2
SPECIFICATION Spec
CONSTANTS
  UnitSeq <- U2
  GroupNames = {"g1","g2"}
  MaxGroups = 2
  MaxRecs = 2
  MaxCount = 2
  MCountMin = 1
  EpVals <- EpNone
  ChainCanonical = FALSE
  TenantMode = "forall"
  ExportMode = "focus"
  SampleMod = 9973
  SampleRes = 0
  NearMod = 1
  SliceMod = 1
  SliceRes = 0
INVARIANTS ForAllManifests
CHECK_DEADLOCK FALSE
