#!/usr/bin/env python3
"""Regenerates the MC_*.cfg files of ManifestMatch (run in this directory). The cfgs are committed; this is
only the record of how they were made so that the bounds can be changed consistently."""
import os

HERE = os.path.dirname(os.path.abspath(__file__))


def cfg(name, comment, **kw):
    d = dict(UnitSeq="U3", GroupNames='{"g1"}', MaxGroups=1, MaxRecs=3, MaxCount=3, MCountMin=1, EpVals="EpNone",
             ChainCanonical="FALSE", TenantMode='"forall"', ExportMode='"none"', SampleMod=1, SampleRes=0, NearMod=1, SliceMod=1, SliceRes=0)
    d.update(kw)
    if d["TenantMode"] == '"forall"':
        inv = "ForAllManifests"
    else:
        inv = "Soundness CrossSound Completeness GreedyIsOracle GroupLevel AllPropsAgree Export"
    t = "\\* %s\nSPECIFICATION Spec\nCONSTANTS\n" % comment
    for k, v in d.items():
        op = "<-" if k in ("UnitSeq", "EpVals") else "="
        t += "  %s %s %s\n" % (k, op, v)
    t += "INVARIANTS %s\nCHECK_DEADLOCK FALSE\n" % inv
    with open(os.path.join(HERE, name), "w") as fh:
        fh.write(t)


# quick
cfg("MC_q_res.cfg", "quick: 1 group, 3 unit classes, <=3 records/side, counts 1..3, no endpoints; every manifest per chain "
    "state; chain side up to renaming of the classes", ChainCanonical="TRUE", ExportMode='"focus"', SampleMod=997, NearMod=3)
cfg("MC_q_ep.cfg", "quick: 1 group, 2 classes, <=2 records/side, counts 1..2, endpoints (http,other) in {0,1}^2 per record",
    UnitSeq="U2", MaxRecs=2, MaxCount=2, EpVals="EpBin", ExportMode='"focus"', SampleMod=499, NearMod=2)
cfg("MC_q_grp.cfg", "quick: <=2 groups over 2 names, 2 classes, <=1 record/group, counts 1..2, endpoints {00,10}",
    UnitSeq="U2", GroupNames='{"g1","g2"}', MaxGroups=2, MaxRecs=1, MaxCount=2, EpVals="EpOne",
    ExportMode='"focus"', SampleMod=199)
cfg("MC_q_grp3.cfg", "quick: <=3 groups over 3 names (repeated names adjacent / non-adjacent, missing, extra, permuted), "
    "1 class, <=1 record/group, count 1", UnitSeq="U1", GroupNames='{"g1","g2","g3"}', MaxGroups=3, MaxRecs=1, MaxCount=1,
    ExportMode='"focus"', SampleMod=7)
cfg("MC_q_zero.cfg", "quick: manifest services with count 0 allowed (chain side 1..2), 2 classes, <=3 records",
    UnitSeq="U2", MaxRecs=3, MaxCount=2, MCountMin=0, ExportMode='"focus"', SampleMod=499)
cfg("MC_q_act.cfg", "quick: tenant as actions (states are pairs), 2 classes, <=2 records, counts 1..2, endpoints {00,10,01}",
    UnitSeq="U2", MaxRecs=2, MaxCount=2, EpVals="EpGrp", TenantMode='"actions"')
# thorough
cfg("MC_t_act.cfg", "thorough: tenant as actions (states are pairs), 2 classes, <=2 records, counts 1..2, endpoints {0,1}^2",
    UnitSeq="U2", MaxRecs=2, MaxCount=2, EpVals="EpBin", TenantMode='"actions"')
cfg("MC_t_res.cfg", "thorough: 3 classes x <=3 records x counts 1..3, unreduced", ExportMode='"focus"', SampleMod=997)
cfg("MC_t_grp.cfg", "thorough: <=2 groups over 2 names, 2 classes, <=1 record/group, counts 1..2, endpoints {00,10,01}",
    UnitSeq="U2", GroupNames='{"g1","g2"}', MaxGroups=2, MaxRecs=1, MaxCount=2, EpVals="EpGrp",
    ExportMode='"focus"', SampleMod=199)
cfg("MC_t_u3r3c4.cfg", "thorough: 3 classes x <=3 records x counts 1..4", MaxCount=4, ExportMode='"focus"', SampleMod=9973)
cfg("MC_t_u2r4c4.cfg", "thorough: 2 classes x <=4 records x counts 1..4", UnitSeq="U2", MaxRecs=4, MaxCount=4)
cfg("MC_t_u3r4c2.cfg", "thorough: 3 classes x <=4 records x counts 1..2", MaxRecs=4, MaxCount=2)
cfg("MC_t_u3r4c4.cfg", "thorough: 3 classes x <=4 records x counts 1..4; chain side up to renaming of the classes "
    "(canonical first-use order), manifest side everything", MaxRecs=4, MaxCount=4, ChainCanonical="TRUE")
cfg("MC_t_ep.cfg", "thorough: 2 classes x <=3 records x counts 1..2 x endpoints {00,10,01}",
    UnitSeq="U2", MaxRecs=3, MaxCount=2, EpVals="EpGrp", ExportMode='"focus"', SampleMod=99991, NearMod=29)
cfg("MC_t_grp2.cfg", "thorough: <=2 groups over 2 names, 2 classes, <=2 records/group, counts 1..2",
    UnitSeq="U2", GroupNames='{"g1","g2"}', MaxGroups=2, MaxRecs=2, MaxCount=2, ExportMode='"focus"', SampleMod=9973)
cfg("MC_t_grp3.cfg", "thorough: <=3 groups over 3 names, 2 classes, <=1 record/group, count 1, no endpoints",
    UnitSeq="U2", GroupNames='{"g1","g2","g3"}', MaxGroups=3, MaxRecs=1, MaxCount=1, ExportMode='"focus"', SampleMod=997)
cfg("MC_t_zero.cfg", "thorough: manifest count 0 allowed, 3 classes x <=3 records x counts ..3",
    MaxRecs=3, MaxCount=3, MCountMin=0)
