\* J3: judge trace.ndjson (observations of the real code)
SPECIFICATION TSpec
CONSTANTS
  UnitSeq <- TraceUnits
  GroupNames = {"g1"}
  MaxGroups = 1
  MaxRecs = 1
  MaxCount = 1
  MCountMin = 1
  EpVals <- TraceEp
  ChainCanonical = FALSE
  TenantMode = "actions"
  ExportMode = "none"
  SampleMod = 1
  SampleRes = 0
  NearMod = 1
  SliceMod = 1
  SliceRes = 0
INVARIANTS InputWellFormed ImplSound ImplComplete GateSound AnnounceSound HistorySound HashStable HashSensitive Conform
CHECK_DEADLOCK FALSE
