\* thorough: manifest count 0 allowed, 3 classes x <=3 records x counts ..3
SPECIFICATION Spec
CONSTANTS
  UnitSeq <- U3
  GroupNames = {"g1"}
  MaxGroups = 1
  MaxRecs = 3
  MaxCount = 3
  MCountMin = 0
  EpVals <- EpNone
  ChainCanonical = FALSE
  TenantMode = "forall"
  ExportMode = "none"
  SampleMod = 1
  SampleRes = 0
  NearMod = 1
  SliceMod = 1
  SliceRes = 0
INVARIANTS ForAllManifests
CHECK_DEADLOCK FALSE
