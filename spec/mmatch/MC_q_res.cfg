\* quick: 1 group, 3 unit classes, <=3 records/side, counts 1..3, no endpoints; every manifest per chain state; chain side up to renaming of the classes
SPECIFICATION Spec
CONSTANTS
  UnitSeq <- U3
  GroupNames = {"g1"}
  MaxGroups = 1
  MaxRecs = 3
  MaxCount = 3
  MCountMin = 1
  EpVals <- EpNone
  ChainCanonical = TRUE
  TenantMode = "forall"
  ExportMode = "focus"
  SampleMod = 997
  SampleRes = 0
  NearMod = 3
  SliceMod = 1
  SliceRes = 0
INVARIANTS ForAllManifests
CHECK_DEADLOCK FALSE
