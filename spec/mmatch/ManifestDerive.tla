--------------------------- MODULE ManifestDerive ---------------------------
(***************************************************************************)
(* C10 beyond the exhaustive bounds: the tenant DERIVES its manifest from  *)
(* the on-chain groups - exactly the manifests the property's quantifier   *)
(* names: "manifests that split, merge, reorder or slightly alter resource *)
(* units, counts and exposed endpoints".                                   *)
(*                                                                         *)
(* The chain side is built as in ManifestMatch, then copied, then edited.  *)
(* Edits are of two kinds and the spec keeps count of the second:          *)
(*   preserving      split a service in two, merge two services of one     *)
(*                   unit, swap neighbours, move an endpoint to another    *)
(*                   service, swap groups                                  *)
(*   non-preserving  change a count by one, change a unit class, add or    *)
(*                   remove an endpoint, drop a service, rename a group    *)
(* This gives a THIRD opinion next to the transcription and the oracle:    *)
(* after preserving edits only the manifest must match (oracle and code),  *)
(* after exactly one non-preserving edit it must not.                      *)
(* Checked exhaustively for small constants and by simulation for large    *)
(* ones; the visited pairs are exported for replay on the real code.       *)
(***************************************************************************)
EXTENDS ManifestMatch

CONSTANTS MaxEdits,   \* edits per behaviour
          MaxMRecs    \* services per manifest group (splits grow the list)

VARIABLES edits,      \* number of edits so far
          nonpres     \* number of non-preserving edits so far
dvars == <<D, M, edits, nonpres>>

DInit == Init /\ edits = 0 /\ nonpres = 0

Build == /\ M = <<>>
         /\ \/ \E n \in GroupNames : ChainNewGroup(n)
            \/ \E r \in DRecs : ChainAddRec(r)
         /\ UNCHANGED <<edits, nonpres>>

\* the tenant starts from the groups it put on chain; every group must have a resource (as on chain)
Copy == /\ M = <<>> /\ Len(D) > 0 /\ \A i \in DOMAIN D : Len(D[i].recs) > 0
        /\ M' = D /\ UNCHANGED <<D, edits, nonpres>>

Without(s, k) == SubSeq(s, 1, k - 1) \o SubSeq(s, k + 1, Len(s))
SetRecs(i, rs) == M' = [M EXCEPT ![i].recs = rs]

Preserving(op) == /\ M # <<>> /\ edits < MaxEdits /\ op
                  /\ edits' = edits + 1 /\ UNCHANGED <<D, nonpres>>
Breaking(op)   == /\ M # <<>> /\ edits < MaxEdits /\ op
                  /\ edits' = edits + 1 /\ nonpres' = nonpres + 1 /\ UNCHANGED D

Split(i, k, c1) ==
    LET rs == M[i].recs  r == rs[k] IN
    /\ Len(rs) < MaxMRecs /\ c1 \in 1..(r.c - 1)
    /\ SetRecs(i, SubSeq(rs, 1, k - 1)
                  \o <<[r EXCEPT !.c = c1], [r EXCEPT !.c = r.c - c1, !.http = 0, !.other = 0]>>
                  \o SubSeq(rs, k + 1, Len(rs)))
Merge(i, k, j) ==
    LET rs == M[i].recs IN
    /\ k # j /\ rs[k].u = rs[j].u
    /\ SetRecs(i, Without([rs EXCEPT ![k] = [@ EXCEPT !.c = @ + rs[j].c, !.http = @ + rs[j].http, !.other = @ + rs[j].other]], j))
SwapRecs(i, k) ==
    LET rs == M[i].recs IN
    /\ k < Len(rs) /\ rs[k] # rs[k + 1]
    /\ SetRecs(i, [rs EXCEPT ![k] = rs[k + 1], ![k + 1] = rs[k]])
MoveHttp(i, k, j) ==
    LET rs == M[i].recs IN
    /\ k # j /\ rs[k].http > 0
    /\ SetRecs(i, [rs EXCEPT ![k].http = @ - 1, ![j].http = @ + 1])
MoveOther(i, k, j) ==
    LET rs == M[i].recs IN
    /\ k # j /\ rs[k].other > 0
    /\ SetRecs(i, [rs EXCEPT ![k].other = @ - 1, ![j].other = @ + 1])
SwapGroups(i) == /\ i < Len(M) /\ M' = [M EXCEPT ![i] = M[i + 1], ![i + 1] = M[i]]

Bump(i, k, delta) ==
    LET rs == M[i].recs IN
    /\ rs[k].c + delta >= 0
    /\ SetRecs(i, [rs EXCEPT ![k].c = @ + delta])
Relabel(i, k, u) ==
    LET rs == M[i].recs IN
    /\ rs[k].u # u /\ rs[k].c > 0
    /\ SetRecs(i, [rs EXCEPT ![k].u = u])
EpBump(i, k, kind, delta) ==
    LET rs == M[i].recs IN
    /\ (IF kind = "http" THEN rs[k].http ELSE rs[k].other) + delta >= 0
    /\ SetRecs(i, IF kind = "http" THEN [rs EXCEPT ![k].http = @ + delta] ELSE [rs EXCEPT ![k].other = @ + delta])
DropRec(i, k) ==
    /\ M[i].recs[k].c > 0
    /\ SetRecs(i, Without(M[i].recs, k))
Rename(i, n) == /\ M[i].name # n /\ M' = [M EXCEPT ![i].name = n]

DNext ==
    \/ Build
    \/ Copy
    \/ \E i \in DOMAIN M :
         \/ Preserving(SwapGroups(i))
         \/ \E n \in GroupNames : Breaking(Rename(i, n))
         \/ \E k \in DOMAIN M[i].recs :
              \/ \E c1 \in 1..MaxCount : Preserving(Split(i, k, c1))
              \/ Preserving(SwapRecs(i, k))
              \/ \E j \in DOMAIN M[i].recs :
                   Preserving(Merge(i, k, j)) \/ Preserving(MoveHttp(i, k, j)) \/ Preserving(MoveOther(i, k, j))
              \/ \E delta \in {-1, 1} :
                   \/ Breaking(Bump(i, k, delta))
                   \/ \E kind \in {"http", "other"} : Breaking(EpBump(i, k, kind, delta))
              \/ \E u \in Units : Breaking(Relabel(i, k, u))
              \/ Breaking(DropRec(i, k))
DSpec == DInit /\ [][DNext]_dvars

----------------------------------------------------------------------------
\* split / merge / reorder / move never unmatch a manifest ...
DerivedMatch == (M # <<>> /\ nonpres = 0) =>
                    /\ OracleMatch(M, D) /\ TotalsEqual(M, D)
                    /\ Cross(M, D) = "ok" /\ ~ResRejected(M, D)
\* ... and one slight alteration always does
\* (a group renamed to the name of another one makes a duplicate, which ValidateManifest refuses, not Cross)
DerivedMiss  == (nonpres = 1) => (~OracleMatch(M, D) /\ (NamesDistinct(M) => Cross(M, D) # "ok"))
\* and in every visited state the five properties of ManifestMatch
DerivedProps == AllProps(M, D)
DExport == (ExportMode = "all" /\ M # <<>>) => PrintT(ToJson([d |-> D, m |-> M]))
=============================================================================
