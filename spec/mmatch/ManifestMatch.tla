--------------------------- MODULE ManifestMatch ---------------------------
(***************************************************************************)
(* C10 - manifest integrity.                                               *)
(*                                                                         *)
(* The provider's acceptance procedure for a submitted manifest            *)
(* (validation/manifest.go: ValidateManifest + ValidateManifestWith-       *)
(* Deployment, composed by provider/manifest/manager.go validateRequest)   *)
(* transcribed as recursive operators, NEXT TO an independent declarative  *)
(* oracle: per group and per unit class, the sum of the replica counts is  *)
(* the same on both sides, and so are the two endpoint counts.             *)
(*                                                                         *)
(* Abstract input                                                          *)
(*   record   [u : unit class, c : replica count, http, other : Nat]       *)
(*            on chain: one dtypes.Resource (unit, count, endpoints by     *)
(*            kind); in the manifest: one service (unit, count, global     *)
(*            exposes by kind).  Two units are "equal" for the code iff    *)
(*            CPU, Memory and Storage (values and attributes) are equal:   *)
(*            an equivalence, so a unit is abstracted to its class.        *)
(*   group    [name, recs : Seq(record)]                                   *)
(*   D        Seq(group)   the on-chain deployment groups (names distinct: *)
(*            x/deployment ValidateDeploymentGroups; counts >= 1)          *)
(*   M        Seq(group)   the submitted manifest (anything)               *)
(*                                                                         *)
(* The state machine only builds the input: the chain side adds groups and *)
(* resource records, the tenant side adds groups and services, in every    *)
(* order.  Every reachable state is one (D, M) pair and the properties are *)
(* state invariants, so TLC's exhaustive search IS the quantification      *)
(* "for all pairs, all splits / merges / orders" within the bounds.        *)
(***************************************************************************)
EXTENDS Integers, Sequences, FiniteSets, TLC, Json

CONSTANTS
    UnitSeq,      \* sequence of the unit classes, e.g. <<"u1","u2","u3">>
    GroupNames,   \* set of group names
    MaxGroups,    \* groups per side
    MaxRecs,      \* records per group
    MaxCount,     \* replica count bound (chain side 1..MaxCount)
    MCountMin,    \* smallest manifest-side count explored (0 or 1)
    EpVals,       \* set of <<http, other>> endpoint pairs a record may carry
    ChainCanonical, \* TRUE: the chain side uses unit classes in first-use order u1, u2, .. only (symmetry
                  \* reduction: Cross and the oracle only ever test unit classes for equality, so they
                  \* are invariant under renaming the classes on both sides; M still ranges over all)
    TenantMode,   \* "actions": the tenant builds M step by step (states are pairs);
                  \* "forall": states are chain states only, the invariant quantifies over every manifest
    ExportMode,   \* "none" | "all" | "focus" | "match" | "sample"   (J2 export of enumerated pairs, see ExportP)
    SampleMod, SampleRes,  \* the seeded sample: pairs with Mix(D,M) % SampleMod = SampleRes
    NearMod,               \* focus mode: the share 1/NearMod of the near misses (1 = all of them)
    SliceMod, SliceRes     \* forall mode: only chain states with MixSide(D) % SliceMod = SliceRes are judged
                           \* (1, 0 = all of them: exhaustive; the check picks SliceMod > 1 for the largest
                           \*  configurations only when the machine is too slow for the time budget, and says so)

VARIABLES D, M
vars == <<D, M>>

Units == {UnitSeq[i] : i \in DOMAIN UnitSeq}
UnitIdx(u) == CHOOSE i \in DOMAIN UnitSeq : UnitSeq[i] = u

RECURSIVE SumTo(_, _)
SumTo(f, n) == IF n = 0 THEN 0 ELSE f[n] + SumTo(f, n - 1)
SumOf(f) == SumTo(f, Len(f))

----------------------------------------------------------------------------
(* The code, transcribed.                                                  *)

\* inner loop of validateManifestDeploymentGroup (validation/manifest.go:200-235):
\* scan the manifest list ml from index i for a deployment record of class u with c replicas
\* still to place.  Returns the updated list and whether the record was fulfilled.
RECURSIVE Scan(_, _, _, _)
Scan(ml, i, u, c) ==
    IF i > Len(ml) THEN [ml |-> ml, done |-> FALSE]
    ELSE LET mr == ml[i] IN
         IF mr.c = 0 \/ mr.u # u THEN Scan(ml, i + 1, u, c)           \* exhausted / other unit: continue
         ELSE IF mr.c >= c THEN [ml |-> [ml EXCEPT ![i].c = mr.c - c], done |-> TRUE]
         ELSE Scan([ml EXCEPT ![i].c = 0], i + 1, u, c - mr.c)        \* partial fulfilment

\* outer loop over the deployment records, in order
RECURSIVE Loop(_, _, _)
Loop(dl, j, ml) ==
    IF j > Len(dl) THEN [ok |-> TRUE, ml |-> ml]
    ELSE LET r == Scan(ml, 1, dl[j].u, dl[j].c) IN
         IF r.done THEN Loop(dl, j + 1, r.ml) ELSE [ok |-> FALSE, ml |-> ml]

Http(g)  == SumOf([i \in DOMAIN g.recs |-> g.recs[i].http])
Other(g) == SumOf([i \in DOMAIN g.recs |-> g.recs[i].other])

\* validateManifestDeploymentGroup: result class
GreedyGroup(mg, dg) ==
    LET r == Loop(dg.recs, 1, mg.recs) IN
    IF ~r.ok THEN "underutilized"
    ELSE IF \E i \in DOMAIN r.ml : r.ml[i].c > 0 THEN "leftover"
    ELSE IF Other(mg) # Other(dg) THEN "endpoints"
    ELSE IF Http(mg) # Http(dg) THEN "http"
    ELSE "ok"

HasGroup(S, n) == \E i \in DOMAIN S : S[i].name = n
\* dgroupByName: a map filled in order, so the last group of a name wins
ByName(S, n) == S[CHOOSE i \in DOMAIN S : S[i].name = n /\ \A k \in DOMAIN S : S[k].name = n => k <= i]

\* validateManifestDeploymentGroups: first error in manifest order
RECURSIVE CrossFrom(_, _, _)
CrossFrom(m, d, i) ==
    IF i > Len(m) THEN "ok"
    ELSE IF ~HasGroup(d, m[i].name) THEN "unknowngroup"
    ELSE LET r == GreedyGroup(m[i], ByName(d, m[i].name)) IN
         IF r # "ok" THEN r ELSE CrossFrom(m, d, i + 1)

Cross(m, d) == IF Len(m) # Len(d) THEN "groupcount" ELSE CrossFrom(m, d, 1)

NamesDistinct(S) == \A i, j \in DOMAIN S : S[i].name = S[j].name => i = j

\* ValidateManifest, as far as the abstract input can tell (names, images, ports, hostnames are
\* always made valid by the concretisation): non-empty, no empty group, counts within
\* [MinUnitCount, ..], no duplicate group name, at least one global service.
Valid(m) ==
    /\ Len(m) > 0
    /\ \A i \in DOMAIN m : /\ Len(m[i].recs) > 0
                           /\ \A k \in DOMAIN m[i].recs : m[i].recs[k].c >= 1
    /\ NamesDistinct(m)
    /\ SumOf([i \in DOMAIN m |-> Http(m[i]) + Other(m[i])]) > 0

\* manager.validateRequest after the version gate
Accept(m, d) == Valid(m) /\ Cross(m, d) = "ok"
\* "the resource comparison rejects": the two errors wrapping ErrManifestCrossValidation
ResRejected(m, d) == Cross(m, d) \in {"underutilized", "leftover"}

----------------------------------------------------------------------------
(* The oracle, declarative and independent of any matching order.          *)

CountOf(recs, u) == SumOf([i \in DOMAIN recs |-> IF recs[i].u = u THEN recs[i].c ELSE 0])
ResEqualGroup(mg, dg) == \A u \in Units : CountOf(mg.recs, u) = CountOf(dg.recs, u)
EpEqualGroup(mg, dg)  == Http(mg) = Http(dg) /\ Other(mg) = Other(dg)

\* group by group: the names put the groups of both sides in one-to-one correspondence
SameGroups(m, d) ==
    /\ NamesDistinct(m) /\ NamesDistinct(d)
    /\ {m[i].name : i \in DOMAIN m} = {d[i].name : i \in DOMAIN d}
TheGroup(S, n) == S[CHOOSE i \in DOMAIN S : S[i].name = n]

OracleMatch(m, d) ==
    /\ SameGroups(m, d)
    /\ \A i \in DOMAIN m : /\ ResEqualGroup(m[i], TheGroup(d, m[i].name))
                           /\ EpEqualGroup(m[i], TheGroup(d, m[i].name))

\* antecedent of the completeness clause: per-group totals equal
TotalsEqual(m, d) ==
    /\ SameGroups(m, d)
    /\ \A i \in DOMAIN m : ResEqualGroup(m[i], TheGroup(d, m[i].name))

----------------------------------------------------------------------------
(* Properties (C10, matching part), as predicates of one (manifest, deployment) pair *)
(* so that the trace module can evaluate the SAME definitions on recorded pairs.      *)

\* accepted  =>  equal, group by group
Sound(m, d) == Accept(m, d) => OracleMatch(m, d)
\* the bare cross-validation is sound too once the manifest passed ValidateManifest's duplicate check
CrossSoundP(m, d) == (Cross(m, d) = "ok" /\ NamesDistinct(m)) => OracleMatch(m, d)
\* completeness, judged from accept / reject alone: a manifest equal to the chain groups in everything the statement
\* lists (resources, replica counts AND endpoint counts, group by group) is not rejected by the cross-validation.
\* (Which comparison rejects an UNEQUAL manifest, and with what error, is not the property's business.)
Complete(m, d) == OracleMatch(m, d) => Cross(m, d) = "ok"
\* the stronger fact about this code (resource errors only when totals differ) is conformance, not verdict
CompleteRes(m, d) == TotalsEqual(m, d) => ~ResRejected(m, d)
\* greedy = oracle, exactly, whenever the groups correspond
GreedyIsOracleP(m, d) ==
    SameGroups(m, d) =>
        /\ (Cross(m, d) = "ok") = OracleMatch(m, d)
        /\ ResRejected(m, d) => ~TotalsEqual(m, d)   \* (an earlier group's endpoint error may mask a later
                                                     \*  group's resource mismatch, hence not an equivalence;
                                                     \*  GroupLevelP states the equivalence per group)
\* single-group form (the loop itself): for every pair of groups
GroupLevelP(m, d) ==
    \A i \in DOMAIN m : \A j \in DOMAIN d :
        LET r == GreedyGroup(m[i], d[j]) IN
        /\ (r \in {"underutilized", "leftover"}) = ~ResEqualGroup(m[i], d[j])
        /\ (r = "ok") = (ResEqualGroup(m[i], d[j]) /\ EpEqualGroup(m[i], d[j]))

\* the conjunction of the five, sharing the evaluation of Cross and of the oracle (LET values are
\* computed once by TLC): this is what the large configurations evaluate per pair
AllProps(m, d) ==
    LET c   == Cross(m, d)
        sg  == SameGroups(m, d)
        te  == sg /\ \A i \in DOMAIN m : ResEqualGroup(m[i], TheGroup(d, m[i].name))
        om  == te /\ \A i \in DOMAIN m : EpEqualGroup(m[i], TheGroup(d, m[i].name))
        rr  == c \in {"underutilized", "leftover"}
    IN  /\ (Valid(m) /\ c = "ok") => om
        /\ (c = "ok" /\ NamesDistinct(m)) => om
        /\ te => ~rr
        /\ sg => (((c = "ok") = om) /\ (rr => ~te))
        \* with one group per side GroupLevelP is the line above plus "totals differ => it is the resource
        \* comparison that rejects"; stated directly it spares a second run of the greedy loop per pair
        /\ IF MaxGroups = 1 THEN (sg /\ Len(m) = 1) => (rr = ~te) ELSE GroupLevelP(m, d)

Soundness      == Sound(M, D)
CrossSound     == CrossSoundP(M, D)
Completeness   == Complete(M, D)
GreedyIsOracle == GreedyIsOracleP(M, D)
GroupLevel     == GroupLevelP(M, D)
\* AllProps is the same statement (checked here so that the two forms cannot drift apart)
AllPropsAgree  == AllProps(M, D) = (Soundness /\ CrossSound /\ Completeness /\ GreedyIsOracle /\ GroupLevel)

----------------------------------------------------------------------------
(* Input-building state machine.                                           *)

DRecs == [u : Units, c : 1..MaxCount, ep : EpVals]
MRecs == [u : Units, c : MCountMin..MaxCount, ep : EpVals]
Rec(r) == [u |-> r.u, c |-> r.c, http |-> r.ep[1], other |-> r.ep[2]]

AppendRec(S, r) == [S EXCEPT ![Len(S)].recs = Append(@, Rec(r))]

ChainNewGroup(n) == /\ Len(D) < MaxGroups /\ ~HasGroup(D, n)
                    /\ D' = Append(D, [name |-> n, recs |-> <<>>]) /\ UNCHANGED M
\* 1 + the number of classes used so far on the chain side (= largest index used, in canonical mode)
NextIdx(S) == 1 + Cardinality(UNION {{S[i].recs[k].u : k \in DOMAIN S[i].recs} : i \in DOMAIN S})
ChainAddRec(r)   == /\ Len(D) > 0 /\ Len(D[Len(D)].recs) < MaxRecs
                    /\ ChainCanonical => UnitIdx(r.u) <= NextIdx(D)
                    /\ D' = AppendRec(D, r) /\ UNCHANGED M
TenantNewGroup(n) == /\ TenantMode = "actions" /\ Len(M) < MaxGroups
                     /\ M' = Append(M, [name |-> n, recs |-> <<>>]) /\ UNCHANGED D
TenantAddRec(r)   == /\ TenantMode = "actions" /\ Len(M) > 0 /\ Len(M[Len(M)].recs) < MaxRecs
                     /\ M' = AppendRec(M, r) /\ UNCHANGED D

Init == D = <<>> /\ M = <<>>
Next == \/ \E n \in GroupNames : ChainNewGroup(n) \/ TenantNewGroup(n)
        \/ \E r \in DRecs : ChainAddRec(r)
        \/ \E r \in MRecs : TenantAddRec(r)
Spec == Init /\ [][Next]_vars

----------------------------------------------------------------------------
(* J2 export: the enumerated pairs, printed as JSON for the Go harness.    *)

Abs(x) == IF x < 0 THEN -x ELSE x
\* total count distance between corresponding groups (only meaningful when SameGroups)
Dist(m, d) == SumOf([i \in DOMAIN m |->
                 SumOf([k \in DOMAIN UnitSeq |->
                     Abs(CountOf(m[i].recs, UnitSeq[k]) - CountOf(TheGroup(d, m[i].name).recs, UnitSeq[k]))])])
EpDist(m, d) == SumOf([i \in DOMAIN m |-> Abs(Http(m[i]) - Http(TheGroup(d, m[i].name)))
                                          + Abs(Other(m[i]) - Other(TheGroup(d, m[i].name)))])
Code(r) == r.c * 5 + UnitIdx(r.u) * 11 + r.http * 13 + r.other * 17
MixSide(S) == SumOf([i \in DOMAIN S |-> 101 * i +
                  SumOf([k \in DOMAIN S[i].recs |-> (7 * k + 3 * i + 1) * Code(S[i].recs[k])])])
Mix(m, d) == 31 * MixSide(m) + 17 * MixSide(d) + 5 * Len(m) + Len(d)

\* cheap necessary condition for Near (|sum of differences| <= sum of |differences|), evaluated first
Total(S, f(_)) == SumOf([i \in DOMAIN S |-> SumOf([k \in DOMAIN S[i].recs |-> f(S[i].recs[k])])])
CntOf(r) == r.c
HttpOf(r) == r.http
OtherOf(r) == r.other
Coarse(m, d) == Abs(Total(m, CntOf) - Total(d, CntOf)) + Abs(Total(m, HttpOf) - Total(d, HttpOf))
                + Abs(Total(m, OtherOf) - Total(d, OtherOf))
Near(m, d, k) == Len(m) = Len(d) /\ Coarse(m, d) <= k /\ SameGroups(m, d) /\ Dist(m, d) + EpDist(m, d) <= k
Sampled(m, d) == Mix(m, d) % SampleMod = SampleRes

\* "focus": every match, the near misses (one replica or one endpoint off; all or a seeded share) and a seeded
\*          sample of the rest;
\* "match": every match and the sample;  "sample": the sample only;  "all": everything
ExportP(m, d) == (\/ ExportMode = "all"
                  \/ ExportMode = "focus"  /\ (\/ Near(m, d, 0) \/ Sampled(m, d)
                                              \* everything the bare cross-validation lets through, in particular
                                              \* manifests with a REPEATED group name (adjacent or not) whose copies
                                              \* each match the group of that name while another group goes uncovered
                                              \/ (Len(m) = Len(d) /\ Cross(m, d) = "ok")
                                              \/ (Near(m, d, 1) /\ Mix(m, d) % NearMod = SampleRes % NearMod))
                  \/ ExportMode = "match"  /\ (Near(m, d, 0) \/ Sampled(m, d))
                  \/ ExportMode = "sample" /\ Sampled(m, d)) => PrintT(ToJson([d |-> d, m |-> m]))
Export == ExportP(M, D)
----------------------------------------------------------------------------
(* "forall" mode: every manifest the tenant could submit, as a set.  The states are the *)
(* chain states D alone and each invariant evaluation ranges over the whole set, which   *)
(* spares TLC the fingerprinting and queueing of |D| x |M| states.                       *)

MRecSeqs   == UNION {[1..k -> {Rec(r) : r \in MRecs}] : k \in 0..MaxRecs}
MGroups    == {[name |-> n, recs |-> s] : n \in GroupNames, s \in MRecSeqs}
MSpace     == UNION {[1..k -> MGroups] : k \in 0..MaxGroups}

\* the number of pairs evaluated is (distinct states) x |MSpace|; printed once for the evidence
ASSUME TenantMode = "forall" => PrintT(<<"MSPACE", Cardinality(MSpace)>>)

InSlice == MixSide(D) % SliceMod = SliceRes
ForAllManifests ==
    (TenantMode = "forall" /\ InSlice /\ (SliceMod = 1 \/ PrintT("EVAL"))) =>
        \A m \in MSpace : /\ (AllProps(m, D) \/ ~PrintT(<<"COUNTEREXAMPLE", ToJson([d |-> D, m |-> m])>>))
                           /\ ExportP(m, D)
=============================================================================
