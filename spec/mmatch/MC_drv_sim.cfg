\* derived manifests, simulation far beyond the exhaustive bounds: <=3 groups, 4 classes, <=5 records per group on
\* chain (<=8 services after splits), counts 1..6, up to 3 endpoints per record, <=8 edits
SPECIFICATION DSpec
CONSTANTS
  UnitSeq <- DU4
  GroupNames = {"g1", "g2", "g3"}
  MaxGroups = 3
  MaxRecs = 5
  MaxCount = 6
  MCountMin = 1
  EpVals <- DEpL
  ChainCanonical = FALSE
  TenantMode = "derive"
  ExportMode = "all"
  SampleMod = 1
  SampleRes = 0
  NearMod = 1
  SliceMod = 1
  SliceRes = 0
  MaxEdits = 8
  MaxMRecs = 8
INVARIANTS DerivedMatch DerivedMiss DerivedProps DExport
CHECK_DEADLOCK FALSE
