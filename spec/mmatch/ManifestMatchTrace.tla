------------------------ MODULE ManifestMatchTrace ------------------------
(***************************************************************************)
(* J3 for C10: TLC judges what the REAL code did.                          *)
(*                                                                         *)
(* trace.ndjson holds one observation per line, recorded by                *)
(* harness/mmatchh from the real validation.ValidateManifest /             *)
(* ValidateManifestWithDeployment ("pair"), the real provider/manifest     *)
(* Service.Submit -> manager.validateRequest ("gate") and the real         *)
(* sdl.ManifestVersion ("hash").  The inputs are the abstract (d, m) pairs *)
(* TLC itself enumerated; the predicates are the SAME definitions          *)
(* (OracleMatch, TotalsEqual, Valid, Cross, Accept) as in ManifestMatch.   *)
(*                                                                         *)
(* Observations are independent, so every line is an initial state and the *)
(* properties are invariants; a violated invariant names the line l.       *)
(*                                                                         *)
(* Verdict invariants (a violation is a C10 violation of the code):        *)
(*   ImplSound      accepted (any scheme)  =>  OracleMatch(m, d)           *)
(*   ImplComplete   TotalsEqual(m, d)  =>  not rejected by the resource    *)
(*                  comparison (errors.Is ErrManifestCrossValidation)      *)
(*   GateSound      Submit accepted  =>  hash(submitted) = expected version*)
(*                  /\ OracleMatch(m, d)   (single and batched submissions)*)
(*   AnnounceSound  every manifest announced on the bus (ManifestReceived) *)
(*                  has the expected hash, is one of the submitted ones and*)
(*                  matches the chain groups                               *)
(*   HashStable     one manifest (field tree), one version: across repeats,*)
(*                  JSON round trip, key orders, canonical re-hash         *)
(*   HashSensitive  one version, one manifest: every single-field mutation *)
(*                  and every other enumerated manifest hashes differently *)
(* Conformance (drift, not a verdict): Conform* compare the recorded       *)
(* result class with the transcription's.                                  *)
(***************************************************************************)
EXTENDS ManifestMatch

\* constants of ManifestMatch for the trace cfg: the oracle quantifies over these unit classes
TraceUnits == <<"u1", "u2", "u3", "u4", "u5", "u6", "u7", "u8">>
TraceEp    == {<<0, 0>>}

Trace == ndJsonDeserialize("trace.ndjson")
N == Len(Trace)

VARIABLE l
tvars == <<l, D, M>>

IsPair(r) == r.kind = "pair"
IsGate(r) == r.kind = "gate"
IsHash(r) == r.kind = "hash"
IsBatch(r) == r.kind = "batch"
IsHist(r) == r.kind = "history"

TInit == /\ l \in 1..N
         /\ D = (IF IsHash(Trace[l]) THEN <<>> ELSE Trace[l].d)
         /\ M = (IF IsHash(Trace[l]) THEN <<>> ELSE Trace[l].m)
TNext == FALSE /\ UNCHANGED tvars
TSpec == TInit /\ [][TNext]_tvars

R == Trace[l]

\* every unit class of the input is one the oracle quantifies over (else the judgement would be vacuous)
UnitsKnown == \A i \in DOMAIN D : \A k \in DOMAIN D[i].recs : D[i].recs[k].u \in Units
UnitsKnownM == \A i \in DOMAIN M : \A k \in DOMAIN M[i].recs : M[i].recs[k].u \in Units
InputWellFormed == UnitsKnown /\ UnitsKnownM

----------------------------------------------------------------------------
Bad(name) == PrintT(<<"BAD", name, l>>)

SoundLine    == IsPair(R) => \A k \in DOMAIN R.res : R.res[k].accepted => OracleMatch(M, D)
\* accept / reject only (never the error's text or identity): everything the statement lists is equal => not rejected
CompleteLine == IsPair(R) => \A k \in DOMAIN R.res : OracleMatch(M, D) => R.res[k].crossok

\* manager.validateRequest: the version the provider holds the tenant to
Expected(r) == IF Len(r.updates) > 0 THEN r.updates[Len(r.updates)] ELSE r.chain
GateLine ==
    /\ IsGate(R) => (R.accepted => (R.sub = Expected(R) /\ OracleMatch(M, D)))
    \* a batch: several submissions queued while the manager's chain query was in flight, validated together
    /\ IsBatch(R) => \A k \in DOMAIN R.subs :
           R.subs[k].accepted => (R.subs[k].hid = Expected(R) /\ OracleMatch(R.subs[k].m, D))

\* histories: submissions and version updates interleaved on one deployment. The version the chain records NOW,
\* as far as the provider has been told: the last update event before step i, else the fetched version.
Upds(r, i) == {j \in 1..(i - 1) : r.steps[j].op = "upd"}
ExpectedAt(r, i) == IF Upds(r, i) = {} THEN r.chain
                    ELSE r.steps[CHOOSE j \in Upds(r, i) : \A k \in Upds(r, i) : k <= j].hid
GoodStep(r, j) == r.steps[j].op = "sub" /\ r.steps[j].hid = ExpectedAt(r, j) /\ OracleMatch(r.steps[j].m, D)
HistLine ==
    IsHist(R) => \A i \in DOMAIN R.steps :
        /\ R.steps[i].accepted => GoodStep(R, i)        \* every reply: hash = version recorded on chain NOW
        \* whatever is (re-)announced is a manifest that was rightly accepted at or before this step
        /\ \A a \in DOMAIN R.steps[i].ann :
               \E j \in 1..i : GoodStep(R, j) /\ R.steps[j].hid = R.steps[i].ann[a]

\* What the provider ANNOUNCES (event.ManifestReceived on the real bus: the manifest the cluster service deploys) is
\* held to the same standard as what it replies: its hash is the expected version, it is one of the submitted
\* manifests (hash ids are injective on everything observed, HashSensitive) and that one matches the chain groups.
AnnounceLine ==
    /\ IsGate(R) => \A i \in DOMAIN R.announced :
           R.announced[i] = Expected(R) /\ R.announced[i] = R.sub /\ OracleMatch(M, D)
    /\ IsBatch(R) => \A i \in DOMAIN R.announced :
           /\ R.announced[i] = Expected(R)
           /\ \E k \in DOMAIN R.subs : R.subs[k].hid = R.announced[i] /\ OracleMatch(R.subs[k].m, D)

ImplSound    == (SoundLine \/ ~Bad("ImplSound"))
ImplComplete == (CompleteLine \/ ~Bad("ImplComplete"))
GateSound    == (GateLine \/ ~Bad("GateSound"))
AnnounceSound == (AnnounceLine \/ ~Bad("AnnounceSound"))
HistorySound == (HistLine \/ ~Bad("HistorySound"))

\* the hash observations, judged once (on the first line) as a whole
HashObs  == SelectSeq(Trace, IsHash)
HashRel  == {<<HashObs[i].kid, HashObs[i].hid>> : i \in DOMAIN HashObs}
HashKids == {HashObs[i].kid : i \in DOMAIN HashObs}
HashHids == {HashObs[i].hid : i \in DOMAIN HashObs}
\* same manifest => same version   (the relation kid -> hid is a function)
HashStable    == (l = 1) => (Cardinality(HashRel) = Cardinality(HashKids) \/ ~Bad("HashStable"))
\* different manifest => different version   (and it is injective)
HashSensitive == (l = 1) => (Cardinality(HashRel) = Cardinality(HashHids) \/ ~Bad("HashSensitive"))

----------------------------------------------------------------------------
(* conformance: the transcription says what the code says (always TRUE; prints the drifting lines) *)
\* Schemes with "ballast" add one and the same (unit, 1 replica, 1 http endpoint) element to every group of both
\* sides: Cross and the oracle are unchanged by it, ValidateManifest no longer sees an empty group or a manifest
\* without a global service.
ValidB(m, ballast) ==
    IF ballast THEN /\ Len(m) > 0
                    /\ \A i \in DOMAIN m : \A k \in DOMAIN m[i].recs : m[i].recs[k].c >= 1
                    /\ NamesDistinct(m)
    ELSE Valid(m)
ConformPairLine ==
    IsPair(R) => \A k \in DOMAIN R.res :
        /\ R.res[k].valid = ValidB(M, R.res[k].ballast)
        /\ R.res[k].cross = Cross(M, D)
        /\ R.res[k].cross_gs = Cross(M, D)      \* ValidateManifestWithGroupSpecs, the client-side twin
        /\ R.res[k].resrej = ResRejected(M, D)
        /\ R.res[k].accepted = (ValidB(M, R.res[k].ballast) /\ Cross(M, D) = "ok")
Announced(r) == {r.announced[i] : i \in DOMAIN r.announced}
ConformGateLine ==
    /\ IsGate(R) => LET acc == (R.sub = Expected(R) /\ ValidB(M, R.ballast) /\ Cross(M, D) = "ok") IN
                     /\ R.accepted = acc
                     /\ Announced(R) = (IF acc THEN {R.sub} ELSE {})
    /\ IsBatch(R) => LET acc(k) == /\ R.subs[k].hid = Expected(R)
                                    /\ ValidB(R.subs[k].m, R.ballast) /\ Cross(R.subs[k].m, D) = "ok" IN
                      /\ \A k \in DOMAIN R.subs : R.subs[k].accepted = acc(k)
                      /\ Announced(R) = {R.subs[k].hid : k \in {j \in DOMAIN R.subs : acc(j)}}
ConformHistLine ==
    IsHist(R) => \A i \in DOMAIN R.steps :
        R.steps[i].op = "sub" =>
            R.steps[i].accepted = (/\ R.steps[i].hid = ExpectedAt(R, i)
                                   /\ ValidB(R.steps[i].m, R.ballast) /\ Cross(R.steps[i].m, D) = "ok")
Conform == (ConformPairLine /\ ConformGateLine /\ ConformHistLine) \/ PrintT(<<"DRIFTLINE", l>>)
=============================================================================
