\* quick: <=2 groups over 2 names, 2 classes, <=1 record/group, counts 1..2, endpoints {00,10}
SPECIFICATION Spec
CONSTANTS
  UnitSeq <- U2
  GroupNames = {"g1","g2"}
  MaxGroups = 2
  MaxRecs = 1
  MaxCount = 2
  MCountMin = 1
  EpVals <- EpOne
  ChainCanonical = FALSE
  TenantMode = "forall"
  ExportMode = "focus"
  SampleMod = 199
  SampleRes = 0
  NearMod = 1
  SliceMod = 1
  SliceRes = 0
INVARIANTS ForAllManifests
CHECK_DEADLOCK FALSE
