----------------------------- MODULE MC_KubeJ1 -----------------------------
(* J1 over the exported universe: the inputs are read back from the ndjson file the Go harness also reads, so   *)
(* the model is checked on exactly the inputs that are run on the real code.                                    *)
EXTENDS KubePolicy, Json

FileInputs == LET s == ndJsonDeserialize("inputs.ndjson") IN {s[i] : i \in DOMAIN s}
=============================================================================
