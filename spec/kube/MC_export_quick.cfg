\* quick universe (about 2k inputs, all of them replayed on the real code)
CONSTANTS
  Inputs = {}
  MaxExpA = 2
  MaxExpC1 = 1
  MaxExpC2 = 1
  LevelIdx = {1, 2, 3}
  SizeIdx = {1, 3, 4, 6, 7}
  Owners = {"o1", "o2"}
  Providers = {"p1", "p2"}
  DSeqs = {"1", "11", "111"}
  GSeqs = {"1", "11", "111"}
  OSeqs = {"1", "11", "111"}
  DSeqsB = {"1", "65537", "4294967295", "4294967296", "4294967297", "8589934593", "9223372036854775808", "18446744073709551615"}
  SeqsB = {"1", "255", "256", "257", "65535", "65536", "65537", "4294967295"}
  MaxGroupsD = 20
  MaxGroupsG = 8
INIT ExportInit
NEXT ExportNext
