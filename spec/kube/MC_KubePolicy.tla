--------------------------- MODULE MC_KubePolicy ---------------------------
(* The input universe of C11 and its export.                                                                   *)
(* TLC enumerates the universe below and writes it out as ndjson, one abstract input per line (MC_export.cfg,     *)
(* one worker: TLC evaluates constant definitions once per worker). The same file is then read                  *)
(* J1: by MC_KubeJ1 -- TLC runs KubePolicy's state machine from every input (one initial state each) and checks *)
(*     the oracle on every intermediate cluster of the generator model (in parallel TLC runs over chunks);     *)
(* J2: by the Go harness, which concretises each input into a real LeaseID / manifest.Group / kube.Settings    *)
(*     and runs the real client.Deploy on it.                                                                  *)
(* (MC_quick.cfg / MC_thorough.cfg can also model-check this module directly: Inputs <- MCInputs.)             *)
(* The universe is a union of exhaustive slices (each exhausts some dimensions of the quantifier while the     *)
(* others sit at seed-chosen background values) plus seed-chosen picks from the full product.                  *)
EXTENDS KubePolicy, KubePicks, Json, SequencesExt

CONSTANTS MaxExpA,      \* slice A: one service, every expose list up to this length
          MaxExpC1,     \* slice C: two services, every pair of expose lists: up to this length on the first service
          MaxExpC2,     \*          ... and up to this length on the second
          LevelIdx,     \* commit levels used by slice B (indices into LevelTab)
          SizeIdx,      \* resource sizes used by slice B (indices into SizeTab)
          Owners, Providers, DSeqs, GSeqs, OSeqs,    \* slice F: the lease ids (chosen to collide as prefixes / concatenations)
          DSeqsB, SeqsB,                             \* namespace-map probes: boundary values of dseq (uint64), gseq/oseq (uint32)
          MaxGroupsD,   \* slice D: redeploy pairs over the first MaxGroupsD groups of GroupTab
          MaxGroupsG    \* slice G: pairs of groups for two leases over the first MaxGroupsG groups of GroupTab

E(port, as, proto, global, hosts) == [port |-> port, as |-> as, proto |-> proto, global |-> global, hosts |-> hosts]
ExposeTab == <<
  E(3306, 0,    "TCP", FALSE, <<>>),                  \*  1 local
  E(3306, 3307, "TCP", FALSE, <<>>),                  \*  2 local, as
  E(80,   0,    "TCP", FALSE, <<>>),                  \*  3 local port 80 (not an ingress: not global)
  E(80,   0,    "TCP", TRUE,  <<>>),                  \*  4 global http -> ingress
  E(80,   0,    "TCP", TRUE,  <<"a.example.com">>),   \*  5 global http with a tenant host
  E(8080, 80,   "TCP", TRUE,  <<>>),                  \*  6 global 8080 as 80 -> ingress
  E(5432, 0,    "TCP", TRUE,  <<>>),                  \*  7 global TCP -> node port
  E(5432, 6000, "TCP", TRUE,  <<>>),                  \*  8 global TCP, as
  E(80,   8080, "TCP", TRUE,  <<>>),                  \*  9 global 80 as 8080 -> node port, not ingress
  E(5353, 0,    "UDP", TRUE,  <<>>),                  \* 10 global UDP
  E(5353, 53,   "UDP", TRUE,  <<>>),                  \* 11 global UDP as 53
  E(80,   0,    "UDP", TRUE,  <<>>),                  \* 12 global UDP 80 (not an ingress: not TCP)
  E(53,   0,    "UDP", FALSE, <<>>),                  \* 13 local UDP
  E(5432, 0,    "TCP", FALSE, <<>>),                  \* 14 local TCP with the number of 7's global port
  E(8443, 0,    "TCP", TRUE,  <<>>) >>                \* 15 a second global TCP port
ExposeKinds == KRange(ExposeTab)

\* quantities are <<hi, lo>> = hi * 2^20 + lo (KubePolicy): cpu in millicpu, memory and storage in bytes
SizeTab == << [cpu |-> <<0, 100>>,    mem |-> <<128, 0>>,       sto |-> <<512, 0>>],
              [cpu |-> <<0, 10>>,     mem |-> <<1, 0>>,         sto |-> <<5, 0>>],
              [cpu |-> <<0, 1500>>,   mem |-> <<512, 1>>,       sto |-> <<1023, 1048575>>],
              [cpu |-> <<0, 15>>,     mem |-> <<0, 1000001>>,   sto |-> <<0, 7>>],
              [cpu |-> <<0, 1>>,      mem |-> <<0, 1>>,         sto |-> <<0, 1>>],
              [cpu |-> <<0, 4000>>,   mem |-> <<4096, 0>>,      sto |-> <<102400, 1>>],        \* 4 GiB = 2^32, 100 GiB + 1
              [cpu |-> <<0, 250>>,    mem |-> <<2048, 0>>,      sto |-> <<2047, 1048575>>],   \* 2^31, 2^31 - 1
              [cpu |-> <<0, 100000>>, mem |-> <<65536, 5>>,     sto |-> <<4095, 1048575>>] >> \* 64 GiB + 5, 2^32 - 1
LevelTab   == << <<1, 1>>, <<2, 1>>, <<3, 1>>, <<3, 2>>, <<1, 2>> >>
RuntimeTab == << "", "none", "gvisor" >>
Domain     == "apps.example.com"

\* ns: the abstract namespace name of the lease (injective by construction); the harness ignores it
\* sequence numbers are decimal strings (see KubePolicy)
Lease(o, d, g, s, p) == [owner |-> o, dseq |-> d, gseq |-> g, oseq |-> s, provider |-> p, ns |-> ToString(<<o, d, g, s, p>>)]
LeaseSet == {Lease(o, d, g, s, p) : o \in Owners, d \in DSeqs, g \in GSeqs, s \in OSeqs, p \in Providers}
\* namespace-map probes: lease ids for which the harness only computes the namespace name (no Deploy): every
\* combination of the boundary values, so that pairs congruent modulo 2^8, 2^16, 2^32 are all present
ProbeSet == {Lease(o, d, g, s, p) : o \in Owners, d \in DSeqsB, g \in SeqsB, s \in SeqsB, p \in Providers}
LeaseSeq == SetToSeq(LeaseSet)

Svc(name, np, pol, exps, cnt, size) ==
  [name |-> name, np |-> np, pol |-> pol, count |-> cnt, cpu |-> size.cpu, mem |-> size.mem, sto |-> size.sto, exposes |-> exps]
Web(exps, cnt, size) == Svc("web", "web-np", "akash-web-np", exps, cnt, size)
Db(exps, cnt, size)  == Svc("db", "db-np", "akash-db-np", exps, cnt, size)
Api(exps, cnt, size) == Svc("api", "api-np", "akash-api-np", exps, cnt, size)
Cache(exps, cnt, size) == Svc("cache", "cache-np", "akash-cache-np", exps, cnt, size)
Settings(lc, lm, ls, np, rt, static) ==
  [cpu |-> LevelTab[lc], mem |-> LevelTab[lm], sto |-> LevelTab[ls], netpol |-> np, runtime |-> RuntimeTab[rt],
   static |-> static, domain |-> Domain]
R(svcs, st) == [svcs |-> svcs, st |-> st]
In(slice, l, rounds) == [id |-> 0, slice |-> slice, lease |-> l, rounds |-> rounds, other |-> <<>>]
In2(slice, l, rounds, l2, r2) == [id |-> 0, slice |-> slice, lease |-> l, rounds |-> rounds, other |-> <<[lease |-> l2, r |-> r2]>>]

ExpLists(n) == UNION {[1..k -> ExposeKinds] : k \in 0..n}
BgSettings(np, static) == Settings(BgLevels[1], BgLevels[2], BgLevels[3], np, BgRuntime, static)
LeaseAt(ls, k) == ls[((k - 1) % Len(ls)) + 1]
BgL == LeaseAt(LeaseSeq, BgLease)
BgExp == [i \in DOMAIN BgExposes |-> ExposeTab[BgExposes[i]]]

SliceA == {In("A", BgL, <<R(<<Web(x, BgCount, SizeTab[BgSize])>>, BgSettings(np, st))>>) :
             x \in ExpLists(MaxExpA), np \in BOOLEAN, st \in BOOLEAN}
SliceB == {In("B", BgL, <<R(<<Web(BgExp, 1 + (sz % 2), SizeTab[sz])>>, Settings(lc, lm, ls, TRUE, rt, BgStatic))>>) :
             sz \in SizeIdx, lc \in LevelIdx, lm \in LevelIdx, ls \in LevelIdx, rt \in DOMAIN RuntimeTab}
SliceC == {In("C", BgL, <<R(<<Web(x, BgCount, SizeTab[BgSize]), Db(y, 1, SizeTab[(BgSize % Len(SizeTab)) + 1])>>, BgSettings(np, BgStatic))>>) :
             x \in ExpLists(MaxExpC1), y \in ExpLists(MaxExpC2), np \in BOOLEAN}

UpdExpose == << E(8080, 0, "TCP", TRUE, <<>>), E(8080, 0, "TCP", FALSE, <<>>), E(9090, 0, "TCP", TRUE, <<>>), E(7070, 7071, "UDP", TRUE, <<>>) >>
\* slice D: manifest updates (second Deploy on the same lease): every ordered pair of groups, policies on;
\* plus settings changing between the rounds
GroupTab == << <<Web(<<>>, 1, SizeTab[1])>>,
               <<Web(<<ExposeTab[7]>>, 1, SizeTab[1])>>,
               <<Web(<<ExposeTab[4]>>, 2, SizeTab[2])>>,
               <<Web(<<ExposeTab[1]>>, 1, SizeTab[1]), Db(<<ExposeTab[8]>>, 1, SizeTab[2])>>,
               <<Db(<<ExposeTab[10], ExposeTab[6]>>, 1, SizeTab[1])>>,
               <<Web(<<ExposeTab[11], ExposeTab[5]>>, 1, SizeTab[3]), Db(<<>>, 2, SizeTab[1])>>,
               <<Web(<<ExposeTab[6], ExposeTab[4]>>, 1, SizeTab[1])>>,
               <<Web(<<ExposeTab[9]>>, 1, SizeTab[4]), Db(<<ExposeTab[2]>>, 1, SizeTab[4])>>,
               \* both services open node ports; web also has, internal only, the port number db exposes globally
               <<Web(<<ExposeTab[15], ExposeTab[14]>>, 1, SizeTab[1]), Db(<<ExposeTab[7]>>, 1, SizeTab[2])>>,
               <<Web(<<ExposeTab[10]>>, 2, SizeTab[2]), Db(<<ExposeTab[8], ExposeTab[15]>>, 1, SizeTab[1])>>,
               \* three services
               <<Web(<<ExposeTab[7]>>, 1, SizeTab[1]), Db(<<ExposeTab[10]>>, 1, SizeTab[2]), Api(<<ExposeTab[15], ExposeTab[1]>>, 2, SizeTab[6])>>,
               <<Api(<<ExposeTab[8]>>, 1, SizeTab[7]), Web(<<ExposeTab[4]>>, 1, SizeTab[3]), Db(<<ExposeTab[15]>>, 1, SizeTab[8])>>,
               \* manifest updates in which a service keeps a node port but its port set changes (13 -> 14: 8080 becomes
               \* internal and 9090 is opened; 15: the ports swap services; 16: nothing global is left)
               <<Web(<<UpdExpose[1]>>, 1, SizeTab[1])>>,
               <<Web(<<UpdExpose[2], UpdExpose[3]>>, 1, SizeTab[1])>>,
               <<Web(<<UpdExpose[3]>>, 1, SizeTab[1]), Db(<<UpdExpose[1], UpdExpose[4]>>, 1, SizeTab[2])>>,
               <<Web(<<UpdExpose[2]>>, 1, SizeTab[1])>>,
               \* manifest updates that REPLACE / rename services at an equal or larger service count:
               \* 4 {web,db} -> 17 {web,api}, -> 18 {api,cache}, -> 19 {web,api,cache}; 5 {db} -> 1 {web}, 20 {cache}
               <<Web(<<ExposeTab[7]>>, 1, SizeTab[1]), Api(<<ExposeTab[10], ExposeTab[4]>>, 1, SizeTab[2])>>,
               <<Api(<<ExposeTab[8]>>, 1, SizeTab[1]), Cache(<<ExposeTab[5]>>, 2, SizeTab[3])>>,
               <<Web(<<ExposeTab[4]>>, 1, SizeTab[2]), Api(<<>>, 1, SizeTab[1]), Cache(<<ExposeTab[15]>>, 1, SizeTab[4])>>,
               <<Cache(<<ExposeTab[7], ExposeTab[6]>>, 1, SizeTab[1])>> >>
GroupsD == {GroupTab[i] : i \in 1..MaxGroupsD}
GroupsG == {GroupTab[i] : i \in 1..MaxGroupsG}
SliceD == {In("D", BgL, <<R(g1, BgSettings(TRUE, BgStatic)), R(g2, Settings(2, 1, 3, TRUE, BgRuntime, BgStatic))>>) : g1 \in GroupsD, g2 \in GroupsD}
     \cup {In("D", BgL, <<R(g, BgSettings(n1, BgStatic)), R(g, Settings(1, 2, 1, n2, 3, ~BgStatic))>>) : g \in GroupsD, n1 \in BOOLEAN, n2 \in BOOLEAN}

\* slice E: picks from the full product
PickExps(a, b) == (IF a = 0 THEN <<>> ELSE <<ExposeTab[a]>>) \o (IF b = 0 THEN <<>> ELSE <<ExposeTab[b]>>)
PickInput(ls, p) ==
  In("E", LeaseAt(ls, p[16]),
     <<R(<<Web(PickExps(p[2], p[3]), p[6], SizeTab[p[8]])>> \o (IF p[1] = 2 THEN <<Db(PickExps(p[4], p[5]), p[7], SizeTab[p[9]])>> ELSE <<>>),
         Settings(p[10], p[11], p[12], p[13] = 1, p[14], p[15] = 1))>>)
SliceE == LET ls == LeaseSeq IN {PickInput(ls, p) : p \in Picks}

\* slice F: every lease id of the collision set, one small group, policies on
SliceF == {In("F", l, <<R(<<Web(<<ExposeTab[7]>>, 1, SizeTab[2])>>, Settings(2, 2, 2, TRUE, 1, FALSE))>>) : l \in LeaseSet}

\* slice G: two leases in one cluster. The main lease (policies on) shares the cluster with every other lease id of the
\* collision set; and every ordered pair of groups is deployed for one fixed pair of leases (the second one with policies
\* on / off), the main lease once and twice
NeighbourOf(ls) == LeaseAt(ls, BgLease + 1)
SliceG == LET ls == LeaseSeq IN
  {In2("G", BgL, <<R(GroupTab[4], BgSettings(TRUE, BgStatic))>>, l, R(GroupTab[6], BgSettings(TRUE, BgStatic))) : l \in LeaseSet \ {BgL}}
  \cup {In2("G", BgL, <<R(g1, BgSettings(TRUE, BgStatic))>>, NeighbourOf(ls), R(g2, BgSettings(np, BgStatic))) : g1 \in GroupsG, g2 \in GroupsG, np \in BOOLEAN}
  \cup {In2("G", BgL, <<R(g1, BgSettings(TRUE, BgStatic)), R(g2, BgSettings(TRUE, BgStatic))>>, NeighbourOf(ls), R(g1, BgSettings(TRUE, BgStatic))) : g1 \in GroupsD, g2 \in GroupsG}

\* ... and two leases in one cluster whose ids differ only by a multiple of 2^8 / 2^16 / 2^32 in one sequence number
\* (different manifests, so that each lease's stale-resource cleanup would hit the other's workloads if they shared
\* a namespace), in both orders
Congruent == { <<"1", "4294967297">>, <<"1", "8589934593">>, <<"1", "65537">>, <<"1", "257">>, <<"255", "65535">>,
               <<"4294967295", "18446744073709551615">>, <<"11", "1">> }
Congruent32 == {c \in Congruent : c \notin {<<"1", "4294967297">>, <<"1", "8589934593">>, <<"4294967295", "18446744073709551615">>}}
TwinPairs == {<<Lease("o1", c[1], "1", "1", "p1"), Lease("o1", c[2], "1", "1", "p1")>> : c \in Congruent}
             \cup {<<Lease("o1", "1", c[1], "1", "p1"), Lease("o1", "1", c[2], "1", "p1")>> : c \in Congruent32}
             \cup {<<Lease("o1", "1", "1", c[1], "p1"), Lease("o1", "1", "1", c[2], "p1")>> : c \in Congruent32}
             \cup {<<Lease("o1", "1", "11", "1", "p1"), Lease("o1", "11", "1", "1", "p1")>>,
                    <<Lease("o1", "1", "1", "11", "p1"), Lease("o1", "11", "11", "1", "p1")>>}
SliceH == UNION {{In2("H", tp[1], <<R(GroupTab[4], BgSettings(TRUE, BgStatic))>>, tp[2], R(GroupTab[6], BgSettings(TRUE, BgStatic))),
                  In2("H", tp[2], <<R(GroupTab[6], BgSettings(TRUE, BgStatic))>>, tp[1], R(GroupTab[4], BgSettings(TRUE, BgStatic)))} : tp \in TwinPairs}

InputSeq == SetToSeq(SliceH \cup SliceA \cup SliceB \cup SliceC \cup SliceD \cup SliceE \cup SliceF \cup SliceG)
NumberedSeq == LET s == InputSeq IN [i \in 1..Len(s) |-> [s[i] EXCEPT !.id = i]]
MCInputs == KRange(NumberedSeq)

ASSUME ndJsonSerialize("inputs.ndjson", NumberedSeq)
ASSUME ndJsonSerialize("probes.ndjson", SetToSeq(ProbeSet))

\* export-only run: no behaviour to explore
ExportInit == cur = [rounds |-> <<>>, other |-> <<>>] /\ rnd = 0 /\ todo = <<>> /\ cluster = {}
ExportNext == UNCHANGED vars
ASSUME PrintT([universe |-> Len(InputSeq), A |-> Cardinality(SliceA), B |-> Cardinality(SliceB), C |-> Cardinality(SliceC),
               D |-> Cardinality(SliceD), E |-> Cardinality(SliceE), F |-> Cardinality(SliceF), G |-> Cardinality(SliceG), H |-> Cardinality(SliceH), probes |-> Cardinality(ProbeSet),
               leases |-> Cardinality(LeaseSet), exposeLists |-> Cardinality(ExpLists(MaxExpA))])
=============================================================================
