----------------------------- MODULE KubePicks -----------------------------
(* Seed-dependent part of the input universe. tools/checks/kube.py overwrites this module in TLC's scratch copy  *)
(* on every run (background values of the exhaustive slices and the random picks from the full product are     *)
(* drawn from VERIF_SEED); this committed version is the seed-1 default for running TLC by hand.                *)
(* Every value is an index into the tables of MC_KubePolicy.                                                   *)
BgLease   == 1        \* index into LeaseSeq
BgSize    == 1        \* index into SizeTab
BgCount   == 1
BgLevels  == <<1, 1, 1>>   \* indices into LevelTab: cpu, memory, storage
BgRuntime == 1        \* index into RuntimeTab
BgStatic  == FALSE
BgExposes == <<4>>    \* indices into ExposeTab
\* <<nsvc, e11, e12, e21, e22, cnt1, cnt2, size1, size2, lcpu, lmem, lsto, netpol, runtime, static, lease>>; e = 0: none
Picks == { <<2, 7, 4, 1, 0, 1, 2, 1, 2, 2, 3, 1, 1, 3, 1, 2>>,
           <<1, 10, 8, 0, 0, 2, 1, 3, 1, 3, 1, 2, 1, 1, 0, 3>> }
=============================================================================
