\* thorough universe: two services with every pair of expose lists (up to length 2 and 1), all commit levels (incl. 3/2 and 1/2)
\* and sizes, a larger lease collision set, 25k picks from the full product
CONSTANTS
  Inputs <- MCInputs
  MaxExpA = 2
  MaxExpC1 = 2
  MaxExpC2 = 1
  LevelIdx = {1, 2, 3, 4, 5}
  SizeIdx = {1, 2, 3, 4, 5, 6, 7, 8}
  Owners = {"o1", "o2"}
  Providers = {"p1", "p2"}
  DSeqs = {"1", "11", "111", "1111"}
  GSeqs = {"1", "11", "111", "1111"}
  OSeqs = {"1", "11", "111", "1111"}
  DSeqsB = {"1", "65537", "4294967295", "4294967296", "4294967297", "8589934593", "9223372036854775808", "18446744073709551615"}
  SeqsB = {"1", "255", "256", "257", "65535", "65536", "65537", "4294967295"}
  MaxGroupsD = 20
  MaxGroupsG = 12
INIT Init
NEXT Next
INVARIANTS TypeOK InvPlacement InvSandbox InvLimits InvIngress InvEgress InvIngressOther InvEgressOther InvPositive InvComplete InvNoLeftovers InvTornDown
PROPERTIES Isolation
