----------------------------- MODULE KubePolicy -----------------------------
(***************************************************************************************************************)
(* C11 -- tenant workloads are sandboxed and capped to leased resources.                                        *)
(*                                                                                                             *)
(* Three things live here, and all three are used both on the abstract model (J1) and on objects recorded      *)
(* from the real provider/cluster/kube package (J3, module KubePolicyTrace):                                   *)
(*                                                                                                             *)
(*  1. THE POLICY ORACLE: declarative predicates over a set of Kubernetes objects in canonical record form --  *)
(*     InNamespace, Sandboxed, LimitsLeased, and Kubernetes NetworkPolicy semantics Admits(pols, dir, pod,     *)
(*     peer, port) evaluated over a packet universe (NetIngressOK, NetEgressOK). These are property C11.       *)
(*  2. THE GENERATOR MODEL: what client.Deploy does, one action per apply* call of client.go:165-243           *)
(*     (applyNS, applyNetPolicies, applyManifest, cleanupStaleResources, then per service applyDeployment,     *)
(*     applyService local/global, applyIngress per HTTP expose), each a get followed by create-or-update       *)
(*     against the cluster state, with the update() semantics of each builder. Step(...) returns the API       *)
(*     calls the step issues (what the fake clientset records) and the new cluster.                            *)
(*  3. THE STATE MACHINE: pick an input (lease, 1..2 rounds of (manifest group, settings)), run the rounds     *)
(*     step by step. Invariants = the oracle on every intermediate cluster.                                    *)
(*                                                                                                             *)
(* Canonical object records (the Go harness projects real objects to exactly this; KubePolicyTrace normalises  *)
(* JSON arrays into the sets used here):                                                                       *)
(*   common     kind, ans (namespace the API call was made in; "" = cluster scoped), name,                     *)
(*              mns (metadata.namespace inside the object), labels (set of <<key, value>>)                     *)
(*   namespace  -                                                                                              *)
(*   manifest   -                                      (the akash CRD; lives in the provider's own namespace)  *)
(*   netpol     podSel, types, ingress, egress         rule = [ports: set of [proto, port, named],             *)
(*                                                             peers: set of peer]                             *)
(*   deployment selector, tmplLabels, replicas, automount, runtime, hostNet, hostPID, hostIPC, nvolumes, sa,   *)
(*              containers: seq of [name, privileged, ape, caps, limits, requests, ports]                      *)
(*   service    selector (set of pairs), type, ports: set of [port, target, proto]                             *)
(*   ingress    rules: set of [host, svc, port]                                                                *)
(* selector = [labels: set of pairs, exprs: set of [key, op, values]]; tri-state booleans are the strings      *)
(* "true" / "false" / "unset"; an unset quantity is -1.                                                        *)
(***************************************************************************************************************)
EXTENDS Integers, Sequences, FiniteSets, TLC

CONSTANT Inputs     \* set of [id, lease, rounds]; defined by the MC module / the trace module

-----------------------------------------------------------------------------
(* names the code uses (builder.go:33-45)                                                                      *)
LManaged == "akash.network"
LNs      == "akash.network/namespace"
LSvc     == "akash.network/manifest-service"
LOwner   == "akash.network/lease.id.owner"
LDSeq    == "akash.network/lease.id.dseq"
LGSeq    == "akash.network/lease.id.gseq"
LOSeq    == "akash.network/lease.id.oseq"
LProv    == "akash.network/lease.id.provider"
LIngress == "app.kubernetes.io/name"
VIngress == "ingress-nginx"
MainPolicy == "akash-deployment-restrictions"
ProviderNS == "lease"            \* the provider's own namespace (client.ns); the harness uses the same name

KRange(f) == {f[i] : i \in DOMAIN f}
KMax(a, b) == IF a >= b THEN a ELSE b

RECURSIVE Flatten(_)
Flatten(ss) == IF ss = <<>> THEN <<>> ELSE Head(ss) \o Flatten(Tail(ss))

-----------------------------------------------------------------------------
(* IPv4 and CIDR arithmetic on octet tuples (TLC integers are 32 bit signed: addresses are never one number)  *)
Hi(ip) == ip[1] * 256 + ip[2]
Lo(ip) == ip[3] * 256 + ip[4]
InCIDR(ip, c) ==       \* c = <<a, b, c, d, prefixlen>>
  LET len == c[5] IN
  IF len = 0 THEN TRUE
  ELSE IF len <= 16 THEN Hi(ip) \div (2 ^ (16 - len)) = Hi(c) \div (2 ^ (16 - len))
  ELSE Hi(ip) = Hi(c) /\ Lo(ip) \div (2 ^ (32 - len)) = Lo(c) \div (2 ^ (32 - len))

ZeroCidr == <<0, 0, 0, 0, 0>>
RFC1918  == {<<10, 0, 0, 0, 8>>, <<172, 16, 0, 0, 12>>, <<192, 168, 0, 0, 16>>}
IsPrivate(ip) == \E c \in RFC1918 : InCIDR(ip, c)

-----------------------------------------------------------------------------
(* label selectors: metav1.LabelSelector and the string selectors of list options                              *)
NoSel == [labels |-> {}, exprs |-> {}]
Sel(lbls) == [labels |-> lbls, exprs |-> {}]

ExprMatches(e, lbls) ==
  LET vals == {p[2] : p \in {q \in lbls : q[1] = e.key}} IN
  CASE e.op \in {"In", "in", "=", "=="}  -> vals # {} /\ vals \subseteq e.values
    [] e.op \in {"NotIn", "notin", "!="} -> vals \cap e.values = {}
    [] e.op \in {"Exists", "exists"}     -> vals # {}
    [] e.op \in {"DoesNotExist", "!"}    -> vals = {}
    [] OTHER -> FALSE

SelMatches(sel, lbls) == sel.labels \subseteq lbls /\ \A e \in sel.exprs : ExprMatches(e, lbls)

-----------------------------------------------------------------------------
(* NetworkPolicy semantics (networking.k8s.io/v1)                                                              *)
(* endpoint = [kind: "pod" | "ext", ns, nsLabels, podLabels, ip, tag]                                           *)
PeerMatches(peer, polNs, ep) ==
  IF peer.hasIp
  THEN InCIDR(ep.ip, peer.cidr) /\ \A x \in peer.except : ~InCIDR(ep.ip, x)
  ELSE /\ ep.kind = "pod"
       /\ IF peer.hasNs THEN SelMatches(peer.nsSel, ep.nsLabels) ELSE ep.ns = polNs
       /\ peer.hasPod => SelMatches(peer.podSel, ep.podLabels)

PortMatches(pp, port) ==      \* port = <<proto, number>>; a named policy port is taken to match (conservative)
  /\ (IF pp.proto = "" THEN "TCP" ELSE pp.proto) = port[1]
  /\ pp.named \/ pp.port = -1 \/ pp.port = port[2]

RuleAdmits(rule, polNs, ep, port) ==
  /\ rule.ports = {} \/ \E pp \in rule.ports : PortMatches(pp, port)
  /\ rule.peers = {} \/ \E peer \in rule.peers : PeerMatches(peer, polNs, ep)

EffTypes(pol) == IF pol.types # {} THEN pol.types
                 ELSE {"Ingress"} \cup (IF pol.egress # {} THEN {"Egress"} ELSE {})
RulesOf(pol, dir) == IF dir = "Ingress" THEN pol.ingress ELSE pol.egress

PolicyApplies(pol, pod, dir) ==
  pol.ans = pod.ns /\ SelMatches(pol.podSel, pod.podLabels) /\ dir \in EffTypes(pol)

\* traffic between pod and the peer endpoint, in direction dir as seen from pod, on destination port
\* (network policies do not apply to a pod that runs in the host's network namespace)
Admits(pols, dir, pod, ep, port) ==
  LET sel == {p \in pols : PolicyApplies(p, pod, dir)} IN
  pod.hostNet \/ sel = {} \/ \E p \in sel : \E r \in RulesOf(p, dir) : RuleAdmits(r, p.ans, ep, port)

-----------------------------------------------------------------------------
(* the packet universe                                                                                         *)
Pod(tag, ns, nsl, pl, ip) == [kind |-> "pod", tag |-> tag, ns |-> ns, nsLabels |-> nsl, podLabels |-> pl, ip |-> ip, hostNet |-> FALSE]
Ext(tag, ip) == [kind |-> "ext", tag |-> tag, ns |-> "", nsLabels |-> {}, podLabels |-> {}, ip |-> ip, hostNet |-> FALSE]

OtherNs == "othertenantnamespace0000000000000000000000000"
OtherNsLabels  == {<<LManaged, "true">>, <<LNs, OtherNs>>, <<LOwner, "someoneelse">>}
OtherPodLabels == {<<LManaged, "true">>, <<LNs, OtherNs>>, <<LSvc, "web">>}
IngNsLabels  == {<<LIngress, VIngress>>, <<"kubernetes.io/metadata.name", "ingress-nginx">>}
IngPodLabels == {<<LIngress, VIngress>>, <<"app.kubernetes.io/component", "controller">>}

Remote == {
  Pod("other-tenant-pod-10",        OtherNs, OtherNsLabels, OtherPodLabels, <<10, 42, 1, 7>>),
  Pod("other-tenant-pod-172",       OtherNs, OtherNsLabels, OtherPodLabels, <<172, 17, 1, 7>>),
  Pod("other-tenant-pod-192",       OtherNs, OtherNsLabels, OtherPodLabels, <<192, 168, 1, 7>>),
  Pod("other-tenant-pod-ingresslabel", OtherNs, OtherNsLabels, OtherPodLabels \cup {<<LIngress, VIngress>>}, <<10, 42, 1, 8>>),
  Pod("ingress-controller",         "ingress-nginx", IngNsLabels, IngPodLabels, <<10, 42, 2, 2>>),
  Pod("kube-system-pod",            "kube-system", {<<"kubernetes.io/metadata.name", "kube-system">>}, {<<"k8s-app", "kube-dns">>}, <<10, 42, 3, 3>>),
  Pod("provider-namespace-pod",     ProviderNS, {<<LManaged, "true">>}, {<<"app", "akash-provider">>}, <<10, 42, 4, 4>>),
  Pod("default-namespace-pod",      "default", {}, {}, <<172, 20, 0, 9>>),
  Ext("public-8.8.8.8",             <<8, 8, 8, 8>>),
  Ext("public-11.0.0.0",            <<11, 0, 0, 0>>),
  Ext("public-9.255.255.255",       <<9, 255, 255, 255>>),
  Ext("public-172.15.255.255",      <<172, 15, 255, 255>>),
  Ext("public-172.32.0.0",          <<172, 32, 0, 0>>),
  Ext("public-192.167.255.255",     <<192, 167, 255, 255>>),
  Ext("public-192.169.0.0",         <<192, 169, 0, 0>>),
  Ext("private-10.0.0.1",           <<10, 0, 0, 1>>),
  Ext("private-10.255.255.255",     <<10, 255, 255, 255>>),
  Ext("private-172.16.0.1",         <<172, 16, 0, 1>>),
  Ext("private-172.31.255.254",     <<172, 31, 255, 254>>),
  Ext("private-192.168.0.1",        <<192, 168, 0, 1>>),
  Ext("private-192.168.255.254",    <<192, 168, 255, 254>>),
  Ext("linklocal-169.254.20.10",    <<169, 254, 20, 10>>),
  Ext("linklocal-169.254.169.254",  <<169, 254, 169, 254>>) }

EgressPorts == {<<"UDP", 53>>, <<"TCP", 53>>, <<"TCP", 443>>, <<"UDP", 123>>, <<"TCP", 6443>>, <<"TCP", 10250>>}

\* the lease's own pods, as the recorded / generated objects define them: one per deployment, living where the
\* deployment was applied, carrying the pod template's labels; its namespace carries the labels of the Namespace
\* object of that name (if any was generated)
NsLabelsOf(objs, ns) == UNION {o.labels : o \in {x \in objs : x.kind = "namespace" /\ x.name = ns}}
LocalPods(objs) ==
  {[Pod(d.name, d.ans, NsLabelsOf(objs, d.ans), d.tmplLabels, <<10, 42, 0, 5>>) EXCEPT !.hostNet = d.hostNet] :
     d \in {o \in objs : o.kind = "deployment"}}
Pols(objs) == {o \in objs : o.kind = "netpol"}

ExtPort(e) == IF e.as = 0 THEN e.port ELSE e.as
ShouldBeIngress(e) == e.proto = "TCP" /\ e.global /\ ExtPort(e) = 80
AllExposes(svcs) == UNION {KRange(svcs[i].exposes) : i \in DOMAIN svcs}
\* "ports the tenant exposed globally": the global exposes of the service the pod belongs to (a policy selecting the
\* pods of service s may open to the outside only what s exposes globally), by either number the tenant wrote
\* (container port or `as` port), IN THE CURRENT MANIFEST (the one deployed last / being deployed). Only a pod whose
\* service is not in the current manifest (it is about to be cleaned up) is judged by the manifests deployed before.
GlobalPortsOf(svcs, name) ==
  UNION {{<<e.proto, e.port>>, <<e.proto, ExtPort(e)>>} :
           e \in {x \in UNION {KRange(svcs[i].exposes) : i \in {j \in DOMAIN svcs : svcs[j].name = name}} : x.global}}
Flip(p) == IF p = "TCP" THEN "UDP" ELSE "TCP"
IngressPorts(svcs) ==
  UNION {{<<e.proto, e.port>>, <<e.proto, ExtPort(e)>>, <<Flip(e.proto), e.port>>, <<Flip(e.proto), ExtPort(e)>>} : e \in AllExposes(svcs)}
  \cup {<<"TCP", 22>>, <<"TCP", 9999>>, <<"UDP", 9999>>, <<"TCP", 80>>, <<"TCP", 443>>}

FromIngressController(ep) == ep.kind = "pod" /\ ep.ns = "ingress-nginx"
IsDNS(port) == port[2] = 53

\* C11, network clauses. Witness sets (empty = holds) so that a failure names its packet class.
\* extra: further remote endpoints (the pods of another lease actually generated into the same cluster)
\* cursvcs: the services of the current manifest; allsvcs: the services of every manifest of the lease deployed so far
\* (flattened) -- their ports (old ones included) are the ports that are tried
AllowedFromOutside(cursvcs, allsvcs, name) ==
  IF \E i \in DOMAIN cursvcs : cursvcs[i].name = name THEN GlobalPortsOf(cursvcs, name) ELSE GlobalPortsOf(allsvcs, name)
BadIngressX(objs, cursvcs, allsvcs, extra) ==
  LET pols == Pols(objs) IN
  {<<t[2].tag, t[3]>> : t \in
     {t \in LocalPods(objs) \X (Remote \cup extra) \X IngressPorts(allsvcs) :
        /\ t[2].kind = "ext" \/ t[2].ns # t[1].ns
        /\ Admits(pols, "Ingress", t[1], t[2], t[3])
        /\ ~FromIngressController(t[2])
        /\ t[3] \notin AllowedFromOutside(cursvcs, allsvcs, t[1].tag)}}
BadEgressX(objs, extra) ==
  LET pols == Pols(objs) IN
  {<<t[2].tag, t[3]>> : t \in
     {t \in LocalPods(objs) \X (Remote \cup extra) \X EgressPorts :
        /\ IsPrivate(t[2].ip)
        /\ t[2].kind = "ext" \/ t[2].ns # t[1].ns
        /\ ~IsDNS(t[3])
        /\ Admits(pols, "Egress", t[1], t[2], t[3])}}
BadIngress(objs, svcs) == BadIngressX(objs, svcs, svcs, {})
BadEgress(objs) == BadEgressX(objs, {})
\* what belongs to the lease whose namespace is ns: its Namespace object and everything stored in that namespace
Mine(objs, ns) == {o \in objs : (o.kind = "namespace" /\ o.name = ns) \/ (o.kind # "namespace" /\ o.ans = ns)}
\* the pods of every other lease in the same cluster, as endpoints
NeighbourPods(objs, ns) ==
  {Pod("neighbour-lease-pod", d.ans, NsLabelsOf(objs, d.ans), d.tmplLabels, <<10, 42, 7, 7>>) :
     d \in {o \in objs : o.kind = "deployment" /\ o.ans # ns}}
NetIngressOK(objs, svcs) == BadIngress(objs, svcs) = {}
NetEgressOK(objs) == BadEgress(objs) = {}

\* sanity of the semantics above (J1 only): the generated policies are not vacuous -- same-namespace traffic, the
\* ingress controller, public egress, link-local DNS and the opened global ports do get through
SamePod(objs, ns) == Pod("same-ns-pod", ns, NsLabelsOf(objs, ns), {<<LNs, ns>>}, <<10, 42, 0, 6>>)
NetPositive(objs, ns, svcs) ==
  LET pols == Pols(objs)
      ing == CHOOSE e \in Remote : e.tag = "ingress-controller"
      pub == CHOOSE e \in Remote : e.tag = "public-8.8.8.8"
      dns == CHOOSE e \in Remote : e.tag = "linklocal-169.254.20.10" IN
  \A pod \in LocalPods(objs) :
    /\ Admits(pols, "Ingress", pod, SamePod(objs, ns), <<"TCP", 9999>>)
    /\ Admits(pols, "Egress", pod, SamePod(objs, ns), <<"TCP", 9999>>)
    /\ Admits(pols, "Ingress", pod, ing, <<"TCP", 80>>)
    /\ Admits(pols, "Egress", pod, pub, <<"TCP", 443>>)
    /\ Admits(pols, "Egress", pod, dns, <<"UDP", 53>>)
    /\ \A i \in DOMAIN svcs : svcs[i].name = pod.tag =>
         \A e \in KRange(svcs[i].exposes) : (e.global /\ ~ShouldBeIngress(e)) => Admits(pols, "Ingress", pod, pub, <<e.proto, ExtPort(e)>>)

-----------------------------------------------------------------------------
(* C11, placement and container clauses                                                                        *)
Workload(o) == o.kind \in {"netpol", "deployment", "service", "ingress"}

BadPlacement(objs, ns) ==
  {<<o.kind, "name">> : o \in {x \in objs : x.kind = "namespace" /\ x.name \notin {ns, ProviderNS}}}
  \cup {<<o.kind, "applied-in">> : o \in {x \in objs : Workload(x) /\ x.ans # ns}}
  \cup {<<o.kind, "metadata.namespace">> : o \in {x \in objs : Workload(x) /\ x.mns \notin {"", ns}}}
InNamespace(objs, ns) == BadPlacement(objs, ns) = {}

\* After a Deploy, every workload object of the lease's namespace belongs to a service the CURRENT manifest names
\* (deployment / service / ingress by their manifest-service label, a per-service policy by its name): a workload of
\* a service the manifest no longer names runs on resources nothing is leased for and keeps its ports reachable.
\* (A leftover policy is only counted while policies are enabled: with them disabled nothing prunes or enforces them.)
SvcNames(svcs) == {svcs[i].name : i \in DOMAIN svcs}
SvcLabelsOf(o) == {p[2] : p \in {q \in o.labels : q[1] = LSvc}}
Leftovers(objs, ns, svcs, netpol) ==
  {<<o.kind, o.name>> : o \in {x \in Mine(objs, ns) :
      \/ x.kind \in {"deployment", "service", "ingress"} /\ SvcLabelsOf(x) \cap SvcNames(svcs) = {}
      \/ x.kind = "netpol" /\ netpol /\ x.name # MainPolicy /\ x.name \notin {svcs[i].pol : i \in DOMAIN svcs}}}

\* API calls that change or delete something outside the lease's namespace (calls: a set of recorded / modelled
\* calls [verb, kind, ans, ...]). The akash Manifest CRD lives in the provider namespace by design.
Mutating == {"create", "update", "patch", "delete", "delete-set", "delete-collection"}
BadCalls(calls, ns) ==
  {<<a.verb, a.kind>> : a \in {x \in calls : x.verb \in Mutating /\
     CASE x.kind = "manifest" -> FALSE
       [] x.kind = "namespace" -> (IF x.verb = "delete-set" THEN x.names # {ns} ELSE x.name # ns)
       [] OTHER -> x.ans # ns}}

Containers(objs) == UNION {{[dep |-> d.name, c |-> d.containers[i]] : i \in DOMAIN d.containers} : d \in {o \in objs : o.kind = "deployment"}}

\* privileged unset means false in Kubernetes; allowPrivilegeEscalation and automountServiceAccountToken unset mean true;
\* a container that is handed additional capabilities is not unprivileged
BadSandbox(objs) ==
  {<<d.name, "automountServiceAccountToken">> : d \in {o \in objs : o.kind = "deployment" /\ o.automount # "false"}}
  \cup {<<x.dep, "privileged">> : x \in {y \in Containers(objs) : y.c.privileged = "true"}}
  \cup {<<x.dep, "allowPrivilegeEscalation">> : x \in {y \in Containers(objs) : y.c.ape # "false"}}
  \cup {<<x.dep, "capabilities">> : x \in {y \in Containers(objs) : y.c.caps > 0}}
Sandboxed(objs) == BadSandbox(objs) = {}

\* A quantity (millicpu, bytes) is <<hi, lo>> = hi * 2^20 + lo with 0 <= lo < 2^20, because TLC integers are 32 bit
\* and leases of 2 GiB and more must be expressible; an unset quantity is <<-1, 0>>.
QUnit == 1048576
QLe(a, b) == a[1] < b[1] \/ (a[1] = b[1] /\ a[2] <= b[2])
QNorm(hi, lo) == <<hi + lo \div QUnit, lo % QUnit>>
QMul(a, d) == QNorm(a[1] * d, a[2] * d)                       \* d small
QDivRound(a, n) ==                                            \* a / n rounded half up, n small
  LET rest == (a[1] % n) * QUnit + a[2] IN QNorm(a[1] \div n, rest \div n + (IF 2 * (rest % n) >= n THEN 1 ELSE 0))
Leased(svc) == [cpu |-> svc.cpu, memory |-> svc.mem, storage |-> svc.sto]
ResNames == {"cpu", "memory", "storage"}
\* svcsets: the manifests (sequences of services) that may account for a deployment: the current round's, and for
\* objects that survive from an earlier round also that round's
BadLimits(objs, svcsets) ==
  {<<x.dep, "limits">> : x \in {y \in Containers(objs) :
      ~\E svcs \in svcsets : \E i \in DOMAIN svcs : svcs[i].name = y.dep /\ y.c.limits = Leased(svcs[i])}}
  \cup {<<x.dep, "requests">> : x \in {y \in Containers(objs) : \E r \in ResNames : ~QLe(y.c.requests[r], y.c.limits[r])}}
LimitsLeased(objs, svcsets) == BadLimits(objs, svcsets) = {}

-----------------------------------------------------------------------------
(* THE GENERATOR MODEL                                                                                         *)
(* settings: [cpu, mem, sto: <<n, d>> commit level n/d; netpol; runtime; static; domain]                       *)
(* service:  [name, np, pol, count, cpu, mem, sto, exposes: seq of [port, as, proto, global, hosts]]           *)
(* lease:    [owner, dseq, gseq, oseq, provider, ns]; dseq (uint64), gseq, oseq (uint32) are decimal STRINGS:  *)
(*           TLC integers are 32 bit signed and the sequence numbers that matter sit at 2^16, 2^32, 2^63, 2^64 *)

\* util.ComputeCommittedResources: round(v / level), at least 1; level <= 1 commits the full value
Committed(v, lvl) ==
  IF lvl[1] <= lvl[2] THEN v
  ELSE LET c == QDivRound(QMul(v, lvl[2]), lvl[1]) IN IF c = <<0, 0>> THEN <<0, 1>> ELSE c

BaseLabels(ns) == {<<LManaged, "true">>, <<LNs, ns>>}
LeaseLabels(ns, l) == BaseLabels(ns) \cup {<<LOwner, l.owner>>, <<LDSeq, l.dseq>>, <<LGSeq, l.gseq>>,
                                           <<LOSeq, l.oseq>>, <<LProv, l.provider>>}
SvcLabels(ns, name) == BaseLabels(ns) \cup {<<LSvc, name>>}

\* prepareEnvironment (apply.go): the provider's own namespace exists before any Deploy
ProviderNamespaceObj == [kind |-> "namespace", ans |-> "", name |-> ProviderNS, mns |-> "", labels |-> {<<LManaged, "true">>}]
NamespaceObj(ns, l) == [kind |-> "namespace", ans |-> "", name |-> ns, mns |-> "", labels |-> LeaseLabels(ns, l)]
ManifestObj(ns, l)  == [kind |-> "manifest", ans |-> ProviderNS, name |-> ns, mns |-> "", labels |-> LeaseLabels(ns, l)]

NsPeer(sel)         == [hasNs |-> TRUE, nsSel |-> sel, hasPod |-> FALSE, podSel |-> NoSel, hasIp |-> FALSE, cidr |-> ZeroCidr, except |-> {}]
NsPodPeer(nsel, ps) == [hasNs |-> TRUE, nsSel |-> nsel, hasPod |-> TRUE, podSel |-> ps, hasIp |-> FALSE, cidr |-> ZeroCidr, except |-> {}]
IpPeer(cidr, ex)    == [hasNs |-> FALSE, nsSel |-> NoSel, hasPod |-> FALSE, podSel |-> NoSel, hasIp |-> TRUE, cidr |-> cidr, except |-> ex]
PPort(proto, n)     == [proto |-> proto, port |-> n, named |-> FALSE]

MainPolicyObj(ns) ==
  [kind |-> "netpol", ans |-> ns, name |-> MainPolicy, mns |-> ns, labels |-> BaseLabels(ns),
   podSel |-> NoSel, types |-> {"Ingress", "Egress"},
   ingress |-> {[ports |-> {}, peers |-> {NsPeer(Sel({<<LNs, ns>>}))}],
                [ports |-> {}, peers |-> {NsPodPeer(Sel({<<LIngress, VIngress>>}), Sel({<<LIngress, VIngress>>}))}]},
   egress  |-> {[ports |-> {}, peers |-> {NsPeer(Sel({<<LNs, ns>>}))}],
                [ports |-> {PPort("UDP", 53)}, peers |-> {IpPeer(<<169, 254, 0, 0, 16>>, {})}],
                [ports |-> {}, peers |-> {IpPeer(ZeroCidr, RFC1918)}]}]

NodePortExposes(svc) == {e \in KRange(svc.exposes) : e.global /\ ~ShouldBeIngress(e)}
SvcPolicyObj(ns, svc) ==
  [kind |-> "netpol", ans |-> ns, name |-> svc.pol, mns |-> ns, labels |-> BaseLabels(ns),
   podSel |-> Sel({<<LSvc, svc.name>>}), types |-> {"Ingress"},
   ingress |-> {[ports |-> {PPort(e.proto, ExtPort(e)) : e \in NodePortExposes(svc)}, peers |-> {}]},
   egress  |-> {}]

Container(svc, st) ==
  [name |-> svc.name, privileged |-> "false", ape |-> "false", caps |-> 0,
   limits   |-> Leased(svc),
   requests |-> [cpu |-> Committed(svc.cpu, st.cpu), memory |-> Committed(svc.mem, st.mem), storage |-> Committed(svc.sto, st.sto)],
   ports    |-> [i \in DOMAIN svc.exposes |-> svc.exposes[i].port]]

DeploymentObj(ns, svc, st) ==
  [kind |-> "deployment", ans |-> ns, name |-> svc.name, mns |-> "", labels |-> SvcLabels(ns, svc.name),
   selector |-> Sel(SvcLabels(ns, svc.name)), tmplLabels |-> SvcLabels(ns, svc.name), replicas |-> svc.count,
   automount |-> "false", runtime |-> (IF st.runtime = "none" THEN "" ELSE st.runtime),
   hostNet |-> FALSE, hostPID |-> FALSE, hostIPC |-> FALSE, nvolumes |-> 0, sa |-> "",
   containers |-> <<Container(svc, st)>>]

\* serviceBuilder.ports(): the local (ClusterIP) service carries local exposes and HTTP-ingress exposes, the
\* global (NodePort) service carries global non-ingress exposes
SvcExposes(svc, global) ==
  {e \in KRange(svc.exposes) : IF global THEN e.global /\ ~ShouldBeIngress(e) ELSE ~e.global \/ ShouldBeIngress(e)}
ServiceObj(ns, svc, global) ==
  [kind |-> "service", ans |-> ns, name |-> (IF global THEN svc.np ELSE svc.name), mns |-> "",
   labels |-> SvcLabels(ns, svc.name), selector |-> SvcLabels(ns, svc.name),
   type |-> (IF global THEN "NodePort" ELSE "ClusterIP"),
   ports |-> {[port |-> ExtPort(e), target |-> e.port, proto |-> e.proto] : e \in SvcExposes(svc, global)}]

StaticHost(st) == <<"static", st.domain>>
IngressObj(ns, svc, e, st) ==
  [kind |-> "ingress", ans |-> ns, name |-> svc.name, mns |-> "", labels |-> SvcLabels(ns, svc.name),
   rules |-> {[host |-> h, svc |-> svc.name, port |-> ExtPort(e)] :
                h \in {<<"host", e.hosts[i]>> : i \in DOMAIN e.hosts} \cup (IF st.static THEN {StaticHost(st)} ELSE {})}]

(* Object names the code builds by concatenation (NodePort service "<svc>-np", policy "akash-<svc>-np") are     *)
(* fields of the abstract service (np, pol) supplied with the input: TLC has no string concatenation. An       *)
(* ingress host is <<"host", h>> for a tenant host and <<"static", domain>> for the generated one.             *)

\* --- the cluster and the apply pattern (apply.go): get, then create or update ---
Find(cluster, kind, ans, name) == {o \in cluster : o.kind = kind /\ o.ans = ans /\ o.name = name}
Stored(o) == IF o.kind = "namespace" THEN o ELSE [o EXCEPT !.mns = o.ans]      \* the API server fills metadata.namespace
Act(verb, o) == [verb |-> verb, kind |-> o.kind, ans |-> o.ans, name |-> o.name, obj |-> o]
GetAct(o) == [verb |-> "get", kind |-> o.kind, ans |-> o.ans, name |-> o.name]

ApplyOne(cluster, fresh, Upd(_)) ==
  LET ex == Find(cluster, fresh.kind, fresh.ans, fresh.name) IN
  IF ex = {} THEN [acts |-> <<GetAct(fresh), Act("create", fresh)>>, cluster |-> cluster \cup {Stored(fresh)}]
  ELSE LET new == Upd(CHOOSE o \in ex : TRUE) IN
       [acts |-> <<GetAct(fresh), Act("update", new)>>, cluster |-> (cluster \ ex) \cup {Stored(new)}]

RECURSIVE ApplyPolicies(_, _)
ApplyPolicies(cluster, pols) ==       \* applyNetPolicies: Update() sends the freshly built policy
  IF pols = <<>> THEN [acts |-> <<>>, cluster |-> cluster]
  ELSE LET one == ApplyOne(cluster, Head(pols), LAMBDA old : Head(pols))
           rest == ApplyPolicies(one.cluster, Tail(pols)) IN
       [acts |-> one.acts \o rest.acts, cluster |-> rest.cluster]

SvcIdxWithNodePorts(svcs) == {i \in DOMAIN svcs : NodePortExposes(svcs[i]) # {}}
RECURSIVE SelectIdx(_, _, _)
SelectIdx(svcs, i, S) == IF i > Len(svcs) THEN <<>> ELSE (IF i \in S THEN <<i>> ELSE <<>>) \o SelectIdx(svcs, i + 1, S)
PolicyList(ns, r) ==
  IF ~r.st.netpol THEN <<>>
  ELSE <<MainPolicyObj(ns)>> \o [k \in DOMAIN SelectIdx(r.svcs, 1, SvcIdxWithNodePorts(r.svcs)) |->
                                   SvcPolicyObj(ns, r.svcs[SelectIdx(r.svcs, 1, SvcIdxWithNodePorts(r.svcs))[k]])]

\* applyNetPolicies: apply the policies the manifest calls for, then (policies enabled) delete every managed policy of the
\* namespace the manifest no longer calls for -- a service that stopped exposing node ports must not keep them open
ManagedSel == [labels |-> {}, exprs |-> {[key |-> LManaged, op |-> "=", values |-> {"true"}]}]
ApplyAndPrunePolicies(cluster, ns, r) ==
  LET want == PolicyList(ns, r)
      a == ApplyPolicies(cluster, want)
      stale == {o \in a.cluster : o.kind = "netpol" /\ o.ans = ns /\ SelMatches(ManagedSel, o.labels)
                                     /\ o.name \notin {want[i].name : i \in DOMAIN want}} IN
  IF ~r.st.netpol THEN a
  ELSE [acts |-> a.acts \o <<[verb |-> "list", kind |-> "netpol", ans |-> ns, sel |-> ManagedSel]>>
                  \o (IF stale = {} THEN <<>> ELSE <<[verb |-> "delete-set", kind |-> "netpol", ans |-> ns, names |-> {o.name : o \in stale}]>>),
        cluster |-> a.cluster \ stale]

\* cleanupStaleResources: managed objects whose manifest-service label is not a current service name
StaleSel(svcs) == [labels |-> {}, exprs |-> {[key |-> LSvc, op |-> "notin", values |-> {svcs[i].name : i \in DOMAIN svcs}],
                                              [key |-> LManaged, op |-> "=", values |-> {"true"}]}]
Cleanup(cluster, ns, svcs) ==
  LET sel == StaleSel(svcs)
      stale(kind) == {o \in cluster : o.kind = kind /\ o.ans = ns /\ SelMatches(sel, o.labels)}
      ssvc == stale("service") IN
  [acts |-> <<[verb |-> "delete-collection", kind |-> "deployment", ans |-> ns, sel |-> sel],
              [verb |-> "delete-collection", kind |-> "ingress", ans |-> ns, sel |-> sel],
              [verb |-> "list", kind |-> "service", ans |-> ns, sel |-> sel]>>
            \o (IF ssvc = {} THEN <<>> ELSE <<[verb |-> "delete-set", kind |-> "service", ans |-> ns, names |-> {o.name : o \in ssvc}]>>),
   cluster |-> cluster \ (stale("deployment") \cup stale("ingress") \cup ssvc)]

\* the steps of one Deploy(lease, group) -- client.go:165-243
AnySvc(svc, global) == SvcExposes(svc, global) # {}
IngressIdx(svc) == SelectIdx(svc.exposes, 1, {i \in DOMAIN svc.exposes : ShouldBeIngress(svc.exposes[i])})
SvcSteps(svcs, i) ==
  <<[t |-> "deployment", s |-> i, e |-> 0]>>
  \o (IF AnySvc(svcs[i], FALSE) THEN <<[t |-> "service-local", s |-> i, e |-> 0]>> ELSE <<>>)
  \o (IF AnySvc(svcs[i], TRUE)  THEN <<[t |-> "service-global", s |-> i, e |-> 0]>> ELSE <<>>)
  \o [k \in DOMAIN IngressIdx(svcs[i]) |-> [t |-> "ingress", s |-> i, e |-> IngressIdx(svcs[i])[k]]]
RoundSteps(r) ==
  <<[t |-> "namespace", s |-> 0, e |-> 0], [t |-> "netpol", s |-> 0, e |-> 0], [t |-> "manifest", s |-> 0, e |-> 0],
    [t |-> "cleanup", s |-> 0, e |-> 0]>>
  \o Flatten([i \in DOMAIN r.svcs |-> SvcSteps(r.svcs, i)])

Step(cluster, ns, l, r, step) ==
  CASE step.t = "namespace" ->
         ApplyOne(cluster, NamespaceObj(ns, l), LAMBDA old : [old EXCEPT !.name = ns, !.labels = LeaseLabels(ns, l)])
    [] step.t = "netpol"   -> ApplyAndPrunePolicies(cluster, ns, r)
    [] step.t = "manifest" ->
         ApplyOne(cluster, ManifestObj(ns, l), LAMBDA old : [old EXCEPT !.labels = LeaseLabels(ns, l)])
    [] step.t = "cleanup"  -> Cleanup(cluster, ns, r.svcs)
    [] step.t = "deployment" ->
         LET f == DeploymentObj(ns, r.svcs[step.s], r.st) IN
         ApplyOne(cluster, f, LAMBDA old : [old EXCEPT !.labels = f.labels, !.selector = [old.selector EXCEPT !.labels = f.labels],
                                                          !.replicas = f.replicas, !.tmplLabels = f.tmplLabels, !.containers = f.containers])
    [] step.t \in {"service-local", "service-global"} ->
         LET f == ServiceObj(ns, r.svcs[step.s], step.t = "service-global") IN
         ApplyOne(cluster, f, LAMBDA old : [old EXCEPT !.labels = f.labels, !.selector = f.selector, !.ports = f.ports])
    [] step.t = "ingress" ->
         LET f == IngressObj(ns, r.svcs[step.s], r.svcs[step.s].exposes[step.e], r.st) IN
         ApplyOne(cluster, f, LAMBDA old : [old EXCEPT !.labels = f.labels, !.rules = f.rules])

\* TeardownLease (client.go): delete the lease's namespace; Kubernetes then removes everything stored in it
Teardown(cluster, ns) ==
  [acts |-> <<[verb |-> "delete-set", kind |-> "namespace", ans |-> "", names |-> {ns}]>>,
   cluster |-> cluster \ Mine(cluster, ns)]

\* a whole round, folded (used by the trace module to compute what the spec allows)
RECURSIVE RunSteps(_, _, _, _, _)
RunSteps(cluster, ns, l, r, steps) ==
  IF steps = <<>> THEN [acts |-> <<>>, cluster |-> cluster]
  ELSE LET one == Step(cluster, ns, l, r, Head(steps))
           rest == RunSteps(one.cluster, ns, l, r, Tail(steps)) IN
       [acts |-> one.acts \o rest.acts, cluster |-> rest.cluster]
RunRound(cluster, ns, l, r) == RunSteps(cluster, ns, l, r, RoundSteps(r))

-----------------------------------------------------------------------------
(* THE STATE MACHINE                                                                                           *)
VARIABLES cur, rnd, todo, cluster
vars == <<cur, rnd, todo, cluster>>

\* the namespace name of a lease is carried by the lease record: in the model universe it is an abstract name,
\* injective by construction (MC_KubePolicy); the real one (sha224/base32 of the lease path) is bound, and checked
\* for injectivity and DNS-1123 validity, in KubePolicyTrace
NS(l) == l.ns

\* An input is [id, slice, lease, rounds, other]: the main lease is deployed Len(rounds) times (manifest updates),
\* then each lease of `other` (0..1) is deployed once into the same cluster, then the main lease is torn down.
Phases(inp) == [k \in 1..Len(inp.rounds) |-> [lease |-> inp.lease, r |-> inp.rounds[k]]]
               \o [k \in 1..Len(inp.other) |-> [lease |-> inp.other[k].lease, r |-> inp.other[k].r]]
NPh == Len(Phases(cur))
NMain == Len(cur.rounds)
PhLease(k) == Phases(cur)[k].lease
PhRound(k) == Phases(cur)[k].r
Ns1 == NS(cur.lease)

Init == /\ cur \in Inputs
        /\ rnd = 1
        /\ cluster = {ProviderNamespaceObj}
        /\ todo = RoundSteps(cur.rounds[1])

DoStep == /\ todo # <<>>
          /\ rnd <= NPh
          /\ cluster' = Step(cluster, NS(PhLease(rnd)), PhLease(rnd), PhRound(rnd), Head(todo)).cluster
          /\ todo' = Tail(todo)
          /\ UNCHANGED <<cur, rnd>>

NextRound == /\ todo = <<>>
             /\ rnd < NPh
             /\ rnd' = rnd + 1
             /\ todo' = RoundSteps(PhRound(rnd + 1))
             /\ UNCHANGED <<cur, cluster>>

TeardownMain == /\ todo = <<>>
                /\ rnd = NPh
                /\ rnd' = NPh + 1
                /\ cluster' = Teardown(cluster, Ns1).cluster
                /\ UNCHANGED <<cur, todo>>

Next == DoStep \/ NextRound \/ TeardownMain
Spec == Init /\ [][Next]_vars

KMin(a, b) == IF a <= b THEN a ELSE b
LastMain == KMin(rnd, NMain)                       \* the latest round of the main lease started so far
Live == rnd <= NPh                                \* the main lease has not been torn down
SvcSets == {PhRound(k).svcs : k \in 1..KMin(rnd, NPh)}
MainSvcsSoFar == Flatten([k \in 1..LastMain |-> cur.rounds[k].svcs])
NoPolicyStepPending == \A i \in DOMAIN todo : todo[i].t # "netpol"
MainNetSettled  == Live /\ cur.rounds[LastMain].st.netpol /\ (rnd <= NMain => NoPolicyStepPending)
OtherNetSettled == Live /\ rnd > NMain /\ PhRound(rnd).st.netpol /\ NoPolicyStepPending
Done == todo = <<>> /\ rnd = NMain
LeasesSoFar == {PhLease(k) : k \in 1..KMin(rnd, NPh)}

TypeOK == rnd \in 1..(NPh + 1) /\ ProviderNamespaceObj \in cluster /\ \A o \in cluster : o.kind \in {"namespace", "manifest", "netpol", "deployment", "service", "ingress"}
\* every object lives in the namespace of one of the leases deployed so far, and is labelled for that lease
InvPlacement ==
  /\ \A o \in cluster : o.kind = "namespace" => o.name \in {NS(l) : l \in LeasesSoFar} \cup {ProviderNS}
  /\ \A o \in cluster : Workload(o) => \E l \in LeasesSoFar : o.ans = NS(l) /\ o.mns \in {"", NS(l)} /\ <<LNs, NS(l)>> \in o.labels
  /\ \A l \in LeasesSoFar : InNamespace(Mine(cluster, NS(l)), NS(l))
InvSandbox   == Sandboxed(cluster)
InvLimits    == LimitsLeased(cluster, SvcSets)
InvIngress   == MainNetSettled => BadIngressX(Mine(cluster, Ns1), cur.rounds[LastMain].svcs, MainSvcsSoFar, NeighbourPods(cluster, Ns1)) = {}
InvEgress    == MainNetSettled => BadEgressX(Mine(cluster, Ns1), NeighbourPods(cluster, Ns1)) = {}
InvIngressOther == OtherNetSettled => BadIngressX(Mine(cluster, NS(PhLease(rnd))), PhRound(rnd).svcs, PhRound(rnd).svcs, NeighbourPods(cluster, NS(PhLease(rnd)))) = {}
InvEgressOther  == OtherNetSettled => BadEgressX(Mine(cluster, NS(PhLease(rnd))), NeighbourPods(cluster, NS(PhLease(rnd)))) = {}
InvPositive  == (Done /\ NMain = 1 /\ cur.rounds[1].st.netpol) => NetPositive(cluster, Ns1, cur.rounds[1].svcs)
\* after a complete Deploy the namespace holds exactly one deployment per service of the last manifest
InvComplete  == (todo = <<>> /\ Live) =>
                  {o.name : o \in {x \in Mine(cluster, NS(PhLease(rnd))) : x.kind = "deployment"}} = {PhRound(rnd).svcs[i].name : i \in DOMAIN PhRound(rnd).svcs}
InvNoLeftovers == (todo = <<>> /\ Live) => Leftovers(cluster, NS(PhLease(rnd)), PhRound(rnd).svcs, PhRound(rnd).st.netpol) = {}
\* after teardown nothing of the main lease is left, and the neighbour is untouched
InvTornDown  == ~Live => Mine(cluster, Ns1) = {}
\* deploying or tearing down one lease never changes what belongs to another
Isolation == [][ /\ (rnd > NMain /\ rnd' <= NPh) => Mine(cluster', Ns1) = Mine(cluster, Ns1)
                 /\ (rnd = NPh /\ rnd' = NPh + 1) => \A k \in (NMain + 1)..NPh : Mine(cluster', NS(PhLease(k))) = Mine(cluster, NS(PhLease(k))) ]_vars
=============================================================================
