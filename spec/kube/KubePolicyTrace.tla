-------------------------- MODULE KubePolicyTrace --------------------------
(***************************************************************************************************************)
(* J3 for C11: TLC reads what the real provider/cluster/kube package did (harness/kubeh: one ndjson line per    *)
(* input -- every API call the fake clientsets recorded during the real client.Deploy, with the namespace it   *)
(* was made in and the object it carried; the cluster content after each Deploy; the objects the builders      *)
(* return when called directly) and                                                                            *)
(*   (i)  evaluates the SAME oracle definitions of KubePolicy (BadPlacement, BadSandbox, BadLimits, BadIngress, *)
(*        BadEgress over the same packet universe) on the recorded objects            -> Fails(t), the verdict  *)
(*   (ii) checks that the recorded call sequence, the resulting cluster and the builders' output are exactly    *)
(*        what KubePolicy's generator model (RunRound: the steps of Deploy) produces   -> Drift(t), conformance *)
(* plus, over the whole run, that the lease -> namespace map is injective and yields DNS-1123 labels.          *)
(* One state per trace line; a line with a non-empty Fails or Drift is reported as a "KUBEVERDICT" JSON line.   *)
(***************************************************************************************************************)
EXTENDS Integers, Sequences, FiniteSets, TLC, Json

CONSTANT CheckNs        \* TRUE: this run also judges the lease -> namespace map of the whole run (leases.ndjson)

VARIABLE l              \* position in the trace

INSTANCE KubePolicy WITH Inputs <- {}, cur <- [rounds |-> <<>>, other |-> <<>>], rnd <- 0, todo <- <<>>, cluster <- {}

Trace  == ndJsonDeserialize("trace.ndjson")
Leases == ndJsonDeserialize("leases.ndjson")     \* [lease, ns, nsChars] of every line of the whole run

-----------------------------------------------------------------------------
(* JSON -> canonical records (arrays that are sets become sets; nothing else changes)                           *)
SetOf(s) == {s[i] : i \in DOMAIN s}
NSel(s)  == [labels |-> SetOf(s.labels), exprs |-> {[key |-> e.key, op |-> e.op, values |-> SetOf(e.values)] : e \in SetOf(s.exprs)}]
NPeer(p) == [hasNs |-> p.hasNs, nsSel |-> NSel(p.nsSel), hasPod |-> p.hasPod, podSel |-> NSel(p.podSel),
             hasIp |-> p.hasIp, cidr |-> p.cidr, except |-> SetOf(p.except)]
NRule(r) == [ports |-> SetOf(r.ports), peers |-> {NPeer(p) : p \in SetOf(r.peers)}]
NMeta(o) == [kind |-> o.kind, ans |-> o.ans, name |-> o.name, mns |-> o.mns, labels |-> SetOf(o.labels)]
NObj(o) ==
  CASE o.kind \in {"namespace", "manifest"} -> NMeta(o)
    [] o.kind = "netpol" ->
         [kind |-> o.kind, ans |-> o.ans, name |-> o.name, mns |-> o.mns, labels |-> SetOf(o.labels),
          podSel |-> NSel(o.podSel), types |-> SetOf(o.types),
          ingress |-> {NRule(r) : r \in SetOf(o.ingress)}, egress |-> {NRule(r) : r \in SetOf(o.egress)}]
    [] o.kind = "deployment" ->
         [kind |-> o.kind, ans |-> o.ans, name |-> o.name, mns |-> o.mns, labels |-> SetOf(o.labels),
          selector |-> NSel(o.selector), tmplLabels |-> SetOf(o.tmplLabels), replicas |-> o.replicas,
          automount |-> o.automount, runtime |-> o.runtime, hostNet |-> o.hostNet, hostPID |-> o.hostPID,
          hostIPC |-> o.hostIPC, nvolumes |-> o.nvolumes, sa |-> o.sa, containers |-> o.containers]
    [] o.kind = "service" ->
         [kind |-> o.kind, ans |-> o.ans, name |-> o.name, mns |-> o.mns, labels |-> SetOf(o.labels),
          selector |-> SetOf(o.selector), type |-> o.type, ports |-> SetOf(o.ports)]
    [] o.kind = "ingress" ->
         [kind |-> o.kind, ans |-> o.ans, name |-> o.name, mns |-> o.mns, labels |-> SetOf(o.labels), rules |-> SetOf(o.rules)]
NAct(a) ==
  CASE a.verb = "get" -> [verb |-> a.verb, kind |-> a.kind, ans |-> a.ans, name |-> a.name]
    [] a.verb \in {"create", "update"} -> [verb |-> a.verb, kind |-> a.kind, ans |-> a.ans, name |-> a.name, obj |-> NObj(a.obj)]
    [] a.verb \in {"delete-collection", "list"} -> [verb |-> a.verb, kind |-> a.kind, ans |-> a.ans, sel |-> NSel(a.sel)]
    [] a.verb = "delete-set" -> [verb |-> a.verb, kind |-> a.kind, ans |-> a.ans, names |-> SetOf(a.names)]

-----------------------------------------------------------------------------
(* what was recorded for round k of line t                                                                      *)
RecActs(t, k)  == [i \in DOMAIN t.rounds[k].acts |-> NAct(t.rounds[k].acts[i])]
ActObjs(t, k)  == {NObj(a.obj) : a \in {x \in SetOf(t.rounds[k].acts) : x.verb \in {"create", "update"}}}
Snap(t, k)     == {NObj(o) : o \in SetOf(t.rounds[k].snap)}
Built(t, k)    == {NObj(b.obj) : b \in SetOf(t.rounds[k].built)}     \* ans = the namespace the builder names (ns())
Rounds(t)      == t.input.rounds
LeaseRec(t)    == [owner |-> t.lease.owner, dseq |-> t.lease.dseq, gseq |-> t.lease.gseq, oseq |-> t.lease.oseq,
                   provider |-> t.lease.provider, ns |-> t.ns]

Tag(c, S) == {<<c, x>> : x \in S}

\* a recorded Deploy of any lease: rr = [err, acts, snap, built]
RActs(rr)  == [i \in DOMAIN rr.acts |-> NAct(rr.acts[i])]
RObjs(rr)  == {NObj(a.obj) : a \in {x \in SetOf(rr.acts) : x.verb \in {"create", "update"}}}
RSnap(rr)  == {NObj(o) : o \in SetOf(rr.snap)}
RBuilt(rr) == {NObj(b.obj) : b \in SetOf(rr.built)}
LastSnap(t) == Snap(t, Len(t.rounds))
LastMainRound(t) == Rounds(t)[Len(t.rounds)]
AllMainSvcs(t) == Flatten([j \in DOMAIN t.rounds |-> Rounds(t)[j].svcs])
OtherLease(o) == [owner |-> o.lease.owner, dseq |-> o.lease.dseq, gseq |-> o.lease.gseq, oseq |-> o.lease.oseq,
                  provider |-> o.lease.provider, ns |-> o.ns]

\* (i) THE VERDICT: property C11 on the objects the real code produced. Witnesses <<clause, detail>>.
FailsRound(t, k) ==
  LET acts  == ActObjs(t, k)
      snap  == Snap(t, k)
      built == Built(t, k)
      now   == {Rounds(t)[k].svcs}
      sofar == {Rounds(t)[j].svcs : j \in 1..k}
      allsv == Flatten([j \in 1..k |-> Rounds(t)[j].svcs])
  IN Tag("placement", BadPlacement(acts \cup snap \cup built, t.ns))
     \cup Tag("calls", BadCalls(SetOf(RecActs(t, k)), t.ns))
     \cup Tag("sandbox", BadSandbox(acts \cup snap \cup built))
     \cup Tag("limits", BadLimits(acts \cup built, now) \cup BadLimits(snap, now))
     \cup Tag("leftover", Leftovers(snap, t.ns, Rounds(t)[k].svcs, Rounds(t)[k].st.netpol))
     \cup (IF Rounds(t)[k].st.netpol
           THEN Tag("ingress", BadIngressX(snap, Rounds(t)[k].svcs, allsv, {}) \cup BadIngress(built, Rounds(t)[k].svcs))
                \cup Tag("egress", BadEgress(snap) \cup BadEgress(built))
           ELSE {})
\* the Deploy of another lease (t.other[k], abstract input t.input.other[k]) into the same cluster
FailsOther(t, k) ==
  LET o == t.other[k]  r == t.input.other[k].r  rr == o.round
      acts == RObjs(rr)  snap == RSnap(rr)  built == RBuilt(rr)
      mine2 == Mine(snap, o.ns)  mine1 == Mine(snap, t.ns)
  IN Tag("placement", BadPlacement(acts \cup built \cup (snap \ mine1), o.ns))
     \cup Tag("calls", BadCalls(SetOf(RActs(rr)), o.ns))
     \cup Tag("sandbox", BadSandbox(acts \cup snap \cup built))
     \cup Tag("limits", BadLimits(acts \cup built \cup mine2, {r.svcs}))
     \cup Tag("leftover", Leftovers(snap, o.ns, r.svcs, r.st.netpol))
     \cup (IF mine1 # Mine(LastSnap(t), t.ns) THEN {<<"interference", "neighbour-deploy">>} ELSE {})
     \cup (IF LastMainRound(t).st.netpol
           THEN Tag("ingress", BadIngressX(mine1, LastMainRound(t).svcs, AllMainSvcs(t), NeighbourPods(snap, t.ns)))
                \cup Tag("egress", BadEgressX(mine1, NeighbourPods(snap, t.ns)))
           ELSE {})
     \cup (IF r.st.netpol
           THEN Tag("ingress", BadIngressX(mine2, r.svcs, r.svcs, NeighbourPods(snap, o.ns)) \cup BadIngress(built, r.svcs))
                \cup Tag("egress", BadEgressX(mine2, NeighbourPods(snap, o.ns)) \cup BadEgress(built))
           ELSE {})
FailsTeardown(t) == Tag("calls", BadCalls({NAct(a) : a \in SetOf(t.teardown.acts)}, t.ns))
\* The clusters the real code passed through: the recorded calls of a Deploy folded over the cluster it started from.
\* Whenever pods appear or change (a deployment is created / updated) while policies are enabled, the network clauses
\* must already hold (the J3 mirror of InvIngress / InvEgress on every intermediate cluster of the model).
ApplyRec(cl, a) ==
  CASE a.verb = "create" -> cl \cup {Stored(a.obj)}
    [] a.verb = "update" -> (cl \ Find(cl, a.kind, a.ans, a.name)) \cup {Stored(a.obj)}
    [] a.verb = "delete-collection" -> cl \ {o \in cl : o.kind = a.kind /\ o.ans = a.ans /\ SelMatches(a.sel, o.labels)}
    [] a.verb = "delete-set" -> cl \ {o \in cl : o.kind = a.kind /\ o.ans = a.ans /\ o.name \in a.names}
    [] OTHER -> cl
RECURSIVE After(_, _, _)
After(cl, acts, n) == IF n = 0 THEN cl ELSE ApplyRec(After(cl, acts, n - 1), acts[n])
Start(t, k) == IF k = 1 THEN {ProviderNamespaceObj} ELSE Snap(t, k - 1)
FailsWindow(t, k) ==
  LET acts == RecActs(t, k)
      allsv == Flatten([j \in 1..k |-> Rounds(t)[j].svcs])
      at == {j \in DOMAIN acts : acts[j].verb \in {"create", "update"} /\ acts[j].kind = "deployment"} IN
  IF ~Rounds(t)[k].st.netpol THEN {}
  ELSE UNION {LET cl == Mine(After(Start(t, k), acts, i), t.ns) IN
              Tag("ingress-window", BadIngressX(cl, Rounds(t)[k].svcs, allsv, {})) \cup Tag("egress-window", BadEgress(cl)) : i \in at}

Fails(t) == UNION {FailsRound(t, k) \cup FailsWindow(t, k) : k \in DOMAIN t.rounds} \cup UNION {FailsOther(t, k) : k \in DOMAIN t.other} \cup FailsTeardown(t)

\* (ii) CONFORMANCE with the generator model
RECURSIVE Model(_, _)
Model(t, k) ==      \* what the spec's Deploy does in round k: [acts, cluster]
  RunRound(IF k = 1 THEN {ProviderNamespaceObj} ELSE Model(t, k - 1).cluster, t.ns, LeaseRec(t), Rounds(t)[k])
ModelCreates(t, k) ==
  LET m == RunRound({ProviderNamespaceObj}, t.ns, LeaseRec(t), Rounds(t)[k]) IN
  {m.acts[i].obj : i \in {j \in DOMAIN m.acts : m.acts[j].verb = "create"}}
DriftRound(t, k) ==
  LET m == Model(t, k) IN
  (IF t.rounds[k].err # "" THEN {<<"deploy-error", ToString(k)>>} ELSE {})
  \cup (IF RecActs(t, k) # m.acts THEN {<<"calls", ToString(k)>>} ELSE {})
  \cup (IF Snap(t, k) # m.cluster THEN {<<"cluster", ToString(k)>>} ELSE {})
  \* the recorded calls, folded, give the recorded cluster (recorder and snapshot agree)
  \cup (IF After(Start(t, k), RecActs(t, k), Len(t.rounds[k].acts)) # Snap(t, k) THEN {<<"fold", ToString(k)>>} ELSE {})
  \* the builders called directly return what a Deploy into an empty cluster creates (last ingress of a service wins there)
  \cup (IF ~(ModelCreates(t, k) \subseteq Built(t, k)) \/ \E o \in Built(t, k) \ ModelCreates(t, k) : o.kind # "ingress"
        THEN {<<"builders", ToString(k)>>} ELSE {})
ClusterAfterMain(t) == Model(t, Len(t.rounds)).cluster
DriftOther(t, k) ==      \* at most one other lease per input
  LET o == t.other[k]  rr == o.round
      m == RunRound(ClusterAfterMain(t), o.ns, OtherLease(o), t.input.other[k].r)
      fresh == RunRound({ProviderNamespaceObj}, o.ns, OtherLease(o), t.input.other[k].r)
      creates == {fresh.acts[i].obj : i \in {j \in DOMAIN fresh.acts : fresh.acts[j].verb = "create"}} IN
  (IF rr.err # "" THEN {<<"deploy-error", "other">>} ELSE {})
  \cup (IF RActs(rr) # m.acts THEN {<<"calls", "other">>} ELSE {})
  \cup (IF RSnap(rr) # m.cluster THEN {<<"cluster", "other">>} ELSE {})
  \cup (IF After(LastSnap(t), RActs(rr), Len(rr.acts)) # RSnap(rr) THEN {<<"fold", "other">>} ELSE {})
  \cup (IF ~(creates \subseteq RBuilt(rr)) \/ \E x \in RBuilt(rr) \ creates : x.kind # "ingress" THEN {<<"builders", "other">>} ELSE {})
DriftTeardown(t) ==
  (IF t.teardown.err # "" THEN {<<"teardown-error", "teardown">>} ELSE {})
  \cup (IF [i \in DOMAIN t.teardown.acts |-> NAct(t.teardown.acts[i])] # Teardown({}, t.ns).acts THEN {<<"calls", "teardown">>} ELSE {})
Drift(t) == UNION {DriftRound(t, k) : k \in DOMAIN t.rounds} \cup UNION {DriftOther(t, k) : k \in DOMAIN t.other} \cup DriftTeardown(t)

-----------------------------------------------------------------------------
(* the lease -> namespace map over the whole run                                                               *)
Alnum == {"a", "b", "c", "d", "e", "f", "g", "h", "i", "j", "k", "l", "m", "n", "o", "p", "q", "r", "s", "t", "u", "v", "w",
          "x", "y", "z", "0", "1", "2", "3", "4", "5", "6", "7", "8", "9"}
ValidDNS1123Label(chars) ==
  /\ Len(chars) \in 1..63
  /\ \A i \in DOMAIN chars : chars[i] \in Alnum \cup {"-"}
  /\ chars[1] \in Alnum /\ chars[Len(chars)] \in Alnum
LeasePairs == {<<Leases[i].lease, Leases[i].ns>> : i \in DOMAIN Leases}
NsCollisions == {<<pq[1][1], pq[2][1]>> : pq \in {x \in LeasePairs \X LeasePairs : x[1][1] # x[2][1] /\ x[1][2] = x[2][2]}}
NsUnstable   == {pq[1][1] : pq \in {x \in LeasePairs \X LeasePairs : x[1][1] = x[2][1] /\ x[1][2] # x[2][2]}}
NsInvalid    == {Leases[i].ns : i \in {j \in DOMAIN Leases : ~ValidDNS1123Label(Leases[j].nsChars)}}
\* a function iff #pairs = #leases, injective iff then #pairs = #names (NsCollisions / NsUnstable above are the witness
\* sets; with thousands of probe ids only their sizes are reported)
NsReport == LET nl == Cardinality({p[1] : p \in LeasePairs}) nn == Cardinality({p[2] : p \in LeasePairs}) np == Cardinality(LeasePairs) IN
            [distinctLeases |-> nl, distinctNames |-> nn,
             collisions |-> np - nn, unstable |-> np - nl, invalid |-> NsInvalid,
             remoteEndpoints |-> Cardinality(Remote), egressPorts |-> Cardinality(EgressPorts)]

-----------------------------------------------------------------------------
Report(t) ==
  LET f == Fails(t) d == Drift(t) IN
  IF f = {} /\ d = {} THEN TRUE
  ELSE PrintT(<<"KUBEVERDICT", ToJson([id |-> t.id, fails |-> f, drift |-> d])>>)

TraceInit == /\ l = 1
             /\ CheckNs => PrintT(<<"KUBENS", ToJson(NsReport)>>)
TraceNext == /\ l <= Len(Trace)
             /\ Report(Trace[l])
             /\ l' = l + 1
\* every line was judged iff the run visits Len(Trace) + 1 states (checked by tools/checks/kube.py)
=============================================================================
