CONSTANT Inputs <- FileInputs
INIT Init
NEXT Next
INVARIANTS TypeOK InvPlacement InvSandbox InvLimits InvIngress InvEgress InvPositive InvComplete
