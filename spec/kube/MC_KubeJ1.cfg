CONSTANT Inputs <- FileInputs
INIT Init
NEXT Next
INVARIANTS TypeOK InvPlacement InvSandbox InvLimits InvIngress InvEgress InvIngressOther InvEgressOther InvPositive InvComplete InvNoLeftovers InvTornDown
PROPERTIES Isolation
