CONSTANT CheckNs = TRUE
INIT TraceInit
NEXT TraceNext
CHECK_DEADLOCK FALSE
