CONSTANTS QMax = 2  OMax = 1
SPECIFICATION LiveSpec
INVARIANTS TypeOK
PROPERTIES MarkerServed
CHECK_DEADLOCK FALSE
