------------------------------ MODULE Withdraw ------------------------------
(* The lease withdrawal loop: provider/cluster/lease_withdraw.go, deploymentWithdrawal.run(). *)
(*                                                                                            *)
(* One loop per lease, started by the deployment manager when a deploy completes.  It         *)
(* subscribes to the provider's bus and selects on: the shutdown request of its lifecycle,    *)
(* the next bus event (a LeaseWithdrawNow marker published by the balance checker makes it    *)
(* broadcast MsgWithdrawLease for its lease through a runner; any other event is ignored) and *)
(* the result of the latest broadcast (only logged).  A marker that arrives while a broadcast *)
(* is in flight starts another one and forgets the older result channel ("orphan": the call   *)
(* goes on, nobody reads its result).  On shutdown the loop cancels the context of its        *)
(* broadcasts and ends without waiting for them.                                              *)
EXTENDS Integers, Sequences, FiniteSets, TLC

CONSTANTS QMax,        \* bound on bus events waiting at the loop's subscriber
          OMax         \* bound on orphaned broadcasts in flight

VARIABLES pc,          \* "select" | "done" (loop ended) | "gone" (its broadcasts have returned too)
          queue,       \* events the subscriber holds for the loop: Seq of "withdraw" | "other"
          res,         \* result channel of the latest broadcast: "none" | "inflight" | "ready"
          orphans,     \* broadcasts in flight whose result channel was forgotten
          stopOffered, \* who is offering a shutdown request: subset of {"own", "parent"}
          step

vars == <<pc, queue, res, orphans, stopOffered, step>>

(* step.owed: markers the loop has taken minus MsgWithdrawLease broadcasts that reached the tx client *)
Quiet(took) == [took |-> took, owed |-> 0, ctx |-> "na", leaked |-> 0, argsok |-> TRUE]

Init == /\ pc = "select" /\ queue = <<>> /\ res = "none" /\ orphans = 0 /\ stopOffered = {}
        /\ step = Quiet("start")

CtxNow == IF pc = "select" THEN "live" ELSE "done"

\* ---------------------------------------------------------------- environment
Publish(kind) == /\ Len(queue) < QMax
                 /\ queue' = IF pc = "select" THEN Append(queue, kind) ELSE queue   \* a closed subscriber takes nothing
                 /\ step' = Quiet("env")
                 /\ UNCHANGED <<pc, res, orphans, stopOffered>>

(* the tx client answers the latest broadcast, or an orphaned one; the outcome is only logged *)
ReturnLatest(e) == /\ res = "inflight" /\ e \in {"ok", "err"}
                   /\ res' = IF pc = "select" THEN "ready" ELSE "none"
                   /\ step' = [Quiet("env") EXCEPT !.ctx = CtxNow]
                   /\ UNCHANGED <<pc, queue, orphans, stopOffered>>
ReturnOrphan(e) == /\ orphans > 0 /\ e \in {"ok", "err"} /\ orphans' = orphans - 1
                   /\ step' = [Quiet("env") EXCEPT !.ctx = CtxNow]
                   /\ UNCHANGED <<pc, queue, res, stopOffered>>

RequestStop(via) == /\ via \notin stopOffered
                    /\ stopOffered' = IF pc = "select" THEN stopOffered \cup {via} ELSE stopOffered
                    /\ step' = Quiet("env")
                    /\ UNCHANGED <<pc, queue, res, orphans>>

Env == \/ \E k \in {"withdraw", "other"} : Publish(k)
       \/ \E e \in {"ok", "err"} : ReturnLatest(e) \/ ReturnOrphan(e)
       \/ \E via \in {"own", "parent"} : RequestStop(via)

\* ---------------------------------------------------------------- the loop
TakeShutdown == /\ pc = "select" /\ stopOffered # {}
                /\ pc' = "done" /\ stopOffered' = {} /\ queue' = <<>> /\ step' = Quiet("shutdown")
                /\ UNCHANGED <<res, orphans>>

TakeEvent == /\ pc = "select" /\ queue # <<>> /\ queue' = Tail(queue)
             /\ IF Head(queue) = "withdraw"
                THEN /\ orphans < OMax \/ res # "inflight"
                     /\ res' = "inflight" /\ orphans' = orphans + (IF res = "inflight" THEN 1 ELSE 0)
                     /\ step' = Quiet("withdraw")   \* the runner is started in the same iteration: nothing owed
                ELSE /\ step' = Quiet("other") /\ UNCHANGED <<res, orphans>>
             /\ UNCHANGED <<pc, stopOffered>>

TakeResult == /\ pc = "select" /\ res = "ready" /\ res' = "none" /\ step' = Quiet("result")
              /\ UNCHANGED <<pc, queue, orphans, stopOffered>>

(* the broadcasts that were in flight when the loop ended have returned: nothing of the loop is left *)
Settle == /\ pc = "done" /\ res # "inflight" /\ orphans = 0 /\ pc' = "gone" /\ step' = Quiet("post")
          /\ UNCHANGED <<queue, res, orphans, stopOffered>>

Loop == TakeShutdown \/ TakeEvent \/ TakeResult \/ Settle
Next == Env \/ Loop
SpecW == Init /\ [][Next]_vars

Quiescent == pc = "select" => ~(stopOffered # {} \/ queue # <<>> \/ res = "ready")

-----------------------------------------------------------------------------
TypeOK == /\ pc \in {"select", "done", "gone"} /\ Len(queue) <= QMax /\ res \in {"none", "inflight", "ready"}
          /\ orphans \in 0..OMax /\ stopOffered \subseteq {"own", "parent"}

(* W1  every LeaseWithdrawNow marker the loop takes starts exactly one MsgWithdrawLease broadcast; nothing else   *)
(*     does: broadcasts never outnumber the markers taken, and are as many once the runners have got going       *)
OnePerMarker == step.owed = 0
(* W2  the broadcast is MsgWithdrawLease{LeaseID: the loop's lease} *)
OwnLeaseOnly == step.argsok
(* W3  the broadcasts' context is live while the loop runs and cancelled once it has left *)
CtxFollowsLoop == step.ctx # "na" => step.ctx = CtxNow
(* W4  after the loop has left its subscription is closed and, once the calls in flight have returned, no        *)
(*     goroutine is left (no broadcast starts any more: W1 at the end)                                          *)
CleanStop == pc # "select" => step.leaked = 0

Props == OnePerMarker /\ OwnLeaseOnly /\ CtxFollowsLoop /\ CleanStop

(* liveness under fairness: events waiting at a running loop are taken (also after failed broadcasts); stated for  *)
(* a full subscriber buffer, where the environment of the bounded model cannot add more                          *)
Fair == /\ WF_vars(TakeEvent) /\ WF_vars(TakeShutdown)
        /\ WF_vars(\E e \in {"ok", "err"} : ReturnOrphan(e))   \* (only the model's bound OMax makes the loop wait for these)
LiveSpec == SpecW /\ Fair
MarkerServed == (pc = "select" /\ Len(queue) = QMax) ~> (Len(queue) < QMax)
=============================================================================
