CONSTANTS Impl = "intended"  Configs <- MCConfigs  Answers <- MCAnswers  OMax = 2
SPECIFICATION SpecB
INVARIANTS TypeOK WithdrawJustified WithdrawTickJustified WithdrawalTickPeriod WithdrawalTickerPeriod LowTriggers QueryPerTick ArgsOk NothingOwed CtxFollowsLoop CleanStop KeepsPolling KeepsWithdrawing
CHECK_DEADLOCK FALSE
