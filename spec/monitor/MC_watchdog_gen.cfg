CONSTANTS Impl = "asfound"
SPECIFICATION GSpec
VIEW GView
INVARIANTS Export Props
CHECK_DEADLOCK FALSE
