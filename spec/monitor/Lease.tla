------------------------------ MODULE Lease ------------------------------
(* The background loops of ONE lease as the deployment manager (provider/cluster/manager.go) starts  *)
(* and stops them: the deployment monitor (Monitor.tla) and the lease withdrawal loop (Withdraw.tla). *)
(*                                                                                                    *)
(* The manager deploys a manifest group (cluster client Deploy, through a goroutine), and when a      *)
(* deploy completes it starts a monitor and a withdrawal loop (startMonitor, startWithdrawal).  A new  *)
(* manifest for the lease stops the monitor and deploys again; a closed lease stops the monitor and    *)
(* tears the deployment down, after which the manager exits: it waits for its monitors, shuts its      *)
(* withdrawal loop down, and closing its ShuttingDown channel ends whatever else watches it.           *)
(* This module keeps only what matters for the loops: the manager's state, how many monitors and       *)
(* withdrawal loops are alive, and how many MsgWithdrawLease a LeaseWithdrawNow marker produces.        *)
(*                                                                                                    *)
(* Impl = "asfound": every completed deploy starts ANOTHER withdrawal loop (dm.withdrawal is            *)
(* overwritten, the previous loop keeps running until the manager exits).  Impl = "intended": one.      *)
EXTENDS Integers, Sequences, FiniteSets, TLC

CONSTANTS Impl, MaxManifests, MaxMarkers

VARIABLES mgr,     \* "none" | the manager's dm.state | "gone"
          dcall,   \* a Deploy call is in flight
          tcall,   \* a TeardownLease call is in flight
          mons,    \* monitors alive (started, run() not over)
          wloops,  \* withdrawal loops alive
          nman, nmark,
          step     \* [took, bcasts]

vars == <<mgr, dcall, tcall, mons, wloops, nman, nmark, step>>
S(took) == [took |-> took, bcasts |-> 0]

Init == /\ mgr = "none" /\ dcall = FALSE /\ tcall = FALSE /\ mons = 0 /\ wloops = 0 /\ nman = 0 /\ nmark = 0
        /\ step = S("start")

Manifest ==
  /\ nman < MaxManifests /\ nman' = nman + 1 /\ mgr \notin {"gone"}
  /\ CASE mgr = "none"            -> mgr' = "deploy-active" /\ dcall' = TRUE /\ UNCHANGED <<mons>>
       [] mgr = "deploy-active"   -> mgr' = "deploy-pending" /\ UNCHANGED <<dcall, mons>>
       [] mgr = "deploy-complete" -> mgr' = "deploy-active" /\ dcall' = TRUE /\ mons' = 0
       [] OTHER                   -> UNCHANGED <<mgr, dcall, mons>>
  /\ step' = S("manifest") /\ UNCHANGED <<tcall, wloops, nmark>>

DeployReturn(ok) ==
  /\ dcall
  /\ CASE mgr = "deploy-active" /\ ok  -> /\ mgr' = "deploy-complete" /\ mons' = 1
                                          /\ wloops' = (IF Impl = "asfound" THEN wloops + 1 ELSE 1) /\ UNCHANGED tcall
       [] mgr = "deploy-active" /\ ~ok -> mgr' = "teardown-active" /\ tcall' = TRUE /\ UNCHANGED <<mons, wloops>>
       [] mgr = "deploy-pending" /\ ok -> mgr' = "deploy-active" /\ UNCHANGED <<tcall, mons, wloops>>
       [] mgr = "deploy-pending" /\ ~ok -> mgr' = "teardown-active" /\ tcall' = TRUE /\ UNCHANGED <<mons, wloops>>
       [] mgr = "teardown-pending"     -> mgr' = "teardown-active" /\ tcall' = TRUE /\ UNCHANGED <<mons, wloops>>
       [] OTHER -> FALSE
  /\ dcall' = (mgr = "deploy-pending" /\ ok)
  /\ step' = S(IF ok THEN "deployed" ELSE "deployfailed") /\ UNCHANGED <<nman, nmark>>

Closed ==
  /\ mgr \notin {"none", "gone"}
  /\ CASE mgr \in {"deploy-active", "deploy-pending"} -> mgr' = "teardown-pending" /\ UNCHANGED <<tcall, mons>>
       [] mgr = "deploy-complete" -> mgr' = "teardown-active" /\ tcall' = TRUE /\ mons' = 0
       [] OTHER -> UNCHANGED <<mgr, tcall, mons>>
  /\ step' = S("closed") /\ UNCHANGED <<dcall, wloops, nman, nmark>>

TeardownReturn == /\ tcall /\ tcall' = FALSE /\ mgr' = "gone" /\ mons' = 0 /\ wloops' = 0
                  /\ step' = S("torndown") /\ UNCHANGED <<dcall, nman, nmark>>

(* the balance checker publishes LeaseWithdrawNow: every withdrawal loop alive answers with one MsgWithdrawLease *)
Marker == /\ nmark < MaxMarkers /\ nmark' = nmark + 1
          /\ step' = [took |-> "marker", bcasts |-> wloops]
          /\ UNCHANGED <<mgr, dcall, tcall, mons, wloops, nman>>

Next == Manifest \/ (\E ok \in BOOLEAN : DeployReturn(ok)) \/ Closed \/ TeardownReturn \/ Marker
SpecL == Init /\ [][Next]_vars

-----------------------------------------------------------------------------
TypeOK == mons \in 0..1 /\ wloops \in 0..(MaxManifests + 1)

(* L1  at most one withdrawal loop per lease *)
OneWithdrawalLoop == wloops <= 1
(* L2  a LeaseWithdrawNow marker makes a lease broadcast at most one MsgWithdrawLease *)
OneWithdrawalPerMarker == step.took = "marker" => step.bcasts <= 1
(* L3  a monitor runs exactly while a completed deployment is in place *)
MonitorWhileComplete == mons = (IF mgr = "deploy-complete" THEN 1 ELSE 0)
(* L4  withdrawals are served while the lease is deployed, and nothing of the lease's loops outlives its manager *)
ServedWhileLeased == (mgr = "deploy-complete" => wloops >= 1) /\ (mgr = "gone" => mons = 0 /\ wloops = 0)
(* L5  a marker is answered by every loop alive (none is deaf) *)
MarkerAnswered == step.took = "marker" => step.bcasts = wloops
=============================================================================
