---------------------------- MODULE LeaseTrace ----------------------------
(* J3: trace validation for Lease.tla.  One line per driver action (manifest, dret ok|err, closed, tret, marker), *)
(* written once the real cluster service has settled, holding what was observed then: the deployment manager's     *)
(* own state (its loop trace point), the monitors and withdrawal loops alive (instances that reported a trace      *)
(* point and not yet the end of run()), the Deploy / Teardown calls in flight, and for a marker the                *)
(* MsgWithdrawLease broadcasts it produced.  The last line (post) is taken after the service was closed.           *)
EXTENDS Lease, Json

Trace == ndJsonDeserialize("trace.ndjson")
VARIABLES l, leaked, diverged
tvars == <<vars, l, leaked, diverged>>
T == Trace[l]

TInit == /\ \E i \in 1..Len(Trace) : /\ Trace[i].k = "start" /\ l = i + 1
                                     /\ mgr = Trace[i].mgr /\ mons = Trace[i].mons /\ wloops = Trace[i].wloops
                                     /\ dcall = Trace[i].dcall /\ tcall = Trace[i].tcall
         /\ nman = 0 /\ nmark = 0 /\ step = S("start") /\ leaked = 0 /\ diverged = FALSE

Took == CASE T.k = "manifest" -> "manifest" [] T.k = "dret" -> (IF T.v = "ok" THEN "deployed" ELSE "deployfailed")
          [] T.k = "closed" -> "closed" [] T.k = "tret" -> "torndown" [] T.k = "marker" -> "marker" [] OTHER -> "odd"

OStep == /\ T.k \in {"manifest", "dret", "closed", "tret", "marker"}
         /\ mgr' = T.mgr /\ mons' = T.mons /\ wloops' = T.wloops /\ dcall' = T.dcall /\ tcall' = T.tcall
         /\ nman' = nman + (IF T.k = "manifest" THEN 1 ELSE 0) /\ nmark' = nmark + (IF T.k = "marker" THEN 1 ELSE 0)
         /\ step' = [took |-> Took, bcasts |-> T.bcasts]
         /\ UNCHANGED <<leaked, diverged>>
(* after the service was closed: every manager has exited *)
OPost == /\ T.k = "post" /\ mgr' = (IF T.mgr = "none" THEN "none" ELSE T.mgr) /\ mons' = T.mons /\ wloops' = T.wloops
         /\ leaked' = T.leaked + (IF T.done THEN 0 ELSE 1) /\ step' = S("post")
         /\ UNCHANGED <<dcall, tcall, nman, nmark, diverged>>
ODiverged == T.k = "diverged" /\ diverged' = TRUE /\ UNCHANGED <<vars, leaked>>

TNext == /\ l <= Len(Trace) /\ T.k # "start" /\ l' = l + 1 /\ (OStep \/ OPost \/ ODiverged)
TSpec == TInit /\ [][TNext]_tvars

(* L4 at the end: with the service closed nothing of the lease's loops is left (no monitor, no withdrawal loop, no goroutine) *)
NothingLeft == step.took = "post" => mons = 0 /\ wloops = 0 /\ leaked = 0 /\ mgr \in {"none", "gone"}
Conform == [][Next \/ step'.took = "post"]_vars
NoDiverge == ~diverged
=============================================================================
