CONSTANTS Impl = "asfound"  Configs <- MCConfigs  Answers <- MCAnswers  OMax = 2
SPECIFICATION SpecB
INVARIANTS WithdrawTickJustified
CHECK_DEADLOCK FALSE
