CONSTANTS QMax = 100  OMax = 100
SPECIFICATION TSpec
INVARIANTS OnePerMarker OwnLeaseOnly CtxFollowsLoop CleanStop NoStuck
CHECK_DEADLOCK FALSE
