---------------------------- MODULE BalanceGen ----------------------------
(* J2 for Balance.tla.  The checker's tickers run on their own, so a run cannot be replayed under a forced       *)
(* schedule; what TLC enumerates is the environment's side of a behaviour: the run's configuration and the        *)
(* decisions of the bank (answers), of the bus (publication outcomes) and of the owner (stop), in the order taken. *)
(* The driver applies them in that order, each as soon as the call it answers is in flight, and records what the  *)
(* real loop does in between; BalanceTrace.tla validates the recording against the full specification.            *)
EXTENDS MC_Balance, Json

CONSTANT MaxDecisions
VARIABLES hist, nd
gvars == <<vars, hist, nd>>
Op(o, v) == [op |-> o, v |-> v]

GDecide == /\ nd < MaxDecisions /\ nd' = nd + 1 /\ pc # "gone"
           /\ \/ \E a \in Answers : QueryReturn(a) /\ hist' = Append(hist, Op("qret", a.name))
              \/ \E e \in {"ok", "err"} : PubReturn(e) /\ hist' = Append(hist, Op("pret", e))
              \/ pc = "select" /\ RequestStop /\ hist' = Append(hist, Op("stop", ""))
GOther == /\ \/ PFire \/ WFire \/ OrphanQueryReturn \/ OrphanPubReturn \/ Loop
          /\ UNCHANGED <<hist, nd>>
GInit == Init /\ hist = <<>> /\ nd = 0
GNext == GDecide \/ GOther
GSpec == GInit /\ [][GNext]_gvars
GView == <<vars, nd>>
Export == PrintT(<<"PLAN", ToJson([fires |-> cfg.fires, thr |-> cfg.thr, ops |-> hist])>>)
ASSUME PrintT(<<"ANSWERS", ToJson(Answers)>>)
=============================================================================
