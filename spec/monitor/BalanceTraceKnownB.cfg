CONSTANTS Impl = "asfound"  Configs <- MCConfigs  Answers <- MCAnswersTrace  OMax = 100
SPECIFICATION TSpec
INVARIANTS PeriodicWithdrawalsContinue
CHECK_DEADLOCK FALSE
