---------------------------- MODULE WatchdogTrace ----------------------------
(* J3: trace validation for Watchdog.tla (see MonitorTrace.tla for the method).                 *)
(* Lines: start (fires) | stop (via; written before stop() is called / the parent is closed) |  *)
(* timeout (a MsgCloseBid reached the tx client: bcasts, argsok) | ended (run() is over: via     *)
(* "bret" -- the driver answered the broadcast with e, having read its context -- or via "stop"; *)
(* deployments reported on the service's channel so far, whether every stop() call returned) |   *)
(* post (the parent is closed now; goroutines left, the broadcast's context, reports) | diverged *)
EXTENDS Watchdog, Json

Trace == ndJsonDeserialize("trace.ndjson")
VARIABLES l, diverged
tvars == <<vars, l, diverged>>
T == Trace[l]
Is(k) == T.k = k

TInit == /\ \E i \in 1..Len(Trace) : Trace[i].k = "start" /\ l = i + 1 /\ fires = Trace[i].fires
         /\ pc = "wait" /\ fired = FALSE /\ stopOffered = {} /\ parentClosed = FALSE /\ ctx = "live"
         /\ closes = 0 /\ how = "none" /\ step = Quiet("start") /\ diverged = FALSE

OStop == /\ Is("stop")
         /\ stopOffered' = IF pc = "wait" THEN stopOffered \cup {T.via} ELSE stopOffered
         /\ parentClosed' = (parentClosed \/ T.via = "parent")
         /\ step' = Quiet("env")
         /\ UNCHANGED <<fires, pc, fired, ctx, closes, how, diverged>>
OTimeout == /\ Is("timeout") /\ fired' = TRUE /\ pc' = "bcast" /\ closes' = closes + T.bcasts /\ stopOffered' = {}
            /\ step' = [Quiet("timeout") EXCEPT !.bcasts = T.bcasts, !.argsok = T.argsok]
            /\ UNCHANGED <<fires, parentClosed, ctx, how, diverged>>
OEnded == /\ Is("ended") /\ pc' = "ended" /\ closes' = closes + T.bcasts
          /\ IF T.via = "bret"
             THEN /\ how' = "timeout" /\ ctx' = T.ctx /\ UNCHANGED stopOffered
                  /\ step' = [Quiet("bret") EXCEPT !.ctx = T.ctx, !.notified = T.notified, !.stopret = T.stopret,
                                                   !.bcasts = T.bcasts, !.argsok = T.argsok]
             ELSE /\ how' = "stop" /\ ctx' = "done" /\ stopOffered' = {}
                  /\ step' = [Quiet("stopped") EXCEPT !.notified = T.notified, !.stopret = T.stopret,
                                                      !.bcasts = T.bcasts, !.argsok = T.argsok]
          /\ UNCHANGED <<fires, fired, parentClosed, diverged>>
OPost == /\ Is("post") /\ pc' = "post" /\ parentClosed' = TRUE /\ closes' = closes + T.bcasts
         /\ ctx' = (IF T.ctx = "na" THEN "done" ELSE T.ctx)
         /\ step' = [Quiet("post") EXCEPT !.ctx = ctx', !.notified = T.notified, !.leaked = T.leaked,
                                          !.bcasts = T.bcasts, !.argsok = T.argsok]
         /\ UNCHANGED <<fires, fired, stopOffered, how, diverged>>
ODiverged == Is("diverged") /\ diverged' = TRUE /\ UNCHANGED vars

TNext == /\ l <= Len(Trace) /\ ~Is("start") /\ l' = l + 1
         /\ OStop \/ OTimeout \/ OEnded \/ OPost \/ ODiverged
TSpec == TInit /\ [][TNext]_tvars

Conform == [][ObsNext]_vars
NoDiverge == ~diverged
=============================================================================
