CONSTANTS Impl = "asfound"  Configs <- MCConfigs  Answers <- MCAnswersTrace  OMax = 100
SPECIFICATION TSpec
INVARIANTS WithdrawTickJustified
CHECK_DEADLOCK FALSE
