---------------------------- MODULE BalanceTrace ----------------------------
(* J3: trace validation for Balance.tla (see MonitorTrace.tla for the method).                  *)
(* Lines: start (fires, thr) | loop (cases, checkc, wdc) | qret (latest, a, ctx) | pret (latest, *)
(* e) | stop | stopped (done) | post (leaked, inflight) | dead (what) | stuck.  `cases` are the  *)
(* loop's own case trace points of the iteration (tick, check-result, withdraw-result,           *)
(* withdraw-tick, then withdraw-start if it went on to withdraw); checkc / wdc: its two result   *)
(* channels at the top of the next iteration.  Every loop line carries one snapshot of nt / nws  *)
(* (tick / withdraw-start cases reported so far) and nq / np (queries / publications that        *)
(* reached the fakes); `settled`: the driver waited for the runners before reading them.         *)
(* The tickers are real (10 ms or 1 h); a tick shows when the loop takes it (Balance!ObsNext).   *)
EXTENDS MC_Balance, Json

Trace == ndJsonDeserialize("trace.ndjson")
VARIABLES l, stuck, deadP, deadW
tvars == <<vars, l, stuck, deadP, deadW>>
T == Trace[l]
Is(k) == T.k = k
SetOf(seq) == {seq[i] : i \in 1..Len(seq)}
Has(c) == c \in SetOf(T.cases)

OwedQ(S) == LET d == S.nt - S.nq IN IF S.settled \/ d < 0 THEN d ELSE 0
OwedP(S) == LET d == S.nws - S.np IN IF S.settled \/ d < 0 THEN d ELSE 0

TInit == /\ \E i \in 1..Len(Trace) :
              /\ Trace[i].k = "start" /\ l = i + 1
              /\ cfg = [fires |-> SetOf(Trace[i].fires), thr |-> Trace[i].thr]
              /\ chk = (IF Trace[i].checkc THEN "inflight" ELSE "none")
              /\ wd = (IF Trace[i].wdc THEN "inflight" ELSE "none")
              /\ step = [Quiet("start") EXCEPT !.owedQ = OwedQ(Trace[i]), !.owedP = OwedP(Trace[i]),
                                               !.argsok = Trace[i].argsok,
                                               !.queries = Trace[i].nt, !.pubs = Trace[i].nws]
         /\ pc = "select" /\ poll = [on |-> TRUE, buf |-> FALSE]
         /\ wt = [on |-> TRUE, buf |-> FALSE, per |-> "W", bufper |-> "none"]
         /\ chkv = NoA /\ orphQ = 0 /\ orphP = 0 /\ stopOffered = FALSE
         /\ stuck = FALSE /\ deadP = FALSE /\ deadW = FALSE

Took == CASE Is("stopped")            -> "shutdown"
          [] Len(T.cases) = 0         -> "odd"
          [] T.cases[1] = "tick"            -> "ptick"
          [] T.cases[1] = "check-result"    -> "cresult"
          [] T.cases[1] = "withdraw-tick"   -> "wtick"
          [] T.cases[1] = "withdraw-result" -> "wresult"
          [] OTHER -> "odd"

Count(c) == Cardinality({i \in 1..Len(T.cases) : T.cases[i] = c})

OLoop ==
  /\ Is("loop") \/ Is("stopped")
  /\ LET took == Took
         np == Count("withdraw-start")
         nq == Count("tick") IN
     /\ pc' = IF Is("stopped") THEN "done" ELSE pc
     /\ stopOffered' = IF Is("stopped") THEN FALSE ELSE stopOffered
     /\ poll' = IF took = "ptick" THEN [on |-> FALSE, buf |-> FALSE]
                ELSE IF took = "cresult" THEN [poll EXCEPT !.on = TRUE] ELSE poll
     /\ wt' = IF took = "wtick" THEN [on |-> FALSE, buf |-> FALSE, per |-> wt.per, bufper |-> "none"]
              ELSE IF took = "wresult" THEN [wt EXCEPT !.on = TRUE, !.per = RestartPer] ELSE wt
     /\ chk' = IF ~T.checkc THEN "none" ELSE IF nq > 0 THEN "inflight" ELSE chk
     /\ chkv' = IF took \in {"ptick", "cresult"} \/ ~T.checkc THEN NoA ELSE chkv
     /\ orphQ' = orphQ + (IF nq > 0 /\ chk = "inflight" THEN 1 ELSE 0)
     /\ wd' = IF ~T.wdc THEN "none" ELSE IF np > 0 THEN "inflight" ELSE wd
     /\ orphP' = orphP + (IF np > 0 /\ wd = "inflight" THEN 1 ELSE 0)
     /\ step' = [Quiet(took) EXCEPT !.res = IF took = "cresult" THEN chkv ELSE NoA,
                                    !.queries = nq, !.pubs = np,
                                    !.why = IF np = 0 THEN "none" ELSE IF took = "cresult" THEN "low"
                                            ELSE IF took = "wtick" THEN "wtick" ELSE "odd",
                                    !.owedQ = OwedQ(T), !.owedP = OwedP(T), !.argsok = T.argsok,
                                    !.leaked = IF Is("stopped") /\ ~T.done THEN 1 ELSE 0]
  /\ UNCHANGED <<cfg, stuck, deadP, deadW>>

OQret == /\ Is("qret")
         /\ IF T.latest THEN /\ chk' = (IF pc = "select" THEN "ready" ELSE "none")
                             /\ chkv' = (IF pc = "select" THEN T.a ELSE NoA) /\ UNCHANGED orphQ
                        ELSE orphQ' = orphQ - 1 /\ UNCHANGED <<chk, chkv>>
         /\ step' = [Quiet("env") EXCEPT !.ctx = IF T.ctx = "na" THEN CtxNow ELSE T.ctx]
         /\ UNCHANGED <<cfg, pc, poll, wt, wd, orphP, stopOffered, stuck, deadP, deadW>>
OPret == /\ Is("pret")
         /\ IF T.latest THEN wd' = (IF pc = "select" THEN "ready" ELSE "none") /\ UNCHANGED orphP
                        ELSE orphP' = orphP - 1 /\ UNCHANGED wd
         /\ step' = Quiet("env")
         /\ UNCHANGED <<cfg, pc, poll, wt, chk, chkv, orphQ, stopOffered, stuck, deadP, deadW>>
OStop == /\ Is("stop") /\ stopOffered' = (pc = "select") /\ step' = Quiet("env")
         /\ UNCHANGED <<cfg, pc, poll, wt, chk, chkv, wd, orphQ, orphP, stuck, deadP, deadW>>
OPost == /\ Is("post") /\ pc' = "gone"
         /\ step' = [Quiet("post") EXCEPT !.owedQ = OwedQ(T), !.owedP = OwedP(T), !.argsok = T.argsok,
                                          !.leaked = T.leaked + T.inflight]
         /\ UNCHANGED <<cfg, poll, wt, chk, chkv, wd, orphQ, orphP, stopOffered, stuck, deadP, deadW>>
ODead == /\ Is("dead") /\ deadP' = (deadP \/ T.what = "P") /\ deadW' = (deadW \/ T.what = "W")
         /\ UNCHANGED <<vars, stuck>>
OStuck == Is("stuck") /\ stuck' = TRUE /\ UNCHANGED <<vars, deadP, deadW>>

TNext == /\ l <= Len(Trace) /\ ~Is("start") /\ l' = l + 1
         /\ OLoop \/ OQret \/ OPret \/ OStop \/ OPost \/ ODead \/ OStuck
TSpec == TInit /\ [][TNext]_tvars

(* B6 / B7 as the driver can see them: with every call answered and a period that elapses, the next tick comes *)
PollingContinues == ~deadP
PeriodicWithdrawalsContinue == ~deadW
NoStuck == ~stuck
Conform == [][ObsNext]_vars
InitConform == step.took = "start" => chk = "none" /\ wd = "none" /\ step = Quiet("start")
=============================================================================
