---------------------------- MODULE MonitorTrace ----------------------------
(* J3: trace validation for Monitor.tla.                                                      *)
(*                                                                                            *)
(* trace.ndjson is what harness/monitorh recorded from real deployment monitors: many runs,   *)
(* each beginning with a "start" line (the loop's first trace point), then one line per       *)
(* environment action of the driver (fire, ret, cret, stop; written BEFORE the action is      *)
(* performed) and one per trace point of the loop (loop, exit, stopped) holding the hook's    *)
(* fields (attempts, tickch/runch/closech nil or not) and what the fakes saw since the last   *)
(* line (status calls, timers requested, publications, broadcasts).                           *)
(* The variables of Monitor.tla are DRIVEN BY THE OBSERVATIONS; which select case an          *)
(* iteration took is inferred here from the channels that went nil, not reported by the       *)
(* harness.  (i) the property definitions of Monitor.tla are evaluated on the observed states *)
(* -- the verdict; (ii) Conform checks every observed step is a step of Monitor!Next -- drift. *)
EXTENDS MC_Monitor, Json

Trace == ndJsonDeserialize("trace.ndjson")

VARIABLES l,        \* next line to consume
          stuck,    \* the loop sat idle in its select although a case was ready (driver timed out, goroutine parked)
          diverged  \* the driver could not perform the next scripted action (the loop did something else)

tvars == <<vars, l, stuck, diverged>>

T == Trace[l]
Is(k) == T.k = k

Chan(b, fresh, old) == IF ~b THEN "none" ELSE IF fresh THEN "inflight" ELSE old

StartState(S) ==
  /\ pc = "select" /\ tick = (IF S.tick THEN "armed" ELSE "none")
  /\ run = (IF S.runc THEN "inflight" ELSE "none") /\ runv = NoV
  /\ close = (IF S.closec THEN "inflight" ELSE "none")
  /\ attempts = S.attempts /\ stopOffered = {} /\ consec = 0 /\ closes = S.bcasts
  /\ step = [Quiet("start") EXCEPT !.calls = S.calls, !.arms = S.arms, !.pubs = S.pubs, !.bcasts = S.bcasts,
                                   !.argsok = S.argsok]

(* every run is a behaviour of its own, beginning at its "start" line *)
TInit == /\ \E i \in 1..Len(Trace) : Trace[i].k = "start" /\ l = i + 1 /\ StartState(Trace[i])
         /\ stuck = FALSE /\ diverged = FALSE

(* which select case the iteration took: the channel that was set and is nil now *)
Took == CASE Is("exit")               -> "shutdown"
          [] run # "none" /\ ~T.runc  -> "result"
          [] tick # "none" /\ ~T.tick -> "tick"
          [] close # "none" /\ ~T.closec -> "close"
          [] OTHER -> "odd"

OLoop ==
  /\ Is("loop") \/ Is("exit")
  /\ LET took == Took IN
     /\ pc' = IF Is("exit") THEN "drain" ELSE pc
     /\ tick' = IF ~T.tick THEN "none" ELSE IF T.arms > 0 THEN "armed" ELSE tick
     /\ run' = Chan(T.runc, T.calls > 0 /\ run = "none", run)
     /\ runv' = IF T.runc THEN runv ELSE NoV
     /\ close' = Chan(T.closec, T.bcasts > 0 /\ close = "none", close)
     /\ attempts' = T.attempts
     /\ stopOffered' = IF Is("exit") THEN {} ELSE stopOffered
     /\ consec' = IF took = "result" THEN (IF Healthy(runv) THEN 0 ELSE consec + 1) ELSE consec
     /\ closes' = closes + T.bcasts
     /\ step' = [Quiet(took) EXCEPT !.res = IF took = "result" THEN runv ELSE NoV, !.calls = T.calls,
                                    !.arms = T.arms, !.pubs = T.pubs, !.bcasts = T.bcasts, !.argsok = T.argsok]
  /\ UNCHANGED <<stuck, diverged>>

OStopped ==
  /\ Is("stopped")
  /\ pc' = "done"
  /\ run' = IF run = "ready" THEN "none" ELSE run
  /\ runv' = NoV
  /\ close' = IF close = "ready" THEN "none" ELSE close
  /\ step' = [Quiet("stopped") EXCEPT !.calls = T.calls, !.arms = T.arms, !.pubs = T.pubs, !.bcasts = T.bcasts,
                                      !.argsok = T.argsok, !.inflight = T.inflight,
                                      !.leaked = T.leaked + (IF T.done THEN 0 ELSE 1)]
  /\ closes' = closes + T.bcasts
  /\ UNCHANGED <<tick, attempts, stopOffered, consec, stuck, diverged>>

Ctx == IF T.ctx = "na" THEN CtxNow ELSE T.ctx

OFire == /\ Is("fire") /\ tick' = "fired" /\ step' = Quiet("env")
         /\ UNCHANGED <<pc, run, runv, close, attempts, stopOffered, consec, closes, stuck, diverged>>
ORet == /\ Is("ret") /\ run' = "ready" /\ runv' = T.v /\ step' = [Quiet("env") EXCEPT !.ctx = Ctx]
        /\ UNCHANGED <<pc, tick, close, attempts, stopOffered, consec, closes, stuck, diverged>>
OCret == /\ Is("cret") /\ close' = "ready" /\ step' = [Quiet("env") EXCEPT !.ctx = Ctx]
         /\ UNCHANGED <<pc, tick, run, runv, attempts, stopOffered, consec, closes, stuck, diverged>>
OStop == /\ Is("stop") /\ stopOffered' = IF pc = "select" THEN stopOffered \cup {T.via} ELSE stopOffered
         /\ step' = Quiet("env")
         /\ UNCHANGED <<pc, tick, run, runv, close, attempts, consec, closes, stuck, diverged>>
OStuck == Is("stuck") /\ stuck' = TRUE /\ UNCHANGED <<vars, diverged>>
ODiverged == Is("diverged") /\ diverged' = TRUE /\ UNCHANGED <<vars, stuck>>

TNext == /\ l <= Len(Trace) /\ ~Is("start") /\ l' = l + 1
         /\ OLoop \/ OStopped \/ OFire \/ ORet \/ OCret \/ OStop \/ OStuck \/ ODiverged

TSpec == TInit /\ [][TNext]_tvars

-----------------------------------------------------------------------------
(* (i) verdict: the invariants of Monitor.tla (cfg) and                                        *)
(* M9  progress: a loop with a ready case takes it (judged by the driver's bounded wait while  *)
(*     the loop's goroutine is parked in its own select)                                       *)
NoStuck == ~stuck

(* (ii) conformance *)
Conform == [][Next]_vars
InitConform == step.took = "start" => /\ tick = "armed" /\ run = "none" /\ close = "none" /\ attempts = 0
                                      /\ closes = 0 /\ step = [Quiet("start") EXCEPT !.arms = 1]
NoDiverge == ~diverged
=============================================================================
