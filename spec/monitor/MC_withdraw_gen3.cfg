CONSTANTS QMax = 2  OMax = 4
SPECIFICATION GSpec
VIEW GView
INVARIANTS Export Props
CHECK_DEADLOCK FALSE
