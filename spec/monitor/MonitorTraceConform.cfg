CONSTANTS MaxRetries = 40  Spec <- MCSpec  Variants <- MCVariantsTrace
SPECIFICATION TSpec
INVARIANTS InitConform NoDiverge
PROPERTIES Conform
CHECK_DEADLOCK FALSE
