CONSTANTS QMax = 2  OMax = 2
SPECIFICATION GSpec
VIEW GView
INVARIANTS Export Props
CHECK_DEADLOCK FALSE
