CONSTANTS Impl = "asfound"  MaxManifests = 100  MaxMarkers = 100
SPECIFICATION TSpec
INVARIANTS MonitorWhileComplete ServedWhileLeased MarkerAnswered NothingLeft
CHECK_DEADLOCK FALSE
