------------------------------ MODULE Watchdog ------------------------------
(* The manifest watchdog: provider/manifest/watchdog.go.                                       *)
(*                                                                                            *)
(* The manifest service starts one per lease won; run() waits for the manifest timeout        *)
(* (--manifest-timeout, "time after which bids are cancelled if no manifest is received") or  *)
(* for a shutdown request of its lifecycle, whichever comes first.  On the timeout it          *)
(* broadcasts MsgCloseBid for its bid and ends; on the request (stop(): the service received   *)
(* a manifest for the deployment, or its manager went away; parent: the service is shutting    *)
(* down) it ends without a broadcast.  A second goroutine relays the parent's ShuttingDown     *)
(* channel as a shutdown request (lifecycle.WatchChannel) and then cancels the context of the  *)
(* broadcast; a third one reports the deployment on the service's channel when run() is over.  *)
(*                                                                                            *)
(* Impl = "asfound": on the timeout path run() never declares ShutdownInitiated, so the relay  *)
(* goroutine never returns: the context is never cancelled while a broadcast is in flight and  *)
(* the goroutine outlives the watchdog.  Impl = "intended": the parent cancels a broadcast in  *)
(* flight and nothing is left behind.                                                          *)
EXTENDS Integers, Sequences, FiniteSets, TLC

CONSTANTS Impl

VARIABLES fires,       \* the timeout is short enough to elapse within the run
          pc,          \* "wait" | "bcast" (broadcasting the close) | "ended" | "post" (parent closed, census taken)
          fired,       \* the timer has fired
          stopOffered, \* who is offering a shutdown request: subset of {"own", "parent"}
          parentClosed,
          ctx,         \* context of the broadcast: "live" | "done"
          closes,      \* history: close broadcasts started
          how,         \* history: how run() ended: "none" | "timeout" | "stop"
          step

vars == <<fires, pc, fired, stopOffered, parentClosed, ctx, closes, how, step>>

Quiet(took) == [took |-> took, bcasts |-> 0, ctx |-> "na", notified |-> -1, stopret |-> TRUE, leaked |-> 0, argsok |-> TRUE]

Init == /\ fires \in BOOLEAN /\ pc = "wait" /\ fired = FALSE /\ stopOffered = {} /\ parentClosed = FALSE
        /\ ctx = "live" /\ closes = 0 /\ how = "none" /\ step = Quiet("start")

TimerFire == /\ fires /\ pc = "wait" /\ ~fired /\ fired' = TRUE /\ step' = Quiet("env")
             /\ UNCHANGED <<fires, pc, stopOffered, parentClosed, ctx, closes, how>>

(* stop() blocks its caller until the request is taken or run() is over; closing the parent never blocks *)
RequestStop(via) ==
  /\ via \notin stopOffered /\ (via = "parent" => ~parentClosed) /\ pc # "post"
  /\ stopOffered' = IF pc = "wait" THEN stopOffered \cup {via} ELSE stopOffered
  /\ parentClosed' = (parentClosed \/ via = "parent")
  /\ ctx' = IF via = "parent" /\ Impl = "intended" THEN "done" ELSE ctx
  /\ step' = Quiet("env")
  /\ UNCHANGED <<fires, pc, fired, closes, how>>

BcastReturn(e) == /\ pc = "bcast" /\ e \in {"ok", "err"} /\ pc' = "ended" /\ how' = "timeout"
                  /\ step' = [Quiet("bret") EXCEPT !.ctx = ctx, !.notified = 1]
                  /\ UNCHANGED <<fires, fired, stopOffered, parentClosed, ctx, closes>>

TakeTimeout == /\ pc = "wait" /\ fired /\ pc' = "bcast" /\ closes' = closes + 1 /\ stopOffered' = {}
               /\ step' = [Quiet("timeout") EXCEPT !.bcasts = 1]
               /\ UNCHANGED <<fires, fired, parentClosed, ctx, how>>

TakeStop == /\ pc = "wait" /\ stopOffered # {} /\ pc' = "ended" /\ how' = "stop" /\ stopOffered' = {}
            /\ ctx' = "done"     \* ShutdownInitiated releases the relay goroutine, which cancels the context
            /\ step' = [Quiet("stopped") EXCEPT !.notified = 1]
            /\ UNCHANGED <<fires, fired, parentClosed, closes>>

(* the service shuts down (if it has not yet): afterwards nothing of the watchdog may be left *)
Post == /\ pc = "ended" /\ pc' = "post" /\ parentClosed' = TRUE
        /\ ctx' = IF Impl = "asfound" /\ how = "timeout" THEN ctx ELSE "done"
        /\ step' = [Quiet("post") EXCEPT !.ctx = ctx', !.notified = 1,
                                         !.leaked = IF Impl = "asfound" /\ how = "timeout" THEN 1 ELSE 0]
        /\ UNCHANGED <<fires, fired, stopOffered, closes, how>>

Next == \/ TimerFire \/ (\E via \in {"own", "parent"} : RequestStop(via)) \/ (\E e \in {"ok", "err"} : BcastReturn(e))
        \/ TakeTimeout \/ TakeStop \/ Post
SpecD == Init /\ [][Next]_vars
(* a recording shows the timeout when the broadcast reaches the tx client: the timer firing and run() taking it, in one *)
ObsTimeout == /\ fires /\ pc = "wait" /\ ~fired /\ fired' = TRUE /\ pc' = "bcast" /\ closes' = closes + 1
              /\ stopOffered' = {} /\ step' = [Quiet("timeout") EXCEPT !.bcasts = 1]
              /\ UNCHANGED <<fires, parentClosed, ctx, how>>
ObsNext == Next \/ ObsTimeout
Quiescent == ~(pc = "wait" /\ (fired \/ stopOffered # {} \/ fires))

-----------------------------------------------------------------------------
TypeOK == pc \in {"wait", "bcast", "ended", "post"} /\ closes \in 0..1 /\ ctx \in {"live", "done"}

(* D1  MsgCloseBid is broadcast only because the timeout elapsed while the watchdog was still waiting, once, for the *)
(*     watchdog's own bid (order of the lease, provider of the session)                                              *)
CloseOnlyOnTimeout == /\ step.bcasts = (IF step.took = "timeout" THEN 1 ELSE 0) /\ closes <= 1 /\ step.argsok
                      /\ step.took = "timeout" => fires /\ stopOffered = {}
(* D2  a watchdog that was stopped before its timeout never broadcasts, and a timed-out one always has *)
CloseIffTimedOut == (how = "stop" => closes = 0) /\ (how = "timeout" => closes = 1)
(* D3  when run() is over the deployment is reported exactly once on the service's channel and stop() calls return *)
ReportsOnce == step.notified \in {-1, 1} /\ step.stopret
(* D4  the service's shutdown cancels a broadcast in flight, and after it nothing of the watchdog is left *)
ParentCancels == /\ step.took = "bret" /\ parentClosed => step.ctx = "done"
                 /\ step.took = "post" => step.ctx = "done"
NothingLeft == step.leaked = 0

Props == CloseOnlyOnTimeout /\ CloseIffTimedOut /\ ReportsOnce
=============================================================================
