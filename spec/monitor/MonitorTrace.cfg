CONSTANTS MaxRetries = 40  Spec <- MCSpec  Variants <- MCVariantsTrace
SPECIFICATION TSpec
INVARIANTS NoEarlyClose AtMostOneClose StatusMatches CheckOnlyOnTick KeepsMonitoring ClosesWhenExhausted CleanStop CtxFollowsLoop OwnLeaseOnly NoStuck
CHECK_DEADLOCK FALSE
