---------------------------- MODULE WithdrawGen ----------------------------
(* J2 for Withdraw.tla: forced schedule, one script per reached state (see MonitorGen.tla). *)
EXTENDS Withdraw, Json

VARIABLES hist
gvars == <<vars, hist>>
Op(o, v) == [op |-> o, v |-> v]

GEnv == /\ Quiescent /\ pc # "done"
        /\ \/ \E k \in {"withdraw", "other"} : Publish(k) /\ hist' = Append(hist, Op("pub", k))
           \/ \E e \in {"ok", "err"} : ReturnLatest(e) /\ hist' = Append(hist, Op("bret", e))
           \/ \E e \in {"ok", "err"} : ReturnOrphan(e) /\ hist' = Append(hist, Op("oret", e))
           \/ \E via \in {"own", "parent"} : RequestStop(via) /\ hist' = Append(hist, Op("stop", via))
GLoop == Loop /\ hist' = Append(hist, Op(step'.took, ""))
GInit == Init /\ hist = <<>>
GNext == GEnv \/ GLoop
GSpec == GInit /\ [][GNext]_gvars
GView == vars
Export == PrintT(<<"SCRIPT", ToJson(hist)>>)
=============================================================================
