CONSTANTS Impl = "asfound"  Configs <- MCConfigs  Answers <- MCAnswersTrace  OMax = 100
SPECIFICATION TSpec
INVARIANTS WithdrawJustified LowTriggers QueryPerTick ArgsOk NothingOwed CtxFollowsLoop CleanStop PollingContinues NoStuck
CHECK_DEADLOCK FALSE
