CONSTANTS Impl = "asfound"
SPECIFICATION TSpec
INVARIANTS ParentCancels
CHECK_DEADLOCK FALSE
