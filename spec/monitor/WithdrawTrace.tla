---------------------------- MODULE WithdrawTrace ----------------------------
(* J3: trace validation for Withdraw.tla (see MonitorTrace.tla for the method).                *)
(* Lines: start | pub (kind) | bret (latest, e, ctx) | stop (via) | loop (resc, ev) | stopped    *)
(* (..., done) | post (goroutines left) | stuck | diverged.  `ev` is the loop's own "event" trace *)
(* point inside the iteration (which bus event it took), `resc` whether its result channel is set *)
(* at the top of the next iteration.  Every line carries one snapshot of two counters: `seenw`,   *)
(* markers the loop has reported taken, and `sent`, MsgWithdrawLease calls that reached the tx    *)
(* client; `settled` says the driver waited for the runners before taking the snapshot (always    *)
(* under the forced schedule; at the end of a free run).                                          *)
EXTENDS Withdraw, Json

Trace == ndJsonDeserialize("trace.ndjson")
VARIABLES l, stuck, diverged
tvars == <<vars, l, stuck, diverged>>
T == Trace[l]
Is(k) == T.k = k

TInit == /\ \E i \in 1..Len(Trace) :
              /\ Trace[i].k = "start" /\ l = i + 1
              /\ res = (IF Trace[i].resc THEN "inflight" ELSE "none")
              /\ step = [Quiet("start") EXCEPT !.owed = Trace[i].seenw - Trace[i].sent, !.argsok = Trace[i].argsok]
         /\ pc = "select" /\ queue = <<>> /\ orphans = 0 /\ stopOffered = {}
         /\ stuck = FALSE /\ diverged = FALSE

(* a runner that has not reached the tx client yet is owed only at a settled line *)
Owed == LET d == T.seenw - T.sent IN IF T.settled \/ d < 0 THEN d ELSE 0

Took == CASE Is("stopped") -> "shutdown"
          [] T.ev # ""     -> T.ev
          [] res # "none" /\ ~T.resc -> "result"
          [] OTHER -> "odd"

OLoop ==
  /\ Is("loop") \/ Is("stopped")
  /\ LET took == Took IN
     /\ pc' = IF Is("stopped") THEN "done" ELSE pc
     /\ queue' = IF Is("stopped") THEN <<>> ELSE IF T.ev # "" /\ queue # <<>> THEN Tail(queue) ELSE queue
     /\ res' = IF ~T.resc THEN "none" ELSE IF T.ev = "withdraw" THEN "inflight" ELSE res
     /\ orphans' = orphans + (IF T.ev = "withdraw" /\ res = "inflight" THEN 1 ELSE 0)
     /\ stopOffered' = IF Is("stopped") THEN {} ELSE stopOffered
     /\ step' = [Quiet(took) EXCEPT !.owed = Owed, !.argsok = T.argsok,
                                    !.leaked = IF Is("stopped") /\ ~T.done THEN 1 ELSE 0]
  /\ UNCHANGED <<stuck, diverged>>

(* a marker the loop took must be the one at the head of what was published (conformance checks the kind) *)
OPub == /\ Is("pub") /\ queue' = (IF pc = "select" THEN Append(queue, T.kind) ELSE queue) /\ step' = Quiet("env")
        /\ UNCHANGED <<pc, res, orphans, stopOffered, stuck, diverged>>
Ctx == IF T.ctx = "na" THEN CtxNow ELSE T.ctx
OBret == /\ Is("bret")
         /\ IF T.latest THEN res' = (IF pc = "select" THEN "ready" ELSE "none") /\ UNCHANGED orphans
                        ELSE orphans' = orphans - 1 /\ UNCHANGED res
         /\ step' = [Quiet("env") EXCEPT !.ctx = Ctx]
         /\ UNCHANGED <<pc, queue, stopOffered, stuck, diverged>>
OStop == /\ Is("stop") /\ stopOffered' = IF pc = "select" THEN stopOffered \cup {T.via} ELSE stopOffered
         /\ step' = Quiet("env")
         /\ UNCHANGED <<pc, queue, res, orphans, stuck, diverged>>
OPost == /\ Is("post") /\ pc' = "gone" /\ step' = [Quiet("post") EXCEPT !.owed = Owed, !.leaked = T.leaked, !.argsok = T.argsok]
         /\ UNCHANGED <<queue, res, orphans, stopOffered, stuck, diverged>>
OStuck == Is("stuck") /\ stuck' = TRUE /\ UNCHANGED <<vars, diverged>>
ODiverged == Is("diverged") /\ diverged' = TRUE /\ UNCHANGED <<vars, stuck>>

TNext == /\ l <= Len(Trace) /\ ~Is("start") /\ l' = l + 1
         /\ OLoop \/ OPub \/ OBret \/ OStop \/ OPost \/ OStuck \/ ODiverged
TSpec == TInit /\ [][TNext]_tvars

(* W5  progress: a running loop with an event waiting / a result ready / a shutdown on offer takes it; in       *)
(*     particular a failed broadcast does not stop it serving the next marker                                   *)
NoStuck == ~stuck
Conform == [][Next]_vars
InitConform == step.took = "start" => res = "none" /\ step = Quiet("start")
NoDiverge == ~diverged
=============================================================================
