---------------------------- MODULE WatchdogGen ----------------------------
(* J2 for Watchdog.tla: forced schedule (the driver moves when the watchdog is parked; a timeout that will elapse *)
(* is waited for), one script per reached state.                                                                  *)
EXTENDS Watchdog, Json
VARIABLES hist
gvars == <<vars, hist>>
Op(o, v) == [op |-> o, v |-> v]
GEnv == /\ Quiescent /\ pc # "post"
        /\ \/ \E via \in {"own", "parent"} : RequestStop(via) /\ hist' = Append(hist, Op("stop", via))
           \/ \E e \in {"ok", "err"} : BcastReturn(e) /\ hist' = Append(hist, Op("bret", e))
GAuto == /\ TimerFire \/ TakeTimeout \/ TakeStop \/ Post
         /\ hist' = IF step'.took = "env" THEN hist ELSE Append(hist, Op(step'.took, ""))
GInit == Init /\ hist = <<>>
GSpec == GInit /\ [][GEnv \/ GAuto]_gvars
GView == vars
Export == PrintT(<<"SCRIPT", ToJson([fires |-> fires, ops |-> hist])>>)
=============================================================================
