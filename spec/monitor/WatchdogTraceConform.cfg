CONSTANTS Impl = "asfound"
SPECIFICATION TSpec
INVARIANTS NoDiverge
PROPERTIES Conform
CHECK_DEADLOCK FALSE
