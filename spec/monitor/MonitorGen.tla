---------------------------- MODULE MonitorGen ----------------------------
EXTENDS MC_Monitor, Json

(* J2: forced schedule -- the environment moves only when the loop is parked, so that a script *)
(* replays deterministically (at most one select case ready).  hist is the script that reached *)
(* the state; kept out of the VIEW, so every state is visited once (BFS: by a shortest script). *)
(* resetAt (the largest attempt count a healthy answer has reset so far) tells apart the        *)
(* histories a state alone forgets; it is in the VIEW only in the deep configuration.           *)
VARIABLES hist, resetAt
gvars == <<vars, hist, resetAt>>

Op(o, v) == [op |-> o, v |-> v]

GEnv == /\ Quiescent /\ pc # "done"
        /\ \/ TimerFire /\ hist' = Append(hist, Op("fire", ""))
           \/ \E v \in Variants : CheckReturn(v) /\ hist' = Append(hist, Op("ret", v.name))
           \/ \E e \in {"ok", "err"} : CloseReturn(e) /\ hist' = Append(hist, Op("cret", e))
           \/ \E via \in {"own", "parent"} : pc = "select" /\ RequestStop(via) /\ hist' = Append(hist, Op("stop", via))
        /\ UNCHANGED resetAt
GLoop == /\ Loop
         /\ hist' = Append(hist, Op(step'.took, ""))
         /\ resetAt' = IF step'.took = "result" /\ Healthy(step'.res) /\ attempts > resetAt
                       THEN attempts ELSE resetAt
GInit == Init /\ hist = <<>> /\ resetAt = 0
GNext == GEnv \/ GLoop
GSpec == GInit /\ [][GNext]_gvars
GView == vars
GViewDeep == <<vars, resetAt>>

(* print the script of every finished run the configuration asks for (always TRUE: used as an invariant) *)
AllResets == 0..(MaxRetries + 1)
CONSTANT WantResets      \* the values of resetAt whose runs are exported
Export == resetAt \in WantResets => PrintT(<<"SCRIPT", ToJson(hist)>>)
ASSUME PrintT(<<"VARIANTS", ToJson(Variants)>>)
=============================================================================
