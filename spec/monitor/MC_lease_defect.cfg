CONSTANTS Impl = "asfound"  MaxManifests = 3  MaxMarkers = 2
SPECIFICATION SpecL
INVARIANTS OneWithdrawalPerMarker
CHECK_DEADLOCK FALSE
