CONSTANTS Impl = "asfound"
SPECIFICATION SpecD
INVARIANTS NothingLeft
CHECK_DEADLOCK FALSE
