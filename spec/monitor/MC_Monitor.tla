---------------------------- MODULE MC_Monitor ----------------------------
(* J1 instance of Monitor.tla: constants.                                                     *)
(* The manifest group has two services; the answers of the cluster client cover: all there,   *)
(* more than asked, one service short, one service absent, everything absent, the call fails.  *)
EXTENDS Monitor

MCSpec == [web |-> 2, db |-> 1]
V(n, e, w, d) == [name |-> n, err |-> e, avail |-> [web |-> w, db |-> d]]
MCVariants == {V("ok", FALSE, 2, 1), V("over", FALSE, 5, 1), V("short", FALSE, 1, 1),
               V("absent", FALSE, 2, -1), V("empty", FALSE, -1, -1), V("err", TRUE, 2, 1)}
(* the harness winds a run down with failing answers of its own *)
MCVariantsTrace == MCVariants \cup {V("wind", TRUE, 2, 1), V("tail", TRUE, 2, 1)}
MCVariantsSmall == {V("ok", FALSE, 2, 1), V("short", FALSE, 1, 1), V("err", TRUE, 2, 1)}
=============================================================================
