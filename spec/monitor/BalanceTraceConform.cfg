CONSTANTS Impl = "asfound"  Configs <- MCConfigs  Answers <- MCAnswersTrace  OMax = 100
SPECIFICATION TSpec
INVARIANTS InitConform
PROPERTIES Conform
CHECK_DEADLOCK FALSE
