---------------------------- MODULE MC_Balance ----------------------------
EXTENDS Balance
A(n, e, c) == [name |-> n, err |-> e, cmp |-> c]
MCAnswers == {A("below", FALSE, "below"), A("equal", FALSE, "equal"), A("above", FALSE, "above"), A("err", TRUE, "below")}
MCAnswersTrace == MCAnswers \cup {A("wind", TRUE, "below")}
MCConfigs == {[fires |-> f, thr |-> t] : f \in {{"P"}, {"W"}, {"P", "W"}}, t \in {"zero", "set"}}
(* keep J1 finite-and-small: the loop itself is unbounded only in orphans, which OMax bounds *)
=============================================================================
