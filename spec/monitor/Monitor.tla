------------------------------ MODULE Monitor ------------------------------
(* The provider's deployment monitor: provider/cluster/monitor.go, deploymentMonitor.run().   *)
(*                                                                                            *)
(* One monitor watches one lease.  Its loop selects on four channels: the shutdown request of *)
(* its lifecycle, the timer of the next check (tickch), the result of the check in flight     *)
(* (runch, client.LeaseStatus judged by doCheck) and the result of the close broadcast in     *)
(* flight (closech, MsgCloseBid through the session's tx client).  One action of this module  *)
(* per select case; the environment fires the timer, answers the check, answers the           *)
(* broadcast and asks for shutdown (the owner's shutdown() or the owning manager's            *)
(* ShuttingDown channel, both arrive as one offer on the lifecycle's stop channel).           *)
(*                                                                                            *)
(* `step` records what the last step did to the outside world (calls started, timers armed,   *)
(* statuses published, broadcasts started); the properties are state predicates over the loop *)
(* state, the history counters and `step`, so that MonitorTrace.tla can evaluate the very     *)
(* same definitions on states observed from the real code.                                    *)
EXTENDS Integers, Sequences, FiniteSets, TLC

CONSTANTS MaxRetries,   \* monitorMaxRetries (40): retries after the first failed check
          Spec,         \* the manifest group: service name -> required replica count
          Variants      \* answers of the cluster client: [name, err, avail: service -> available (-1 absent)]

VARIABLES pc,           \* "select" (in the loop) | "drain" (loop left, waiting for calls in flight) | "done"
          tick,         \* tickch: "none" (nil) | "armed" | "fired" (a value can be received)
          run,          \* runch:  "none" (nil) | "inflight" | "ready"
          runv,         \* the answer the check in flight got (a variant; NoV when none)
          close,        \* closech: "none" | "inflight" | "ready"
          attempts,     \* m.attempts
          stopOffered,  \* who is offering a shutdown request on the lifecycle: subset of {"own", "parent"}
          consec,       \* history: failed check results taken by the loop since the last healthy one
          closes,       \* history: close broadcasts started
          step          \* what the last step did

vars == <<pc, tick, run, runv, close, attempts, stopOffered, consec, closes, step>>

NoV == [name |-> "none", err |-> FALSE, avail |-> [s \in DOMAIN Spec |-> 0]]

(* doCheck: healthy iff the status call succeeded and every service of the manifest group is *)
(* reported with at least its required count available                                        *)
Healthy(v) == ~v.err /\ \A s \in DOMAIN Spec : v.avail[s] >= Spec[s]
StatusOf(v) == IF Healthy(v) THEN "deployed" ELSE "pending"

Quiet(took) == [took |-> took, res |-> NoV, calls |-> 0, arms |-> 0, pubs |-> <<>>, bcasts |-> 0,
                ctx |-> "na", leaked |-> 0, inflight |-> 0, argsok |-> TRUE]

Init == /\ pc = "select" /\ tick = "armed" /\ run = "none" /\ runv = NoV /\ close = "none"
        /\ attempts = 0 /\ stopOffered = {} /\ consec = 0 /\ closes = 0
        /\ step = [Quiet("start") EXCEPT !.arms = 1]

\* ---------------------------------------------------------------- environment
TimerFire == /\ tick = "armed" /\ tick' = "fired" /\ step' = Quiet("env")
             /\ UNCHANGED <<pc, run, runv, close, attempts, stopOffered, consec, closes>>

(* the context handed to LeaseStatus / Broadcast is live exactly while the loop is running *)
CtxNow == IF pc = "select" THEN "live" ELSE "done"

CheckReturn(v) == /\ run = "inflight" /\ run' = "ready" /\ runv' = v
                  /\ step' = [Quiet("env") EXCEPT !.ctx = CtxNow]
                  /\ UNCHANGED <<pc, tick, close, attempts, stopOffered, consec, closes>>

CloseReturn(e) == /\ close = "inflight" /\ close' = "ready" /\ e \in {"ok", "err"}   \* the loop only logs the outcome
               /\ step' = [Quiet("env") EXCEPT !.ctx = CtxNow]
               /\ UNCHANGED <<pc, tick, run, runv, attempts, stopOffered, consec, closes>>

(* the owner's shutdown() (lifecycle.ShutdownAsync: blocks until the loop takes the request) or the owning manager's  *)
(* ShuttingDown channel (relayed by lifecycle.WatchChannel); once the loop has left its select a request is a no-op   *)
RequestStop(via) == /\ via \notin stopOffered
                    /\ stopOffered' = IF pc = "select" THEN stopOffered \cup {via} ELSE stopOffered
                    /\ step' = Quiet("env")
                    /\ UNCHANGED <<pc, tick, run, runv, close, attempts, consec, closes>>

Env == \/ TimerFire \/ (\E v \in Variants : CheckReturn(v)) \/ (\E e \in {"ok", "err"} : CloseReturn(e))
       \/ (\E via \in {"own", "parent"} : RequestStop(via))

\* ---------------------------------------------------------------- the loop
TakeShutdown == /\ pc = "select" /\ stopOffered # {}
                /\ pc' = "drain" /\ stopOffered' = {} /\ step' = Quiet("shutdown")
                /\ UNCHANGED <<tick, run, runv, close, attempts, consec, closes>>

TakeTick == /\ pc = "select" /\ tick = "fired"
            /\ tick' = "none" /\ attempts' = attempts + 1 /\ run' = "inflight"
            /\ step' = [Quiet("tick") EXCEPT !.calls = 1]
            /\ UNCHANGED <<pc, runv, close, stopOffered, consec, closes>>

TakeResult ==
  /\ pc = "select" /\ run = "ready"
  /\ run' = "none" /\ runv' = NoV
  /\ IF Healthy(runv)
     THEN /\ attempts' = 0 /\ consec' = 0 /\ tick' = "armed"
          /\ step' = [Quiet("result") EXCEPT !.res = runv, !.arms = 1, !.pubs = <<"deployed">>]
          /\ UNCHANGED <<close, closes>>
     ELSE /\ consec' = consec + 1
          /\ IF attempts <= MaxRetries
             THEN /\ tick' = "armed"
                  /\ step' = [Quiet("result") EXCEPT !.res = runv, !.arms = 1, !.pubs = <<"pending">>]
                  /\ UNCHANGED <<close, closes>>
             ELSE /\ close' = "inflight" /\ closes' = closes + 1
                  /\ step' = [Quiet("result") EXCEPT !.res = runv, !.bcasts = 1, !.pubs = <<"pending">>]
                  /\ UNCHANGED tick
          /\ UNCHANGED attempts
  /\ UNCHANGED <<pc, stopOffered>>

TakeClose == /\ pc = "select" /\ close = "ready" /\ close' = "none" /\ step' = Quiet("close")
             /\ UNCHANGED <<pc, tick, run, runv, attempts, stopOffered, consec, closes>>

(* after the loop: cancel the context, read runch and closech if a call is in flight, end *)
Drain == /\ pc = "drain" /\ run # "inflight" /\ close # "inflight"
         /\ pc' = "done" /\ run' = "none" /\ runv' = NoV /\ close' = "none" /\ step' = Quiet("stopped")
         /\ UNCHANGED <<tick, attempts, stopOffered, consec, closes>>

Loop == TakeShutdown \/ TakeTick \/ TakeResult \/ TakeClose \/ Drain

Next == Env \/ Loop
SpecM == Init /\ [][Next]_vars

(* no loop action is enabled: the loop is parked in its select (or blocked in the drain) *)
Quiescent == CASE pc = "select" -> ~(stopOffered # {} \/ tick = "fired" \/ run = "ready" \/ close = "ready")
               [] pc = "drain"  -> run = "inflight" \/ close = "inflight"
               [] OTHER         -> TRUE

-----------------------------------------------------------------------------
(* The properties (X03, monitor part).                                                        *)

TypeOK == /\ pc \in {"select", "drain", "done"} /\ tick \in {"none", "armed", "fired"}
          /\ run \in {"none", "inflight", "ready"} /\ close \in {"none", "inflight", "ready"}
          /\ attempts \in 0..(MaxRetries + 1) /\ stopOffered \subseteq {"own", "parent"}
          /\ consec \in 0..(MaxRetries + 1) /\ closes \in 0..1

(* M1  the lease is closed only when the first check and all MaxRetries retries failed in a   *)
(*     row: never after a transient failure, never on a healthy answer                         *)
NoEarlyClose == step.bcasts > 0 => /\ step.took = "result" /\ ~Healthy(step.res)
                                   /\ consec > MaxRetries /\ step.bcasts = 1
(* M2  at most one close broadcast per monitor *)
AtMostOneClose == closes <= 1
(* M3  every check result is announced once on the bus with the matching status, nothing else is *)
StatusMatches == step.pubs = IF step.took = "result" THEN <<StatusOf(step.res)>> ELSE <<>>
(* M4  exactly one status call per timer tick, none otherwise *)
CheckOnlyOnTick == step.calls = IF step.took = "tick" THEN 1 ELSE 0
(* M5  a running monitor that has not closed the lease always has a next check pending *)
KeepsMonitoring == pc = "select" /\ closes = 0 => tick # "none" \/ run # "none"
(* M6  ... and when the budget is exhausted it does close (one more failure of slack) *)
ClosesWhenExhausted == consec > MaxRetries + 1 => closes >= 1
(* M7  clean stop: once the loop is left nothing is started; at the end nothing is in flight, *)
(*     no goroutine is left; the calls' context is cancelled exactly when the loop is left     *)
CleanStop == /\ pc # "select" /\ step.took # "shutdown" =>
                  step.calls = 0 /\ step.arms = 0 /\ step.pubs = <<>> /\ step.bcasts = 0
             /\ pc = "done" => run # "inflight" /\ close # "inflight" /\ step.leaked = 0 /\ step.inflight = 0
CtxFollowsLoop == step.ctx # "na" => step.ctx = CtxNow
(* M8  what the monitor asks and says is about its own lease: LeaseStatus(lease), ClusterDeployment{lease, group},   *)
(*     MsgCloseBid{BidID of the lease}                                                                              *)
OwnLeaseOnly == step.argsok

(* Liveness, promised only under fairness: Go's select picks among ready cases at random, so a shutdown  *)
(* request that stays on offer is taken (weak fairness of that one case); if the calls in flight then    *)
(* return, the monitor ends (the drain after the loop waits for both calls).                            *)
Fair == /\ WF_vars(TakeShutdown) /\ WF_vars(Drain) /\ WF_vars(\E v \in Variants : CheckReturn(v))
        /\ WF_vars(\E e \in {"ok", "err"} : CloseReturn(e))
LiveSpec == SpecM /\ Fair
StopLeadsToDone == (stopOffered # {}) ~> (pc = "done")

Props == /\ NoEarlyClose /\ AtMostOneClose /\ StatusMatches /\ CheckOnlyOnTick /\ KeepsMonitoring
         /\ ClosesWhenExhausted /\ CleanStop /\ CtxFollowsLoop /\ OwnLeaseOnly
=============================================================================
