------------------------------ MODULE Balance ------------------------------
(* The provider's balance checker: provider/balance_checker.go, balanceChecker.run().          *)
(*                                                                                            *)
(* One per provider.  Two tickers: the polling ticker (period P = PollingPeriod,              *)
(* --balance-check-period) and the withdrawal ticker (W = WithdrawalPeriod,                   *)
(* --withdrawal-period, "period at which withdrawals are made from the escrow accounts").     *)
(* Select cases: shutdown; a poll tick (stop the ticker, query the bank balance through a     *)
(* runner); the query's result (restart the poll ticker; balance below the threshold =>       *)
(* withdraw now); a withdrawal tick (stop that ticker, withdraw now); the result of a         *)
(* "withdraw now" (restart the withdrawal ticker).  "Withdraw now" publishes one              *)
(* LeaseWithdrawNow marker on the bus through a runner; every lease's withdrawal loop         *)
(* (Withdraw.tla) answers it with one MsgWithdrawLease.                                        *)
(*                                                                                            *)
(* Time is abstracted to which of the two periods is short enough to elapse within a run      *)
(* (cfg.fires): a ticker fires iff it is running with such a period.  Tickers have Go's       *)
(* one-slot channel: a tick may slip in between the receive and the Stop() ("late").          *)
(*                                                                                            *)
(* Impl = "intended": the withdrawal ticker is restarted with W.  Impl = "asfound": with P    *)
(* (balance_checker.go, withdrawalTicker.Reset(bc.cfg.PollingPeriod)).                         *)
EXTENDS Integers, Sequences, FiniteSets, TLC

CONSTANTS Impl,        \* "intended" | "asfound"
          Configs,     \* set of [fires: SUBSET {"P","W"}, thr: "zero"|"set"] a run may be started with
          Answers,     \* answers of the bank query: [name, err: BOOLEAN, cmp: "below"|"equal"|"above"]
          OMax         \* bound on orphaned calls in flight (model only)

VARIABLES cfg,         \* the configuration of this run
          pc,          \* "select" | "done" (loop ended) | "gone" (its calls have returned too)
          poll,        \* polling ticker: [on, buf]  (running; a tick waits in the channel)
          wt,          \* withdrawal ticker: [on, buf, per, bufper] (period it runs with; period that produced the waiting tick)
          chk, chkv,   \* balanceCheckResult: "none"|"inflight"|"ready", and the answer the latest query got
          wd,          \* withdrawAllResult: "none"|"inflight"|"ready"
          orphQ, orphP,\* queries / publications in flight whose result channel was overwritten
          stopOffered, \* the context the checker watches has been cancelled and the request is on offer
          step

vars == <<cfg, pc, poll, wt, chk, chkv, wd, orphQ, orphP, stopOffered, step>>

NoA == [name |-> "none", err |-> FALSE, cmp |-> "above"]
(* doCheck: too low iff the query succeeded, a threshold is configured and the balance is strictly below it *)
TooLow(a) == ~a.err /\ cfg.thr = "set" /\ a.cmp = "below"

(* step: queries / pubs = runners started by the step; why = what made it withdraw; owedQ / owedP = runners  *)
(* started minus calls that reached the bank client / the bus (cumulative)                                    *)
Quiet(took) == [took |-> took, res |-> NoA, queries |-> 0, pubs |-> 0, why |-> "none",
                owedQ |-> 0, owedP |-> 0, ctx |-> "na", leaked |-> 0, argsok |-> TRUE]

Init == /\ cfg \in Configs /\ pc = "select"
        /\ poll = [on |-> TRUE, buf |-> FALSE]
        /\ wt = [on |-> TRUE, buf |-> FALSE, per |-> "W", bufper |-> "none"]
        /\ chk = "none" /\ chkv = NoA /\ wd = "none" /\ orphQ = 0 /\ orphP = 0 /\ stopOffered = FALSE
        /\ step = Quiet("start")

CtxNow == IF pc = "select" THEN "live" ELSE "done"

\* ---------------------------------------------------------------- environment: time, bank, bus, owner
PFire == /\ poll.on /\ "P" \in cfg.fires /\ ~poll.buf /\ pc = "select"
         /\ poll' = [poll EXCEPT !.buf = TRUE] /\ step' = Quiet("env")
         /\ UNCHANGED <<cfg, pc, wt, chk, chkv, wd, orphQ, orphP, stopOffered>>
WFire == /\ wt.on /\ wt.per \in cfg.fires /\ ~wt.buf /\ pc = "select"
         /\ wt' = [wt EXCEPT !.buf = TRUE, !.bufper = wt.per] /\ step' = Quiet("env")
         /\ UNCHANGED <<cfg, pc, poll, chk, chkv, wd, orphQ, orphP, stopOffered>>

QueryReturn(a) == /\ chk = "inflight" /\ chk' = (IF pc = "select" THEN "ready" ELSE "none")
                  /\ chkv' = (IF pc = "select" THEN a ELSE NoA)
                  /\ step' = [Quiet("env") EXCEPT !.ctx = CtxNow]
                  /\ UNCHANGED <<cfg, pc, poll, wt, wd, orphQ, orphP, stopOffered>>
OrphanQueryReturn == /\ orphQ > 0 /\ orphQ' = orphQ - 1 /\ step' = [Quiet("env") EXCEPT !.ctx = CtxNow]
                     /\ UNCHANGED <<cfg, pc, poll, wt, chk, chkv, wd, orphP, stopOffered>>
(* bus.Publish returned (nil, or ErrNotRunning from a closed bus): the outcome is only logged *)
PubReturn(e) == /\ wd = "inflight" /\ e \in {"ok", "err"} /\ wd' = (IF pc = "select" THEN "ready" ELSE "none")
                /\ step' = Quiet("env")
                /\ UNCHANGED <<cfg, pc, poll, wt, chk, chkv, orphQ, orphP, stopOffered>>
OrphanPubReturn == /\ orphP > 0 /\ orphP' = orphP - 1 /\ step' = Quiet("env")
                   /\ UNCHANGED <<cfg, pc, poll, wt, chk, chkv, wd, orphQ, stopOffered>>
RequestStop == /\ ~stopOffered /\ stopOffered' = (pc = "select") /\ step' = Quiet("env")
               /\ UNCHANGED <<cfg, pc, poll, wt, chk, chkv, wd, orphQ, orphP>>

Env == \/ PFire \/ WFire \/ (\E a \in Answers : QueryReturn(a)) \/ OrphanQueryReturn
       \/ (\E e \in {"ok", "err"} : PubReturn(e)) \/ OrphanPubReturn \/ RequestStop

\* ---------------------------------------------------------------- the loop
(* "withdraw now": a runner publishes the marker; an older publication still in flight is orphaned *)
StartPub(s, why) ==
  /\ orphP < OMax \/ wd # "inflight"
  /\ wd' = "inflight" /\ orphP' = orphP + (IF wd = "inflight" THEN 1 ELSE 0)
  /\ step' = [s EXCEPT !.pubs = 1, !.why = why]

TakeShutdown == /\ pc = "select" /\ stopOffered /\ pc' = "done" /\ stopOffered' = FALSE
                /\ step' = Quiet("shutdown")
                /\ UNCHANGED <<cfg, poll, wt, chk, chkv, wd, orphQ, orphP>>

PTickBody ==
             /\ \E late \in BOOLEAN : (late => "P" \in cfg.fires) /\ poll' = [on |-> FALSE, buf |-> late]
             /\ orphQ < OMax \/ chk # "inflight"
             /\ chk' = "inflight" /\ chkv' = NoA /\ orphQ' = orphQ + (IF chk = "inflight" THEN 1 ELSE 0)
             /\ step' = [Quiet("ptick") EXCEPT !.queries = 1]
             /\ UNCHANGED <<cfg, pc, wt, wd, orphP, stopOffered>>
TakePTick == pc = "select" /\ poll.buf /\ PTickBody

TakeCResult == /\ pc = "select" /\ chk = "ready"
               /\ chk' = "none" /\ chkv' = NoA /\ poll' = [poll EXCEPT !.on = TRUE]
               /\ IF TooLow(chkv) THEN StartPub([Quiet("cresult") EXCEPT !.res = chkv], "low")
                                  ELSE step' = [Quiet("cresult") EXCEPT !.res = chkv] /\ UNCHANGED <<wd, orphP>>
               /\ UNCHANGED <<cfg, pc, wt, orphQ, stopOffered>>

WTickBody ==
             /\ \E late \in BOOLEAN : (late => wt.per \in cfg.fires)
                                       /\ wt' = [on |-> FALSE, buf |-> late, per |-> wt.per,
                                                 bufper |-> IF late THEN wt.per ELSE "none"]
             /\ StartPub(Quiet("wtick"), "wtick")
             /\ UNCHANGED <<cfg, pc, poll, chk, chkv, orphQ, stopOffered>>
TakeWTick == pc = "select" /\ wt.buf /\ WTickBody

(* What a recording shows of a tick is the loop taking it, not the ticker firing: the two steps in one; a tick that  *)
(* slipped in before Stop() shows as a tick taken from a stopped ticker.                                            *)
ObsPTick == pc = "select" /\ ~poll.buf /\ "P" \in cfg.fires /\ PTickBody
ObsWTick == pc = "select" /\ ~wt.buf /\ (wt.per \in cfg.fires \/ ~wt.on) /\ WTickBody

RestartPer == IF Impl = "asfound" THEN "P" ELSE "W"
TakeWResult == /\ pc = "select" /\ wd = "ready" /\ wd' = "none"
               /\ wt' = [wt EXCEPT !.on = TRUE, !.per = RestartPer]
               /\ step' = Quiet("wresult")
               /\ UNCHANGED <<cfg, pc, poll, chk, chkv, orphQ, orphP, stopOffered>>

Settle == /\ pc = "done" /\ chk # "inflight" /\ wd # "inflight" /\ orphQ = 0 /\ orphP = 0
          /\ pc' = "gone" /\ step' = Quiet("post")
          /\ UNCHANGED <<cfg, poll, wt, chk, chkv, wd, orphQ, orphP, stopOffered>>

Loop == TakeShutdown \/ TakePTick \/ TakeCResult \/ TakeWTick \/ TakeWResult \/ Settle
Next == Env \/ Loop
SpecB == Init /\ [][Next]_vars
ObsNext == Next \/ ObsPTick \/ ObsWTick

-----------------------------------------------------------------------------
TypeOK == /\ pc \in {"select", "done", "gone"} /\ chk \in {"none", "inflight", "ready"}
          /\ wd \in {"none", "inflight", "ready"} /\ orphQ \in 0..OMax /\ orphP \in 0..OMax

(* B1  a LeaseWithdrawNow marker is published only because a balance query found the balance below the configured *)
(*     threshold, or because the withdrawal period has elapsed: never otherwise.  On recorded runs the period of  *)
(*     the ticker is not visible; what is: a withdrawal tick in a run whose withdrawal period cannot elapse.       *)
WithdrawJustified == step.pubs > 0 => /\ step.pubs = 1
                                      /\ \/ step.why = "low" /\ step.took = "cresult" /\ TooLow(step.res)
                                         \/ step.why = "wtick" /\ step.took = "wtick"
WithdrawTickJustified == step.took = "wtick" => "W" \in cfg.fires
(* ... in the model the tick's period is known: the sharp form (a waiting withdrawal tick was produced at period W) *)
WithdrawalTickPeriod == wt.buf => wt.bufper = "W"
(* B2  a balance below the threshold does trigger a withdrawal; equal / above / no threshold / failed query do not *)
LowTriggers == step.took = "cresult" => (step.pubs = 1 <=> TooLow(step.res))
(* B3  one bank query per poll tick, none otherwise; the query asks for the provider's own uakt balance *)
QueryPerTick == step.queries = (IF step.took = "ptick" THEN 1 ELSE 0)
ArgsOk == step.argsok
(* B4  every runner the loop starts reaches its neighbour, nothing else does (cumulative, see Withdraw.tla W1) *)
NothingOwed == step.owedQ = 0 /\ step.owedP = 0
(* B5  the queries' context is live while the loop runs, cancelled once it has left; after the loop has left *)
(*     nothing is started and, once the calls in flight have returned, no goroutine is left                    *)
CtxFollowsLoop == step.ctx # "na" => step.ctx = CtxNow
CleanStop == pc # "select" /\ step.took # "shutdown" => step.queries = 0 /\ step.pubs = 0 /\ step.leaked = 0
(* B6  (state) polling never stops while the checker runs: the poll ticker is running, or a tick waits, or a  *)
(*     query is in flight whose result will restart it -- also after a failed query                            *)
KeepsPolling == pc = "select" => poll.on \/ poll.buf \/ chk # "none"
(* B7  (state) periodic withdrawals never stop while the checker runs, and run at the withdrawal period *)
KeepsWithdrawing == pc = "select" => wt.on \/ wt.buf \/ wd # "none"
WithdrawalTickerPeriod == wt.per = "W"

Props == /\ WithdrawJustified /\ WithdrawTickJustified /\ LowTriggers /\ QueryPerTick /\ ArgsOk /\ NothingOwed /\ CtxFollowsLoop /\ CleanStop
         /\ KeepsPolling /\ KeepsWithdrawing

(* liveness under fairness: with a period that elapses, polling goes on for ever (queries being answered) *)
(* (Go's select picks among ready cases at random: a case that is ready again and again is taken -- strong fairness; *)
(* the model's bound OMax can disable a case for a while, which is why weak fairness would not do here)              *)
Fair == /\ WF_vars(PFire) /\ SF_vars(TakePTick) /\ SF_vars(TakeCResult) /\ WF_vars(\E a \in Answers : QueryReturn(a))
        /\ WF_vars(TakeShutdown) /\ WF_vars(\E e \in {"ok", "err"} : PubReturn(e))
        /\ WF_vars(OrphanQueryReturn) /\ WF_vars(OrphanPubReturn)   \* (only the model's bound OMax makes the loop wait for these)
LiveSpec == SpecB /\ Fair
PollsForEver == ("P" \in cfg.fires) => []<>(pc # "select" \/ step.took = "ptick")
=============================================================================
