CONSTANTS Impl = "asfound"  MaxManifests = 3  MaxMarkers = 2
SPECIFICATION GSpec
VIEW GView
INVARIANTS Export
CHECK_DEADLOCK FALSE
