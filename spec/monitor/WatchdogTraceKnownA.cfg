CONSTANTS Impl = "asfound"
SPECIFICATION TSpec
INVARIANTS NothingLeft
CHECK_DEADLOCK FALSE
