CONSTANTS MaxRetries = 40  Spec <- MCSpec  Variants <- MCVariants 
SPECIFICATION SpecM
INVARIANTS TypeOK NoEarlyClose AtMostOneClose StatusMatches CheckOnlyOnTick KeepsMonitoring ClosesWhenExhausted CleanStop CtxFollowsLoop
CHECK_DEADLOCK FALSE
