CONSTANTS Impl = "asfound"  Configs <- MCConfigs  Answers <- MCAnswers  OMax = 1  MaxDecisions = 4
SPECIFICATION GSpec
VIEW GView
INVARIANTS Export
CHECK_DEADLOCK FALSE
