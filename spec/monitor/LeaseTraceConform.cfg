CONSTANTS Impl = "asfound"  MaxManifests = 100  MaxMarkers = 100
SPECIFICATION TSpec
INVARIANTS NoDiverge
PROPERTIES Conform
CHECK_DEADLOCK FALSE
