CONSTANTS Impl = "asfound"  MaxManifests = 3  MaxMarkers = 2
SPECIFICATION SpecL
INVARIANTS TypeOK MonitorWhileComplete ServedWhileLeased MarkerAnswered 
CHECK_DEADLOCK FALSE
