CONSTANTS Impl = "asfound"
SPECIFICATION TSpec
INVARIANTS CloseOnlyOnTimeout CloseIffTimedOut ReportsOnce
CHECK_DEADLOCK FALSE
