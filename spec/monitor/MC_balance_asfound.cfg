CONSTANTS Impl = "asfound"  Configs <- MCConfigs  Answers <- MCAnswers  OMax = 2
SPECIFICATION SpecB
INVARIANTS TypeOK WithdrawJustified LowTriggers QueryPerTick ArgsOk NothingOwed CtxFollowsLoop CleanStop KeepsPolling KeepsWithdrawing
CHECK_DEADLOCK FALSE
