CONSTANTS Impl = "asfound"  MaxManifests = 100  MaxMarkers = 100
SPECIFICATION TSpec
INVARIANTS OneWithdrawalPerMarker
CHECK_DEADLOCK FALSE
