CONSTANTS QMax = 100  OMax = 100
SPECIFICATION TSpec
INVARIANTS InitConform NoDiverge
PROPERTIES Conform
CHECK_DEADLOCK FALSE
