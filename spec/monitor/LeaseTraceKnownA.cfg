CONSTANTS Impl = "asfound"  MaxManifests = 100  MaxMarkers = 100
SPECIFICATION TSpec
INVARIANTS OneWithdrawalLoop
CHECK_DEADLOCK FALSE
