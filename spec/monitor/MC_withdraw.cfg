CONSTANTS QMax = 3  OMax = 2
SPECIFICATION SpecW
INVARIANTS TypeOK OnePerMarker OwnLeaseOnly CtxFollowsLoop CleanStop
CHECK_DEADLOCK FALSE
