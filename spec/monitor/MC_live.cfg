CONSTANTS MaxRetries = 2  Spec <- MCSpec  Variants <- MCVariantsSmall
SPECIFICATION LiveSpec
INVARIANTS TypeOK
PROPERTIES StopLeadsToDone
CHECK_DEADLOCK FALSE
