CONSTANTS MaxRetries = 40  Spec <- MCSpec  Variants <- MCVariantsSmall  WantResets <- AllResets
SPECIFICATION GSpec
VIEW GView
INVARIANTS Export Props
CHECK_DEADLOCK FALSE
