CONSTANTS Impl = "intended"  MaxManifests = 3  MaxMarkers = 2
SPECIFICATION SpecL
INVARIANTS TypeOK MonitorWhileComplete ServedWhileLeased MarkerAnswered OneWithdrawalLoop OneWithdrawalPerMarker
CHECK_DEADLOCK FALSE
