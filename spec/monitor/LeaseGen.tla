---------------------------- MODULE LeaseGen ----------------------------
(* J2 for Lease.tla: every action is the driver's (it publishes the events and answers the Deploy / Teardown *)
(* calls), so a behaviour IS a script; each step carries the state the driver should then wait for.          *)
EXTENDS Lease, Json
VARIABLES hist
gvars == <<vars, hist>>
Exp == [mgr |-> mgr', mons |-> mons', wloops |-> wloops', dcall |-> dcall', tcall |-> tcall', bcasts |-> step'.bcasts]
GNext == /\ \/ Manifest /\ hist' = Append(hist, [op |-> "manifest", v |-> "", exp |-> Exp])
            \/ \E ok \in BOOLEAN : DeployReturn(ok) /\ hist' = Append(hist, [op |-> "dret", v |-> IF ok THEN "ok" ELSE "err", exp |-> Exp])
            \/ Closed /\ hist' = Append(hist, [op |-> "closed", v |-> "", exp |-> Exp])
            \/ TeardownReturn /\ hist' = Append(hist, [op |-> "tret", v |-> "", exp |-> Exp])
            \/ Marker /\ hist' = Append(hist, [op |-> "marker", v |-> "", exp |-> Exp])
GInit == Init /\ hist = <<>>
GSpec == GInit /\ [][GNext]_gvars
GView == vars
Export == PrintT(<<"SCRIPT", ToJson(hist)>>)
=============================================================================
