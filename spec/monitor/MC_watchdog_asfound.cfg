CONSTANTS Impl = "asfound"
SPECIFICATION SpecD
INVARIANTS TypeOK CloseOnlyOnTimeout CloseIffTimedOut ReportsOnce 
CHECK_DEADLOCK FALSE
