CONSTANTS Impl = "asfound"  Configs <- MCConfigs  Answers <- MCAnswers  OMax = 1
SPECIFICATION LiveSpec
INVARIANTS TypeOK
PROPERTIES PollsForEver
CHECK_DEADLOCK FALSE
