CONSTANTS Impl = "intended"
SPECIFICATION SpecD
INVARIANTS TypeOK CloseOnlyOnTimeout CloseIffTimedOut ReportsOnce ParentCancels NothingLeft
CHECK_DEADLOCK FALSE
