CONSTANTS MaxSub = 4  MaxEv = 2  OrderedPub = TRUE
SPECIFICATION Spec
INVARIANTS TypeOK ExactlyOnceInOrder NoLoss NoBlock TreeOK PositionalLemma
CHECK_DEADLOCK TRUE
