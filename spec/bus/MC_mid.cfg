CONSTANTS MaxSub = 3  MaxEv = 3  OrderedPub = TRUE
SPECIFICATION Spec
INVARIANTS TypeOK ExactlyOnceInOrder NoLoss NoBlock TreeOK
CHECK_DEADLOCK TRUE
