CONSTANTS MaxSub = 3  MaxEv = 3  OrderedPub = TRUE
SPECIFICATION Spec
INVARIANTS TypeOK ExactlyOnceInOrder NoLoss NoBlock TreeOK PositionalLemma
CHECK_DEADLOCK TRUE
