CONSTANTS MaxSub = 3  MaxEv = 2  OrderedPub = TRUE
SPECIFICATION Spec
INVARIANTS TypeOK ExactlyOnceInOrder NoLoss NoBlock TreeOK PositionalLemma
PROPERTY EventuallySettled
CHECK_DEADLOCK TRUE
