------------------------------ MODULE BusGen ------------------------------
(* J2: behaviour generation.  Bus.tla plus a history of the environment's API calls  *)
(* (publish / subscribe / clone / read / close) in the order TLC takes them.  hist is *)
(* kept out of the VIEW, so TLC visits every state of the bounded model once and the  *)
(* history printed at a state is one API-level script that reaches it.                *)
EXTENDS Bus, TLC, Json

VARIABLES hist,    \* Seq of [op, n]
          joinq    \* nodes whose Close() call has not returned yet (close requested explicitly)

gvars == <<vars, hist, joinq>>

Op(o, n) == [op |-> o, n |-> n]

(* a Close() returns when its node is done: record the join point in the script *)
Joins(q, stNew) == {n \in q : stNew[n] = "done"}
RECURSIVE AppendJoins(_, _)
AppendJoins(h, S) == IF S = {} THEN h
                     ELSE LET n == CHOOSE x \in S : \A y \in S : x =< y
                          IN AppendJoins(Append(h, Op("join", n)), S \ {n})

GEnv ==
  \/ \E e \in Evs : Publish(e) /\ hist' = Append(hist, Op("pub", e)) /\ UNCHANGED joinq
  \/ \E n \in Nodes : Subscribe(n) /\ hist' = Append(hist, Op("sub", n)) /\ UNCHANGED joinq
  \/ \E s \in Subs : Live(s) /\ Emit(s) /\ hist' = Append(hist, Op("read", s)) /\ UNCHANGED joinq
  \/ \E n \in Nodes : RequestClose(n) /\ hist' = Append(hist, Op("aclose", n)) /\ joinq' = joinq \cup {n}

GInt == /\ Internal
        /\ hist' = AppendJoins(hist, Joins(joinq, st'))
        /\ joinq' = joinq \ Joins(joinq, st')

GInit == Init /\ hist = <<>> /\ joinq = {}
GNext == GEnv \/ GInt
GSpec == GInit /\ [][GNext]_gvars

GView == vars

(* print the script that reached this state (always TRUE: used as an invariant) *)
Export == PrintT(<<"SCRIPT", ToJson(hist)>>)
=============================================================================
