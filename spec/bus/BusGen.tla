------------------------------ MODULE BusGen ------------------------------
(* J2: behaviour generation.  Bus.tla plus a history of the environment's API calls  *)
(* (publish / subscribe / clone / read / close) in the order TLC takes them.  hist is *)
(* kept out of the VIEW, so TLC visits every state of the bounded model once and the  *)
(* history printed at a state is one API-level script that reaches it.                *)
EXTENDS Bus, TLC, Json

VARIABLES hist,    \* Seq of [op, n]
          joinq,   \* nodes whose Close() call has not returned yet (close requested explicitly)
          held     \* the bus has received an event and not yet handed it to any subscriber

gvars == <<vars, hist, joinq, held>>

Op(o, n) == [op |-> o, n |-> n]

(* a Close() returns when its node is done: record the join point in the script *)
Joins(q, stNew) == {n \in q : stNew[n] = "done"}
RECURSIVE AppendJoins(_, _)
AppendJoins(h, S) == IF S = {} THEN h
                     ELSE LET n == CHOOSE x \in S : \A y \in S : x =< y
                          IN AppendJoins(Append(h, Op("join", n)), S \ {n})

GEnv ==
  \/ \E e \in Evs : Publish(e) /\ hist' = Append(hist, Op("pub", e)) /\ UNCHANGED joinq
                     /\ held' = (RunningKids(Root) # {})
  \/ \E n \in Nodes : Subscribe(n) /\ hist' = Append(hist, Op("sub", n)) /\ UNCHANGED <<joinq, held>>
  \/ \E s \in Subs : Live(s) /\ Emit(s) /\ hist' = Append(hist, Op("read", s)) /\ UNCHANGED <<joinq, held>>
  \/ \E n \in Nodes : RequestClose(n) /\ hist' = Append(hist, Op("aclose", n)) /\ joinq' = joinq \cup {n}
                       /\ UNCHANGED held

(* the first hand-over of an event by the bus: the point up to which the harness holds the bus's *)
(* loop at its "bus.fanout" gate, so that the API calls before it run while the event is in flight *)
GRootFwd == /\ \E c \in Subs : Fwd(Root, c)
            /\ hist' = IF held THEN Append(hist, Op("release", 0)) ELSE hist
            /\ held' = FALSE
            /\ UNCHANGED joinq

GInt == /\ \/ \E n \in Subs, c \in Subs : Fwd(n, c)
           \/ \E n \in Nodes : Stop(n)
           \/ \E c \in Subs : Unsub(c)
           \/ RootDone
        /\ hist' = AppendJoins(hist, Joins(joinq, st'))
        /\ joinq' = joinq \ Joins(joinq, st')
        /\ UNCHANGED held

GInit == Init /\ hist = <<>> /\ joinq = {} /\ held = FALSE
GNext == GEnv \/ GRootFwd \/ GInt
GSpec == GInit /\ [][GNext]_gvars

GView == <<vars, held>>

(* print the script that reached this state (always TRUE: used as an invariant) *)
Export == PrintT(<<"SCRIPT", ToJson(hist)>>)
=============================================================================
