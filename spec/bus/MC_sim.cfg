CONSTANTS MaxSub = 6  MaxEv = 6  OrderedPub = TRUE
SPECIFICATION Spec
INVARIANTS TypeOK ExactlyOnceInOrder NoLoss NoBlock TreeOK PositionalLemma
CHECK_DEADLOCK TRUE
