CONSTANTS MaxSub = 3  MaxEv = 2  OrderedPub = TRUE
SPECIFICATION GSpec
VIEW GView
INVARIANTS Export ExactlyOnceInOrder NoLoss
CHECK_DEADLOCK FALSE
