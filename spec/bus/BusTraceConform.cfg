CONSTANTS MaxSub = 12  MaxEv = 64  OrderedPub = FALSE
SPECIFICATION TSpec
PROPERTY Conform
CHECK_DEADLOCK FALSE
