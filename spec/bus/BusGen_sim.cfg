CONSTANTS MaxSub = 4  MaxEv = 4  OrderedPub = TRUE
SPECIFICATION GSpec
INVARIANTS Export ExactlyOnceInOrder NoLoss
CHECK_DEADLOCK FALSE
