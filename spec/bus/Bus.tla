------------------------------- MODULE Bus -------------------------------
(* The event bus of /repo/pubsub/bus.go (property C15).                      *)
(*                                                                         *)
(* Node 0 is the bus (root loop, bus.go:104-174 with eventch = nil), nodes  *)
(* 1..MaxSub are subscribers (the same loop in subscriber mode).  One      *)
(* action per select case of run(); the synchronous fan-out loop of the    *)
(* pubch case is one Fwd step per child (a rendezvous with that child's    *)
(* select).  Readers are the environment: Emit(s) is a reader taking the   *)
(* head of s's buffer; readers may stall for ever (Emit has no fairness).  *)
EXTENDS Integers, Sequences, FiniteSets

CONSTANTS MaxSub,      \* subscribers ever created
          MaxEv,       \* events ever published
          OrderedPub   \* TRUE: events are published as 1,2,3.. (symmetry breaking for J1/J2)

Root  == 0
Nodes == 0..MaxSub
Subs  == 1..MaxSub
Evs   == 1..MaxEv

VARIABLES
  st,        \* [Nodes -> {"unused","run","exiting","done"}]   loop state
  par,       \* [Nodes -> Nodes]        parent (meaningful once created)
  kids,      \* [Nodes -> SUBSET Subs]  b.subscriptions
  buf,       \* [Nodes -> Seq(Evs)]     b.evbuf (undelivered FIFO); always <<>> for the root
  cur,       \* [Nodes -> Evs \cup {0}] event being fanned out by the pubch case (0: none)
  todo,      \* [Nodes -> SUBSET Subs]  children the fan-out has still to hand cur to; {} <=> loop is in select
  stopReq,   \* [Nodes -> BOOLEAN]      a Shutdown/ShutdownAsync is waiting on lc.stopch
  \* ghosts (what the property talks about)
  published, \* Seq(Evs): events in the order the root loop received them (linearization of Publish)
  delivered, \* [Nodes -> Seq(Evs)]: what readers took from Events()
  start      \* [Nodes -> Nat]: index into published after which everything is owed to the subscriber

vars == <<st, par, kids, buf, cur, todo, stopReq, published, delivered, start>>

Range(s) == {s[i] : i \in 1..Len(s)}
IsPrefix(a, b) == Len(a) =< Len(b) /\ \A i \in 1..Len(a) : a[i] = b[i]

(* start[s] is fixed when s is created inside its parent's loop:                                    *)
(*   subscriber of the bus: Len(published) -- it is owed "each event published after its            *)
(*                          subscription", i.e. every event the root loop receives from then on;    *)
(*   clone of s0          : Len(delivered[s0]) -- it is owed "the events the original had not yet   *)
(*                          handed out plus all later ones" (an event the root has received but s0  *)
(*                          has not yet is a later one: s0 forwards it to the clone on arrival).    *)
Owed(s) == SubSeq(published, start[s] + 1, Len(published))

InSelect(n) == st[n] = "run" /\ todo[n] = {}
Created     == {n \in Subs : st[n] # "unused"}
NextId      == Cardinality(Created) + 1
AllIdle     == \A n \in Nodes : todo[n] = {}

TypeOK ==
  /\ st \in [Nodes -> {"unused", "run", "exiting", "done"}]
  /\ par \in [Nodes -> Nodes]
  /\ kids \in [Nodes -> SUBSET Subs]
  /\ \A n \in Nodes : buf[n] \in Seq(Evs) /\ delivered[n] \in Seq(Evs)
  /\ cur \in [Nodes -> Evs \cup {0}]
  /\ todo \in [Nodes -> SUBSET Subs]
  /\ stopReq \in [Nodes -> BOOLEAN]
  /\ published \in Seq(Evs)
  /\ start \in [Nodes -> Nat]
  /\ buf[Root] = <<>>

Init ==
  /\ st = [n \in Nodes |-> IF n = Root THEN "run" ELSE "unused"]
  /\ par = [n \in Nodes |-> Root]
  /\ kids = [n \in Nodes |-> {}]
  /\ buf = [n \in Nodes |-> <<>>]
  /\ cur = [n \in Nodes |-> 0]
  /\ todo = [n \in Nodes |-> {}]
  /\ stopReq = [n \in Nodes |-> FALSE]
  /\ published = <<>>
  /\ delivered = [n \in Nodes |-> <<>>]
  /\ start = [n \in Nodes |-> 0]

-----------------------------------------------------------------------------
(* case ev := <-b.pubch, at the root: the linearization point of Publish(e). *)
RunningKids(n) == {c \in kids[n] : st[c] = "run"}
(* cur is meaningful only while a fan-out is in progress; keep it 0 otherwise (canonical states) *)
Norm(c, t) == [n \in Nodes |-> IF t[n] = {} THEN 0 ELSE c[n]]

Publish(e) ==
  /\ InSelect(Root)
  /\ e \in Evs \ Range(published)
  /\ OrderedPub => e = Len(published) + 1
  /\ published' = Append(published, e)
  /\ todo' = [todo EXCEPT ![Root] = RunningKids(Root)]
  /\ cur' = Norm([cur EXCEPT ![Root] = e], todo')
  /\ UNCHANGED <<st, par, kids, buf, stopReq, delivered, start>>

(* sub.Publish(ev) inside n's fan-out loop meeting case ev := <-c.pubch of child c:  *)
(* c buffers the event and starts its own fan-out.  A child that is no longer in     *)
(* state "run" answers ErrNotRunning and is skipped (it is removed from todo when it *)
(* stops, see Stop).                                                                 *)
Fwd(n, c) ==
  /\ st[n] = "run" /\ c \in todo[n]
  /\ InSelect(c)
  /\ buf' = [buf EXCEPT ![c] = Append(@, cur[n])]
  /\ todo' = [todo EXCEPT ![n] = @ \ {c}, ![c] = RunningKids(c)]
  /\ cur' = Norm([cur EXCEPT ![c] = cur[n]], todo')
  /\ UNCHANGED <<st, par, kids, stopReq, published, delivered, start>>

(* case outch <- curev: a reader takes the head of the buffer. *)
Emit(s) ==
  /\ s \in Subs /\ InSelect(s) /\ buf[s] # <<>>
  /\ delivered' = [delivered EXCEPT ![s] = Append(@, Head(buf[s]))]
  /\ buf' = [buf EXCEPT ![s] = Tail(@)]
  /\ UNCHANGED <<st, par, kids, cur, todo, stopReq, published, start>>

(* case ch := <-b.subch: Subscribe() on the bus (n = Root) or Clone() of subscriber n. *)
(* newSubscriber copies n's undelivered buffer inside n's loop.                         *)
Subscribe(n) ==
  /\ InSelect(n) /\ NextId \in Subs
  /\ LET c == NextId IN
       /\ st' = [st EXCEPT ![c] = "run"]
       /\ par' = [par EXCEPT ![c] = n]
       /\ kids' = [kids EXCEPT ![n] = @ \cup {c}]
       /\ buf' = [buf EXCEPT ![c] = buf[n]]
       /\ start' = [start EXCEPT ![c] = IF n = Root THEN Len(published) ELSE Len(delivered[n])]
  /\ UNCHANGED <<cur, todo, stopReq, published, delivered>>

(* Close() called on the bus or on a subscriber by some goroutine (it then waits for Done). *)
RequestClose(n) ==
  /\ st[n] = "run" /\ ~stopReq[n]
  /\ stopReq' = [stopReq EXCEPT ![n] = TRUE]
  /\ UNCHANGED <<st, par, kids, buf, cur, todo, published, delivered, start>>

(* case err := <-b.lc.ShutdownRequest(): leave the loop; ShuttingDown() is closed, so a parent *)
(* fanning out to n gets ErrNotRunning; every child is asked to shut down (ShutdownAsync).      *)
Stop(n) ==
  /\ InSelect(n) /\ stopReq[n]
  /\ st' = [st EXCEPT ![n] = "exiting"]
  /\ stopReq' = [c \in Nodes |-> IF c = n THEN FALSE
                                 ELSE IF c \in kids[n] /\ st[c] = "run" THEN TRUE ELSE stopReq[c]]
  /\ todo' = [todo EXCEPT ![par[n]] = @ \ {n}]
  /\ cur' = Norm(cur, todo')
  /\ UNCHANGED <<par, kids, buf, published, delivered, start>>

(* b.parentch <- b after all of c's children unsubscribed, meeting case sub := <-p.unsubch of *)
(* the parent's select, or the parent's drain loop when the parent is itself exiting.          *)
Unsub(c) ==
  /\ c \in Subs /\ st[c] = "exiting" /\ kids[c] = {}
  /\ InSelect(par[c]) \/ st[par[c]] = "exiting"
  /\ kids' = [kids EXCEPT ![par[c]] = @ \ {c}]
  /\ st' = [st EXCEPT ![c] = "done"]
  /\ UNCHANGED <<par, buf, cur, todo, stopReq, published, delivered, start>>

RootDone ==
  /\ st[Root] = "exiting" /\ kids[Root] = {}
  /\ st' = [st EXCEPT ![Root] = "done"]
  /\ UNCHANGED <<par, kids, buf, cur, todo, stopReq, published, delivered, start>>

Internal == \/ \E n \in Nodes, c \in Subs : Fwd(n, c)
            \/ \E n \in Nodes : Stop(n)
            \/ \E c \in Subs : Unsub(c)
            \/ RootDone

Env == \/ \E e \in Evs : Publish(e)
       \/ \E n \in Nodes : Subscribe(n)
       \/ \E s \in Subs : Emit(s)
       \/ \E n \in Nodes : RequestClose(n)

(* Everything the model can still do is done: used so that TLC's deadlock check means "some     *)
(* operation is blocked for ever" and not "the bounded environment has run out of things to do". *)
Settled == AllIdle /\ \A n \in Nodes : ~stopReq[n] /\ st[n] # "exiting"
Finished == Settled /\ ~ENABLED Env /\ UNCHANGED vars

Next == Internal \/ Env \/ Finished

Spec == Init /\ [][Next]_vars /\ WF_vars(Internal)

-----------------------------------------------------------------------------
(* What subscriber s has handed out or still holds for its reader, in order. *)
Stream(s) == delivered[s] \o buf[s]
Drop(k, q) == SubSeq(q, k + 1, Len(q))
NoDup(q) == Cardinality(Range(q)) = Len(q)
PosOf(e) == CHOOSE i \in 1..Len(published) : published[i] = e

(* C15 for a subscriber of the bus: the events of its stream that were published after its     *)
(* subscription are, at every moment, a prefix of the publications after its subscription (in   *)
(* publication order, none skipped), and no event occurs twice.  The statement does not speak   *)
(* about events published before the subscription, so they are filtered out here rather than    *)
(* forbidden (the model never delivers any: see PositionalLemma).                               *)
(* (published has no duplicates, so "published at a position > start[s]" is "occurs in Owed(s)") *)
AfterSubOf(q, s) == LET owedSet == Range(Owed(s)) IN SelectSeq(q, LAMBDA e : e \in owedSet)
SubscriberOKOn(q, s) == /\ Range(q) \subseteq Range(published)
                        /\ NoDup(q)
                        /\ IsPrefix(AfterSubOf(q, s), Owed(s))
AfterSub(s) == AfterSubOf(Stream(s), s)
SubscriberOK(s) == SubscriberOKOn(Stream(s), s)

(* C15 for a clone c of s, made when s had handed out start[c] events: c's stream is exactly s's *)
(* stream from there on ("the events the original had not yet handed out plus all later ones"). *)
CloneOKOn(qc, qp, c) == IsPrefix(qc, Drop(start[c], qp))
CloneOK(c) == CloneOKOn(Stream(c), Stream(par[c]), c)

ExactlyOnceInOrder ==
  \A s \in Subs : st[s] # "unused" => IF par[s] = Root THEN SubscriberOK(s) ELSE CloneOK(s)

(* C15, no-loss part: once no fan-out is in progress, every running subscriber holds (delivered *)
(* or buffered, ready for its reader) everything it is owed, however little the others read.    *)
(* Nothing is asserted for a subscriber that has been asked to close (DESIGN 5.1), nor for its  *)
(* clones, which are closed with it, nor for anybody once the bus is closing.                   *)
RECURSIVE Live(_)
Live(n) == /\ st[n] = "run" /\ ~stopReq[n]
           /\ n # Root => Live(par[n])
Complete(s) == IF par[s] = Root THEN AfterSub(s) = Owed(s)
               ELSE Stream(s) = Drop(start[s], Stream(par[s]))
NoLoss == AllIdle => \A s \in Subs : Live(s) => Complete(s)

(* Model-only lemma tying the two formulations together: in the model every stream is exactly   *)
(* a prefix of the publications after an absolute position.                                     *)
RECURSIVE AbsStart(_)
AbsStart(s) == IF par[s] = Root THEN start[s] ELSE AbsStart(par[s]) + start[s]
PositionalLemma == \A s \in Subs : st[s] # "unused" =>
                     IsPrefix(Stream(s), Drop(AbsStart(s), published))

(* C15, "closing never blocks": whenever something is unfinished (a fan-out in progress, a close *)
(* requested or under way) some internal step can complete -- without any help from readers,    *)
(* publishers or closers.  Equivalent, for the bounded environment, to []<>Settled under         *)
(* WF(Internal) (checked as a temporal property in MC_small).                                   *)
NoBlock == Settled \/ ENABLED Internal
EventuallySettled == []<>Settled

(* structure *)
TreeOK == \A c \in Subs : (st[c] \in {"run", "exiting"}) => c \in kids[par[c]]
=============================================================================
