---------------------------- MODULE BusTrace ----------------------------
(* J3: trace validation for Bus.tla.                                                           *)
(*                                                                                             *)
(* trace.ndjson is what harness/bush recorded from the real pubsub bus: one line per loop      *)
(* trace point of pubsub/bus.go (new, recv, fwdone, emit, stop, unsub, done) and per driver    *)
(* call/return (pubcall, pubret, subcall, subret, read, closecall, closeret, end), several     *)
(* runs, each starting with a "reset" line.  The variables of Bus.tla are DRIVEN BY THE OBSERVATIONS   *)
(* (buf[n] is the buffer the loop logged, published is the order the root loop logged, ...),   *)
(* so that                                                                                     *)
(*   (i)  the property definitions of Bus.tla (ExactlyOnceInOrder, NoLoss) are evaluated by    *)
(*        TLC on states observed from the implementation -- the verdict;                       *)
(*   (ii) the action property Conform checks that every observed step is a step Bus!Next      *)
(*        allows -- conformance (a failure is drift, not a violation).                         *)
EXTENDS Bus, TLC, Json

Trace == ndJsonDeserialize("trace.ndjson")

VARIABLES l,        \* next line to consume
          obs,      \* [Nodes -> Seq(Evs)]: what the driver's readers actually received from Events()
          ended,    \* the run has logged "end" (every live subscriber was drained up to the sentinel)
          timeouts, \* subscribers a reader timed out on while an event was owed
          blocked,  \* API calls that did not return: set of <<kind, node>>
          busy      \* loops between their "recv" and "fwdone" lines (in the middle of an iteration)

tvars == <<vars, l, obs, ended, timeouts, blocked, busy>>

T == Trace[l]
Is(k) == l <= Len(Trace) /\ T.k = k

(* every run (the lines after a "reset" line up to the next one) is a behaviour of its own *)
TInit == /\ Init /\ l \in {i + 1 : i \in {j \in 1..Len(Trace) : Trace[j].k = "reset"}}
         /\ obs = [n \in Nodes |-> <<>>] /\ ended = FALSE
         /\ timeouts = {} /\ blocked = {} /\ busy = {}

Same(xs) == UNCHANGED xs
Step == l' = l + 1

\* ---- loop trace points: the observation defines the new value of the Bus variables ----

ONew ==  \* newSubscriber, inside the parent's subch case
  /\ Is("new")
  /\ st' = [st EXCEPT ![T.c] = "run"]
  /\ par' = [par EXCEPT ![T.c] = T.n]
  /\ kids' = [kids EXCEPT ![T.n] = @ \cup {T.c}]
  /\ buf' = [buf EXCEPT ![T.c] = T.buf]
  /\ start' = [start EXCEPT ![T.c] = IF T.n = Root THEN Len(published) ELSE Len(delivered[T.n])]
  /\ Same(<<cur, todo, stopReq, published, delivered, obs, ended, timeouts, blocked, busy>>)

ORecv ==  \* case ev := <-b.pubch (after buffering, before the fan-out)
  /\ Is("recv")
  /\ published' = IF T.n = Root THEN Append(published, T.ev) ELSE published
  /\ buf' = [buf EXCEPT ![T.n] = T.buf]
  /\ todo' = [x \in Nodes |-> IF x = T.n THEN RunningKids(T.n)
                              ELSE IF T.n # Root /\ x = par[T.n] THEN todo[x] \ {T.n} ELSE todo[x]]
  /\ cur' = Norm([cur EXCEPT ![T.n] = T.ev], todo')
  /\ busy' = busy \cup {T.n}
  /\ Same(<<st, par, kids, stopReq, delivered, start, obs, ended, timeouts, blocked>>)

OFwdone ==  \* the fan-out loop of the pubch case is over
  /\ Is("fwdone")
  /\ todo' = [todo EXCEPT ![T.n] = {}]
  /\ cur' = Norm(cur, todo')
  /\ busy' = busy \ {T.n}
  /\ Same(<<st, par, kids, buf, stopReq, published, delivered, start, obs, ended, timeouts, blocked>>)

OEmit ==  \* case outch <- curev
  /\ Is("emit")
  /\ delivered' = [delivered EXCEPT ![T.n] = Append(@, T.ev)]
  /\ buf' = [buf EXCEPT ![T.n] = T.buf]
  /\ Same(<<st, par, kids, cur, todo, stopReq, published, start, obs, ended, timeouts, blocked, busy>>)

OStop ==  \* case err := <-b.lc.ShutdownRequest()
  /\ Is("stop")
  /\ st' = [st EXCEPT ![T.n] = "exiting"]
  /\ stopReq' = [c \in Nodes |-> IF c = T.n THEN FALSE
                                 ELSE IF c \in kids[T.n] /\ st[c] = "run" THEN TRUE ELSE stopReq[c]]
  /\ todo' = [todo EXCEPT ![par[T.n]] = @ \ {T.n}]
  /\ cur' = Norm(cur, todo')
  /\ Same(<<par, kids, buf, published, delivered, start, obs, ended, timeouts, blocked, busy>>)

OUnsub ==  \* case sub := <-b.unsubch, or the drain loop after the select loop
  /\ Is("unsub")
  /\ kids' = [kids EXCEPT ![T.n] = @ \ {T.c}]
  /\ st' = [st EXCEPT ![T.c] = "done"]
  /\ Same(<<par, buf, cur, todo, stopReq, published, delivered, start, obs, ended, timeouts, blocked, busy>>)

ODone ==  \* end of run(); for a subscriber the parent's "unsub" line already made it done
  /\ Is("done")
  /\ st' = IF T.n = Root THEN [st EXCEPT ![Root] = "done"] ELSE st
  /\ Same(<<par, kids, buf, cur, todo, stopReq, published, delivered, start, obs, ended, timeouts, blocked, busy>>)

\* ---- driver lines ----

OCloseCall ==  \* a goroutine is about to call Close() on T.n
  /\ Is("closecall")
  /\ stopReq' = IF st[T.n] = "run" THEN [stopReq EXCEPT ![T.n] = TRUE] ELSE stopReq
  /\ Same(<<st, par, kids, buf, cur, todo, published, delivered, start, obs, ended, timeouts, blocked, busy>>)

ORead ==  \* a reader took T.ev from T.n's Events() channel, or gave up waiting for an owed event
  /\ Is("read")
  /\ obs' = IF T.flag = "ok" THEN [obs EXCEPT ![T.n] = Append(@, T.ev)] ELSE obs
  /\ timeouts' = IF T.flag = "ok" THEN timeouts ELSE timeouts \cup {T.n}
  /\ Same(<<vars, ended, blocked, busy>>)

ORet ==  \* a call returned, or was given up as blocked
  /\ Is("pubret") \/ Is("subret") \/ Is("closeret")
  /\ blocked' = IF T.flag = "blocked" THEN blocked \cup {<<T.k, T.n>>} ELSE blocked
  /\ Same(<<vars, obs, ended, timeouts, busy>>)

OCall == /\ Is("pubcall") \/ Is("subcall")
         /\ Same(<<vars, obs, ended, timeouts, blocked, busy>>)

OEnd == /\ Is("end") /\ ended' = TRUE
        /\ Same(<<vars, obs, timeouts, blocked, busy>>)

TNext == /\ Step
         /\ \/ ONew \/ ORecv \/ OFwdone \/ OEmit \/ OStop \/ OUnsub \/ ODone
            \/ OCloseCall \/ ORead \/ ORet \/ OCall \/ OEnd

TSpec == TInit /\ [][TNext]_tvars

-----------------------------------------------------------------------------
(* (i) verdict: Bus!ExactlyOnceInOrder and Bus!NoLoss on the observed loop states (cfg), plus    *)
(* the same definitions applied to what the readers actually received:                          *)
ReadersOK == \A s \in Subs : st[s] # "unused" =>
               IF par[s] = Root THEN SubscriberOKOn(obs[s], s)
               ELSE CloneOKOn(obs[s], Stream(par[s]), s)

(* what a reader received is what its subscriber's loop handed out (the two log lines of one    *)
(* hand-over race, so the reader may be one ahead of the loop's line)                           *)
ReaderMatchesLoop == \A s \in Subs :
  LET o == obs[s] d == delivered[s] IN
    \/ IsPrefix(o, d)
    \/ Len(o) = Len(d) + 1 /\ IsPrefix(d, o)

(* Bus!NoLoss speaks about loop states between iterations; a "recv" line is logged in the middle *)
(* of one (before the fan-out), so the premise also requires that no loop is between its "recv" *)
(* and "fwdone" lines -- however an implementation orders buffering, hand-over and fan-out       *)
(* inside the iteration.                                                                         *)
TraceNoLoss == busy = {} => NoLoss

(* at "end" every live subscriber has been read up to the sentinel: nothing owed is missing     *)
EndComplete == ended => \A s \in Subs : Live(s) =>
                 IF par[s] = Root THEN AfterSubOf(obs[s], s) = Owed(s)
                 ELSE obs[s] = Drop(start[s], obs[par[s]])

(* "never blocks": reported by the driver, confirmed by the check in isolation *)
NoTimeout == timeouts = {}
NoBlocked == \A b \in blocked : b[1] \notin {"pubret", "subret"}
(* A Close() call that does not return blocks its own caller only; the statement speaks about   *)
(* publishers and other subscribers (probed by the rest of the run), so this is reported apart.  *)
CloseReturns == \A b \in blocked : b[1] # "closeret"

(* (ii) conformance: every observed step is a step of the specification *)
(* (a line that leaves the Bus variables unchanged is a stuttering step; Bus!Finished, the only *)
(* other disjunct of Bus!Next, is itself a stuttering step, so it is left out: ENABLED is slow)   *)
Conform == [][UNCHANGED vars \/ Internal \/ Env]_vars

=============================================================================
