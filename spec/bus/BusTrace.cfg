CONSTANTS MaxSub = 12  MaxEv = 64  OrderedPub = FALSE
SPECIFICATION TSpec
INVARIANTS NoBlocked NoTimeout ExactlyOnceInOrder ReadersOK ReaderMatchesLoop TraceNoLoss EndComplete CloseReturns
CHECK_DEADLOCK FALSE
