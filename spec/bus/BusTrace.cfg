CONSTANTS MaxSub = 12  MaxEv = 64  OrderedPub = FALSE
SPECIFICATION TSpec
INVARIANTS NoBlocked NoTimeout ExactlyOnceInOrder ReadersOK ReaderMatchesLoop NoLoss EndComplete
CHECK_DEADLOCK FALSE
