-------------------------- MODULE InventoryCommit --------------------------
(* Conformance of the integer form of the commit-level rounding (Inventory!Commit) with the real              *)
(* util.ComputeCommittedResources: commit.ndjson holds rows [v, n, d, out] where out is what the real         *)
(* function returned for value v and level n/d. TLC evaluates Commit on every row; a mismatch is printed.     *)
EXTENDS Inventory, Json

Rows == ndJsonDeserialize("commit.ndjson")

VARIABLE i
CInit == i = 0 /\ st = 0 /\ last = 0 /\ steps = 0 /\ hist = 0
CNext ==
    /\ i < Len(Rows)
    /\ i' = i + 1
    /\ UNCHANGED vars
    /\ LET r == Rows[i + 1]
           want == Commit(r.v, <<r.n, r.d>>)
       IN  r.out = want \/ PrintT(ToJson([kind |-> "DRIFT", what |-> "commit rounding", row |-> r, spec |-> want]))
CSpec == CInit /\ [][CNext]_<<vars, i>>
=============================================================================
