SPECIFICATION CSpec
CONSTANTS
    Orders = {}
    Names = {}
    EventNames = {}
    ReqShapes = {}
    InvChoices = {}
    CfgChoices = {}
    AdoptChoices = {}
    MaxResv = 0
    MaxSteps = 0
    Impl = "intended"
CHECK_DEADLOCK FALSE
