SPECIFICATION Spec
CONSTANTS
    Orders <- S_Orders
    Names <- S_Names
    EventNames <- S_EventNames
    ReqShapes <- S_ReqShapes
    InvChoices <- S_InvChoices
    CfgChoices <- S_CfgChoices
    AdoptChoices <- S_AdoptChoices
    MaxResv = 3
    MaxSteps = 5
    Impl = "intended"
VIEW view
INVARIANTS PortsNeverNegative PortsConservative StoredIsCommitted
PROPERTIES GrantOnlyIfPackable StatusMatchesGranted StatusIsReadOnly UnreserveRemovesExactlyOne
