--------------------------- MODULE InventoryTrace ---------------------------
(***************************************************************************)
(* Trace validation for Inventory.tla (property C12).                        *)
(*                                                                         *)
(* The harness records from the REAL inventory service one line per          *)
(* iteration of inventoryService.run -- the case that fired (ev), its        *)
(* arguments, the reply the caller received, and `post`, the loop's own      *)
(* state before it selects again (taken inside the loop by the veriftrace    *)
(* hook).  Each script's recording starts with a `reset` line carrying the   *)
(* provider configuration.  Scripts share prefixes, and on equal prefixes    *)
(* the recordings are equal line for line, so the recordings are merged      *)
(* into a TREE (trace.ndjson: one record [parent, kids, e] per tree node,    *)
(* record 1 is the root) and every distinct recorded step is judged once;    *)
(* recordings that differ anywhere simply branch.                            *)
(*                                                                         *)
(* For every line TLC                                                        *)
(*  (i)  evaluates the four property predicates of Inventory.tla on the      *)
(*       observed step, against a LEDGER kept from the outside view only     *)
(*       (grants and releases as answered, deployment events as published,   *)
(*       inventories as reported): a false predicate prints a VIOLATION      *)
(*       record -- the verdict;                                              *)
(*  (ii) applies the specification's action function Do<ev> to the observed  *)
(*       pre-state and compares post-state and reply with what was observed: *)
(*       a mismatch prints a DRIFT record (conformance, not an alarm).       *)
(* The next state is always the OBSERVED one, so a script keeps being        *)
(* judged from the implementation's actual state after a drift.              *)
(***************************************************************************)
EXTENDS Inventory, Json

Tree == ndJsonDeserialize("trace.ndjson")

VARIABLES
    node,     \* the tree node whose recorded step was consumed last (1 = root)
    ids,      \* identities (small integers, by first appearance) of the reservations in st.resv
    led,      \* ledger: granted and not released, [id, order, name, req, alloc]
    ledInv,   \* node capacities last reported to the loop
    script    \* id of (one of) the script(s) being replayed

tvars == <<vars, node, ids, led, ledInv, script>>

-----------------------------------------------------------------------------
HeldObs(post) ==
    [i \in 1..Len(post.resv) |->
        [order |-> post.resv[i].order, name |-> post.resv[i].name,
         units |-> post.resv[i].units, alloc |-> post.resv[i].alloc]]

IdsObs(post) == [i \in 1..Len(post.resv) |-> post.resv[i].id]

WithIds(held, idseq) ==
    [i \in 1..Len(held) |->
        [id |-> idseq[i], order |-> held[i].order, name |-> held[i].name,
         units |-> held[i].units, alloc |-> held[i].alloc]]

LedNoId(ld) ==
    [i \in 1..Len(ld) |-> [order |-> ld[i].order, name |-> ld[i].name, req |-> ld[i].req, alloc |-> ld[i].alloc,
                           adopted |-> ld[i].adopted]]

ReqFor(ld, id, dflt) ==
    LET i == FirstIdx(ld, LAMBDA r : r.id = id) IN IF i = 0 THEN dflt ELSE ld[i].req
AdoptedFor(ld, id) ==
    LET i == FirstIdx(ld, LAMBDA r : r.id = id) IN IF i = 0 THEN FALSE ELSE ld[i].adopted

\* the observed loop state, enriched with the ghosts the specification carries
ObservedState(pre, post, ld, armed) ==
    [cfg |-> pre.cfg, adopt |-> pre.adopt,
     resv |-> [i \in 1..Len(post.resv) |->
                 [order |-> post.resv[i].order, name |-> post.resv[i].name,
                  req |-> ReqFor(ld, post.resv[i].id, post.resv[i].units),
                  units |-> post.resv[i].units, alloc |-> post.resv[i].alloc,
                  adopted |-> AdoptedFor(ld, post.resv[i].id)]],
     inv |-> post.inv, ports |-> post.ports,
     accepting |-> post.accepting, fetching |-> post.fetching, armed |-> armed]

StateConforms(exp, post) ==
    /\ HeldOf(exp) = HeldObs(post)
    /\ exp.inv = post.inv
    /\ exp.ports = post.ports
    /\ exp.accepting = post.accepting
    /\ exp.fetching = post.fetching

Report(kind, what, k, e, detail) ==
    PrintT(ToJson([kind |-> kind, what |-> what, node |-> k, script |-> script, ev |-> e.ev, detail |-> detail]))

-----------------------------------------------------------------------------
(* The action record the property predicates see *)
ActionOf(e) ==
    CASE e.ev = "Reserve" ->
            [act |-> "Reserve", order |-> e.order, name |-> e.name, units |-> e.units,
             reply |-> [ok |-> e.reply.ok, units |-> e.reply.units]]
      [] e.ev = "Unreserve" -> [act |-> "Unreserve", order |-> e.order, reply |-> [ok |-> e.reply.ok]]
      [] e.ev = "Status" ->
            [act |-> "Status",
             reply |-> [active |-> e.reply.active, pending |-> e.reply.pending,
                        available |-> e.reply.available, err |-> e.reply.err]]
      [] e.ev = "Lookup" -> [act |-> "Lookup", order |-> e.order, name |-> e.name, reply |-> [ok |-> e.reply.ok]]
      [] e.ev = "CD" -> [act |-> "CD", order |-> e.order, name |-> e.name, status |-> e.status, reply |-> 0]
      [] e.ev = "Refresh" -> [act |-> "Refresh", ok |-> e.ok, inv |-> e.inv, reply |-> [err |-> e.reply.err]]
      [] e.ev = "Timer" -> [act |-> "Timer", reply |-> 0]

(* What the specification says the step does *)
Expected(pre, e) ==
    CASE e.ev = "Reserve" -> DoReserve(pre, e.order, e.name, e.units)
      [] e.ev = "Unreserve" -> DoUnreserve(pre, e.order)
      [] e.ev = "Status" -> DoStatus(pre)
      [] e.ev = "Lookup" -> DoLookup(pre, e.order, e.name)
      [] e.ev = "CD" -> DoCD(pre, e.order, e.name, e.status)
      [] e.ev = "Refresh" -> DoRefresh(pre, e.ok, e.inv)
      [] e.ev = "Timer" -> DoTimer(pre)

Enabled(pre, e) ==
    CASE e.ev = "Reserve" -> pre.accepting
      [] e.ev = "Refresh" -> pre.fetching
      [] e.ev = "Timer" -> pre.armed
      [] OTHER -> TRUE

IdxOfId(idseq, id) == FirstIdx(idseq, LAMBDA x : x = id)

ReplyConforms(e, x, post) ==
    CASE e.ev = "Reserve" -> /\ x.reply.ok = e.reply.ok
                             /\ e.reply.ok => /\ x.reply.units = e.reply.units
                                              /\ Len(post.resv) > 0
                                              /\ e.reply.id = IdsObs(post)[Len(post.resv)]
      [] e.ev = "Unreserve" -> x.reply.ok = e.reply.ok
      [] e.ev = "Status" -> /\ x.reply.active = e.reply.active
                            /\ x.reply.pending = e.reply.pending
                            /\ x.reply.available = e.reply.available
                            /\ x.reply.err = e.reply.err
      [] e.ev = "Lookup" -> /\ x.reply.ok = e.reply.ok
                            /\ e.reply.ok => IdxOfId(IdsObs(post), e.reply.id) = x.reply.idx
      [] e.ev = "Refresh" -> x.reply.err = e.reply.err
      [] OTHER -> TRUE

(* The ledger: the outside view *)
LedgerAfter(e, preIds, post) ==
    CASE e.ev = "Reserve" /\ e.reply.ok ->
            Append(led, [id |-> e.reply.id, order |-> e.order, name |-> e.name, req |-> e.units, alloc |-> FALSE,
                         adopted |-> FALSE])
      [] e.ev = "Unreserve" /\ e.reply.ok ->
            LET gone == {preIds[i] : i \in 1..Len(preIds)} \ {IdsObs(post)[i] : i \in 1..Len(post.resv)}
                byId == IF Cardinality(gone) = 1
                        THEN FirstIdx(led, LAMBDA r : r.id \in gone /\ r.order = e.order) ELSE 0
                i == IF byId # 0 THEN byId ELSE FirstIdx(led, LAMBDA r : r.order = e.order)
            IN  IF i = 0 THEN led ELSE RemoveAt(led, i)
      [] e.ev = "CD" ->
            LET i == FirstIdx(led, LAMBDA r : r.order = e.order /\ r.name = e.name)
            IN  IF i = 0 THEN led ELSE [led EXCEPT ![i].alloc = (e.status = "deployed")]
      [] OTHER -> led

-----------------------------------------------------------------------------
TInit ==
    /\ node = 1 /\ ids = <<>> /\ led = <<>> /\ ledInv = <<>> /\ script = ""
    /\ st = InitState([fcpu |-> <<1, 1>>, fmem |-> <<1, 1>>, fsto |-> <<1, 1>>, ports |-> 0], <<>>)
    /\ last = [act |-> "init"] /\ steps = 0 /\ hist = <<>>

Reset(k, e) ==
    LET init == InitState(e.cfg, e.adopt)
        ld == [i \in 1..Len(e.adopt) |->
                 [id |-> i, order |-> e.adopt[i].order, name |-> e.adopt[i].name,
                  req |-> e.adopt[i].units, alloc |-> FALSE, adopted |-> TRUE]]
        ok == StateConforms(init, e.post) /\ IdsObs(e.post) = [i \in 1..Len(e.adopt) |-> i]
    IN  /\ st' = ObservedState(init, e.post, ld, FALSE)
        /\ ids' = IdsObs(e.post)
        /\ led' = ld
        /\ ledInv' = <<>>
        /\ script' = e.script
        /\ last' = [act |-> "init"]
        /\ (ok \/ PrintT(ToJson([kind |-> "DRIFT", what |-> "initial state", node |-> k,
                                 script |-> e.script, ev |-> e.ev, detail |-> e.post])))

Skip(k, e) ==      \* the harness did not issue the stimulus (guard false on the real state): nothing happened
    LET same == StateConforms(st, e.post)
    IN  /\ st' = ObservedState(st, e.post, led, st.armed)
        /\ ids' = IdsObs(e.post)
        /\ UNCHANGED <<led, ledInv, script, last>>
        /\ (same \/ Report("DRIFT", "state changed without a step", k, e, e.post))

\* A step recorded by the hooks alone (the repository's own tests run with the hooks on): the case that fired is
\* known, its arguments and reply are not, and nothing visible identifies them. The reservations must be unchanged
\* (for the status case that is the property StatusIsReadOnly; otherwise conformance).
Blind(k, e) ==
    LET same == HeldObs(e.post) = HeldOf(st) /\ IdsObs(e.post) = ids
        ro == e.tag = "status" => same
    IN  /\ st' = ObservedState(st, e.post, led, IF e.tag = "timer" THEN FALSE ELSE st.armed)
        /\ ids' = IdsObs(e.post)
        /\ UNCHANGED <<led, ledInv, script>>
        /\ last' = [act |-> "Blind"]
        /\ (ro \/ Report("VIOLATION", "StatusIsReadOnly", k, e,
                          [before |-> WithIds(HeldOf(st), ids), after |-> WithIds(HeldObs(e.post), IdsObs(e.post))]))
        /\ (same \/ ~ro \/ Report("DRIFT", "reservations changed in a step that shows no grant or release", k, e, e.post))

Observe(k, e) ==
    LET pre == st
        a == ActionOf(e)
        x == Expected(pre, e)
        post == e.post
        heldPre == WithIds(HeldOf(pre), ids)
        heldPost == WithIds(HeldObs(post), IdsObs(post))
        v1 == PGrantOnlyIfPackable(LedNoId(led), ledInv, pre.cfg, a)
        v2 == PStatusMatchesGranted(LedNoId(led), pre.cfg, a)
        v3 == PStatusIsReadOnly(last, a, heldPre, heldPost)
        v4 == PUnreserveRemovesExactlyOne(a, heldPre, heldPost)
        conf == Enabled(pre, e) /\ StateConforms(x.st, post) /\ ReplyConforms(e, x, post)
        ld == LedgerAfter(e, ids, post)
    IN  /\ st' = ObservedState(pre, post, ld, x.st.armed)
        /\ ids' = IdsObs(post)
        /\ led' = ld
        /\ ledInv' = IF e.ev = "Refresh" /\ e.ok THEN e.inv ELSE ledInv
        /\ script' = script
        /\ last' = a
        /\ (v1 \/ Report("VIOLATION", "GrantOnlyIfPackable", k, e, [ledger |-> led, inv |-> ledInv]))
        /\ (v2 \/ Report("VIOLATION", "StatusMatchesGranted", k, e,
                         [reply |-> e.reply, expected |-> ExpectedEntries(LedNoId(led), pre.cfg)]))
        /\ (v3 \/ Report("VIOLATION", "StatusIsReadOnly", k, e, [before |-> heldPre, after |-> heldPost, prev |-> last]))
        /\ (v4 \/ Report("VIOLATION", "UnreserveRemovesExactlyOne", k, e, [before |-> heldPre, after |-> heldPost]))
        /\ (conf \/ Report("DRIFT", "step differs from the specification", k, e,
                           [enabled |-> Enabled(pre, e), expected |-> [held |-> HeldOf(x.st), inv |-> x.st.inv,
                              ports |-> x.st.ports, accepting |-> x.st.accepting, fetching |-> x.st.fetching,
                              reply |-> x.reply],
                            observed |-> post]))

TNext ==
    \E j \in 1..Len(Tree[node].kids) :
        LET k == Tree[node].kids[j]
            e == Tree[k].e
        IN  /\ node' = k
            /\ steps' = steps /\ hist' = hist
            /\ CASE e.ev = "reset" -> Reset(k, e)
                 [] e.ev = "Skip" -> Skip(k, e)
                 [] e.ev = "Blind" -> Blind(k, e)
                 [] OTHER -> Observe(k, e)

TSpec == TInit /\ [][TNext]_tvars

\* Acceptance (checked by the caller): TLC finishes without error and the number of distinct states equals the
\* number of tree nodes, i.e. every recorded step was consumed and judged.
=============================================================================
