--------------------------- MODULE MC_Inventory ---------------------------
(* Model-checking instance of Inventory: constant definitions and the script export. *)
EXTENDS Inventory, Json

U(c, m, s, e, k) == [cpu |-> c, mem |-> m, sto |-> s, eps |-> e, count |-> k]
N(c, m, s) == [cpu |-> c, mem |-> m, sto |-> s]
F(a, b, c, p) == [fcpu |-> a, fmem |-> b, fsto |-> c, ports |-> p]

\* ---- small: the every-change configuration -------------------------------------------------
S_Orders == {"o1", "o2"}
S_Names == {"g1"}
S_EventNames == {"g1", "g2"}
S_ReqShapes == {
    <<U(3, 1, 1, 1, 1)>>,                      \* one unit, one endpoint; cpu 3 commits to 2 at level 2
    <<U(1, 2, 4, 0, 2)>>,                      \* two replicas
    <<U(3, 1, 1, 1, 1), U(1, 2, 4, 0, 2)>>,    \* two entries (the shape Status must not disturb)
    <<U(5, 3, 2, 2, 1)>> }                     \* big, two endpoints
S_InvChoices == {
    <<N(4, 4, 4), N(2, 2, 2)>>,
    <<N(2, 3, 2)>>,
    <<>> }
S_CfgChoices == { F(<<2, 1>>, <<1, 1>>, <<3, 1>>, 2) }
S_AdoptChoices == { <<>> }

\* ---- big: the thorough configuration ----------------------------------------------------------
B_Orders == {"o1", "o2"}
B_Names == {"g1", "g2"}
B_EventNames == {"g1", "g2"}
B_ReqShapes == {
    <<U(3, 1, 1, 1, 1)>>,
    <<U(1, 2, 4, 0, 3)>>,                      \* three replicas: must be spread over nodes
    <<U(2, 2, 1, 1, 1), U(1, 1, 3, 1, 2)>>,    \* two entries, two endpoints in total
    <<U(5, 3, 2, 2, 1)>>,
    <<U(2, 1, 2, 0, 1), U(1, 3, 1, 0, 1), U(1, 1, 1, 0, 1)>> }   \* three entries
B_InvChoices == {
    <<N(2, 4, 2), N(2, 2, 2), N(1, 1, 1)>>,    \* three nodes
    <<N(3, 3, 3), N(1, 2, 1)>>,
    <<N(1, 2, 3)>>,
    <<>> }
B_CfgChoices == { F(<<2, 1>>, <<1, 1>>, <<3, 1>>, 2),
                  F(<<3, 2>>, <<4, 1>>, <<1, 2>>, 3) }      \* 1.5, 4, 0.5 (no undercommit)
B_AdoptChoices == { <<>>,
                    <<[order |-> "o1", name |-> "g1", units |-> <<U(2, 1, 1, 1, 1), U(1, 1, 2, 0, 1)>>]>> }

\* ---- levels: commit levels that DIFFER between cpu, memory and storage ------------------------------
\* One-dimension-heavy requests on a node of (2,2,2) / (1,1,1): under (2,1,1) cpu is the binding constraint for two
\* cpu-heavy requests, under (1,2,4)... memory resp. storage; a level applied to the wrong dimension either grants
\* what does not fit or reports other amounts. (1,1,1) and levels below 1 (no under-commit) leave amounts as requested.
L_Orders == {"o1"}
L_Names == {"g1"}
L_EventNames == {"g1"}
L_ReqShapes == {
    <<U(4, 1, 1, 0, 1)>>,                      \* cpu-heavy
    <<U(1, 4, 1, 0, 1)>>,                      \* memory-heavy
    <<U(1, 1, 4, 0, 1)>>,                      \* storage-heavy
    <<U(1, 1, 1, 0, 1)>>,                      \* small
    <<U(2, 4, 1, 1, 1), U(1, 2, 4, 0, 1)>> }   \* two entries, mixed
L_InvChoices == { <<N(2, 2, 2)>>, <<N(1, 1, 1)>>, <<N(4, 2, 2), N(2, 4, 4)>> }
L_CfgChoices == { F(<<1, 1>>, <<1, 1>>, <<1, 1>>, 2),
                  F(<<2, 1>>, <<1, 1>>, <<1, 1>>, 2),
                  F(<<1, 1>>, <<4, 1>>, <<2, 1>>, 2),
                  F(<<1, 1>>, <<2, 1>>, <<4, 1>>, 2),
                  F(<<4, 1>>, <<2, 1>>, <<1, 1>>, 2),
                  F(<<1, 2>>, <<3, 1>>, <<1, 2>>, 2) }     \* 0.5 = no under-commit; 3 for memory only
L_AdoptChoices == { <<>> }

\* Every transition TLC generates is printed as a script: the history up to and including the step.
ExportEdge == PrintT(ToJson([cfg |-> st.cfg, adopt |-> st.adopt, steps |-> hist']))
=============================================================================
