----------------------------- MODULE Inventory -----------------------------
(***************************************************************************)
(* The provider's inventory service: provider/cluster/inventory.go          *)
(* (inventoryService.run and its helpers), reservation.go,                   *)
(* util.ComputeCommittedResources and the resource arithmetic of             *)
(* types/resource.go it relies on.  Property C12.                            *)
(*                                                                         *)
(* One action per select case of the loop:                                   *)
(*   Reserve, Unreserve, Status, Lookup        request channels              *)
(*   CD            event.ClusterDeployment from the bus                      *)
(*   Refresh       result of an inventory fetch (ok with a node list | err)  *)
(*   Timer         the poll timer fires and starts a fetch                   *)
(* Every action is a FUNCTION of the pre-state and its arguments (the loop   *)
(* is deterministic): Do<Action>(s, args) = [st |-> post-state, reply |-> r].*)
(* The trace specification (InventoryTrace.tla) applies the same functions   *)
(* and the same property predicates to steps recorded from the real code.    *)
(*                                                                         *)
(* Amounts are plain integers and ARE the real quantities (milli-cpu, bytes).*)
(***************************************************************************)
EXTENDS Integers, Sequences, FiniteSets, TLC

CONSTANTS
    Orders,         \* order names, e.g. {"o1", "o2"}
    Names,          \* resource-group names of requests, e.g. {"g1"}
    EventNames,     \* group names carried by deployment events and lookups (may include names nobody reserved)
    ReqShapes,      \* set of requests: each a sequence of units [cpu, mem, sto, eps, count]
    InvChoices,     \* set of inventories the cluster may report: each a sequence of [cpu, mem, sto]
    CfgChoices,     \* set of provider configurations [fcpu, fmem, fsto, ports]; factors are <<num, den>>
    AdoptChoices,   \* set of start-up adoptions: each a sequence of [order, name, units]
    MaxResv,        \* bound on simultaneously outstanding reservations
    MaxSteps,       \* bound on the length of a behaviour
    Impl            \* "intended" | "asfound" (as found: Status aliases and grows the first unit, D5)

VARIABLES
    st,     \* the loop's state (record, see Init)
    last,   \* the action just taken with its arguments and reply ([act |-> "init"] initially)
    steps,  \* number of actions taken
    hist    \* the actions taken so far as harness script steps (not in VIEW)

vars == <<st, last, steps, hist>>
view == <<st, last, steps>>

-----------------------------------------------------------------------------
(* Generic helpers *)

Max(a, b) == IF a >= b THEN a ELSE b
Min(a, b) == IF a <= b THEN a ELSE b

RECURSIVE SumTo(_, _)
SumTo(g, k) == IF k = 0 THEN 0 ELSE g[k] + SumTo(g, k - 1)
SumOf(g) == SumTo(g, Len(g))                      \* g: sequence of integers

RemoveAt(s, i) == SubSeq(s, 1, i - 1) \o SubSeq(s, i + 1, Len(s))

FirstIdx(s, P(_)) ==                               \* index of the first element satisfying P, 0 if none
    LET I == {i \in 1..Len(s) : P(s[i])}
    IN  IF I = {} THEN 0 ELSE CHOOSE i \in I : \A j \in I : i <= j

SelectIdx(s, P(_)) ==                              \* subsequence of the elements satisfying P
    SelectSeq(s, P)

Count(s, x) == Cardinality({i \in 1..Len(s) : s[i] = x})
SameBag(s1, s2) ==
    /\ Len(s1) = Len(s2)
    /\ \A i \in 1..Len(s1) : Count(s1, s1[i]) = Count(s2, s1[i])

-----------------------------------------------------------------------------
(* Commit levels: util.ComputeCommittedResources.                           *)
(*   factor <= 1          -> the value itself                                *)
(*   otherwise            -> math.Round(v * (1/factor)), and 1 if that is 0   *)
(* math.Round rounds half away from zero; for v >= 0 and factor n/d that is   *)
(* floor((2*v*d + n) / (2*n)).                                               *)

Commit(v, f) ==
    IF f[1] <= f[2] THEN v
    ELSE Max(1, (2 * v * f[2] + f[1]) \div (2 * f[1]))

CommitUnit(u, cfg) ==
    [cpu |-> Commit(u.cpu, cfg.fcpu), mem |-> Commit(u.mem, cfg.fmem), sto |-> Commit(u.sto, cfg.fsto),
     eps |-> u.eps, count |-> u.count]

CommitUnits(us, cfg) == [i \in 1..Len(us) |-> CommitUnit(us[i], cfg)]

EpsOf(units) == SumOf([i \in 1..Len(units) |-> units[i].eps])   \* endpoints per entry, NOT times count

\* what Status reports for one reservation: the sum of its per-unit amounts, NOT times count
SumUnits(units) ==
    [cpu |-> SumOf([i \in 1..Len(units) |-> units[i].cpu]),
     mem |-> SumOf([i \in 1..Len(units) |-> units[i].mem]),
     sto |-> SumOf([i \in 1..Len(units) |-> units[i].sto])]

-----------------------------------------------------------------------------
(* The code's placement: reservationAllocateable / reservationAdjustInventory (first fit). *)

FitsK(av, u, k) == k * u.cpu <= av.cpu /\ k * u.mem <= av.mem /\ k * u.sto <= av.sto

\* "for ; resource.Count > 0; resource.Count-- { available.Sub(...) or break }"
FitCount(av, u) == CHOOSE k \in 0..u.count : FitsK(av, u, k) /\ (k = u.count \/ ~FitsK(av, u, k + 1))

SubCap(av, u, k) == [cpu |-> av.cpu - k * u.cpu, mem |-> av.mem - k * u.mem, sto |-> av.sto - k * u.sto]

RECURSIVE NodePass(_, _, _)
NodePass(av, units, i) ==           \* one node: units in order, as many replicas of each as fit
    IF i > Len(units) THEN [av |-> av, rest |-> <<>>]
    ELSE LET u == units[i]
             k == FitCount(av, u)
             r == NodePass(SubCap(av, u, k), units, i + 1)
         IN  [av |-> r.av,
              rest |-> IF k < u.count THEN <<[u EXCEPT !.count = u.count - k]>> \o r.rest ELSE r.rest]

RECURSIVE Place(_, _, _)
Place(inv, units, n) ==             \* nodes in reported order
    IF n > Len(inv) THEN [inv |-> <<>>, rest |-> units]
    ELSE LET p == NodePass(inv[n], units, 1)
             r == Place(inv, p.rest, n + 1)
         IN  [inv |-> <<p.av>> \o r.inv, rest |-> r.rest]

Adjust(inv, ports, units) ==
    IF ports < EpsOf(units) THEN [ok |-> FALSE, inv |-> <<>>, ports |-> 0]
    ELSE LET p == Place(inv, units, 1)
         IN  [ok |-> p.rest = <<>>, inv |-> p.inv, ports |-> ports - EpsOf(units)]

RECURSIVE AdjustAll(_, _, _, _)
AdjustAll(inv, ports, pend, i) ==   \* pending reservations in list order, stop at the first failure
    IF i > Len(pend) THEN [ok |-> TRUE, inv |-> inv, ports |-> ports]
    ELSE LET a == Adjust(inv, ports, pend[i].units)
         IN  IF ~a.ok THEN a ELSE AdjustAll(a.inv, a.ports, pend, i + 1)

IsPending(r) == ~r.alloc

Allocatable(s, newunits) ==
    LET a == AdjustAll(s.inv, s.ports, SelectSeq(s.resv, IsPending), 1)
    IN  a.ok /\ Adjust(a.inv, a.ports, newunits).ok

-----------------------------------------------------------------------------
(* The ORACLE: an independent existential placement search.  A ledger entry is  *)
(* [order, name, req, alloc, adopted] (what was granted and is not released;    *)
(* req are the amounts as REQUESTED; adopted = found deployed at start-up, held *)
(* with its manifest amounts).  Nothing below refers to the first-fit operators.*)

RECURSIVE Replicas(_, _)
Replicas(units, i) ==               \* one capacity vector per replica
    IF i > Len(units) THEN <<>>
    ELSE [k \in 1..units[i].count |-> [cpu |-> units[i].cpu, mem |-> units[i].mem, sto |-> units[i].sto]]
         \o Replicas(units, i + 1)

RECURSIVE ReplicasOfAll(_, _)
ReplicasOfAll(unitLists, i) ==
    IF i > Len(unitLists) THEN <<>> ELSE Replicas(unitLists[i], 1) \o ReplicasOfAll(unitLists, i + 1)

Load(f, vecs, n, dim) == SumOf([i \in 1..Len(vecs) |-> IF f[i] = n THEN vecs[i][dim] ELSE 0])

Packable(vecs, inv) ==
    \E f \in [1..Len(vecs) -> 1..Len(inv)] :
        \A n \in 1..Len(inv) : \A dim \in {"cpu", "mem", "sto"} : Load(f, vecs, n, dim) <= inv[n][dim]

LedgerPending(led) == SelectSeq(led, IsPending)
LedgerActive(led) == SelectSeq(led, LAMBDA r : r.alloc)

\* external ports not used by a deployed reservation
FreePorts(led, cfg) ==
    cfg.ports - SumOf([i \in 1..Len(LedgerActive(led)) |-> EpsOf(LedgerActive(led)[i].req)])

\* amounts an entry needs: requested amounts scaled by the commit levels; for an adopted entry (which the code
\* holds unscaled) never more than its manifest amounts -- the weaker reading
MinUnit(u, v) == [u EXCEPT !.cpu = Min(u.cpu, v.cpu), !.mem = Min(u.mem, v.mem), !.sto = Min(u.sto, v.sto)]
NeededUnits(r, cfg) ==
    IF r.adopted THEN [i \in 1..Len(r.req) |-> MinUnit(r.req[i], CommitUnit(r.req[i], cfg))]
    ELSE CommitUnits(r.req, cfg)

GrantOK(led, inv, cfg, req) ==
    LET pend == LedgerPending(led)
        lists == [i \in 1..Len(pend) |-> NeededUnits(pend[i], cfg)] \o <<CommitUnits(req, cfg)>>
    IN  /\ Packable(ReplicasOfAll(lists, 1), inv)
        /\ SumOf([i \in 1..Len(pend) |-> EpsOf(pend[i].req)]) + EpsOf(req) <= FreePorts(led, cfg)

-----------------------------------------------------------------------------
(* The properties, as predicates on ONE step: ledger and last reported          *)
(* inventory before the step, the action record a (act, arguments, reply), the   *)
(* previous action record, and the reservation lists before / after as held by   *)
(* the loop.  Used on the model's steps here and on the implementation's         *)
(* recorded steps in InventoryTrace.                                             *)

\* a reservation is granted ONLY IF everything pending plus the new one is placeable (only-if direction)
PGrantOnlyIfPackable(led, inv, cfg, a) ==
    (a.act = "Reserve" /\ a.reply.ok) => GrantOK(led, inv, cfg, a.units)

\* what Status reports is exactly granted-minus-released: one entry each, the committed amounts
ExpectedEntries(led, cfg) ==
    [i \in 1..Len(led) |-> IF led[i].adopted THEN SumUnits(led[i].req) ELSE SumUnits(CommitUnits(led[i].req, cfg))]

PStatusMatchesGranted(led, cfg, a) ==
    a.act = "Status" =>
        /\ ~a.reply.err
        /\ SameBag(a.reply.active \o a.reply.pending, ExpectedEntries(led, cfg))

\* Status changes no reservation, and two consecutive Status replies report the same reservations
PStatusIsReadOnly(prev, a, resvBefore, resvAfter) ==
    a.act = "Status" =>
        /\ resvAfter = resvBefore
        /\ prev.act = "Status" =>
              /\ a.reply.active = prev.reply.active
              /\ a.reply.pending = prev.reply.pending

\* a successful release removes exactly one reservation, of that order; a failed one removes nothing
PUnreserveRemovesExactlyOne(a, resvBefore, resvAfter) ==
    a.act = "Unreserve" =>
        IF a.reply.ok
        THEN \E i \in 1..Len(resvBefore) : resvBefore[i].order = a.order /\ resvAfter = RemoveAt(resvBefore, i)
        ELSE resvAfter = resvBefore

-----------------------------------------------------------------------------
(* The actions as functions *)

NewResv(o, n, req, units, adopted) ==
    [order |-> o, name |-> n, req |-> req, units |-> units, alloc |-> FALSE, adopted |-> adopted]

DoReserve(s, o, n, req) ==          \* case req := <-reserveChLocal (enabled only while accepting)
    LET cu == CommitUnits(req, s.cfg)
    IN  IF Allocatable(s, cu)
        THEN [st |-> [s EXCEPT !.resv = Append(@, NewResv(o, n, req, cu, FALSE))],
              reply |-> [ok |-> TRUE, units |-> cu]]
        ELSE [st |-> s, reply |-> [ok |-> FALSE, units |-> <<>>]]

DoUnreserve(s, o) ==                \* case req := <-is.unreservech: the first reservation of that order
    LET i == FirstIdx(s.resv, LAMBDA r : r.order = o)
    IN  IF i = 0 THEN [st |-> s, reply |-> [ok |-> FALSE]]
        ELSE [st |-> [s EXCEPT !.resv = RemoveAt(@, i)], reply |-> [ok |-> TRUE]]

\* As found (D5): total.Add aliases the first unit's amounts and adds the others into them.
GrowFirst(units) ==
    IF Len(units) < 2 THEN units
    ELSE LET t == SumUnits(units)
         IN  [units EXCEPT ![1] = [@ EXCEPT !.cpu = t.cpu, !.mem = t.mem, !.sto = t.sto]]

DoStatus(s) ==                      \* case responseCh := <-is.statusch
    LET sums(sel) == [i \in 1..Len(sel) |-> SumUnits(sel[i].units)]
        reply == [active |-> sums(SelectSeq(s.resv, LAMBDA r : r.alloc)),
                  pending |-> sums(SelectSeq(s.resv, IsPending)),
                  available |-> s.inv, err |-> FALSE]
    IN  [st |-> IF Impl = "asfound"
                THEN [s EXCEPT !.resv = [i \in 1..Len(s.resv) |-> [s.resv[i] EXCEPT !.units = GrowFirst(@)]]]
                ELSE s,
         reply |-> reply]

DoLookup(s, o, n) ==                \* case req := <-is.lookupch: first reservation of that order and name
    LET i == FirstIdx(s.resv, LAMBDA r : r.order = o /\ r.name = n)
    IN  [st |-> s, reply |-> [ok |-> i # 0, idx |-> i]]

DoCD(s, o, n, status) ==            \* case ev := <-is.sub.Events(), event.ClusterDeployment
    LET i == FirstIdx(s.resv, LAMBDA r : r.order = o /\ r.name = n)
        dep == status = "deployed"
    IN  IF i = 0 THEN [st |-> s, reply |-> [matched |-> FALSE]]
        ELSE LET r == s.resv[i]
                 ports == IF r.alloc = dep THEN s.ports
                          ELSE IF dep THEN s.ports - EpsOf(r.units) ELSE s.ports + EpsOf(r.units)
             IN  [st |-> [s EXCEPT !.resv[i].alloc = dep, !.ports = ports,
                                   !.accepting = FALSE, !.fetching = TRUE],   \* stopProcessingReservations
                  reply |-> [matched |-> TRUE]]

DoRefresh(s, ok, inv) ==            \* case res := <-runch (enabled only while a fetch is in flight)
    IF ok THEN [st |-> [s EXCEPT !.fetching = FALSE, !.armed = TRUE, !.inv = inv, !.accepting = TRUE],
                reply |-> [err |-> FALSE]]
    ELSE [st |-> [s EXCEPT !.fetching = FALSE, !.armed = TRUE], reply |-> [err |-> TRUE]]

DoTimer(s) ==                       \* case <-t.C (enabled only while the timer is armed); replaces any fetch in flight
    [st |-> [s EXCEPT !.armed = FALSE, !.fetching = TRUE], reply |-> [none |-> TRUE]]

-----------------------------------------------------------------------------
(* The model *)

InitState(cfg, adopt) ==
    [cfg |-> cfg,
     adopt |-> adopt,               \* constant: what was found deployed at start-up
     resv |-> [i \in 1..Len(adopt) |-> NewResv(adopt[i].order, adopt[i].name, adopt[i].units, adopt[i].units, TRUE)],
     inv |-> <<>>,                  \* nothing reported yet
     ports |-> cfg.ports,           \* availableExternalPorts
     accepting |-> FALSE,           \* reserveChLocal # nil
     fetching |-> TRUE,             \* runch # nil: a check is started before the loop
     armed |-> FALSE]               \* the poll timer is running

Init ==
    /\ \E cfg \in CfgChoices : \E adopt \in AdoptChoices : st = InitState(cfg, adopt)
    /\ last = [act |-> "init"]
    /\ steps = 0
    /\ hist = <<>>

Step(r, a, h) ==
    /\ st' = r.st
    /\ last' = [a EXCEPT !.reply = r.reply]
    /\ steps' = steps + 1
    /\ hist' = Append(hist, h)

Reserve(o, n, req) ==
    /\ st.accepting
    /\ Len(st.resv) < MaxResv
    /\ Step(DoReserve(st, o, n, req),
            [act |-> "Reserve", order |-> o, name |-> n, units |-> req, reply |-> 0],
            [a |-> "Reserve", order |-> o, name |-> n, units |-> req])

Unreserve(o) ==
    Step(DoUnreserve(st, o), [act |-> "Unreserve", order |-> o, reply |-> 0], [a |-> "Unreserve", order |-> o])

Status ==
    Step(DoStatus(st), [act |-> "Status", reply |-> 0], [a |-> "Status"])

Lookup(o, n) ==
    Step(DoLookup(st, o, n), [act |-> "Lookup", order |-> o, name |-> n, reply |-> 0],
         [a |-> "Lookup", order |-> o, name |-> n])

CD(o, n, status) ==
    Step(DoCD(st, o, n, status), [act |-> "CD", order |-> o, name |-> n, status |-> status, reply |-> 0],
         [a |-> "CD", order |-> o, name |-> n, status |-> status])

Refresh(ok, inv) ==
    /\ st.fetching
    /\ Step(DoRefresh(st, ok, inv), [act |-> "Refresh", ok |-> ok, inv |-> inv, reply |-> 0],
            [a |-> "Refresh", ok |-> ok, inv |-> inv])

Timer ==
    /\ st.armed
    /\ Step(DoTimer(st), [act |-> "Timer", reply |-> 0], [a |-> "Timer"])

Next ==
    /\ steps < MaxSteps
    /\ \/ \E o \in Orders, n \in Names, req \in ReqShapes : Reserve(o, n, req)
       \/ \E o \in Orders : Unreserve(o)
       \/ Status
       \/ \E o \in Orders, n \in EventNames : Lookup(o, n)
       \/ \E o \in Orders, n \in EventNames, status \in {"deployed", "pending"} : CD(o, n, status)
       \/ \E inv \in InvChoices : Refresh(TRUE, inv)
       \/ Refresh(FALSE, <<>>)
       \/ Timer

Spec == Init /\ [][Next]_vars

-----------------------------------------------------------------------------
(* Projections used by the properties *)

LedgerOf(s) ==
    [i \in 1..Len(s.resv) |->
        [order |-> s.resv[i].order, name |-> s.resv[i].name, req |-> s.resv[i].req, alloc |-> s.resv[i].alloc,
         adopted |-> s.resv[i].adopted]]

HeldOf(s) ==   \* the reservations as the loop holds them (what the hook snapshot shows)
    [i \in 1..Len(s.resv) |->
        [order |-> s.resv[i].order, name |-> s.resv[i].name, units |-> s.resv[i].units, alloc |-> s.resv[i].alloc]]

GrantOnlyIfPackable ==
    [][PGrantOnlyIfPackable(LedgerOf(st), st.inv, st.cfg, last')]_view
StatusMatchesGranted ==
    [][PStatusMatchesGranted(LedgerOf(st), st.cfg, last')]_view
StatusIsReadOnly ==
    [][PStatusIsReadOnly(last, last', HeldOf(st), HeldOf(st'))]_view
UnreserveRemovesExactlyOne ==
    [][PUnreserveRemovesExactlyOne(last', HeldOf(st), HeldOf(st'))]_view

(* Sanity of the model itself *)
PortsNeverNegative == st.ports >= 0
\* the loop's port counter never exceeds the truly free ports (it leaks on release of a deployed reservation)
PortsConservative == st.ports <= FreePorts(LedgerOf(st), st.cfg)
\* in the intended behaviour the stored amounts are always the committed requested amounts
StoredIsCommitted ==
    Impl = "intended" =>
        \A i \in 1..Len(st.resv) :
            st.resv[i].units = IF st.resv[i].adopted THEN st.resv[i].req      \* adopted at start-up: not scaled
                               ELSE CommitUnits(st.resv[i].req, st.cfg)

=============================================================================
