SPECIFICATION TSpec
CONSTANTS
    Orders = {}
    Names = {}
    ReqShapes = {}
    InvChoices = {}
    CfgChoices = {}
    AdoptChoices = {}
    MaxResv = 0
    MaxSteps = 0
    Impl = "intended"
INVARIANT Done
CHECK_DEADLOCK FALSE
