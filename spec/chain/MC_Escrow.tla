------------------------------- MODULE MC_Escrow -------------------------------
(* Family E: the escrow keeper driven directly -- numerically exhaustive check of C02 (and the escrow part of   *)
(* C01/C03): all small deposits x rates x gaps x orders of settle-triggering actions, up to 3 concurrent payees. *)
EXTENDS ChainProps, Json

CONSTANTS DepositChoices, AmountChoices, RateChoices, PayOSeqs, Gaps, MaxHeight, InitCoins, MaxSteps, OnlyOK,
          BystanderDeposits   \* deposits of a second, otherwise untouched escrow account (d = 2) whose coins share the module account

VARIABLES st, last, hist
vars == <<st, last, hist>>

T == CHOOSE t \in Tenants : TRUE
Pays == {<<o, p>> : o \in PayOSeqs, p \in Providers}

ActionSet ==
       {[act |-> "KAccountCreate", t |-> T, d |-> 1, deposit |-> dp] : dp \in DepositChoices}
  \cup {[act |-> "KAccountCreate", t |-> T, d |-> 2, deposit |-> dp] : dp \in BystanderDeposits}
  \cup {[act |-> "KDeposit", t |-> T, d |-> 1, amount |-> m] : m \in AmountChoices}
  \cup {[act |-> a, t |-> T, d |-> 1] : a \in {"KSettle", "KAccountClose"}}
  \cup {[act |-> "KPaymentCreate", t |-> T, d |-> 1, g |-> 1, o |-> x[1], p |-> x[2], rate |-> r] : x \in Pays, r \in RateChoices}
  \cup {[act |-> a, t |-> T, d |-> 1, g |-> 1, o |-> x[1], p |-> x[2]] : a \in {"KPaymentWithdraw", "KPaymentClose"}, x \in Pays}
  \cup {[act |-> "NextBlock", gap |-> g] : g \in Gaps}

AlphabetJson == ToJson(SetToSeq(ActionSet))

Init ==
  /\ st = [EmptyState EXCEPT !.bank = [x \in Parties \cup {ESCROW} |-> IF x = ESCROW THEN 0 ELSE InitCoins]]
  /\ last = [act |-> [act |-> "Init"], ok |-> TRUE]
  /\ hist = <<>>
  /\ PrintT(<<"ALPHABET", AlphabetJson>>)

Next ==
  /\ Len(hist) < MaxSteps
  /\ \E a \in ActionSet :
       LET r == Apply(st, a) IN
       /\ OnlyOK => (r.ok /\ r.S # st)
       /\ a.act = "NextBlock" => st.height + a.gap <= MaxHeight
       /\ st' = r.S
       /\ last' = [act |-> a, ok |-> r.ok]
       /\ hist' = Append(hist, a)

Spec == Init /\ [][Next]_vars
View == st
R0 == [pre |-> st, act |-> last'.act, ok |-> last'.ok, post |-> st']

InvC01 == Inv_C01(st)
InvC02 == Inv_C02(st)
InvC03 == Inv_C03(st)
StepC01 == [][Step_C01(R0)]_vars
StepC02 == [][Step_C02(R0)]_vars
StepC03 == [][Step_C03(R0)]_vars
StepC06 == [][Step_C06(R0)]_vars
ProvRankDef == [p \in Providers |-> CASE p = "p1" -> 1 [] p = "p2" -> 2 [] p = "p3" -> 3 [] OTHER -> 9]
ExportNode == PrintT(<<"NODE", ToJson(hist)>>)
OkActs == {a \in ActionSet : LET r == Apply(st, a) IN
              r.ok /\ r.S # st /\ (a.act = "NextBlock" => st.height + a.gap <= MaxHeight)}
ExportNodeEdges == PrintT(<<"NODE", ToJson(hist), "OK", ToJson(SetToSeq(OkActs))>>)
=============================================================================
