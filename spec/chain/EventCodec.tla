------------------------------ MODULE EventCodec ------------------------------
(***************************************************************************)
(* C16, second sentence: every emitted marketplace event decodes through   *)
(* the provider's event parser to a typed event equal to the one emitted,  *)
(* for all identifier and price values in the event codecs.                *)
(*                                                                         *)
(* Cases = event type x value classes of the fields that type carries.     *)
(* J1: an abstract model of the codec (typed event -> attribute list ->    *)
(* typed event) is the identity and injective on Cases.  J2: TLC prints    *)
(* the cases; harness/chainh (`vh chain codec`) builds the real typed      *)
(* event with boundary values, emits it (ToSDKEvent), decodes it with the  *)
(* provider's decoder (events.processEvent) and records what came back.    *)
(* J3: CodecJudge evaluates the same equality on the recorded lines.       *)
(***************************************************************************)
EXTENDS Integers, Sequences, FiniteSets, TLC, Json

CONSTANT Mode     \* "gen" (J1 + case export) or "judge" (J3 over codec.ndjson)

Party  == {"x", "y"}
DSeqC  == {"1", "12", "256", "65536", "max64"}
SeqC   == {"1", "255", "256", "max32"}
PriceC == {"1", "2p31", "2p63", "1e30"}
VerC   == {"zeros", "ff", "mixed"}

DepTypes   == {"deployment-closed"}
DepVTypes  == {"deployment-created", "deployment-updated"}
GrpTypes   == {"group-closed", "group-paused", "group-started"}
OrdTypes   == {"order-created", "order-closed"}
BidTypes   == {"bid-created", "bid-closed", "lease-created", "lease-closed"}
ProvTypes  == {"provider-created", "provider-updated", "provider-deleted"}
AttTypes   == {"attestation-set", "attestation-deleted"}

Cases ==
       {[type |-> t, owner |-> o, dseq |-> d] : t \in DepTypes, o \in Party, d \in DSeqC}
  \cup {[type |-> t, owner |-> o, dseq |-> d, version |-> v] : t \in DepVTypes, o \in Party, d \in DSeqC, v \in VerC}
  \cup {[type |-> t, owner |-> o, dseq |-> d, gseq |-> g] : t \in GrpTypes, o \in Party, d \in DSeqC, g \in SeqC}
  \cup {[type |-> t, owner |-> o, dseq |-> d, gseq |-> g, oseq |-> s] : t \in OrdTypes, o \in Party, d \in DSeqC, g \in SeqC, s \in SeqC}
  \cup {[type |-> t, owner |-> o, dseq |-> d, gseq |-> g, oseq |-> s, provider |-> p, price |-> pr] :
            t \in BidTypes, o \in Party, d \in {"1", "max64"}, g \in {"1", "max32"}, s \in SeqC, p \in Party, pr \in PriceC}
  \cup {[type |-> t, owner |-> o] : t \in ProvTypes, o \in Party}
  \cup {[type |-> t, owner |-> o, auditor |-> a] : t \in AttTypes, o \in Party, a \in Party}

\* abstract codec: attribute list = the record's fields as <<key, value>> pairs in a fixed key order; action carries the type
KeyOrder == <<"type", "owner", "auditor", "dseq", "gseq", "oseq", "provider", "price", "version">>
Encode(c) == SelectSeq([i \in 1..Len(KeyOrder) |-> IF KeyOrder[i] \in DOMAIN c THEN <<KeyOrder[i], c[KeyOrder[i]]>> ELSE <<"", "">>],
                       LAMBDA kv : kv[1] # "")
DecodeRec(attrs) == [k \in {attrs[i][1] : i \in DOMAIN attrs} |-> attrs[CHOOSE i \in DOMAIN attrs : attrs[i][1] = k][2]]

CodecModelOK == /\ \A c \in Cases : DecodeRec(Encode(c)) = c
                /\ \A c1, c2 \in Cases : Encode(c1) = Encode(c2) => c1 = c2

Lines == IF Mode = "judge" THEN ndJsonDeserialize("codec.ndjson") ELSE <<>>

VARIABLE i
Init == i = 0 /\ (Mode = "gen" => /\ CodecModelOK
                                    /\ \A c \in Cases : PrintT(<<"CASE", ToJson(c)>>))
Next == Mode = "judge" /\ i < Len(Lines) /\ i' = i + 1
Spec == Init /\ [][Next]_i

\* J3: the decoder returned a typed event of the emitted type, equal (reflect.DeepEqual) to the emitted one, and its
\* fields are the emitted fields
LineOK(l) == /\ l.parsed
             /\ l.equal
             /\ l.dec = l.case
CodecJudge == (Mode = "judge" /\ i > 0) => (LineOK(Lines[i]) \/ PrintT(<<"FAIL", "C16", "EventCodec", i, Lines[i].case.type>>))
Accepted == Mode = "judge" => TLCGet("stats").diameter = Len(Lines) + 1
=============================================================================
