------------------------------- MODULE MC_Chain -------------------------------
(* J1 (design check) and J2 (behaviour generation) instantiation of Chain/ChainProps. *)
EXTENDS ChainProps, Json

CONSTANTS
  GroupChoices,    \* set of group-spec sequences a tenant may submit
  DepositChoices, BidDepositChoices, PriceChoices, AmountChoices,
  AttrChoices,     \* set of attribute functions
  KeyChoices,      \* set of key sets for DeleteAttributes
  Versions, Gaps, MaxHeight, InitCoins, MaxSteps,
  Variants,        \* BOOLEAN: add the unusual-but-valid input spellings to the alphabet
  OnlyOK           \* TRUE: only successful transactions are steps (simulation); rejected ones are replayed by the harness

VARIABLES st, last, hist
vars == <<st, last, hist>>

TDGs  == {<<t, d, g>> : t \in Tenants, d \in DSeqs, g \in GSeqs}
Bids  == {<<t, d, g, o, p>> : t \in Tenants, d \in DSeqs, g \in GSeqs, o \in OSeqs, p \in Providers}

\* unusual-but-valid spellings of inputs; all of them must be rejected (so they add no states, only alphabet entries):
\* deposits / prices in a foreign denomination, a self-bid with the address written in upper case
Dp0 == CHOOSE x \in DepositChoices : \A y \in DepositChoices : x >= y
Bd0 == CHOOSE x \in BidDepositChoices : \A y \in BidDepositChoices : x >= y
Pr0 == CHOOSE x \in PriceChoices : \A y \in PriceChoices : x <= y
VariantActions ==
       {[act |-> "CreateDeployment", t |-> t, d |-> d, groups |-> gs, deposit |-> Dp0, version |-> 1, denom |-> "f"] :
            t \in Tenants, d \in DSeqs, gs \in GroupChoices}
  \cup {[act |-> "DepositDeployment", t |-> t, d |-> d, amount |-> 1, denom |-> "f"] : t \in Tenants, d \in DSeqs}
  \cup {[act |-> "CreateBid", t |-> x[1], d |-> x[2], g |-> x[3], o |-> x[4], p |-> x[5], price |-> Pr0, deposit |-> Bd0, denom |-> "f"] : x \in Bids}
  \cup {[act |-> "CreateBid", t |-> x[1], d |-> x[2], g |-> x[3], o |-> x[4], p |-> x[5], price |-> Pr0, deposit |-> Bd0, pdenom |-> "f"] : x \in Bids}
  \cup {[act |-> "CreateBid", t |-> x[1], d |-> x[2], g |-> x[3], o |-> x[4], p |-> x[5], price |-> Pr0, deposit |-> Bd0, upper |-> TRUE] :
            x \in {y \in Bids : y[5] = y[1]}}
  \* a provider record written with the owner's address in upper case (accepted: it is the same account)
  \cup {[act |-> a, p |-> p, attrs |-> at, upper |-> TRUE] : a \in {"CreateProvider", "UpdateProvider"}, p \in Providers, at \in AttrChoices}

ActionSet ==
       {[act |-> "CreateDeployment", t |-> t, d |-> d, groups |-> gs, deposit |-> dp, version |-> v] :
            t \in Tenants, d \in DSeqs, gs \in GroupChoices, dp \in DepositChoices, v \in Versions}
  \cup {[act |-> "DepositDeployment", t |-> t, d |-> d, amount |-> m] : t \in Tenants, d \in DSeqs, m \in AmountChoices}
  \cup {[act |-> "UpdateDeployment", t |-> t, d |-> d, version |-> v] : t \in Tenants, d \in DSeqs, v \in Versions}
  \cup {[act |-> "CloseDeployment", t |-> t, d |-> d] : t \in Tenants, d \in DSeqs}
  \cup {[act |-> a, t |-> x[1], d |-> x[2], g |-> x[3]] : a \in {"CloseGroup", "PauseGroup", "StartGroup"}, x \in TDGs}
  \cup {[act |-> "CreateBid", t |-> x[1], d |-> x[2], g |-> x[3], o |-> x[4], p |-> x[5], price |-> pr, deposit |-> dp] :
            x \in Bids, pr \in PriceChoices, dp \in BidDepositChoices}
  \cup {[act |-> a, t |-> x[1], d |-> x[2], g |-> x[3], o |-> x[4], p |-> x[5]] :
            a \in {"CloseBid", "WithdrawLease", "CreateLease", "CloseLease"}, x \in Bids}
  \cup {[act |-> a, p |-> p, attrs |-> at] : a \in {"CreateProvider", "UpdateProvider"}, p \in Providers, at \in AttrChoices}
  \cup {[act |-> "SignAttributes", a |-> a, p |-> p, attrs |-> at] : a \in Auditors, p \in Providers, at \in AttrChoices}
  \cup {[act |-> "DeleteAttributes", a |-> a, p |-> p, keys |-> ks] : a \in Auditors, p \in Providers, ks \in KeyChoices}
  \cup {[act |-> "NextBlock", gap |-> g] : g \in Gaps}
  \cup {[act |-> "SendToEscrow", t |-> t, amount |-> 1] : t \in Tenants}
  \cup (IF Variants THEN VariantActions ELSE {})

\* J2: the action alphabet the harness tries at every selected state
AlphabetJson == ToJson(SetToSeq(ActionSet))

Init ==
  /\ st = [EmptyState EXCEPT !.bank = [x \in Parties \cup {ESCROW} |-> IF x = ESCROW THEN 0 ELSE InitCoins]]
  /\ last = [act |-> [act |-> "Init"], ok |-> TRUE]
  /\ hist = <<>>
  /\ PrintT(<<"ALPHABET", AlphabetJson>>)

Next ==
  /\ Len(hist) < MaxSteps
  /\ \E a \in ActionSet :
       LET r == Apply(st, a) IN
       /\ ~r.bound
       /\ OnlyOK => (r.ok /\ r.S # st)
       /\ a.act = "NextBlock" => st.height + a.gap <= MaxHeight
       /\ st' = r.S
       /\ last' = [act |-> a, ok |-> r.ok]
       /\ hist' = Append(hist, a)

Spec == Init /\ [][Next]_vars
View == st

R0 == [pre |-> st, act |-> last'.act, ok |-> last'.ok, post |-> st']

InvC01 == Inv_C01(st)
InvC02 == Inv_C02(st)
InvC03 == Inv_C03(st)
InvC04 == Inv_C04(st)
InvC05 == Inv_C05(st)
StepC01 == [][Step_C01(R0)]_vars
StepC02 == [][Step_C02(R0)]_vars
StepC03 == [][Step_C03(R0)]_vars
StepC06 == [][Step_C06(R0)]_vars
StepC08 == [][Step_C08(R0)]_vars

ProvRankDef == [p \in Providers |-> CASE p = "p1" -> 1 [] p = "p2" -> 2 [] p = "p3" -> 3 [] OTHER -> 9]

NoReq(price) == [price |-> price, req |-> <<>>, allOf |-> {}, anyOf |-> {}]
Attr(k, v)   == (k :> v)
\* configuration families (referenced from the generated cfg files)
GroupChoicesS == {<<NoReq(2)>>}                                  \* one group
GroupChoicesS2 == {<<NoReq(1), NoReq(2)>>}                        \* two groups, small exhaustive family
GroupChoicesA == {<<NoReq(2)>>, <<NoReq(1), NoReq(2)>>, <<NoReq(3), NoReq(2)>>}   \* two groups: concurrent payments
NoAttrs       == {<<>>}
NoKeys        == {{}}
\* requirements / attestations (C08, C07)
ReqChoices    == {<<>>, Attr("key1", "x"), Attr("key2", "x"), Attr("key1", "x") @@ Attr("key2", "x"), Attr("key6", "")}
SignChoices   == {<<{}, {}>>, <<{"a1"}, {}>>, <<{}, {"a1", "a2"}>>, <<{"a1"}, {"a2"}>>, <<{"a1", "a2"}, {}>>, <<{}, {"a2"}>>}
GroupChoicesR == {<<[price |-> 2, req |-> r, allOf |-> sg[1], anyOf |-> sg[2]]>> : r \in ReqChoices, sg \in SignChoices}
AttrChoicesR  == {<<>>, Attr("key1", "x"), Attr("key1", "y"), Attr("key1", "x") @@ Attr("key2", "x"), Attr("key2", "x"),
                  Attr("key1", "x") @@ Attr("key2", "x") @@ Attr("key3", "x") @@ Attr("Key3", "x") @@ Attr("key5", "x"),
                  Attr("key3", "y") @@ Attr("Key3", "y") @@ Attr("key6", "y") @@ Attr("Key6", "y") @@ Attr("key-7", "y")}
\* exhaustive family for the admission predicate and the provider update guard (C08)
GroupChoicesRX == {<<[price |-> 2, req |-> Attr("key1", "x"), allOf |-> {}, anyOf |-> {}]>>,
                   <<[price |-> 2, req |-> Attr("key2", "x"), allOf |-> {}, anyOf |-> {}]>>,
                   <<[price |-> 2, req |-> Attr("key3", ""), allOf |-> {}, anyOf |-> {}]>>}   \* a flag attribute: empty value
\* exhaustive family for the auditor lists (C08 all-of / any-of): one requirement, every (all-of, any-of) shape
GroupChoicesRA == {<<[price |-> 2, req |-> Attr("key1", "x"), allOf |-> sg[1], anyOf |-> sg[2]]>> :
                      sg \in {<<{"a1"}, {}>>, <<{}, {"a1", "a2"}>>, <<{"a1"}, {"a2"}>>, <<{"a1", "a2"}, {}>>}}
AttrChoicesRA  == {Attr("key1", "x"), Attr("key2", "x")}
KeyChoicesRA   == {{}}
AttrChoicesRX  == {Attr("key1", "x") @@ Attr("key2", "x"), Attr("key1", "x"), Attr("key2", "x")}
KeyChoicesR   == {{}, {"key1"}, {"key1", "key2"}, {"key3", "key4"}}

\* J2: print every generated behaviour of full length (simulation mode)
Export == Len(hist) < MaxSteps \/ PrintT(<<"BEHAVIOUR", ToJson(hist)>>)
\* J2: print the BFS path of every distinct state (exhaustive mode): evaluated once per new state
ExportNode == PrintT(<<"NODE", ToJson(hist)>>)
\* ... and, in exhaustive mode, with the successful state-changing actions enabled in that state, so that the harness
\* executes EVERY successful transition of the bounded model (not only the edges of the BFS tree)
OkActs == {a \in ActionSet : LET r == Apply(st, a) IN
              r.ok /\ ~r.bound /\ r.S # st /\ (a.act = "NextBlock" => st.height + a.gap <= MaxHeight)}
ExportNodeEdges == PrintT(<<"NODE", ToJson(hist), "OK", ToJson(SetToSeq(OkActs))>>)
=============================================================================
