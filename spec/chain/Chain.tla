-------------------------------- MODULE Chain --------------------------------
(***************************************************************************)
(* The Akash marketplace state machine: x/deployment, x/market, x/escrow,  *)
(* x/provider, x/audit wired as in app/app_configure.go (escrow hooks ->   *)
(* x/market/hooks).  One transaction = one atomic transition.              *)
(*                                                                         *)
(* Functional style, because handlers call keepers that call hooks that    *)
(* call keepers: the whole store is ONE record S and every keeper function *)
(* is an operator S -> S (or S -> [S, err, ...]).  Apply(S, a) is what     *)
(* runTx does: if the handler returns an error the state is unchanged.     *)
(*                                                                         *)
(* Record ids are the strings the chain itself uses                        *)
(* ("owner/dseq/gseq/oseq/provider"), with parties abstracted to names, so *)
(* that a state recorded from the implementation (JSON) and a state of     *)
(* this specification are the same TLA+ value.                             *)
(***************************************************************************)
EXTENDS Integers, Sequences, FiniteSets, TLC, SequencesExt, FiniteSetsExt, Functions

CONSTANTS
  Tenants,        \* party names that own deployments
  Providers,      \* party names that bid
  Auditors,       \* party names that sign attestations
  ProvRank,       \* [Providers -> Nat]: store-key order of provider addresses
  DSeqs, GSeqs, OSeqs,   \* finite sets of sequence numbers in the universe (Nat)
  MinDeposit,     \* DeploymentMinDeposit param (amount)
  BidMinDeposit,  \* BidMinDeposit param (amount)
  OrderMaxBids    \* market param: a bid is refused when MORE than this many bids already exist for the order

Parties == Tenants \cup Providers \cup Auditors
ESCROW == "escrow"

-----------------------------------------------------------------------------
(* identifiers *)
DId(t, d)          == t \o "/" \o ToString(d)
GId(t, d, g)       == DId(t, d) \o "/" \o ToString(g)
OId(t, d, g, o)    == GId(t, d, g) \o "/" \o ToString(o)
BId(t, d, g, o, p) == OId(t, d, g, o) \o "/" \o p      \* bid id = lease id = payment key
DAcc(did)          == "deployment/" \o did
BAcc(bid)          == "bid/" \o bid
AttId(a, p)        == a \o "/" \o p

Has(f, k)     == k \in DOMAIN f
Put(f, k, v)  == [x \in (DOMAIN f) \cup {k} |-> IF x = k THEN v ELSE f[x]]
Del(f, k)     == [x \in (DOMAIN f) \ {k} |-> f[x]]
Min2(a, b)    == IF a < b THEN a ELSE b
SumOver(S, F(_)) == FoldSet(LAMBDA x, acc : acc + F(x), 0, S)
SortedSeq(S)  == SetToSortSeq(S, <)            \* for sets of Nat

\* unusual-but-valid spellings of an input (optional fields of an action): the coin of a deposit / a price given in
\* another denomination than the chain's ("f"), the provider's address written in upper-case bech32 (same account)
ADenom(a)  == IF "denom"  \in DOMAIN a THEN a.denom  ELSE "uakt"
APDenom(a) == IF "pdenom" \in DOMAIN a THEN a.pdenom ELSE "uakt"
AUpper(a)  == IF "upper"  \in DOMAIN a THEN a.upper  ELSE FALSE

EmptyState ==
  [height |-> 1, bank |-> <<>>, eacct |-> <<>>, epay |-> <<>>, dep |-> <<>>, grp |-> <<>>,
   ord |-> <<>>, bid |-> <<>>, lease |-> <<>>, prov |-> <<>>, attest |-> <<>>]

-----------------------------------------------------------------------------
(* attributes: functions key -> value; requirement matching *)
Covers(have, req) == \A k \in DOMAIN req : k \in DOMAIN have /\ have[k] = req[k]

\* x/deployment/types/types.go MatchRequirements, transcribed
MatchRequirements(S, gspec, p) ==
  LET signed == {a \in Auditors : Has(S.attest, AttId(a, p))} IN
  IF gspec.allOf # {} \/ gspec.anyOf # {}
  THEN /\ signed # {}
       /\ \A a \in gspec.allOf : a \in signed /\ Covers(S.attest[AttId(a, p)], gspec.req)
       /\ (gspec.anyOf # {} => \E a \in gspec.anyOf : a \in signed /\ Covers(S.attest[AttId(a, p)], gspec.req))
  ELSE Covers(S.prov[p].attrs, gspec.req)

-----------------------------------------------------------------------------
(* escrow keeper, x/escrow/keeper/keeper.go *)

AcctPays(S, aid) == {l \in DOMAIN S.epay : S.epay[l].acct = aid}
OpenPays(S, aid) == {l \in AcctPays(S, aid) : S.epay[l].state = "open"}
KeyLess(S, a, b) ==
  LET x == S.epay[a]  y == S.epay[b] IN
  \/ x.g < y.g
  \/ x.g = y.g /\ x.o < y.o
  \/ x.g = y.g /\ x.o = y.o /\ ProvRank[x.p] < ProvRank[y.p]
PaySeq(S, P) == SetToSortSeq(P, LAMBDA a, b : KeyLess(S, a, b))

\* paymentWithdraw after the record's state was set: always persisted
PayOut(S, l, newstate) ==
  LET q == S.epay[l] IN
  [S EXCEPT !.bank[q.owner] = @ + q.balance, !.bank[ESCROW] = @ - q.balance,
            !.epay[l] = [q EXCEPT !.state = newstate, !.withdrawn = @ + q.balance, !.balance = 0]]

RECURSIVE Settle(_, _), AccountClose(_, _), PaymentClose(_, _), HookAccountClosed(_, _),
          HookPaymentClosed(_, _), GroupClosed(_, _, _, _), BidClosed(_, _)

OrderClosed(S, o) ==
  IF Has(S.ord, o) /\ S.ord[o].state # "closed" THEN [S EXCEPT !.ord[o].state = "closed"] ELSE S

LeaseClosed(S, l, st) ==
  IF Has(S.lease, l) /\ S.lease[l].state \notin {"closed", "insufficient_funds"}
  THEN [S EXCEPT !.lease[l].state = st] ELSE S

\* x/market/keeper OnBidClosed: no-op for closed/lost; closes the bid's escrow account, error ignored
BidClosed(S, b) ==
  IF ~Has(S.bid, b) \/ S.bid[b].state \in {"closed", "lost"} THEN S
  ELSE AccountClose([S EXCEPT !.bid[b].state = "closed"], BAcc(b)).S

\* x/market/keeper OnGroupClosed
GroupClosed(S, t, d, g) ==
  LET perBid(acc, o, p) ==
        LET b  == BId(t, d, g, o, p) IN
        IF ~Has(acc.bid, b) THEN acc
        ELSE LET S1 == BidClosed(acc, b) IN
             IF Has(S1.lease, b)
             THEN PaymentClose(LeaseClosed(S1, b, "closed"), b).S     \* error only logged
             ELSE S1
      perOrder(acc, o) ==
        IF ~Has(acc.ord, OId(t, d, g, o)) THEN acc
        ELSE FoldLeft(LAMBDA a2, p : perBid(a2, o, p), OrderClosed(acc, OId(t, d, g, o)),
                      SetToSortSeq(Providers, LAMBDA x, y : ProvRank[x] < ProvRank[y]))
  IN FoldLeft(perOrder, S, SortedSeq(OSeqs))

\* x/market/hooks OnEscrowAccountClosed
HookAccountClosed(S, aid) ==
  LET a == S.eacct[aid] IN
  IF a.scope # "deployment" \/ ~Has(S.dep, a.d) \/ S.dep[a.d].state # "active" THEN S
  ELSE
    LET gstate == IF a.state = "overdrawn" THEN "insufficient_funds" ELSE "closed"
        S1 == [S EXCEPT !.dep[a.d].state = "closed"]
        \* groups are read once, up front
        gs == {g \in GSeqs : Has(S1.grp, GId(a.t, a.dseq, g)) /\ S1.grp[GId(a.t, a.dseq, g)].state # "closed"}
        perGroup(acc, g) == GroupClosed([acc EXCEPT !.grp[GId(a.t, a.dseq, g)].state = gstate], a.t, a.dseq, g)
    IN FoldLeft(perGroup, S1, SortedSeq(gs))

\* x/market/hooks OnEscrowPaymentClosed (only acts while the bid is still active)
HookPaymentClosed(S, l) ==
  IF ~Has(S.bid, l) \/ S.bid[l].state # "active" \/ ~Has(S.ord, S.bid[l].oid) \/ ~Has(S.lease, l) THEN S
  ELSE LET S1 == BidClosed(OrderClosed(S, S.bid[l].oid), l) IN
       LeaseClosed(S1, l, IF S.epay[l].state = "overdrawn" THEN "insufficient_funds" ELSE "closed")

\* doAccountSettle: returns [S, pays (open payments, key order), od, err]
Settle(S, aid) ==
  IF ~Has(S.eacct, aid) \/ S.eacct[aid].state # "open"
  THEN [S |-> S, pays |-> <<>>, od |-> FALSE, err |-> TRUE]
  ELSE
  LET a     == S.eacct[aid]
      delta == S.height - a.settledAt
      P     == OpenPays(S, aid)
      ps    == PaySeq(S, P)
  IN
  IF delta = 0 THEN [S |-> S, pays |-> ps, od |-> FALSE, err |-> FALSE]
  ELSE IF P = {} THEN [S |-> [S EXCEPT !.eacct[aid].settledAt = S.height], pays |-> <<>>, od |-> FALSE, err |-> FALSE]
  ELSE
  LET R   == SumOver(P, LAMBDA l : S.epay[l].rate)
      n   == Min2(a.balance \div R, delta)
      S1  == [S EXCEPT !.eacct[aid] = [a EXCEPT !.settledAt = S.height, !.balance = @ - R * n, !.transferred = @ + R * n],
                       !.epay = [l \in DOMAIN S.epay |-> IF l \in P THEN [S.epay[l] EXCEPT !.balance = @ + S.epay[l].rate * n]
                                                                   ELSE S.epay[l]]]
  IN
  IF n = delta THEN [S |-> S1, pays |-> ps, od |-> FALSE, err |-> FALSE]
  ELSE
  LET rem   == S1.eacct[aid].balance
      w     == [l \in P |-> (rem * S.epay[l].rate) \div R]
      rem2  == rem - SumOver(P, LAMBDA l : w[l])
      k     == Cardinality(P)
      base  == rem2 \div k
      ovf   == rem2 % k
      e     == [l \in P |-> base + (IF (CHOOSE i \in 1..k : ps[i] = l) <= ovf THEN 1 ELSE 0)]
      S2    == [S1 EXCEPT !.eacct[aid] = [@ EXCEPT !.balance = 0, !.transferred = @ + rem, !.state = "overdrawn"],
                          !.epay = [l \in DOMAIN S1.epay |-> IF l \in P THEN [S1.epay[l] EXCEPT !.balance = @ + w[l] + e[l]]
                                                                      ELSE S1.epay[l]]]
      S3    == FoldLeft(LAMBDA acc, l : PayOut(acc, l, "overdrawn"), S2, ps)
      S4    == HookAccountClosed(S3, aid)
      S5    == FoldLeft(HookPaymentClosed, S4, ps)
  IN [S |-> S5, pays |-> ps, od |-> TRUE, err |-> FALSE]

AccountCreate(S, aid, rec, owner, deposit) ==      \* rec: the id-derived fields of the record
  IF Has(S.eacct, aid) \/ S.bank[owner] < deposit THEN [S |-> S, err |-> TRUE]
  ELSE [S |-> [S EXCEPT !.bank[owner] = @ - deposit, !.bank[ESCROW] = @ + deposit,
                        !.eacct = Put(@, aid, rec @@ [owner |-> owner, state |-> "open", balance |-> deposit,
                                                      transferred |-> 0, settledAt |-> S.height])],
        err |-> FALSE]

AccountDeposit(S, aid, amt) ==
  IF ~Has(S.eacct, aid) \/ S.eacct[aid].state # "open" \/ S.bank[S.eacct[aid].owner] < amt THEN [S |-> S, err |-> TRUE]
  ELSE [S |-> [S EXCEPT !.bank[S.eacct[aid].owner] = @ - amt, !.bank[ESCROW] = @ + amt, !.eacct[aid].balance = @ + amt],
        err |-> FALSE]

AccountClose(S, aid) ==
  IF ~Has(S.eacct, aid) \/ S.eacct[aid].state # "open" THEN [S |-> S, err |-> TRUE]
  ELSE LET st == Settle(S, aid) IN
       IF st.err THEN [S |-> S, err |-> TRUE]
       ELSE IF st.od THEN [S |-> st.S, err |-> FALSE]
       ELSE LET a  == st.S.eacct[aid]
                S1 == [st.S EXCEPT !.bank[a.owner] = @ + a.balance, !.bank[ESCROW] = @ - a.balance,
                                   !.eacct[aid] = [a EXCEPT !.state = "closed", !.balance = 0]]
                S2 == FoldLeft(LAMBDA acc, l : PayOut(acc, l, "closed"), S1, st.pays)
                S3 == HookAccountClosed(S2, aid)
                S4 == FoldLeft(HookPaymentClosed, S3, st.pays)
            IN [S |-> S4, err |-> FALSE]

PaymentCreate(S, aid, l, rec, owner, rate) ==
  LET st == Settle(S, aid) IN
  IF st.err \/ st.od \/ rate = 0 \/ Has(st.S.epay, l) THEN [S |-> S, err |-> TRUE]
  ELSE [S |-> [st.S EXCEPT !.epay = Put(@, l, rec @@ [acct |-> aid, owner |-> owner, state |-> "open", rate |-> rate,
                                                      balance |-> 0, withdrawn |-> 0, createdAt |-> S.height])],
        err |-> FALSE]

PaymentWithdraw(S, l) ==
  IF ~Has(S.epay, l) \/ S.epay[l].state # "open" THEN [S |-> S, err |-> TRUE]
  ELSE LET st == Settle(S, S.epay[l].acct) IN
       IF st.err THEN [S |-> S, err |-> TRUE]
       ELSE IF st.od THEN [S |-> st.S, err |-> FALSE]
       ELSE [S |-> PayOut(st.S, l, "open"), err |-> FALSE]

PaymentClose(S, l) ==
  IF ~Has(S.epay, l) \/ S.epay[l].state # "open" THEN [S |-> S, err |-> TRUE]
  ELSE LET st == Settle(S, S.epay[l].acct) IN
       IF st.err THEN [S |-> S, err |-> TRUE]
       ELSE IF st.od THEN [S |-> st.S, err |-> FALSE]
       ELSE [S |-> HookPaymentClosed(PayOut(st.S, l, "closed"), l), err |-> FALSE]

-----------------------------------------------------------------------------
(* market keeper CreateOrder: oseq = 1 + number of earlier orders, all of which must be closed.   *)
(* bound |-> TRUE: the result would leave the finite universe (only used to prune the model).     *)
CreateOrder(S, t, d, g) ==
  LET have == {o \in OSeqs : Has(S.ord, OId(t, d, g, o))}
      n    == Cardinality(have) + 1 IN
  IF \E o \in have : S.ord[OId(t, d, g, o)].state # "closed" THEN [S |-> S, err |-> TRUE, bound |-> FALSE]
  ELSE IF n \notin OSeqs THEN [S |-> S, err |-> TRUE, bound |-> TRUE]
  ELSE [S |-> [S EXCEPT !.ord = Put(@, OId(t, d, g, n), [state |-> "open", d |-> DId(t, d), gid |-> GId(t, d, g)])],
        err |-> FALSE, bound |-> FALSE]

-----------------------------------------------------------------------------
(* handlers.  Each returns [S, err, bound]; Apply discards S on err (runTx). *)
OK(S)    == [S |-> S, err |-> FALSE, bound |-> FALSE]
Fail(S)  == [S |-> S, err |-> TRUE, bound |-> FALSE]
Res(r)   == [S |-> r.S, err |-> r.err, bound |-> FALSE]

\* a.groups : sequence of [price, req, allOf, anyOf]
CreateDeployment(S, a) ==
  LET did == DId(a.t, a.d)  n == Len(a.groups) IN
  IF Has(S.dep, did) \/ a.deposit < MinDeposit \/ n = 0 \/ ADenom(a) # "uakt" THEN Fail(S)
  ELSE IF \E g \in 1..n : g \notin GSeqs THEN [S |-> S, err |-> TRUE, bound |-> TRUE]
  ELSE
  LET S1 == [S EXCEPT !.dep = Put(@, did, [state |-> "active", version |-> a.version, owner |-> a.t]),
                      !.grp = [x \in (DOMAIN S.grp) \cup {GId(a.t, a.d, g) : g \in 1..n} |->
                                 IF \E g \in 1..n : x = GId(a.t, a.d, g)
                                 THEN LET g == CHOOSE gg \in 1..n : x = GId(a.t, a.d, gg) IN
                                      [state |-> "open", d |-> did, price |-> a.groups[g].price, req |-> a.groups[g].req,
                                       allOf |-> a.groups[g].allOf, anyOf |-> a.groups[g].anyOf]
                                 ELSE S.grp[x]]]
      step(acc, g) == IF acc.err THEN acc ELSE CreateOrder(acc.S, a.t, a.d, g)
      r2 == FoldLeft(step, OK(S1), [g \in 1..n |-> g])
  IN IF r2.err THEN r2
     ELSE Res(AccountCreate(r2.S, DAcc(did), [scope |-> "deployment", d |-> did, t |-> a.t, dseq |-> a.d], a.t, a.deposit))

DepositDeployment(S, a) ==
  LET did == DId(a.t, a.d) IN
  IF ~Has(S.dep, did) \/ S.dep[did].state # "active" \/ a.amount = 0 \/ ADenom(a) # "uakt" THEN Fail(S)
  ELSE Res(AccountDeposit(S, DAcc(did), a.amount))

UpdateDeployment(S, a) ==
  LET did == DId(a.t, a.d) IN
  IF ~Has(S.dep, did) \/ S.dep[did].state # "active" THEN Fail(S)
  ELSE OK([S EXCEPT !.dep[did].version = a.version])

CloseDeployment(S, a) ==
  LET did == DId(a.t, a.d) IN
  IF ~Has(S.dep, did) \/ S.dep[did].state # "active" THEN Fail(S)
  ELSE Res(AccountClose(S, DAcc(did)))

CloseGroup(S, a) ==
  LET gid == GId(a.t, a.d, a.g) IN
  IF ~Has(S.grp, gid) \/ S.grp[gid].state = "closed" THEN Fail(S)
  ELSE OK(GroupClosed([S EXCEPT !.grp[gid].state = "closed"], a.t, a.d, a.g))

PauseGroup(S, a) ==
  LET gid == GId(a.t, a.d, a.g) IN
  IF ~Has(S.grp, gid) \/ S.grp[gid].state \in {"closed", "paused", "insufficient_funds"} THEN Fail(S)
  ELSE OK(GroupClosed([S EXCEPT !.grp[gid].state = "paused"], a.t, a.d, a.g))

StartGroup(S, a) ==
  LET gid == GId(a.t, a.d, a.g) IN
  IF ~Has(S.grp, gid) \/ S.grp[gid].state \in {"closed", "open", "insufficient_funds"} THEN Fail(S)
  ELSE CreateOrder([S EXCEPT !.grp[gid].state = "open"], a.t, a.d, a.g)

CreateBid(S, a) ==
  LET oid == OId(a.t, a.d, a.g, a.o)  gid == GId(a.t, a.d, a.g)  b == BId(a.t, a.d, a.g, a.o, a.p) IN
  IF \/ a.price = 0 \/ a.deposit < BidMinDeposit
     \/ a.p = a.t \/ ADenom(a) # "uakt" \/ APDenom(a) # "uakt"
     \/ Cardinality({q \in Providers : Has(S.bid, BId(a.t, a.d, a.g, a.o, q))}) > OrderMaxBids
     \/ ~Has(S.ord, oid) \/ S.ord[oid].state # "open"
     \/ a.price > S.grp[gid].price
     \/ ~Has(S.prov, a.p)
     \/ ~MatchRequirements(S, S.grp[gid], a.p)
     \/ Has(S.bid, b)
  THEN Fail(S)
  ELSE Res(AccountCreate([S EXCEPT !.bid = Put(@, b, [state |-> "open", price |-> a.price, d |-> DId(a.t, a.d),
                                                         oid |-> oid, gid |-> gid, p |-> a.p])],
                         BAcc(b), [scope |-> "bid", d |-> DId(a.t, a.d), t |-> a.t, dseq |-> a.d], a.p, a.deposit))

CloseBid(S, a) ==
  LET oid == OId(a.t, a.d, a.g, a.o)  gid == GId(a.t, a.d, a.g)  b == BId(a.t, a.d, a.g, a.o, a.p) IN
  IF ~Has(S.bid, b) \/ ~Has(S.ord, oid) THEN Fail(S)
  ELSE IF S.bid[b].state = "open" THEN OK(BidClosed(S, b))
  ELSE IF ~Has(S.lease, b) \/ S.lease[b].state # "active" \/ S.bid[b].state # "active" \/ ~Has(S.grp, gid) THEN Fail(S)
  ELSE LET S1 == [S EXCEPT !.grp[gid].state = "paused"]
           S2 == OrderClosed(BidClosed(LeaseClosed(S1, b, "closed"), b), oid)
       IN OK(PaymentClose(S2, b).S)                         \* error ignored

WithdrawLease(S, a) ==
  LET l == BId(a.t, a.d, a.g, a.o, a.p) IN
  IF ~Has(S.lease, l) THEN Fail(S) ELSE Res(PaymentWithdraw(S, l))

CreateLease(S, a) ==
  LET oid == OId(a.t, a.d, a.g, a.o)  gid == GId(a.t, a.d, a.g)  b == BId(a.t, a.d, a.g, a.o, a.p)  did == DId(a.t, a.d) IN
  IF \/ ~Has(S.bid, b) \/ S.bid[b].state # "open"
     \/ ~Has(S.ord, oid) \/ S.ord[oid].state # "open"
     \/ ~Has(S.grp, gid) \/ S.grp[gid].state # "open"
  THEN Fail(S)
  ELSE LET pc == PaymentCreate(S, DAcc(did), b, [d |-> did, g |-> a.g, o |-> a.o, p |-> a.p], a.p, S.bid[b].price) IN
       IF pc.err THEN Fail(S)
       ELSE LET S1 == [pc.S EXCEPT !.lease = Put(@, b, [state |-> "active", price |-> S.bid[b].price, d |-> did, oid |-> oid,
                                                         gid |-> gid, p |-> a.p, createdAt |-> S.height]),
                                   !.ord[oid].state = "active", !.bid[b].state = "active"]
                others == {q \in Providers : q # a.p /\ Has(S1.bid, BId(a.t, a.d, a.g, a.o, q))
                                                      /\ S1.bid[BId(a.t, a.d, a.g, a.o, q)].state = "open"}
                lose(acc, q) == IF acc.err THEN acc
                                ELSE Res(AccountClose([acc.S EXCEPT !.bid[BId(a.t, a.d, a.g, a.o, q)].state = "lost"],
                                                      BAcc(BId(a.t, a.d, a.g, a.o, q))))
            IN FoldLeft(lose, OK(S1), SetToSortSeq(others, LAMBDA x, y : ProvRank[x] < ProvRank[y]))

CloseLease(S, a) ==
  LET oid == OId(a.t, a.d, a.g, a.o)  gid == GId(a.t, a.d, a.g)  l == BId(a.t, a.d, a.g, a.o, a.p) IN
  IF \/ ~Has(S.ord, oid) \/ S.ord[oid].state # "active"
     \/ ~Has(S.bid, l) \/ S.bid[l].state # "active"
     \/ ~Has(S.lease, l) \/ S.lease[l].state # "active"
  THEN Fail(S)
  ELSE LET S1 == OrderClosed(BidClosed(LeaseClosed(S, l, "closed"), l), oid)
           pc == PaymentClose(S1, l) IN
       IF pc.err \/ ~Has(pc.S.grp, gid) THEN Fail(S)
       ELSE IF pc.S.grp[gid].state # "open" THEN OK(pc.S)
       ELSE CreateOrder(pc.S, a.t, a.d, a.g)

CreateProvider(S, a) ==
  \* up: the provider record keeps the owner's address as the message spelled it (upper-case bech32 is the same account)
  IF Has(S.prov, a.p) THEN Fail(S) ELSE OK([S EXCEPT !.prov = Put(@, a.p, [attrs |-> a.attrs, up |-> AUpper(a)])])

UpdateProvider(S, a) ==
  IF ~Has(S.prov, a.p) THEN Fail(S)
  ELSE IF \E l \in DOMAIN S.lease : /\ S.lease[l].p = a.p /\ S.lease[l].state = "active"
                                    /\ (~Has(S.ord, S.lease[l].oid) \/ ~Covers(a.attrs, S.grp[S.lease[l].gid].req))
  THEN Fail(S)
  ELSE OK([S EXCEPT !.prov[a.p] = [attrs |-> a.attrs, up |-> AUpper(a)]])

SignAttributes(S, a) ==
  LET k == AttId(a.a, a.p)
      old == IF Has(S.attest, k) THEN S.attest[k] ELSE <<>>
      new == [x \in (DOMAIN old) \cup (DOMAIN a.attrs) |-> IF x \in DOMAIN a.attrs THEN a.attrs[x] ELSE old[x]]
  IN OK([S EXCEPT !.attest = Put(@, k, new)])

DeleteAttributes(S, a) ==
  LET k == AttId(a.a, a.p) IN
  IF ~Has(S.attest, k) THEN Fail(S)
  ELSE IF a.keys = {} THEN OK([S EXCEPT !.attest = Del(@, k)])
  ELSE IF \E x \in a.keys : x \notin DOMAIN S.attest[k] THEN Fail(S)
  ELSE LET new == [x \in (DOMAIN S.attest[k]) \ a.keys |-> S.attest[k][x]] IN
       IF DOMAIN new = {} THEN OK([S EXCEPT !.attest = Del(@, k)]) ELSE OK([S EXCEPT !.attest[k] = new])

NextBlock(S, a) == OK([S EXCEPT !.height = @ + a.gap])

(* keeper-level actions: the escrow keeper driven directly (family "E": numerically exhaustive C02/C01/C03). *)
(* The account is ("deployment", t/d) without a deployment record, so the market hooks find nothing to do.   *)
KAccountCreate(S, a) ==
  Res(AccountCreate(S, DAcc(DId(a.t, a.d)), [scope |-> "deployment", d |-> DId(a.t, a.d), t |-> a.t, dseq |-> a.d], a.t, a.deposit))
KDeposit(S, a)       == Res(AccountDeposit(S, DAcc(DId(a.t, a.d)), a.amount))
KSettle(S, a)        == LET st == Settle(S, DAcc(DId(a.t, a.d))) IN [S |-> st.S, err |-> st.err, bound |-> FALSE]
KAccountClose(S, a)  == Res(AccountClose(S, DAcc(DId(a.t, a.d))))
KPaymentCreate(S, a) ==
  Res(PaymentCreate(S, DAcc(DId(a.t, a.d)), BId(a.t, a.d, a.g, a.o, a.p),
                    [d |-> DId(a.t, a.d), g |-> a.g, o |-> a.o, p |-> a.p], a.p, a.rate))
KPaymentWithdraw(S, a) == Res(PaymentWithdraw(S, BId(a.t, a.d, a.g, a.o, a.p)))
KPaymentClose(S, a)    == Res(PaymentClose(S, BId(a.t, a.d, a.g, a.o, a.p)))

\* a plain bank transfer to the escrow module account: the module account is a blocked address (app.BlockedAddrs)
SendToEscrow(S, a) == Fail(S)

(* Export every module's genesis and import it into a fresh application.  AS FOUND this is not the identity: the market  *)
(* module exports only its parameters, the provider and audit modules export nothing, so orders, bids, leases, provider *)
(* records and attestations are lost (escrow and deployment records survive).  Modelled as the code behaves; checked by          *)
(* conformance only -- it is not a marketplace transaction and no listed property speaks about it.                     *)
GenesisRoundTrip(S) == OK([S EXCEPT !.ord = <<>>, !.bid = <<>>, !.lease = <<>>, !.prov = <<>>, !.attest = <<>>])

Handler(S, a) ==
  CASE a.act = "CreateDeployment"  -> CreateDeployment(S, a)
    [] a.act = "SendToEscrow"      -> SendToEscrow(S, a)
    [] a.act = "GenesisRoundTrip"  -> GenesisRoundTrip(S)
    [] a.act = "DepositDeployment" -> DepositDeployment(S, a)
    [] a.act = "UpdateDeployment"  -> UpdateDeployment(S, a)
    [] a.act = "CloseDeployment"   -> CloseDeployment(S, a)
    [] a.act = "CloseGroup"        -> CloseGroup(S, a)
    [] a.act = "PauseGroup"        -> PauseGroup(S, a)
    [] a.act = "StartGroup"        -> StartGroup(S, a)
    [] a.act = "CreateBid"         -> CreateBid(S, a)
    [] a.act = "CloseBid"          -> CloseBid(S, a)
    [] a.act = "WithdrawLease"     -> WithdrawLease(S, a)
    [] a.act = "CreateLease"       -> CreateLease(S, a)
    [] a.act = "CloseLease"        -> CloseLease(S, a)
    [] a.act = "CreateProvider"    -> CreateProvider(S, a)
    [] a.act = "UpdateProvider"    -> UpdateProvider(S, a)
    [] a.act = "SignAttributes"    -> SignAttributes(S, a)
    [] a.act = "DeleteAttributes"  -> DeleteAttributes(S, a)
    [] a.act = "NextBlock"         -> NextBlock(S, a)
    [] a.act = "KAccountCreate"    -> KAccountCreate(S, a)
    [] a.act = "KDeposit"          -> KDeposit(S, a)
    [] a.act = "KSettle"           -> KSettle(S, a)
    [] a.act = "KAccountClose"     -> KAccountClose(S, a)
    [] a.act = "KPaymentCreate"    -> KPaymentCreate(S, a)
    [] a.act = "KPaymentWithdraw"  -> KPaymentWithdraw(S, a)
    [] a.act = "KPaymentClose"     -> KPaymentClose(S, a)

\* what runTx does: commit on success, discard on error
Apply(S, a) == LET r == Handler(S, a) IN [S |-> IF r.err THEN S ELSE r.S, ok |-> ~r.err, bound |-> r.bound]

\* the party whose signature the protocol requires (C06)
RequiredSigner(a) ==
  CASE a.act \in {"CreateDeployment", "DepositDeployment", "UpdateDeployment", "CloseDeployment",
                  "CloseGroup", "PauseGroup", "StartGroup", "CreateLease", "CloseLease",
                  "KAccountCreate", "KDeposit", "SendToEscrow"} -> a.t
    [] a.act \in {"CreateBid", "CloseBid", "WithdrawLease", "CreateProvider", "UpdateProvider"} -> a.p
    [] a.act \in {"SignAttributes", "DeleteAttributes"} -> a.a
    [] OTHER -> "none"

=============================================================================
