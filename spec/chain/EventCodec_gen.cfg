SPECIFICATION Spec
CONSTANT Mode = "gen"
INVARIANT CodecJudge
CHECK_DEADLOCK FALSE
