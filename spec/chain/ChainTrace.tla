------------------------------ MODULE ChainTrace ------------------------------
(***************************************************************************)
(* J3: validation of steps recorded from the real application              *)
(* (harness/chainh) against Chain.tla, and evaluation of the listed        *)
(* properties (ChainProps.tla) on the recorded states and steps.           *)
(*                                                                         *)
(* trace.ndjson: line 1 is the initial state; every other line is one      *)
(* executed step [id, parent, act, ok, state (post), events, signers,      *)
(* genesisOK, digests]; its pre-state is the state of line `parent`        *)
(* (the harness explores a tree of behaviours by branching the store).     *)
(* The only variable is the line number l; every judgement is a TLA+       *)
(* predicate over the recorded data.  A failed judgement prints            *)
(* <<"FAIL", name, l>> (the verdict); a step the specification's action    *)
(* does not produce prints <<"DRIFT", l>> (conformance, not an alarm).     *)
(***************************************************************************)
EXTENDS ChainProps, Json

CONSTANTS Which        \* set of property ids to judge, e.g. {"C01"} ; "CONF" = conformance with Apply

Trace == ndJsonDeserialize("trace.ndjson")
N     == Len(Trace)

SeqToSet(s) == {s[i] : i \in DOMAIN s}
LoadGrp(g)  == [g EXCEPT !.allOf = SeqToSet(@), !.anyOf = SeqToSet(@)]
Load(js)    == [js EXCEPT !.grp = [k \in DOMAIN js.grp |-> LoadGrp(js.grp[k])]]
LoadAct(a)  == CASE a.act = "CreateDeployment" -> [a EXCEPT !.groups = [i \in DOMAIN a.groups |-> LoadGrp(a.groups[i])]]
                 [] a.act = "DeleteAttributes" -> [a EXCEPT !.keys = SeqToSet(@)]
                 [] OTHER -> a

ProvRankDef == [p \in Providers |-> CASE p = "p1" -> 1 [] p = "p2" -> 2 [] p = "p3" -> 3 [] OTHER -> 9]

VARIABLE l
Init == l = 1
Next == l < N /\ l' = l + 1
Spec == Init /\ [][Next]_l

IsStep == l > 1

J(pid, name, cond) == IF pid \notin Which \/ cond THEN TRUE ELSE PrintT(<<"FAIL", pid, name, l>>)

(* One judgement per line.  s = recorded post-state, pre = recorded pre-state, r = the step record; they are      *)
(* LET-bound so that TLC converts each recorded state once per line.  A state invariant is reported at the step *)
(* that breaks it (P(s) \/ ~P(pre)), not again at every later state of that branch.                              *)
Judge ==
  LET t   == Trace[l]
      s   == Load(t.state)
      pre == IF IsStep THEN Load(Trace[t.parent].state) ELSE s
      gpre == IF IsStep THEN Trace[t.parent].genesisOK ELSE TRUE
      r   == [pre |-> pre, act |-> LoadAct(t.act), ok |-> t.ok, post |-> s, events |-> t.events, signers |-> t.signers,
              genesisOK |-> t.genesisOK, digests |-> t.digests]
      JS(pid, name, P(_)) == pid \in Which => J(pid, name, P(s) \/ (IsStep /\ ~P(pre)))
      conf == "CONF" \in Which =>
                LET ap == Apply(r.pre, r.act) IN
                IF ap.S = r.post /\ ap.ok = r.ok THEN TRUE ELSE PrintT(<<"DRIFT", l, r.act.act, ap.ok, r.ok>>)
  IN
  \* the genesis export/import round trip is not a marketplace transaction: conformance only
  IF t.act.act = "GenesisRoundTrip" THEN conf ELSE
  /\ JS("C01", "Conservation", Conservation)
  /\ JS("C02", "NonNegative", NonNegative)
  /\ JS("C02", "TransferredMatchesCredits", TransferredMatchesCredits)
  /\ JS("C02", "MeteringExact", MeteringExact)
  /\ JS("C03", "EscrowConsistent", EscrowConsistent)
  /\ JS("C03", "GenesisValid", GenesisValid)
  /\ J("C03", "RealValidateGenesis", t.genesisOK \/ ~gpre)
  /\ JS("C03", "NothingOpenNoCoins", NothingOpenNoCoins)
  /\ JS("C04", "MarketConsistent", MarketConsistent)
  /\ JS("C05", "MoneyFollowsLifecycle", MoneyFollowsLifecycle)
  /\ IsStep =>
       /\ J("C01", "CoinsMoveOnlyViaEscrow", CoinsMoveOnlyViaEscrow(r))
       \* coins of another denomination are never moved by a marketplace transaction (they are in no recorded balance)
       /\ J("C01", "ForeignCoinsUntouched", t.foreign = Trace[t.parent].foreign)
       /\ J("C02", "StepNoOvercharge", StepNoOvercharge(r))
       /\ J("C02", "NeverTransfersMoreThanDeposited", NeverTransfersMoreThanDeposited(r))
       /\ J("C02", "OverdraftDistribution", OverdraftDistribution(r))
       /\ J("C03", "ClosedNeverChanges", ClosedNeverChanges(r))
       /\ J("C03", "CloseTakesEffect", CloseTakesEffect(r))
       /\ J("C06", "FrameOK", FrameOK(r))
       /\ J("C06", "LeaseActsTouchOnlyTheirLease", LeaseActsTouchOnlyTheirLease(r))
       /\ J("C06", "SignerOK", SignerOK(r))
       /\ J("C07", "Deterministic", Deterministic(r))
       /\ J("C08", "BidAdmission", BidAdmission(r))
       /\ J("C08", "UpdateGuard", UpdateGuard(r))
       /\ J("C08", "AttributeRecordsFollowTransactions", AttributeRecordsFollowTransactions(r))
       /\ J("C16", "EventsMatchDiff", EventsMatchDiff(r))
       /\ conf

\* every line was consumed
Accepted == TLCGet("stats").diameter = N
=============================================================================
