------------------------------ MODULE ChainTrace ------------------------------
(***************************************************************************)
(* J3: validation of steps recorded from the real application              *)
(* (harness/chainh) against Chain.tla, and evaluation of the listed        *)
(* properties (ChainProps.tla) on the recorded states and steps.           *)
(*                                                                         *)
(* trace.ndjson: line 1 is the initial state; every other line is one      *)
(* executed step [id, parent, act, ok, state (post), events, signers,      *)
(* genesisOK, digests]; its pre-state is the state of line `parent`        *)
(* (the harness explores a tree of behaviours by branching the store).     *)
(* The only variable is the line number l; every judgement is a TLA+       *)
(* predicate over the recorded data.  A failed judgement prints            *)
(* <<"FAIL", name, l>> (the verdict); a step the specification's action    *)
(* does not produce prints <<"DRIFT", l>> (conformance, not an alarm).     *)
(***************************************************************************)
EXTENDS ChainProps, Json

CONSTANTS Which        \* set of property ids to judge, e.g. {"C01"} ; "CONF" = conformance with Apply

Trace == ndJsonDeserialize("trace.ndjson")
N     == Len(Trace)

SeqToSet(s) == {s[i] : i \in DOMAIN s}
LoadGrp(g)  == [g EXCEPT !.allOf = SeqToSet(@), !.anyOf = SeqToSet(@)]
Load(js)    == [js EXCEPT !.grp = [k \in DOMAIN js.grp |-> LoadGrp(js.grp[k])]]
LoadAct(a)  == CASE a.act = "CreateDeployment" -> [a EXCEPT !.groups = [i \in DOMAIN a.groups |-> LoadGrp(a.groups[i])]]
                 [] a.act = "DeleteAttributes" -> [a EXCEPT !.keys = SeqToSet(@)]
                 [] OTHER -> a

ProvRankDef == [p \in Providers |-> CASE p = "p1" -> 1 [] p = "p2" -> 2 [] p = "p3" -> 3 [] OTHER -> 9]

VARIABLE l
Init == l = 1
Next == l < N /\ l' = l + 1
Spec == Init /\ [][Next]_l

S    == Load(Trace[l].state)
R    == LET t == Trace[l] IN
        [pre |-> Load(Trace[t.parent].state), act |-> LoadAct(t.act), ok |-> t.ok, post |-> Load(t.state),
         events |-> t.events, signers |-> t.signers, genesisOK |-> t.genesisOK, digests |-> t.digests]
IsStep == l > 1

Pre  == Load(Trace[Trace[l].parent].state)
J(pid, name, cond) == IF pid \notin Which \/ cond THEN TRUE ELSE PrintT(<<"FAIL", pid, name, l>>)
\* a state invariant is reported at the step that breaks it (not again at every later state of that branch)
JS(pid, name, P(_)) == pid \in Which => J(pid, name, P(S) \/ (IsStep /\ ~P(Pre)))

JC01 == /\ JS("C01", "Conservation", Conservation)
        /\ IsStep => J("C01", "CoinsMoveOnlyViaEscrow", CoinsMoveOnlyViaEscrow(R))
JC02 == /\ JS("C02", "NonNegative", NonNegative)
        /\ JS("C02", "TransferredMatchesCredits", TransferredMatchesCredits)
        /\ JS("C02", "MeteringExact", MeteringExact)
        /\ IsStep => /\ J("C02", "StepNoOvercharge", StepNoOvercharge(R))
                     /\ J("C02", "NeverTransfersMoreThanDeposited", NeverTransfersMoreThanDeposited(R))
                     /\ J("C02", "OverdraftDistribution", OverdraftDistribution(R))
JC03 == /\ JS("C03", "EscrowConsistent", EscrowConsistent)
        /\ JS("C03", "GenesisValid", GenesisValid)
        /\ J("C03", "RealValidateGenesis", Trace[l].genesisOK \/ (IsStep /\ ~Trace[Trace[l].parent].genesisOK))
        /\ JS("C03", "NothingOpenNoCoins", NothingOpenNoCoins)
        /\ IsStep => /\ J("C03", "ClosedNeverChanges", ClosedNeverChanges(R))
                     /\ J("C03", "CloseTakesEffect", CloseTakesEffect(R))
JC04 == JS("C04", "MarketConsistent", MarketConsistent)
JC05 == JS("C05", "MoneyFollowsLifecycle", MoneyFollowsLifecycle)
JC06 == IsStep => /\ J("C06", "FrameOK", FrameOK(R))
                  /\ J("C06", "SignerOK", SignerOK(R))
JC07 == IsStep => J("C07", "Deterministic", Deterministic(R))
JC08 == IsStep => /\ J("C08", "BidAdmission", BidAdmission(R))
                  /\ J("C08", "UpdateGuard", UpdateGuard(R))
JC16 == IsStep => J("C16", "EventsMatchDiff", EventsMatchDiff(R))

\* conformance: the recorded step is the step the specification's action produces
Conf == ("CONF" \in Which /\ IsStep) =>
          LET r == R  ap == Apply(r.pre, r.act) IN
          IF ap.S = r.post /\ ap.ok = r.ok THEN TRUE ELSE PrintT(<<"DRIFT", l, r.act.act, ap.ok, r.ok>>)

\* every line was consumed
Accepted == TLCGet("stats").diameter = N
=============================================================================
