SPECIFICATION Spec
VIEW View
CONSTANTS
  Tenants = {"t1"}
  Providers = {"p1", "p2"}
  Auditors = {}
  ProvRank <- ProvRankDef
  DSeqs = {1}
  GSeqs = {1}
  OSeqs = {1}
  MinDeposit = 0
  BidMinDeposit = 0
  OrderMaxBids = 20
  DepositChoices = {0, 1, 3, 4}
  AmountChoices = {2}
  RateChoices = {1, 2}
  PayOSeqs = {1}
  Gaps = {1, 2}
  MaxHeight = 5
  InitCoins = 6
  MaxSteps = 60
  OnlyOK = FALSE
INVARIANTS InvC01 InvC02 InvC03
PROPERTIES StepC01 StepC02 StepC03 StepC06
CHECK_DEADLOCK FALSE
