SPECIFICATION Spec
CONSTANT Mode = "judge"
INVARIANT CodecJudge
POSTCONDITION Accepted
CHECK_DEADLOCK FALSE
