------------------------------ MODULE ChainProps ------------------------------
(***************************************************************************)
(* The listed properties C01-C08, C16 over the state record S of Chain.tla *)
(* and over a STEP record R = [pre, act, ok, post (, events, signers,      *)
(* genesisOK, digests)].  Everything is defined from (pre, act, ok, post)  *)
(* and observation fields only, so the same definitions are evaluated by   *)
(* TLC on states of the model (MC_Chain) and on steps recorded from the    *)
(* implementation (ChainTrace).                                            *)
(***************************************************************************)
EXTENDS Chain

Tot(S, k)  == IF Has(S.eacct, k) THEN S.eacct[k].balance + S.eacct[k].transferred ELSE 0
Got(S, l)  == IF Has(S.epay, l) THEN S.epay[l].balance + S.epay[l].withdrawn ELSE 0
Wd(S, l)   == IF Has(S.epay, l) THEN S.epay[l].withdrawn ELSE 0
KeeperActs == {"KAccountCreate", "KDeposit", "KSettle", "KAccountClose", "KPaymentCreate", "KPaymentWithdraw", "KPaymentClose"}
IsTx(R)    == R.act.act \notin ({"NextBlock", "GenesisRoundTrip"} \cup KeeperActs)
ActDid(a)  == DId(a.t, a.d)
DeploymentActs == {"CreateDeployment", "DepositDeployment", "UpdateDeployment", "CloseDeployment", "CloseGroup",
                   "PauseGroup", "StartGroup", "CreateBid", "CloseBid", "WithdrawLease", "CreateLease", "CloseLease"}

-----------------------------------------------------------------------------
(* C01  escrow conserves funds *)
Conservation(S) ==
  S.bank[ESCROW] = SumOver(DOMAIN S.eacct, LAMBDA k : S.eacct[k].balance) + SumOver(DOMAIN S.epay, LAMBDA l : S.epay[l].balance)

\* every party's coin delta = payouts it received - net deposits of the accounts it owns; nothing else moves coins
CoinsMoveOnlyViaEscrow(R) ==
  LET pre == R.pre  post == R.post
      payouts(x)  == SumOver({l \in DOMAIN post.epay : post.epay[l].owner = x}, LAMBDA l : Wd(post, l) - Wd(pre, l))
      deposits(x) == SumOver({k \in DOMAIN post.eacct : post.eacct[k].owner = x}, LAMBDA k : Tot(post, k) - Tot(pre, k))
  IN /\ DOMAIN pre.bank = DOMAIN post.bank
     /\ \A x \in (DOMAIN post.bank) \ {ESCROW} : post.bank[x] - pre.bank[x] = payouts(x) - deposits(x)
     /\ SumOver(DOMAIN post.bank, LAMBDA x : post.bank[x]) = SumOver(DOMAIN pre.bank, LAMBDA x : pre.bank[x])
     /\ \A x \in DOMAIN post.bank : post.bank[x] >= 0

-----------------------------------------------------------------------------
(* C02  metering exact, never overcharges *)
NonNegative(S) ==
  /\ \A k \in DOMAIN S.eacct : S.eacct[k].balance >= 0 /\ S.eacct[k].transferred >= 0
  /\ \A l \in DOMAIN S.epay : S.epay[l].balance >= 0 /\ S.epay[l].withdrawn >= 0 /\ S.epay[l].rate > 0

TransferredMatchesCredits(S) ==
  \A k \in DOMAIN S.eacct : S.eacct[k].transferred = SumOver(AcctPays(S, k), LAMBDA l : Got(S, l))

\* while the lease is open and the escrow funded: exactly price x blocks, whatever triggered settlement
MeteringExact(S) ==
  \A l \in DOMAIN S.epay :
     (S.epay[l].state = "open" /\ Has(S.eacct, S.epay[l].acct) /\ S.eacct[S.epay[l].acct].state = "open")
     => /\ Got(S, l) = S.epay[l].rate * (S.eacct[S.epay[l].acct].settledAt - S.epay[l].createdAt)
        /\ Has(S.lease, l) => S.lease[l].createdAt = S.epay[l].createdAt
        /\ S.eacct[S.epay[l].acct].settledAt <= S.height

\* a payee is credited only while its payment is open, and at most price x (blocks since the last settlement)
StepNoOvercharge(R) ==
  \A l \in DOMAIN R.post.epay :
     LET gain == Got(R.post, l) - Got(R.pre, l) IN
     /\ gain >= 0
     /\ gain > 0 => /\ Has(R.pre.epay, l) /\ R.pre.epay[l].state = "open"
                    /\ Has(R.pre.lease, l) => R.pre.lease[l].state = "active"     \* only blocks during which the lease was open
                    /\ Has(R.pre.eacct, R.pre.epay[l].acct)
                    /\ gain <= R.pre.epay[l].rate * (R.post.height - R.pre.eacct[R.pre.epay[l].acct].settledAt)
     /\ Has(R.pre.epay, l) => R.post.epay[l].rate = R.pre.epay[l].rate /\ R.post.epay[l].owner = R.pre.epay[l].owner

DepositIn(R, k) ==
  IF ~R.ok THEN 0
  ELSE CASE R.act.act = "CreateDeployment" /\ k = DAcc(ActDid(R.act)) -> R.act.deposit
         [] R.act.act = "DepositDeployment" /\ k = DAcc(ActDid(R.act)) -> R.act.amount
         [] R.act.act = "CreateBid" /\ k = BAcc(BId(R.act.t, R.act.d, R.act.g, R.act.o, R.act.p)) -> R.act.deposit
         [] R.act.act = "KAccountCreate" /\ k = DAcc(ActDid(R.act)) -> R.act.deposit
         [] R.act.act = "KDeposit" /\ k = DAcc(ActDid(R.act)) -> R.act.amount
         [] OTHER -> 0

\* balance + transferred grows only by deposits; transferred never shrinks  (=> never transfers more than deposited)
NeverTransfersMoreThanDeposited(R) ==
  \A k \in DOMAIN R.post.eacct :
     /\ Tot(R.post, k) <= Tot(R.pre, k) + DepositIn(R, k)
     /\ Has(R.pre.eacct, k) => R.post.eacct[k].transferred >= R.pre.eacct[k].transferred

\* funds run out: the whole remaining balance is distributed, each payee gets full blocks + at most one more block
OverdraftDistribution(R) ==
  \A k \in DOMAIN R.pre.eacct :
     (R.pre.eacct[k].state = "open" /\ R.post.eacct[k].state = "overdrawn") =>
       LET P  == OpenPays(R.pre, k)
           B  == R.pre.eacct[k].balance
           RR == SumOver(P, LAMBDA l : R.pre.epay[l].rate)
           n  == B \div RR
       IN /\ P # {}
          /\ SumOver(P, LAMBDA l : Got(R.post, l) - Got(R.pre, l)) = B
          /\ R.post.eacct[k].balance = 0
          /\ n < R.post.height - R.pre.eacct[k].settledAt
          /\ \A l \in P : /\ Got(R.post, l) - Got(R.pre, l) >= R.pre.epay[l].rate * n
                          /\ Got(R.post, l) - Got(R.pre, l) <= R.pre.epay[l].rate * (n + 1)
                          /\ R.post.epay[l].state = "overdrawn" /\ R.post.epay[l].balance = 0

-----------------------------------------------------------------------------
(* C03  closing stops payment; records consistent; genesis valid *)
EscrowConsistent(S) ==
  /\ \A l \in DOMAIN S.epay :
        /\ Has(S.eacct, S.epay[l].acct)
        /\ S.epay[l].state = "open" => S.eacct[S.epay[l].acct].state = "open"
        /\ S.epay[l].state = "overdrawn" => S.eacct[S.epay[l].acct].state = "overdrawn"
        /\ S.epay[l].state # "open" => S.epay[l].balance = 0
        /\ S.epay[l].state \in {"open", "closed", "overdrawn"}
  /\ \A k \in DOMAIN S.eacct :
        /\ S.eacct[k].state # "open" => S.eacct[k].balance = 0
        /\ S.eacct[k].state \in {"open", "closed", "overdrawn"}

\* transcription of x/escrow/genesis.go ValidateGenesis on the exported records
GenesisValid(S) ==
  \A l \in DOMAIN S.epay :
     /\ Has(S.eacct, S.epay[l].acct)
     /\ S.epay[l].rate # 0
     /\ ~(S.epay[l].state = "open" /\ S.eacct[S.epay[l].acct].state # "open")
     /\ ~(S.epay[l].state = "overdrawn" /\ S.eacct[S.epay[l].acct].state # "overdrawn")

NothingOpenNoCoins(S) ==
  ((\A k \in DOMAIN S.eacct : S.eacct[k].state # "open") /\ (\A l \in DOMAIN S.epay : S.epay[l].state # "open"))
  => S.bank[ESCROW] = 0

\* once closed or overdrawn a record never accrues, pays out or reopens; records are never removed
ClosedNeverChanges(R) ==
  /\ DOMAIN R.pre.eacct \subseteq DOMAIN R.post.eacct
  /\ DOMAIN R.pre.epay \subseteq DOMAIN R.post.epay
  /\ \A k \in DOMAIN R.pre.eacct : R.pre.eacct[k].state # "open" => R.post.eacct[k] = R.pre.eacct[k]
  /\ \A l \in DOMAIN R.pre.epay : R.pre.epay[l].state # "open" => R.post.epay[l] = R.pre.epay[l]

\* a successful close request leaves nothing it addressed open, even at zero elapsed blocks / zero balance
CloseTakesEffect(R) ==
  LET a == R.act  post == R.post IN
  R.ok =>
    CASE a.act = "CloseDeployment" ->
           /\ post.eacct[DAcc(ActDid(a))].state # "open"
           /\ \A l \in AcctPays(post, DAcc(ActDid(a))) : post.epay[l].state # "open"
      [] a.act = "KAccountClose" ->
           /\ post.eacct[DAcc(ActDid(a))].state # "open"
           /\ \A l \in AcctPays(post, DAcc(ActDid(a))) : post.epay[l].state # "open"
      [] a.act = "KPaymentClose" ->
           LET l == BId(a.t, a.d, a.g, a.o, a.p) IN post.epay[l].state # "open"
      [] a.act = "CloseLease" ->
           LET l == BId(a.t, a.d, a.g, a.o, a.p) IN Has(post.epay, l) => post.epay[l].state # "open"
      [] a.act = "CloseBid" ->
           LET b == BId(a.t, a.d, a.g, a.o, a.p) IN
           /\ Has(post.eacct, BAcc(b)) => post.eacct[BAcc(b)].state # "open"
           /\ Has(post.epay, b) => post.epay[b].state # "open"
      [] a.act \in {"CloseGroup", "PauseGroup"} ->
           \A l \in DOMAIN post.epay : (post.epay[l].d = ActDid(a) /\ post.epay[l].g = a.g) => post.epay[l].state # "open"
      [] OTHER -> TRUE

-----------------------------------------------------------------------------
(* C04  marketplace lifecycle consistency *)
ActiveLeasesOf(S, o) == {l \in DOMAIN S.lease : S.lease[l].oid = o /\ S.lease[l].state = "active"}
OrdersOf(S, g)       == {o \in DOMAIN S.ord : S.ord[o].gid = g}

MarketConsistent(S) ==
  /\ \A o \in DOMAIN S.ord : (S.ord[o].state = "active") <=> (Cardinality(ActiveLeasesOf(S, o)) = 1)
  /\ \A l \in DOMAIN S.lease : S.lease[l].state = "active" =>
        /\ Has(S.bid, l) /\ S.bid[l].state = "active"
        /\ Has(S.ord, S.lease[l].oid) /\ S.ord[S.lease[l].oid].state = "active"
        /\ Has(S.grp, S.lease[l].gid) /\ S.grp[S.lease[l].gid].state = "open"
        /\ Has(S.dep, S.lease[l].d) /\ S.dep[S.lease[l].d].state = "active"
  /\ \A b \in DOMAIN S.bid : S.bid[b].state = "open" => Has(S.ord, S.bid[b].oid) /\ S.ord[S.bid[b].oid].state = "open"
  /\ \A g \in DOMAIN S.grp :
        LET live == {o \in OrdersOf(S, g) : S.ord[o].state # "closed"} IN
        /\ Cardinality(live) <= 1
        /\ (S.grp[g].state = "open" /\ S.dep[S.grp[g].d].state = "active") => Cardinality(live) = 1
        /\ S.grp[g].state # "open" => live = {}
  /\ \A d \in DOMAIN S.dep : S.dep[d].state = "closed" =>
        /\ \A g \in DOMAIN S.grp : S.grp[g].d = d => S.grp[g].state \notin {"open", "paused"}
        /\ \A o \in DOMAIN S.ord : S.ord[o].d = d => S.ord[o].state = "closed"
        /\ \A b \in DOMAIN S.bid : S.bid[b].d = d => S.bid[b].state \notin {"open", "active"}
        /\ \A l \in DOMAIN S.lease : S.lease[l].d = d => S.lease[l].state # "active"
  /\ \A l \in DOMAIN S.lease :
        /\ Has(S.bid, l) /\ S.lease[l].price = S.bid[l].price
        /\ Has(S.grp, S.lease[l].gid) /\ S.lease[l].price <= S.grp[S.lease[l].gid].price

-----------------------------------------------------------------------------
(* C05  money follows lifecycle *)
MoneyFollowsLifecycle(S) ==
  /\ \A l \in DOMAIN S.lease : (S.lease[l].state = "active") <=> (Has(S.epay, l) /\ S.epay[l].state = "open")
  /\ \A l \in DOMAIN S.epay : S.epay[l].state = "open" => Has(S.lease, l) /\ S.lease[l].state = "active"
  /\ \A b \in DOMAIN S.bid : (S.bid[b].state \in {"open", "active"}) <=> (Has(S.eacct, BAcc(b)) /\ S.eacct[BAcc(b)].state = "open")
  /\ \A d \in DOMAIN S.dep : (S.dep[d].state = "active") <=> (Has(S.eacct, DAcc(d)) /\ S.eacct[DAcc(d)].state = "open")
  /\ \A k \in DOMAIN S.eacct : S.eacct[k].state = "open" =>
        \/ S.eacct[k].scope = "deployment" /\ Has(S.dep, S.eacct[k].d) /\ k = DAcc(S.eacct[k].d) /\ S.dep[S.eacct[k].d].state = "active"
        \/ S.eacct[k].scope = "bid" /\ \E b \in DOMAIN S.bid : k = BAcc(b) /\ S.bid[b].state \in {"open", "active"}

-----------------------------------------------------------------------------
(* C06  right signer; touches only what it names *)
Changed(f, g) == {k \in (DOMAIN f) \cup (DOMAIN g) : ~(Has(f, k) /\ Has(g, k) /\ f[k] = g[k])}
RecD(f, g, k) == IF Has(g, k) THEN g[k].d ELSE f[k].d

FrameOK(R) ==
  LET pre == R.pre  post == R.post  a == R.act IN
  /\ ~R.ok => post = pre
  /\ a.act = "NextBlock" => post = [pre EXCEPT !.height = post.height]
  /\ a.act # "NextBlock" => post.height = pre.height
  /\ \A x \in (DOMAIN pre.bank) \ {ESCROW} : post.bank[x] < pre.bank[x] => x = RequiredSigner(a)
  /\ a.act \in (DeploymentActs \cup KeeperActs) =>
        /\ Changed(pre.dep, post.dep) \subseteq {ActDid(a)}
        /\ \A k \in Changed(pre.grp, post.grp)     : RecD(pre.grp, post.grp, k) = ActDid(a)
        /\ \A k \in Changed(pre.ord, post.ord)     : RecD(pre.ord, post.ord, k) = ActDid(a)
        /\ \A k \in Changed(pre.bid, post.bid)     : RecD(pre.bid, post.bid, k) = ActDid(a)
        /\ \A k \in Changed(pre.lease, post.lease) : RecD(pre.lease, post.lease, k) = ActDid(a)
        /\ \A k \in Changed(pre.eacct, post.eacct) : RecD(pre.eacct, post.eacct, k) = ActDid(a)
        /\ \A k \in Changed(pre.epay, post.epay)   : RecD(pre.epay, post.epay, k) = ActDid(a)
        /\ post.prov = pre.prov /\ post.attest = pre.attest
  /\ a.act = "CreateBid" =>
        LET b == BId(a.t, a.d, a.g, a.o, a.p) IN
        /\ Changed(pre.bid, post.bid) \subseteq {b} /\ Changed(pre.eacct, post.eacct) \subseteq {BAcc(b)}
        /\ post.dep = pre.dep /\ post.grp = pre.grp /\ post.ord = pre.ord /\ post.lease = pre.lease /\ post.epay = pre.epay
  /\ a.act \in {"CreateProvider", "UpdateProvider"} =>
        /\ Changed(pre.prov, post.prov) \subseteq {a.p}
        /\ post = [pre EXCEPT !.prov = post.prov]
  /\ a.act \in {"SignAttributes", "DeleteAttributes"} =>
        /\ Changed(pre.attest, post.attest) \subseteq {AttId(a.a, a.p)}
        /\ post = [pre EXCEPT !.attest = post.attest]

\* a lease / bid action names ONE lease: unless it exhausts the deployment's escrow (the overdraft cascade legitimately
\* closes everything beneath the deployment), no other lease, no other lease's payment stream (state, paid-out amount)
\* and no bid outside the named order changes, and a withdrawal pays nobody but the named lease's provider
LeaseActsTouchOnlyTheirLease(R) ==
  LET pre == R.pre  post == R.post  a == R.act IN
  (a.act \in {"WithdrawLease", "CloseLease", "CloseBid", "CreateLease"} /\ R.ok) =>
    LET l   == BId(a.t, a.d, a.g, a.o, a.p)
        oid == OId(a.t, a.d, a.g, a.o)
        k   == DAcc(ActDid(a))
        cascade == Has(pre.eacct, k) /\ pre.eacct[k].state = "open" /\ post.eacct[k].state # "open"
    IN cascade \/
       /\ \A x \in DOMAIN pre.lease : x # l => post.lease[x] = pre.lease[x]
       /\ \A x \in DOMAIN pre.epay : x # l => /\ post.epay[x].state = pre.epay[x].state
                                              /\ post.epay[x].withdrawn = pre.epay[x].withdrawn
       /\ \A x \in DOMAIN pre.bid : (x # l /\ pre.bid[x].oid # oid) => post.bid[x] = pre.bid[x]
       /\ a.act = "WithdrawLease" => \A x \in (DOMAIN pre.bank) \ {ESCROW, a.p} : post.bank[x] = pre.bank[x]

\* trace only: the message's own GetSigners() is exactly the party the protocol assigns
SignerOK(R) == IsTx(R) => R.signers = <<RequiredSigner(R.act)>>

-----------------------------------------------------------------------------
(* C07  determinism: every repetition of the step gave byte-identical write-set, result, events (trace only) *)
Deterministic(R) == \A i \in DOMAIN R.digests : R.digests[i] = R.digests[1]

-----------------------------------------------------------------------------
(* C08  bid admission (declarative, independent of MatchRequirements) and provider attribute guard *)
SignedCover(S, a, p, req) == Has(S.attest, AttId(a, p)) /\ Covers(S.attest[AttId(a, p)], req)

BidAdmissible(S, a) ==
  LET oid == OId(a.t, a.d, a.g, a.o)  gid == GId(a.t, a.d, a.g) IN
  /\ Has(S.ord, oid) /\ S.ord[oid].state = "open"
  /\ Has(S.prov, a.p) /\ a.p # a.t
  /\ a.price > 0 /\ Has(S.grp, gid) /\ a.price <= S.grp[gid].price
  /\ a.deposit >= BidMinDeposit /\ ADenom(a) = "uakt" /\ APDenom(a) = "uakt"
  /\ LET g == S.grp[gid] IN
     IF g.allOf = {} /\ g.anyOf = {}
     THEN Covers(S.prov[a.p].attrs, g.req)
     ELSE /\ \A x \in g.allOf : SignedCover(S, x, a.p, g.req)
          /\ g.anyOf # {} => \E x \in g.anyOf : SignedCover(S, x, a.p, g.req)

BidAdmission(R) == (R.act.act = "CreateBid" /\ R.ok) => BidAdmissible(R.pre, R.act)

UpdateGuard(R) ==
  (R.act.act = "UpdateProvider" /\ R.ok) =>
     \A l \in DOMAIN R.post.lease :
        (R.post.lease[l].p = R.act.p /\ R.post.lease[l].state = "active")
        => Covers(R.post.prov[R.act.p].attrs, R.post.grp[R.post.lease[l].gid].req)

\* what "signed by an auditor" / "the provider's attributes" mean: the attestation and provider records are exactly what
\* the last accepted sign / revoke / create / update transactions said (a revoked signature must not keep counting)
AttributeRecordsFollowTransactions(R) ==
  LET a == R.act  post == R.post IN
  R.ok =>
    CASE a.act = "SignAttributes" ->
           LET k == AttId(a.a, a.p) IN
           /\ Has(post.attest, k)
           /\ \A x \in DOMAIN a.attrs : x \in DOMAIN post.attest[k] /\ post.attest[k][x] = a.attrs[x]
           /\ \A x \in DOMAIN post.attest[k] : x \in DOMAIN a.attrs \/ (Has(R.pre.attest, k) /\ x \in DOMAIN R.pre.attest[k]
                                                                          /\ post.attest[k][x] = R.pre.attest[k][x])
      [] a.act = "DeleteAttributes" ->
           LET k == AttId(a.a, a.p) IN
           IF a.keys = {} THEN ~Has(post.attest, k)
           ELSE /\ \A x \in a.keys : ~(Has(post.attest, k) /\ x \in DOMAIN post.attest[k])
                /\ Has(post.attest, k) => \A x \in DOMAIN post.attest[k] : x \in DOMAIN R.pre.attest[k] /\ post.attest[k][x] = R.pre.attest[k][x]
      [] a.act \in {"CreateProvider", "UpdateProvider"} -> Has(post.prov, a.p) /\ post.prov[a.p].attrs = a.attrs
      [] OTHER -> TRUE

-----------------------------------------------------------------------------
(* C16  every lifecycle change observable as exactly the corresponding event (trace only) *)
Ended(f, g, k, terminal) == Has(f, k) /\ Has(g, k) /\ f[k].state \notin terminal /\ g[k].state \in terminal
Created(f, g)            == (DOMAIN g) \ (DOMAIN f)
Count(evs, ty, id)       == Cardinality({i \in DOMAIN evs : evs[i].type = ty /\ evs[i].id = id})

ExpectedEvents(pre, post) ==
     {<<"order-created", o>> : o \in Created(pre.ord, post.ord)}
  \cup {<<"order-closed", o>> : o \in {x \in DOMAIN post.ord : Ended(pre.ord, post.ord, x, {"closed"})}}
  \cup {<<"bid-created", b>> : b \in Created(pre.bid, post.bid)}
  \cup {<<"bid-closed", b>> : b \in {x \in DOMAIN post.bid : Ended(pre.bid, post.bid, x, {"closed"})}}
  \cup {<<"lease-created", l>> : l \in Created(pre.lease, post.lease)}
  \cup {<<"lease-closed", l>> : l \in {x \in DOMAIN post.lease : Ended(pre.lease, post.lease, x, {"closed", "insufficient_funds"})}}
  \cup {<<"deployment-created", d>> : d \in Created(pre.dep, post.dep)}
  \cup {<<"deployment-closed", d>> : d \in {x \in DOMAIN post.dep : Ended(pre.dep, post.dep, x, {"closed"})}}
  \cup {<<"group-closed", g>> : g \in {x \in DOMAIN post.grp : Has(pre.grp, x) /\ pre.grp[x].state # post.grp[x].state
                                                                /\ post.grp[x].state \in {"closed", "insufficient_funds"}}}
  \cup {<<"group-paused", g>> : g \in {x \in DOMAIN post.grp : Ended(pre.grp, post.grp, x, {"paused"})}}
  \cup {<<"group-started", g>> : g \in {x \in DOMAIN post.grp : Has(pre.grp, x) /\ pre.grp[x].state # "open" /\ post.grp[x].state = "open"}}
  \cup {<<"provider-created", p>> : p \in Created(pre.prov, post.prov)}
  \cup {<<"provider-updated", p>> : p \in {x \in DOMAIN pre.prov : Has(post.prov, x) /\ post.prov[x] # pre.prov[x]}}

\* an attestation created, changed or removed: observable as a trusted-auditor event (created or deleted) for that pair
AttestationChanged(pre, post) ==
  {x \in (DOMAIN post.attest) \cup (DOMAIN pre.attest) : ~(Has(pre.attest, x) /\ Has(post.attest, x) /\ pre.attest[x] = post.attest[x])}

StrictTypes == {"order-created", "order-closed", "bid-created", "bid-closed", "lease-created", "lease-closed",
                "deployment-created", "deployment-closed", "group-closed", "group-paused", "group-started",
                "provider-created"}

EventsMatchDiff(R) ==
  LET evs == R.events  exp == ExpectedEvents(R.pre, R.post) IN
  /\ \A e \in exp : Count(evs, e[1], e[2]) >= 1                                   \* every change is observable
  /\ \A e \in exp : e[1] \in StrictTypes => Count(evs, e[1], e[2]) = 1             \* ... exactly once
  /\ \A i \in DOMAIN evs : evs[i].type \in StrictTypes =>                          \* nothing spurious
        \/ <<evs[i].type, evs[i].id>> \in exp
        \* a group paused and then closed by an overdraft inside the same transaction did change in that way, transiently
        \/ /\ evs[i].type = "group-paused" /\ Count(evs, "group-paused", evs[i].id) = 1
           /\ Has(R.pre.grp, evs[i].id) /\ R.pre.grp[evs[i].id].state \notin {"paused", "closed", "insufficient_funds"}
           /\ R.post.grp[evs[i].id].state \in {"closed", "insufficient_funds"}
  /\ \A k \in AttestationChanged(R.pre, R.post) : Count(evs, "attestation-set", k) + Count(evs, "attestation-deleted", k) >= 1
  /\ \A d \in DOMAIN R.post.dep : (Has(R.pre.dep, d) /\ R.pre.dep[d].version # R.post.dep[d].version)
                                   => Count(evs, "deployment-updated", d) >= 1
  /\ \A i \in DOMAIN evs :
        /\ evs[i].type # "unparsed"                    \* every marketplace event decodes through the provider's parser
        /\ evs[i].roundtrip                            \* ... to a typed event equal to the one emitted
        /\ evs[i].type \in {"bid-created", "bid-closed"} => Has(R.post.bid, evs[i].id) /\ evs[i].price = R.post.bid[evs[i].id].price
        /\ evs[i].type \in {"lease-created", "lease-closed"} => Has(R.post.lease, evs[i].id) /\ evs[i].price = R.post.lease[evs[i].id].price
        /\ evs[i].type \in {"deployment-created", "deployment-updated"} => Has(R.post.dep, evs[i].id) /\ evs[i].version = R.post.dep[evs[i].id].version
  /\ ~R.ok => evs = <<>>

-----------------------------------------------------------------------------
(* bundles: state invariants and step properties per listed property *)
Inv_C01(S) == Conservation(S)
Inv_C02(S) == NonNegative(S) /\ TransferredMatchesCredits(S) /\ MeteringExact(S)
Inv_C03(S) == EscrowConsistent(S) /\ GenesisValid(S) /\ NothingOpenNoCoins(S)
Inv_C04(S) == MarketConsistent(S)
Inv_C05(S) == MoneyFollowsLifecycle(S)
Step_C01(R) == CoinsMoveOnlyViaEscrow(R)
Step_C02(R) == StepNoOvercharge(R) /\ NeverTransfersMoreThanDeposited(R) /\ OverdraftDistribution(R)
Step_C03(R) == ClosedNeverChanges(R) /\ CloseTakesEffect(R)
Step_C06(R) == FrameOK(R) /\ LeaseActsTouchOnlyTheirLease(R)
Step_C08(R) == BidAdmission(R) /\ UpdateGuard(R) /\ AttributeRecordsFollowTransactions(R)
=============================================================================
