SPECIFICATION Spec
CONSTANTS
  LeaseIds = {1, 2, 3}
  Versions = {1, 2, 3, 4}
  BadHost = {3}
  BadAlways = {4}
  MaxSubmit = 6
  MaxLeaseWon = 5
  MaxRemove = 4
  MaxUpdate = 4
  MaxFetchErr = 3
  MaxClose = 3
  MaxDropped = 3
  MaxSwallow = 2
INVARIANTS TypeOK AtMostOneReply AnnounceOK QuiescentAllReplied QueueDiscipline
CHECK_DEADLOCK FALSE
