SPECIFICATION Spec
CONSTANTS
  LeaseIds = {1, 2}
  Versions = {1, 2, 3}
  BadHost = {3}
  BadAlways = {}
  MaxSubmit = 8
  MaxLeaseWon = 99
  MaxRemove = 99
  MaxUpdate = 99
  MaxFetchErr = 99
  MaxClose = 99
  MaxDropped = 99
  MaxSwallow = 99
  MaxQueue = 2
VIEW genview
CONSTRAINT GenBound
ACTION_CONSTRAINT ExportEdge
CHECK_DEADLOCK FALSE
