--------------------------- MODULE ManifestManager ---------------------------
(***************************************************************************)
(* The provider's manifest manager (provider/manifest/manager.go) and the  *)
(* routing slice of provider/manifest/service.go, for ONE deployment.      *)
(*                                                                         *)
(* One action per `select` case of manager.run (lease, lease removed,      *)
(* manifest request, version update, fetch result ok/err, shutdown) plus   *)
(* the service's routing decisions (manager created on demand, collected   *)
(* after it stopped, submissions refused while shutting down).             *)
(*                                                                         *)
(* Submissions are abstract manifests mf \in Versions: a manifest "is"     *)
(* its version hash.  Against the expected chain version e a submission is *)
(*   wrongversion  if mf # e,                                              *)
(*   invalid       if mf = e and mf \in BadAlways, or mf \in BadHost and a   *)
(*                 lease is held (hash matches, rejected by the later      *)
(*                 validation steps / the hostname service),               *)
(*   valid         otherwise.                                              *)
(*                                                                         *)
(* Property C20 is AtMostOneReply, AnnounceOK, QuiescentAllReplied (state  *)
(* invariants) and EveryRequestAnswered (liveness on FairSpec).            *)
(***************************************************************************)
EXTENDS Integers, Sequences, FiniteSets, TLC

CONSTANTS LeaseIds,      \* lease identifiers (one per deployment group)
          Versions,      \* chain versions = abstract manifests (positive integers)
          BadHost,       \* subset of Versions: hash matches, but a hostname is refused by the hostname service;
                         \* the manager checks hostnames only of groups it holds a lease for, so with no
                         \* lease held such a manifest passes validation (manager.go:340-373, 403-410)
          BadAlways,     \* subset of Versions: hash matches, but the manifest does not match the deployment groups
          MaxSubmit, MaxLeaseWon, MaxRemove, MaxUpdate, MaxFetchErr, MaxClose, MaxDropped, MaxSwallow

VARIABLES
  svc,        \* "run" | "down"                      service.lc
  mgr,        \* "none" | "run" | "stopping"          s.managers[deployment] / manager loop exited, not yet collected
  leases,     \* Seq(LeaseIds)                        m.leases
  data,       \* 0 = nil, else the version in m.data  m.data
  fetch,      \* "idle" | "inflight"                  runch
  requests,   \* Seq([r, mf])                         m.requests (queued, not validated)
  pending,    \* Seq(r)                               m.pendingRequests (validated, not announced)
  manifests,  \* Seq(Versions)                        m.manifests
  versions,   \* Seq(Versions)                        m.versions
  nsub,       \* ghost: number of submissions so far; request ids are 1..nsub
  sub,        \* ghost: sub[r] = manifest submitted by request r (0 = not yet)
  replies,    \* ghost: replies[r] = sequence of replies written to request r
  ann,        \* ghost: announcements (ManifestReceived) published by the LAST step: Seq([lease, mf])
  validated,  \* ghost: set of manifests that have passed validation
  lastValid,  \* ghost: the manifest that passed validation most recently (0 = none)
  cnt,        \* budgets (bounding the model only)
  act         \* label of the last action (for behaviour export; not in VIEW)

mvars == <<leases, data, fetch, requests, pending, manifests, versions>>
ghost == <<nsub, sub, replies, ann, validated, lastValid>>
vars  == <<svc, mgr, mvars, ghost, cnt, act>>
view  == <<svc, mgr, mvars, ghost, cnt>>

Last(s)  == s[Len(s)]
Range(s) == {s[i] : i \in 1..Len(s)}
Reqs     == 1..MaxSubmit

ReplyKinds == {"ok", "nolease", "wrongversion", "invalid", "fetcherr", "notrunning"}

M0 == [leases |-> <<>>, data |-> 0, fetch |-> "idle", requests |-> <<>>, pending |-> <<>>,
       manifests |-> <<>>, versions |-> <<>>]

Cur == [leases |-> leases, data |-> data, fetch |-> fetch, requests |-> requests, pending |-> pending,
        manifests |-> manifests, versions |-> versions]

\* An "effect": manager state plus what the step wrote: replies <<r, kind>>, announcements, validations.
Eff(M) == [m |-> M, out |-> <<>>, ann |-> <<>>, val |-> <<>>]

-----------------------------------------------------------------------------
(* The manager's helper functions, as pure operators on effects.           *)

\* validateRequest: the version the manifest hash is compared with
Expected(M) == IF M.versions # <<>> THEN Last(M.versions) ELSE M.data

Verdict(mf, M) == IF mf # Expected(M) THEN "wrongversion"
                  ELSE IF mf \in BadAlways \/ (mf \in BadHost /\ M.leases # <<>>) THEN "invalid"
                  ELSE "ok"

\* A request reaches the hostname check (the last step of validateRequest) iff the earlier steps pass.
Reaches(mf, M) == mf = Expected(M) /\ mf \notin BadAlways

\* Indices of the queued requests that reach the hostname check, in queue order.
Victims(M) == SelectSeq([i \in 1..Len(M.requests) |-> i], LAMBDA i : Reaches(M.requests[i].mf, M))

\* validateRequests (manager.go:311-336). victim = 0: the ordinary case. victim = i > 0: the hostname check of
\* request i returns ErrNotRunning because its select (manager.go:365-371) took a pending stop request instead of
\* the hostname service's answer.
ValidateV(E, victim) ==
  LET M == E.m IN
  IF M.data = 0 \/ M.requests = <<>> THEN E
  ELSE LET V(i)  == IF i = victim THEN "notrunning" ELSE Verdict(M.requests[i].mf, M)
           idx   == [i \in 1..Len(M.requests) |-> i]
           good  == SelectSeq(idx, LAMBDA i : V(i) = "ok")
           bad   == SelectSeq(idx, LAMBDA i : V(i) # "ok")
       IN [E EXCEPT !.m.requests  = <<>>,
                    !.m.pending   = M.pending \o [j \in 1..Len(good) |-> M.requests[good[j]].r],
                    !.m.manifests = IF good # <<>> THEN Append(M.manifests, M.requests[good[1]].mf) ELSE M.manifests,
                    !.out = E.out \o [j \in 1..Len(bad) |-> <<M.requests[bad[j]].r, V(bad[j])>>],
                    !.val = E.val \o [j \in 1..Len(good) |-> M.requests[good[j]].mf]]

Validate(E) == ValidateV(E, 0)

\* fillAllRequests (manager.go:265-275)
FillAll(E, kind) ==
  LET M == E.m IN
  [E EXCEPT !.m.pending = <<>>, !.m.requests = <<>>,
            !.out = E.out \o [i \in 1..Len(M.pending)  |-> <<M.pending[i], kind>>]
                          \o [i \in 1..Len(M.requests) |-> <<M.requests[i].r, kind>>]]

\* emitReceivedEvents (manager.go:277-309)
Emit(E) ==
  LET M == E.m IN
  IF M.leases = <<>> THEN FillAll(E, "nolease")
  ELSE IF M.data = 0 \/ M.manifests = <<>> THEN E
  ELSE [E EXCEPT !.ann = E.ann \o [i \in 1..Len(M.leases) |-> [lease |-> M.leases[i], mf |-> Last(M.manifests)]],
                 !.out = E.out \o [i \in 1..Len(M.pending) |-> <<M.pending[i], "ok">>],
                 !.m.pending = <<>>]

\* maybeFetchData (manager.go:224-229)
MaybeFetch(E) ==
  IF E.m.data = 0 /\ E.m.fetch = "idle" THEN [E EXCEPT !.m.fetch = "inflight"] ELSE E

AddReplies(rep, out) ==
  LET f[i \in 0..Len(out)] ==
        IF i = 0 THEN rep ELSE [f[i-1] EXCEPT ![out[i][1]] = Append(@, out[i][2])]
  IN f[Len(out)]

\* Commit an effect to the variables.
Apply(E) ==
  /\ leases' = E.m.leases /\ data' = E.m.data /\ fetch' = E.m.fetch
  /\ requests' = E.m.requests /\ pending' = E.m.pending
  /\ manifests' = E.m.manifests /\ versions' = E.m.versions
  /\ replies' = AddReplies(replies, E.out)
  /\ ann' = E.ann
  /\ validated' = validated \cup Range(E.val)
  /\ lastValid' = IF E.val # <<>> THEN Last(E.val) ELSE lastValid

Bump(k) == cnt' = [cnt EXCEPT ![k] = @ + 1]
Label(n, a) == act' = [name |-> n, arg |-> a, c |-> 0, k |-> 0]
LabelSw(n, a, c, k) == act' = [name |-> n, arg |-> a, c |-> c, k |-> k]

\* The manager a stimulus is routed to: the running one, or a fresh one (service.ensureManager).
Target == IF mgr = "run" THEN Cur ELSE M0

-----------------------------------------------------------------------------
Init ==
  /\ svc = "run" /\ mgr = "none"
  /\ leases = <<>> /\ data = 0 /\ fetch = "idle" /\ requests = <<>> /\ pending = <<>>
  /\ manifests = <<>> /\ versions = <<>>
  /\ nsub = 0 /\ sub = [r \in Reqs |-> 0] /\ replies = [r \in Reqs |-> <<>>]
  /\ ann = <<>> /\ validated = {} /\ lastValid = 0
  /\ cnt = [lw |-> 0, rm |-> 0, upd |-> 0, ferr |-> 0, close |-> 0, drop |-> 0, sw |-> 0]
  /\ act = [name |-> "Init", arg |-> 0, c |-> 0, k |-> 0]

\* event.LeaseWon on the bus -> service.handleLease -> manager `case ev := <-m.leasech`
LeaseWon(l) ==
  /\ svc = "run" /\ mgr \in {"none", "run"} /\ cnt.lw < MaxLeaseWon
  /\ l \notin Range(Target.leases)
  /\ LET M == Target IN
       Apply(MaybeFetch(Emit(Eff([M EXCEPT !.leases = Append(@, l)]))))
  /\ mgr' = "run" /\ Bump("lw") /\ Label("LeaseWon", l)
  /\ UNCHANGED <<svc, nsub, sub>>

\* Service.Submit -> service `case req := <-s.mreqch` -> manager `case req := <-m.manifestch`
Submit(mf) ==
  /\ nsub < MaxSubmit
  /\ LET r == nsub + 1 IN
     /\ nsub' = r /\ sub' = [sub EXCEPT ![r] = mf]
     /\ IF svc = "down" \/ mgr = "stopping"
        THEN \* Submit sees the service shutting down / handleManifest sees the manager shutting down
             /\ replies' = [replies EXCEPT ![r] = Append(@, "notrunning")]
             /\ ann' = <<>>
             /\ UNCHANGED <<mgr, mvars, validated, lastValid>>
        ELSE /\ LET M == Target IN
                  Apply(MaybeFetch(Emit(Validate(Eff([M EXCEPT !.requests = Append(@, [r |-> r, mf |-> mf])])))))
             /\ mgr' = "run"
  /\ Label("Submit", mf)
  /\ UNCHANGED <<svc, cnt>>

\* dtypes.EventDeploymentUpdated -> manager `case version := <-m.updatech`
Update(v) ==
  /\ svc = "run" /\ mgr = "run" /\ cnt.upd < MaxUpdate
  /\ versions' = Append(versions, v)
  /\ data' = IF data # 0 THEN v ELSE 0
  /\ ann' = <<>>
  /\ Bump("upd") /\ Label("Update", v)
  /\ UNCHANGED <<svc, mgr, leases, fetch, requests, pending, manifests, nsub, sub, replies, validated, lastValid>>

\* mtypes.EventLeaseClosed -> manager `case id := <-m.rmleasech`
LeaseRemoved(l) ==
  /\ svc = "run" /\ mgr = "run" /\ cnt.rm < MaxRemove
  /\ leases' = SelectSeq(leases, LAMBDA x : x # l)   \* a lease not held: nothing to drop
  /\ ann' = <<>>
  /\ Bump("rm") /\ Label("LeaseRemoved", l)
  /\ UNCHANGED <<svc, mgr, data, fetch, requests, pending, manifests, versions, nsub, sub, replies, validated, lastValid>>

\* runner result, ok: `case result := <-runch`
FetchOk(v) ==
  /\ mgr = "run" /\ fetch = "inflight"
  /\ Apply(Emit(Validate(Eff([Cur EXCEPT !.fetch = "idle", !.data = v]))))
  /\ Label("FetchOk", v)
  /\ UNCHANGED <<svc, mgr, nsub, sub, cnt>>

\* runner result, error
FetchErr ==
  /\ mgr = "run" /\ fetch = "inflight" /\ cnt.ferr < MaxFetchErr
  /\ Apply(FillAll(Eff([Cur EXCEPT !.fetch = "idle"]), "fetcherr"))
  /\ Bump("ferr") /\ Label("FetchErr", 0)
  /\ UNCHANGED <<svc, mgr, nsub, sub>>

\* A stop request swallowed by the hostname check. checkHostnamesForManifest selects on lc.ShutdownRequest(),
\* which CONSUMES the one-shot request: if EventDeploymentClosed (c = 1) or the provider's shutdown (c = 2) reaches
\* the manager while one of its iterations is validating, the k-th request that reaches the hostname check may be
\* answered ErrNotRunning, and the manager does not stop. c = 1: the close is lost, the manager carries on. c = 2: the
\* service has begun shutting down and waits for the manager for ever; submitters see a stopped provider.
SwEffect(c) ==
  /\ svc' = IF c = 2 THEN "down" ELSE "run"
  /\ mgr' = "run"
  /\ cnt' = [cnt EXCEPT !.sw = @ + 1]

SubmitSw(mf, c, k) ==
  /\ svc = "run" /\ mgr = "run" /\ data # 0 /\ nsub < MaxSubmit /\ cnt.sw < MaxSwallow
  /\ LET r == nsub + 1
         M == [Cur EXCEPT !.requests = Append(@, [r |-> r, mf |-> mf])]
     IN /\ k \in 1..Len(Victims(M))
        /\ nsub' = r /\ sub' = [sub EXCEPT ![r] = mf]
        /\ Apply(MaybeFetch(Emit(ValidateV(Eff(M), Victims(M)[k]))))
  /\ SwEffect(c) /\ LabelSw("SubmitSw", mf, c, k)

FetchOkSw(v, c, k) ==
  /\ svc = "run" /\ mgr = "run" /\ fetch = "inflight" /\ cnt.sw < MaxSwallow
  /\ LET M == [Cur EXCEPT !.fetch = "idle", !.data = v]
     IN /\ k \in 1..Len(Victims(M))
        /\ Apply(Emit(ValidateV(Eff(M), Victims(M)[k])))
  /\ SwEffect(c) /\ LabelSw("FetchOkSw", v, c, k)
  /\ UNCHANGED <<nsub, sub>>

\* The manager's exit path (manager.go:208-221): reply ErrNotRunning to everything outstanding,
\* cancel and await the fetch. The manager's state is dead afterwards.
Exit == Apply([FillAll(Eff(Cur), "notrunning") EXCEPT !.m = M0])

\* dtypes.EventDeploymentClosed -> manager.stop() -> `case err := <-m.lc.ShutdownRequest()`
DeploymentClosed ==
  /\ svc = "run" /\ mgr = "run" /\ cnt.close < MaxClose
  /\ Exit
  /\ mgr' = "stopping"
  /\ Bump("close") /\ Label("DeploymentClosed", 0)
  /\ UNCHANGED <<svc, nsub, sub>>

\* service `case manager := <-s.managerch`
ManagerDone ==
  /\ svc = "run" /\ mgr = "stopping"
  /\ mgr' = "none" /\ ann' = <<>>
  /\ Label("ManagerDone", 0)
  /\ UNCHANGED <<svc, mvars, nsub, sub, replies, validated, lastValid, cnt>>

\* A bus event routed to a manager whose loop has exited but which the service has not collected yet:
\* handleLease / handleUpdate / removeLease / stop return through the ShuttingDown arm; the event is lost.
\* kind: 1 lease won, 2 version update, 3 lease closed, 4 deployment closed
Dropped(kind) ==
  /\ svc = "run" /\ mgr = "stopping" /\ cnt.drop < MaxDropped
  /\ ann' = <<>>
  /\ Bump("drop") /\ Label("Dropped", kind)
  /\ UNCHANGED <<svc, mgr, mvars, nsub, sub, replies, validated, lastValid>>

\* Provider shutdown: service loop exits, the manager (if any) runs its exit path and is drained.
Shutdown ==
  /\ svc = "run"
  /\ svc' = "down" /\ mgr' = "none"
  /\ IF mgr = "run" THEN Exit
     ELSE /\ ann' = <<>> /\ UNCHANGED <<mvars, replies, validated, lastValid>>
  /\ Label("Shutdown", 0)
  /\ UNCHANGED <<nsub, sub, cnt>>

Next ==
  \/ \E l \in LeaseIds : LeaseWon(l) \/ LeaseRemoved(l)
  \/ \E v \in Versions : Submit(v) \/ Update(v) \/ FetchOk(v)
  \/ FetchErr \/ DeploymentClosed \/ ManagerDone \/ Shutdown
  \/ \E k \in 1..4 : Dropped(k)
  \/ \E v \in Versions, c \in 1..2, k \in 1..MaxSubmit : SubmitSw(v, c, k) \/ FetchOkSw(v, c, k)

Spec == Init /\ [][Next]_vars

\* Fairness: a chain query in flight completes (the environment may not stall it forever), and a stopped
\* manager is collected. Nothing else is assumed: no further stimulus is needed for a reply.
FetchDone == (\E v \in Versions : FetchOk(v)) \/ FetchErr \/ DeploymentClosed \/ Shutdown
FairSpec == Spec /\ WF_vars(FetchDone) /\ WF_vars(ManagerDone)

-----------------------------------------------------------------------------
(* Property C20 *)

TypeOK ==
  /\ svc \in {"run", "down"} /\ mgr \in {"none", "run", "stopping"}
  /\ Range(leases) \subseteq LeaseIds /\ data \in Versions \cup {0} /\ fetch \in {"idle", "inflight"}
  /\ \A i \in 1..Len(requests) : requests[i].r \in Reqs /\ requests[i].mf \in Versions
  /\ Range(pending) \subseteq Reqs
  /\ Range(manifests) \subseteq Versions /\ Range(versions) \subseteq Versions
  /\ nsub \in 0..MaxSubmit
  /\ \A r \in Reqs : Range(replies[r]) \subseteq ReplyKinds

\* Every submission gets at most one reply, and only submitted requests are replied to.
AtMostOneReply == \A r \in Reqs : Len(replies[r]) <= 1 /\ (r > nsub => replies[r] = <<>>)

\* A manifest is announced only when a lease is held (and to holders only), chain data has been fetched,
\* that manifest has been validated, and it is the latest validated manifest.
AnnounceOK ==
  ann # <<>> =>
    /\ leases # <<>> /\ data # 0
    /\ \A i \in 1..Len(ann) : /\ ann[i].lease \in Range(leases)
                              /\ ann[i].mf \in validated
                              /\ ann[i].mf = lastValid

\* Quiescence = the loop is idle (every state of this spec is between iterations) and no chain query is in
\* flight. Then every submission has been answered: exactly one reply.
Quiescent == fetch = "idle"
QuiescentAllReplied == Quiescent => \A r \in 1..nsub : Len(replies[r]) = 1

\* The queue invariants that make the above hold (documentation, and checked):
\* unanswered requests are exactly the queued ones, and they wait only for the chain query.
QueueDiscipline ==
  /\ pending = <<>>
  /\ \A r \in 1..nsub : (replies[r] = <<>>) <=> (\E i \in 1..Len(requests) : requests[i].r = r)
  /\ requests # <<>> => fetch = "inflight" /\ data = 0
  /\ mgr # "run" => Cur = M0

\* Liveness (on FairSpec): every submission is eventually answered.
EveryRequestAnswered == \A r \in Reqs : (sub[r] # 0) ~> (Len(replies[r]) = 1)

=============================================================================
