------------------------ MODULE ManifestManagerTrace ------------------------
(***************************************************************************)
(* J3: validation of traces recorded from the real provider/manifest       *)
(* service (harness/mmanagerh) against ManifestManager.tla.                *)
(*                                                                         *)
(* Every line of trace.ndjson is one step observed on the implementation:  *)
(* the stimulus (name, arg), the state projected from the manager's trace  *)
(* hooks AFTER the loop iteration, the replies the manager wrote (sends),  *)
(* the Submit calls that returned (rets), the ManifestReceived events      *)
(* received from the bus (ann). "reset" lines start a new execution.       *)
(*                                                                         *)
(* (i)  VERDICT: the variables of the specification are set to the         *)
(*      OBSERVED values (replies := returns of Service.Submit, ann := bus  *)
(*      events, state := hooks) and the property definitions of            *)
(*      ManifestManager.tla are evaluated on them after every step; the    *)
(*      names of failing properties are collected in `viol`.               *)
(* (ii) CONFORMANCE: a step that the specification's action for that       *)
(*      stimulus does not allow (from the observed pre-state to the        *)
(*      observed post-state) is counted in `drift`; validation continues   *)
(*      from the implementation's actual state.                            *)
(***************************************************************************)
EXTENDS ManifestManager, Json

VARIABLES l,        \* number of trace lines consumed
          sends,    \* sends[r]: replies the manager WROTE to request r (reply hooks)
          missing,  \* requests whose Submit call had not returned although a reply was due (last step)
          chain,    \* the scripted chain's own knowledge: "inflight" iff a deployment query is held at its gate
          held,     \* leases the provider holds according to the STIMULI (won, not removed, manager alive)
          drift,    \* number of non-conforming steps
          viol      \* set of <<line, property name>>

Log == ndJsonDeserialize("trace.ndjson")

tvars == <<vars, l, sends, missing, chain, held, drift, viol>>

ToReqs(x) == [i \in 1..Len(x) |-> [r |-> x[i][1], mf |-> x[i][2]]]
ToAnn(x)  == [i \in 1..Len(x) |-> [lease |-> x[i][1], mf |-> x[i][2]]]
EmptyR    == [r \in Reqs |-> <<>>]

\* the observed post-state of the variables the code holds
ObsState(rec) ==
  /\ svc' = rec.st.svc /\ mgr' = rec.st.mgr
  /\ leases' = rec.st.leases /\ data' = rec.st.data /\ fetch' = rec.st.fetch
  /\ requests' = ToReqs(rec.st.requests) /\ pending' = rec.st.pending
  /\ manifests' = rec.st.manifests /\ versions' = rec.st.versions
  /\ replies' = AddReplies(replies, rec.rets)
  /\ ann' = ToAnn(rec.ann)

\* the action of the specification that the stimulus stands for
SpecStep(rec) ==
  \/ rec.name = "LeaseWon" /\ LeaseWon(rec.arg)
  \/ rec.name = "PreLease" /\ LeaseWon(rec.arg)   \* a lease held at start-up (fetchExistingLeases): same loop case
  \/ rec.name = "Submit" /\ Submit(rec.arg)
  \/ rec.name = "Update" /\ Update(rec.arg)
  \/ rec.name = "LeaseRemoved" /\ LeaseRemoved(rec.arg)
  \/ rec.name = "FetchOk" /\ FetchOk(rec.arg)
  \/ rec.name = "FetchErr" /\ FetchErr
  \/ rec.name = "DeploymentClosed" /\ DeploymentClosed
  \/ rec.name = "ManagerDone" /\ ManagerDone
  \/ rec.name = "Dropped" /\ Dropped(rec.arg)
  \/ rec.name = "Shutdown" /\ Shutdown
  \/ rec.name = "SubmitSw" /\ SubmitSw(rec.arg, rec.c, rec.k)
  \/ rec.name = "FetchOkSw" /\ FetchOkSw(rec.arg, rec.c, rec.k)

\* the step is a step of the specification: same successor, replies written = replies received = replies the
\* model predicts, publish hook = bus
Conform(rec) ==
  /\ SpecStep(rec)
  /\ ObsState(rec)
  /\ (svc = "run" => AddReplies(EmptyR, rec.sends) = AddReplies(EmptyR, rec.rets))
  /\ rec.annhook = rec.ann

\* manifests that pass validation in this step, by the specification's Validate on the OBSERVED pre-state
ValOf(rec) ==
  LET \* the request whose hostname check the step is SAID to have interrupted counts as such only if it was
      \* OBSERVED to be answered ErrNotRunning; otherwise it went through validation like the others
      victim(M) == IF /\ rec.k \in 1..Len(Victims(M))
                      /\ <<M.requests[Victims(M)[rec.k]].r, "notrunning">> \in Range(rec.sends)
                   THEN Victims(M)[rec.k] ELSE 0
      MS == [Target EXCEPT !.requests = Append(@, [r |-> nsub + 1, mf |-> rec.arg])]
      MF == [Cur EXCEPT !.fetch = "idle", !.data = rec.arg]
  IN IF rec.name \in {"Submit", "SubmitSw"} /\ svc = "run" /\ mgr # "stopping" THEN ValidateV(Eff(MS), victim(MS)).val
     ELSE IF rec.name \in {"FetchOk", "FetchOkSw"} /\ mgr = "run" THEN ValidateV(Eff(MF), victim(MF)).val
     ELSE <<>>

\* not a step of the specification: continue from what the implementation did
Forced(rec) ==
  /\ ObsState(rec)
  /\ nsub' = IF rec.name \in {"Submit", "SubmitSw"} THEN nsub + 1 ELSE nsub
  /\ sub' = IF rec.name \in {"Submit", "SubmitSw"} THEN [sub EXCEPT ![nsub + 1] = rec.arg] ELSE sub
  /\ LET val == ValOf(rec) IN
       /\ validated' = validated \cup Range(val)
       /\ lastValid' = IF val # <<>> THEN Last(val) ELSE lastValid
  /\ cnt' = cnt
  /\ act' = [name |-> rec.name, arg |-> rec.arg, c |-> rec.c, k |-> rec.k]

-----------------------------------------------------------------------------
(* Verdict: the property definitions of ManifestManager.tla on observed values, plus their counterparts on the   *)
(* replies as written (a second write to a request is "replying twice" even if the submitter never sees it).   *)

\* "holds a lease" judged against the stimuli, not against the manager's own list
HeldNext(rec) ==
  IF rec.name \in {"LeaseWon", "PreLease"} /\ svc = "run" /\ mgr # "stopping" THEN (IF mgr = "run" THEN held ELSE {}) \cup {rec.arg}
  ELSE IF rec.name = "LeaseRemoved" /\ mgr = "run" THEN held \ {rec.arg}
  ELSE IF rec.name \in {"DeploymentClosed", "Shutdown"} THEN {}
  ELSE IF rec.name \in {"SubmitSw", "FetchOkSw"} /\ rec.c = 2 THEN held   \* (zombie manager: nothing is routed to it any more)
  ELSE IF rec.name = "Submit" /\ svc = "run" /\ mgr = "none" THEN {}
  ELSE held
AnnounceToHeld == \A i \in 1..Len(ann) : ann[i].lease \in held

SendsAtMostOne == \A r \in Reqs : Len(sends[r]) <= 1
NoHang == missing = <<>>
\* QuiescentAllReplied with quiescence judged by the chain itself ("all gates released"), not by the manager's belief
\* that a query is in flight
ChainQuietAllReplied == chain = "idle" => \A r \in 1..nsub : Len(replies[r]) = 1

Failing ==
     (IF AtMostOneReply THEN {} ELSE {"AtMostOneReply"})
  \cup (IF SendsAtMostOne THEN {} ELSE {"SendsAtMostOne"})
  \cup (IF AnnounceOK THEN {} ELSE {"AnnounceOK"})
  \cup (IF AnnounceToHeld THEN {} ELSE {"AnnounceToHeld"})
  \cup (IF QuiescentAllReplied THEN {} ELSE {"QuiescentAllReplied"})
  \cup (IF NoHang THEN {} ELSE {"NoHang"})
  \cup (IF ChainQuietAllReplied THEN {} ELSE {"ChainQuietAllReplied"})

TraceInit ==
  /\ Init
  /\ l = 0 /\ sends = EmptyR /\ missing = <<>> /\ chain = "idle" /\ held = {} /\ drift = 0 /\ viol = {}

Reset ==
  /\ svc' = "run" /\ mgr' = "none"
  /\ leases' = <<>> /\ data' = 0 /\ fetch' = "idle" /\ requests' = <<>> /\ pending' = <<>>
  /\ manifests' = <<>> /\ versions' = <<>>
  /\ nsub' = 0 /\ sub' = [r \in Reqs |-> 0] /\ replies' = EmptyR
  /\ ann' = <<>> /\ validated' = {} /\ lastValid' = 0
  /\ cnt' = [lw |-> 0, rm |-> 0, upd |-> 0, ferr |-> 0, close |-> 0, drop |-> 0, sw |-> 0]
  /\ act' = [name |-> "Init", arg |-> 0, c |-> 0, k |-> 0]
  /\ sends' = EmptyR /\ missing' = <<>> /\ chain' = "idle" /\ held' = {}
  /\ UNCHANGED <<drift, viol>>

TraceNext ==
  /\ l < Len(Log)
  /\ l' = l + 1
  /\ LET rec == Log[l + 1] IN
       IF rec.e = "reset" THEN Reset
       ELSE IF rec.timeout # ""
       THEN \* The stimulus was delivered and the step did not complete (twice; the check re-runs it alone). Every
            \* action of the specification completes: if the action for this stimulus is enabled in the observed
            \* state and the manager's or the service's loop is blocked outside its idle select, the real code hangs
            \* where the specification does not. (An idle loop means the harness waited for the wrong thing.)
            /\ UNCHANGED <<vars, sends, missing, chain, held, drift>>
            /\ viol' = viol \cup (IF rec.blocked /\ ENABLED SpecStep(rec) THEN {<<l + 1, "StepCompletes">>} ELSE {})
       ELSE /\ sends' = AddReplies(sends, rec.sends)
            /\ missing' = rec.missing
            /\ chain' = rec.chain
            /\ held' = HeldNext(rec)
            /\ \/ Conform(rec) /\ drift' = drift
               \/ /\ ~ENABLED Conform(rec)
                  /\ Forced(rec)
                  /\ drift' = drift + 1
                  /\ PrintT("DRIFT " \o ToJson([line |-> l + 1, script |-> rec.script, i |-> rec.i]))
            /\ viol' = viol \cup {<<l + 1, p>> : p \in Failing'}

TraceSpec == TraceInit /\ [][TraceNext]_tvars

\* reported once, in the last state
Done == l = Len(Log) => PrintT("TRACE-DONE " \o ToJson([l |-> l, drift |-> drift, viol |-> viol]))
=============================================================================
