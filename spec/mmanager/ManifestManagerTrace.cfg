SPECIFICATION TraceSpec
CONSTANTS
  LeaseIds = {1, 2, 3}
  Versions = {1, 2, 3, 4, 5}
  BadHost = {3, 5}
  BadAlways = {4}
  MaxSubmit = 12
  MaxLeaseWon = 9999
  MaxRemove = 9999
  MaxUpdate = 9999
  MaxFetchErr = 9999
  MaxClose = 9999
  MaxDropped = 9999
  MaxSwallow = 9999
INVARIANT Done
CHECK_DEADLOCK FALSE
