------------------------- MODULE ManifestManagerGen -------------------------
(* J2: behaviour generation. The state graph is explored under a VIEW that  *)
(* keeps exactly what the implementation's next step can depend on (ghosts, *)
(* budgets and request identities erased); every explored edge is printed   *)
(* as JSON. tools/checks/mmanager.py turns the edge list into scripts.      *)
EXTENDS ManifestManager, Json

CONSTANT MaxQueue

LastOr0(s) == IF s = <<>> THEN 0 ELSE s[Len(s)]

genview == <<svc, mgr, leases, data, fetch,
             [i \in 1..Len(requests) |-> requests[i].mf],
             LastOr0(manifests), LastOr0(versions)>>

GenBound == Len(requests) <= MaxQueue

ExportEdge == PrintT("EDGE " \o ToJson([f |-> genview, a |-> act', t |-> genview']))
=============================================================================
