------------------------- MODULE ManifestManagerGen -------------------------
(* J2: behaviour generation. The state graph is explored under a VIEW that  *)
(* keeps exactly what the implementation's next step can depend on (ghosts, *)
(* budgets and request identities erased); every explored edge is printed   *)
(* as JSON. tools/checks/mmanager.py turns the edge list into scripts.      *)
EXTENDS ManifestManager, Json

CONSTANT MaxQueue

LastOr0(s) == IF s = <<>> THEN 0 ELSE s[Len(s)]

genview == <<svc, mgr, leases, data, fetch,
             [i \in 1..Len(requests) |-> requests[i].mf],
             LastOr0(manifests), LastOr0(versions),
             \* which manifests are held / which versions were seen at all, not only the last ones: code that looks
             \* through the whole list (de-duplication, "already seen") behaves differently after a version goes BACK
             \* to an earlier value and the earlier manifest is submitted again
             Range(manifests)>>

GenBound == Len(requests) <= MaxQueue

ExportEdge == PrintT("EDGE " \o ToJson([f |-> genview, a |-> act', t |-> genview']))
=============================================================================
