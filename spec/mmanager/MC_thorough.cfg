SPECIFICATION Spec
CONSTANTS
  LeaseIds = {1, 2}
  Versions = {1, 2, 3, 4}
  BadHost = {3}
  BadAlways = {4}
  MaxSubmit = 3
  MaxLeaseWon = 2
  MaxRemove = 1
  MaxUpdate = 1
  MaxFetchErr = 1
  MaxClose = 1
  MaxDropped = 1
  MaxSwallow = 1
VIEW view
INVARIANTS TypeOK AtMostOneReply AnnounceOK QuiescentAllReplied QueueDiscipline
CHECK_DEADLOCK FALSE
