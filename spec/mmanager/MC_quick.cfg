SPECIFICATION Spec
CONSTANTS
  LeaseIds = {1}
  Versions = {1, 2}
  BadHost = {2}
  BadAlways = {}
  MaxSubmit = 3
  MaxLeaseWon = 2
  MaxRemove = 1
  MaxUpdate = 1
  MaxFetchErr = 1
  MaxClose = 1
  MaxDropped = 0
  MaxSwallow = 1
VIEW view
INVARIANTS TypeOK AtMostOneReply AnnounceOK QuiescentAllReplied QueueDiscipline
CHECK_DEADLOCK FALSE
