\* example; the check generates its own from the universe it used
CONSTANTS
  Hosts = {"f1", "f2", "bx", "bd"}
  Blocked = {"bx", "bd"}
  Deps = {"d1", "d2", "d3"}
  Clients = {"c1", "c2", "c3", "c4"}
  Alphabet <- TraceAlphabet
  TMaxNames = 3
  MaxOps = 1000000
  KeepHist = FALSE
SPECIFICATION TSpec
CHECK_DEADLOCK FALSE
