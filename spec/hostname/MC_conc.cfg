\* three callers, every interleaving of their calls, the loop and the shutdown
CONSTANTS
  Hosts = {"f1", "bx"}
  Blocked = {"bx"}
  Deps = {"d1", "d2"}
  Clients = {"c1", "c2", "c3"}
  Alphabet <- SmallAlphabet
  MaxNames = 1
  MaxOps = 2
  GenLen = 99
  KeepHist = FALSE
SPECIFICATION Spec
INVARIANTS TypeOK Exclusive BlockedFree AnsweredOnce NoOrphan
PROPERTIES StepPropsHold
CHECK_DEADLOCK FALSE
