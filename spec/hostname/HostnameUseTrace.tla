------------------------- MODULE HostnameUseTrace -------------------------
(* J3 for HostnameUse.tla: the stimuli replayed on the real cluster service (cluster.NewService  *)
(* with its own hostname service and deployment managers), one line per stimulus with what was   *)
(* observed once the system had settled: held (the hostname service's map, read by a request     *)
(* that passed through its loop), cur (per deployment, the hostnames of the manifest group the   *)
(* scripted cluster client was last told to deploy and not to tear down), mgr (per deployment,   *)
(* none | active | gone from the manager's trace points).                                        *)
(*                                                                                               *)
(* held, cur, mgr and checked are DRIVEN BY THE OBSERVATIONS; own is not observable and follows  *)
(* the as-found rule.  On every step the state predicates of HostnameUse.tla (UseExclusive,      *)
(* DeployedHeld, NoLeak, BlockedNeverDeployed) and the action formula ReleaseOwn are evaluated   *)
(* on the observed values (verdict: <<"V", property, line, run>>), and the step is compared      *)
(* with the action of HostnameUse.tla (Impl = "asfound") it claims to be (<<"DRIFT", ...>>).     *)
EXTENDS HostnameUse, Json

Trace == ndJsonDeserialize("trace.ndjson")
TraceManifests == NameSeqs(3)

VARIABLE l
T == Trace[l]
Is(e) == T.e = e

Holders(pairs, h) == {pairs[i][2] : i \in {j \in 1..Len(pairs) : pairs[j][1] = h}}
ObsFn(pairs) == [h \in Hosts |-> IF Holders(pairs, h) = {} THEN None
                                 ELSE IF Cardinality(Holders(pairs, h)) = 1 THEN CHOOSE x \in Holders(pairs, h) : TRUE
                                 ELSE "multi"]

V(name, ok) == ok \/ PrintT(<<"V", name, l, T.run>>)
D(name, ok) == ok \/ PrintT(<<"DRIFT", name, l, T.run>>)

Observed ==
  /\ held' = ObsFn(T.held)
  /\ cur' = [d \in Deps |-> T.cur[d]]
  /\ mgr' = [d \in Deps |-> T.mgr[d]]

Verdict ==
  /\ V("UseExclusive", UseExclusive')
  /\ V("DeployedHeld", DeployedHeld')
  /\ V("NoLeak", NoLeak')
  /\ V("BlockedNeverDeployed", BlockedNeverDeployed')
  /\ V("ReleaseOwn", ReleaseOwn)

UTInit == UInit /\ l = 1

OReset ==
  /\ Is("reset")
  /\ held' = [h \in Hosts |-> None] /\ mgr' = [d \in Deps |-> "none"] /\ own' = [d \in Deps |-> {}]
  /\ cur' = [d \in Deps |-> <<>>] /\ checked' = [d \in Deps |-> NoManifest] /\ script' = <<>>
  /\ l' = l + 1

OCheck ==
  /\ Is("check")
  /\ Observed
  /\ checked' = [checked EXCEPT ![T.d] = IF T.r = "ok" THEN T.names ELSE NoManifest]
  /\ own' = own
  /\ script' = Append(script, [k |-> "check", d |-> T.d, m |-> T.names])
  /\ l' = l + 1
  /\ D("Check", Check(T.d, T.names))
  /\ Verdict

ODeliver ==
  /\ Is("deliver")
  /\ Observed
  /\ checked' = [checked EXCEPT ![T.d] = NoManifest]
  /\ own' = IF checked[T.d] # NoManifest /\ mgr[T.d] # "active" /\ T.mgr[T.d] = "active"
            THEN [own EXCEPT ![T.d] = Range(checked[T.d])] ELSE own
  /\ script' = IF checked[T.d] # NoManifest THEN Append(script, [k |-> "deliver", d |-> T.d, m |-> <<>>]) ELSE script
  /\ l' = l + 1
  /\ D("Deliver", IF checked[T.d] # NoManifest THEN Deliver(T.d) ELSE UNCHANGED uvars)
  /\ Verdict

OClose ==
  /\ Is("close")
  /\ Observed
  /\ checked' = checked
  /\ own' = IF mgr[T.d] = "active" THEN [own EXCEPT ![T.d] = {}] ELSE own
  /\ script' = IF mgr[T.d] = "active" THEN Append(script, [k |-> "close", d |-> T.d, m |-> <<>>]) ELSE script
  /\ l' = l + 1
  /\ D("Close", IF mgr[T.d] = "active" THEN Close(T.d) ELSE UNCHANGED uvars)
  /\ Verdict

Last == l = Len(Trace) => PrintT(<<"WALKED", l>>)

UTNext ==
  /\ l <= Len(Trace)
  /\ OReset \/ OCheck \/ ODeliver \/ OClose
  /\ Last

UTSpec == UTInit /\ [][UTNext]_<<uvars, l>>
=============================================================================
