-------------------------- MODULE MCHostnameUse --------------------------
(* Model-checking wrapper for HostnameUse.tla: manifests, J2 export of the stimulus scripts. *)
EXTENDS HostnameUse, Json, Sequences

\* manifests: every list of one or two different names
UseManifests == {m \in NameSeqs(2) : Len(m) >= 1 /\ (Len(m) = 2 => m[1] # m[2])}

\* J2: with VIEW uview every distinct (held, mgr, own, cur, checked) is expanded once, from the stimulus sequence
\* that reached it first; the action constraint prints that sequence extended by every stimulus possible there:
\* every transition of the use model, each with a way to get there
UEdge == PrintT(<<"SCRIPT", ToJson(script')>>)

Safe == UTypeOK /\ NoLeak /\ BlockedNeverDeployed
=============================================================================
