\* two callers, two free names, lists of two names
CONSTANTS
  Hosts = {"f1", "f2", "bx"}
  Blocked = {"bx"}
  Deps = {"d1", "d2"}
  Clients = {"c1", "c2"}
  Alphabet <- SmallAlphabet
  MaxNames = 2
  MaxOps = 2
  GenLen = 99
  KeepHist = FALSE
SPECIFICATION Spec
INVARIANTS TypeOK Exclusive BlockedFree AnsweredOnce NoOrphan
PROPERTIES StepPropsHold
CHECK_DEADLOCK FALSE
