\* example; the check generates its own
CONSTANTS
  Hosts = {"f1", "f2", "bx", "bd"}
  Blocked = {"bx", "bd"}
  Deps = {"d1", "d2", "d3"}
  Manifests <- TraceManifests
  Impl = "asfound"
SPECIFICATION UTSpec
CHECK_DEADLOCK FALSE
