---------------------------- MODULE HostnameLin ----------------------------
(* Linearizability of the hostname service's client interface, decided by TLC from what the     *)
(* callers alone saw (no trace point of the loop is used here).                                 *)
(*                                                                                               *)
(* hist.ndjson: one line per execution of concurrently running callers on the real service:      *)
(*   [run, ops], ops a sequence of [c, op, d, names, r, s, e]:  caller, reserve|can|release|     *)
(*   shutdown, deployment, names, the answer received (ok | notallowed | notrunning; "none": the *)
(*   call has no answer -- a release, the shutdown, a call that never returned), and the         *)
(*   positions s < e of its invocation and of its return in the recording (e very large: it     *)
(*   never returned).  The shutdown is the interval from the cancellation of the service's       *)
(*   context to the moment the harness saw Done().                                               *)
(*                                                                                               *)
(* An execution is linearizable when the operations can be put in ONE order that respects        *)
(* real time (an operation that returned before another was invoked comes first) and in which    *)
(* every answer is the one the SEQUENTIAL service gives: Answer / Grant / Freed of HostnameOps    *)
(* (the very operators Hostname.tla's loop uses), ErrNotRunning and no effect after the shutdown.*)
(* TLC searches the orders: every behaviour of LSpec is a prefix of such an order.  The          *)
(* executions for which a complete order exists are collected in TLCGet(1); the postcondition    *)
(* prints the others (run with one worker).                                                      *)
EXTENDS HostnameOps, Json, TLC

H == ndJsonDeserialize("hist.ndjson")

VARIABLES h,      \* the execution
          lin,    \* operations placed so far (indices)
          heldL,  \* the sequential service's in-use map after them
          down    \* ... and whether it was shut down

lvars == <<h, lin, heldL, down>>
Ops == H[h].ops
Returned(i) == Ops[i].e < 1000000000

ASSUME TLCSet(1, {})

LInit == h \in 1..Len(H) /\ lin = {} /\ heldL = [x \in Hosts |-> None] /\ down = FALSE

\* real time: everything that returned before i was invoked has been placed
Ready(i) == i \notin lin /\ \A j \in 1..Len(Ops) : Ops[j].e < Ops[i].s => j \in lin

Apply(i) ==
  LET o == Ops[i] IN
  CASE o.op = "shutdown" -> down' = TRUE /\ heldL' = heldL
    [] o.op = "release"  -> down' = down /\ heldL' = IF down THEN heldL ELSE Freed(heldL, o.names)
    [] OTHER ->
         /\ down' = down
         /\ LET a == IF down THEN "notrunning" ELSE Answer(heldL, o.d, o.names).r IN
            /\ Returned(i) => o.r = a
            /\ heldL' = IF a = "ok" /\ o.op = "reserve" THEN Grant(heldL, o.d, o.names) ELSE heldL

\* an operation that never returned may or may not have taken effect: it need not be placed
Complete(s) == \A i \in 1..Len(Ops) : Returned(i) => i \in s

LNext ==
  /\ h \notin TLCGet(1)
  /\ \E i \in 1..Len(Ops) :
       /\ Ready(i) /\ Apply(i)
       /\ lin' = lin \cup {i} /\ h' = h
       /\ (Complete(lin') => TLCSet(1, TLCGet(1) \cup {h}))

LSpec == (LInit /\ (Len(Ops) > 0 \/ TLCSet(1, TLCGet(1) \cup {h}))) /\ [][LNext]_lvars

Post ==
  LET miss == (1..Len(H)) \ TLCGet(1) IN
  /\ PrintT(<<"LINEARIZABLE", Cardinality(TLCGet(1)), Len(H)>>)
  /\ \A m \in miss : PrintT(<<"NONLIN", m, H[m].run>>)
=============================================================================
