---------------------------- MODULE HostnameUse ----------------------------
(* How the provider USES the hostname service (the callers' protocol), as far as the code shows *)
(* it:                                                                                          *)
(*                                                                                               *)
(*   provider/manifest/manager.go  checkHostnamesForManifest: before a received manifest is      *)
(*        accepted, CanReserveHostnames(all hostnames of the manifest's leased groups,           *)
(*        deployment) must answer ok; an accepted manifest is announced (ManifestReceived)       *)
(*   provider/cluster/service.go   ManifestReceived: no manager for the lease -> new             *)
(*        deploymentManager; otherwise manager.update(mgroup)                                    *)
(*   provider/cluster/manager.go   run(): ReserveHostnames(hostnames of the FIRST manifest       *)
(*        group, deployment) once, at start; refused -> the manager exits; granted -> deploy,    *)
(*        and `defer ReleaseHostnames(those same hostnames)` at exit (lease closed, teardown     *)
(*        done).  An update replaces dm.mgroup and deploys it: the hostname service is not       *)
(*        asked again, neither for the names the update adds nor for those it drops.             *)
(*                                                                                               *)
(* One lease per deployment (a deployment's manifest may not name a hostname twice --            *)
(* validation/manifest.go -- so leases of one deployment never share a name).  The deploy /      *)
(* teardown machinery of the manager is property C14's subject and is abstracted to its          *)
(* settled outcome here; provider shutdown is not part of this layer.                            *)
(*                                                                                               *)
(* Impl = "asfound" is the code.  Impl = "intended" is the smallest change under which the       *)
(* layer's properties hold (an update reserves what it names before it is deployed and the       *)
(* manager releases everything it reserved); it exists to show the properties are satisfiable    *)
(* and is not derived from the code.                                                             *)
EXTENDS HostnameOps, TLC

CONSTANTS Manifests,   \* the hostname lists manifests may carry (sequences of Hosts)
          Impl         \* "asfound" | "intended"

VARIABLES
  held,     \* the hostname service's map
  mgr,      \* [Deps -> "none" | "active" | "gone"]   the lease's deploymentManager (settled states)
  own,      \* [Deps -> set of names the manager reserved and will release at exit]
  cur,      \* [Deps -> the hostname list of the manifest group the manager deploys (dm.mgroup)]
  checked,  \* [Deps -> a manifest the manifest manager has accepted and announced, not yet consumed by the
            \*          cluster service; <<"-">> when none]
  script    \* ghost: the stimuli so far (J2 export)

uvars == <<held, mgr, own, cur, checked, script>>
uview == <<held, mgr, own, cur, checked>>

NoManifest == <<"-">>

UInit ==
  /\ held = [h \in Hosts |-> None]
  /\ mgr = [d \in Deps |-> "none"]
  /\ own = [d \in Deps |-> {}]
  /\ cur = [d \in Deps |-> <<>>]
  /\ checked = [d \in Deps |-> NoManifest]
  /\ script = <<>>

Stim(k, d, m) == script' = Append(script, [k |-> k, d |-> d, m |-> m])

\* the tenant sends a manifest; the manifest manager asks CanReserveHostnames and announces it when the answer is ok
Check(d, m) ==
  /\ checked[d] = NoManifest /\ m \in Manifests
  /\ mgr[d] # "gone"     \* an exited manager's order is unreserved (service.go): later manifests for the lease are dropped
  /\ checked' = [checked EXCEPT ![d] = IF Answer(held, d, m).r = "ok" THEN m ELSE NoManifest]
  /\ Stim("check", d, m)
  /\ UNCHANGED <<held, mgr, own, cur>>

\* the cluster service consumes the announcement
Deliver(d) ==
  /\ checked[d] # NoManifest
  /\ LET m == checked[d] IN
     IF mgr[d] = "gone"
     THEN \* the exited manager's order was unreserved (service.go, managerch case): inventory.lookup fails, the manifest is dropped
          UNCHANGED <<held, mgr, own, cur>>
     ELSE IF mgr[d] = "none"
     THEN \* newDeploymentManager: ReserveHostnames(m) -- granted: deploy; refused: exit without a release
          IF Answer(held, d, m).r = "ok"
          THEN /\ held' = Grant(held, d, m) /\ mgr' = [mgr EXCEPT ![d] = "active"]
               /\ own' = [own EXCEPT ![d] = Range(m)] /\ cur' = [cur EXCEPT ![d] = m]
          ELSE /\ mgr' = [mgr EXCEPT ![d] = "gone"] /\ UNCHANGED <<held, own, cur>>
     ELSE \* manager.update(mgroup)
          IF Impl = "asfound"
          THEN /\ cur' = [cur EXCEPT ![d] = m] /\ UNCHANGED <<held, mgr, own>>
          ELSE IF Answer(held, d, m).r = "ok"
               THEN /\ held' = Grant(held, d, m) /\ own' = [own EXCEPT ![d] = @ \cup Range(m)]
                    /\ cur' = [cur EXCEPT ![d] = m] /\ UNCHANGED mgr
               ELSE UNCHANGED <<held, mgr, own, cur>>
  /\ checked' = [checked EXCEPT ![d] = NoManifest]
  /\ Stim("deliver", d, <<>>)

\* the lease is closed: teardown, then the manager exits and its deferred ReleaseHostnames runs
Close(d) ==
  /\ mgr[d] = "active"
  /\ held' = [h \in Hosts |-> IF h \in own[d] THEN None ELSE held[h]]
  /\ mgr' = [mgr EXCEPT ![d] = "gone"]
  /\ own' = [own EXCEPT ![d] = {}]
  /\ cur' = [cur EXCEPT ![d] = <<>>]
  /\ Stim("close", d, <<>>)
  /\ UNCHANGED checked

UNext == \E d \in Deps : Deliver(d) \/ Close(d) \/ \E m \in Manifests : Check(d, m)
USpec == UInit /\ [][UNext]_uvars

---------------------------------------------------------------------------------------------
(* PROPERTIES of the use (evaluated by HostnameUseTrace on what the real cluster service did: held = the   *)
(* hostname service's map, cur[d] = the hostnames of the manifest group last handed to Client.Deploy for   *)
(* the lease and not torn down, mgr[d] from the manager's life cycle)                                      *)

Active(d) == mgr[d] = "active"

\* (U1) no hostname is deployed for two deployments at once -- what the reservation service is for
UseExclusive == \A d1, d2 \in Deps : d1 # d2 /\ Active(d1) /\ Active(d2) => Range(cur[d1]) \cap Range(cur[d2]) = {}

\* (U2) a deployment is deployed only with hostnames the service holds for it
DeployedHeld == \A d \in Deps : Active(d) => \A h \in Range(cur[d]) : held[h] = d

\* (U3) nothing stays reserved for a deployment that has no manager (closed, or never started)
NoLeak == \A d \in Deps : ~Active(d) => \A h \in Hosts : held[h] # d

\* (U4) nothing blocked is deployed
BlockedNeverDeployed == \A d \in Deps : Active(d) => Range(cur[d]) \cap Blocked = {}

\* (U5) an exiting manager's release frees names of its own deployment only
ReleaseOwn == \A d \in Deps : (mgr[d] = "active" /\ mgr'[d] = "gone") =>
                 \A h \in Hosts : held'[h] # held[h] => held[h] = d
ReleaseOwnHolds == [][ReleaseOwn]_uvars

UTypeOK == held \in [Hosts -> Deps \cup {None}] /\ mgr \in [Deps -> {"none", "active", "gone"}]
=============================================================================
