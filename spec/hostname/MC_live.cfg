\* liveness (no VIEW: the ghost hist is part of the state): every call returns, under weak fairness of Progress
CONSTANTS
  Hosts = {"f1", "bx"}
  Blocked = {"bx"}
  Deps = {"d1", "d2"}
  Clients = {"c1", "c2"}
  Alphabet <- SmallAlphabet
  MaxNames = 1
  MaxOps = 2
  GenLen = 99
  KeepHist = FALSE
SPECIFICATION Spec
INVARIANTS TypeOK NoOrphan
PROPERTIES EveryCallReturns
CHECK_DEADLOCK FALSE
