\* the code as found: UseExclusive / DeployedHeld are expected to be violated (an update is never reserved)
CONSTANTS
  Hosts = {"f1", "f2", "bx"}
  Blocked = {"bx"}
  Deps = {"d1", "d2"}
  Manifests <- UseManifests
  Impl = "asfound"
SPECIFICATION USpec
VIEW uview
INVARIANTS Safe
ACTION_CONSTRAINT UEdge
PROPERTIES ReleaseOwnHolds
CHECK_DEADLOCK FALSE
