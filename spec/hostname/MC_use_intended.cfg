\* the intended variant: every property holds
CONSTANTS
  Hosts = {"f1", "f2", "bx"}
  Blocked = {"bx"}
  Deps = {"d1", "d2"}
  Manifests <- UseManifests
  Impl = "intended"
SPECIFICATION USpec
VIEW uview
INVARIANTS Safe UseExclusive DeployedHeld
PROPERTIES ReleaseOwnHolds
CHECK_DEADLOCK FALSE
