\* one client: the sequential use. J1 + J2(a) witness export.
CONSTANTS
  Hosts = {"f1", "f2", "bx", "bd"}
  Blocked = {"bx", "bd"}
  Deps = {"d1", "d2", "d3"}
  Clients = {"c1"}
  Alphabet <- FullAlphabet
  MaxNames = 2
  MaxOps = 4
  GenLen = 99
  KeepHist = TRUE
SPECIFICATION Spec
VIEW view
INVARIANTS TypeOK Exclusive BlockedFree AnsweredOnce NoOrphan ExportWitness
PROPERTIES StepPropsHold
CHECK_DEADLOCK FALSE
