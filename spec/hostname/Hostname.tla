------------------------------ MODULE Hostname ------------------------------
(* The provider's hostname reservation service: provider/cluster/hostname.go            *)
(*                                                                                       *)
(*   hostnameService.run          one goroutine, one select: shutdown request /          *)
(*                                requests channel / releases channel                    *)
(*   doRequest / isHostnameBlocked  a reservation or a can-reserve question              *)
(*   doRelease                    delete the named hostnames                             *)
(*   ReserveHostnames / CanReserveHostnames / ReleaseHostnames                           *)
(*                                the callers' side: hand the request over on an         *)
(*                                unbuffered channel or see ShuttingDown() closed        *)
(*   go-lifecycle                 ShutdownRequest (rendezvous with WatchContext),        *)
(*                                ShutdownInitiated closes ShuttingDown()                *)
(*                                                                                       *)
(* Hostnames are the canonical (lower-case) names; the callers' side lower-cases what    *)
(* it is given before the hand-over, the harness spells the names in several ways.       *)
(* Blocked is the set of names the provider's configuration blocks (exact entries,      *)
(* ".domain" entries: the domain itself and every name ending in ".domain").             *)
EXTENDS HostnameOps, TLC

CONSTANTS Clients,    \* calling goroutines (strings)
          Alphabet,   \* the calls a client may make: records [op, d, names]
          MaxOps,     \* calls per client (bounds the model)
          KeepHist    \* BOOLEAN: maintain the ghost hist (J2 exports only)

VARIABLES
  held,   \* [Hosts -> Deps \cup {None}]   hs.inUse
  sd,     \* "run" | "req" | "down"        lifecycle: running / shutdown requested (WatchContext offers on stopch) /
          \*                               the loop took the request (ShuttingDown() closed, loop gone)
  loop,   \* [k, names]  k = "idle": the loop is in its select; k = "rel": between the hand-over of a release and
          \*             the end of doRelease (the caller has already returned)
  pc,     \* [Clients -> "idle" | "send" | "answered" | "sendrel" | "relhanded"]
  req,    \* [Clients -> the call in progress]
  res,    \* [Clients -> content of the call's result channel (capacity 1)]
  late,   \* [Clients -> BOOLEAN]  the call in progress began after the loop had taken the shutdown request
  n,      \* [Clients -> calls made]
  hist    \* ghost: calls and the shutdown request in the order they were made (J2 export)

vars == <<held, sd, loop, pc, req, res, late, n, hist>>
view == <<held, sd, loop, pc, req, res, late, n>>

NoReq == [op |-> "none", d |-> None, names |-> <<>>]
NoRes == [r |-> "none", why |-> "", host |-> ""]
IdleLoop == [k |-> "idle", names |-> <<>>]
---------------------------------------------------------------------------------------------
Init ==
  /\ held = [h \in Hosts |-> None]
  /\ sd = "run"
  /\ loop = IdleLoop
  /\ pc = [c \in Clients |-> "idle"]
  /\ req = [c \in Clients |-> NoReq]
  /\ res = [c \in Clients |-> NoRes]
  /\ late = [c \in Clients |-> FALSE]
  /\ n = [c \in Clients |-> 0]
  /\ hist = <<>>

\* ---- callers ----
\* ReserveHostnames / CanReserveHostnames / ReleaseHostnames entered: the caller sits in its select
Call(c, q) ==
  /\ pc[c] = "idle" /\ n[c] < MaxOps /\ q \in Alphabet
  /\ pc' = [pc EXCEPT ![c] = IF q.op = "release" THEN "sendrel" ELSE "send"]
  /\ req' = [req EXCEPT ![c] = q]
  /\ late' = [late EXCEPT ![c] = (sd = "down")]
  /\ n' = [n EXCEPT ![c] = @ + 1]
  /\ hist' = IF KeepHist THEN Append(hist, [c |-> c, q |-> q]) ELSE hist
  /\ UNCHANGED <<held, sd, loop, res>>

\* case <-hs.lc.ShuttingDown(): returnValue <- ErrNotRunning
NotRunning(c) ==
  /\ pc[c] = "send" /\ sd = "down"
  /\ res' = [res EXCEPT ![c] = NotRunningRes]
  /\ pc' = [pc EXCEPT ![c] = "answered"]
  /\ UNCHANGED <<held, sd, loop, req, late, n, hist>>

\* the caller reads the result channel
Recv(c) ==
  /\ pc[c] = "answered"
  /\ pc' = [pc EXCEPT ![c] = "idle"]
  /\ res' = [res EXCEPT ![c] = NoRes]
  /\ req' = [req EXCEPT ![c] = NoReq]
  /\ late' = [late EXCEPT ![c] = FALSE]
  /\ UNCHANGED <<held, sd, loop, n, hist>>

\* ReleaseHostnames: case <-hs.lc.ShuttingDown(): "release doesn't matter"
RelDropped(c) ==
  /\ pc[c] = "sendrel" /\ sd = "down"
  /\ pc' = [pc EXCEPT ![c] = "relhanded"]
  /\ UNCHANGED <<held, sd, loop, req, res, late, n, hist>>

\* ReleaseHostnames returns
RelReturn(c) ==
  /\ pc[c] = "relhanded"
  /\ pc' = [pc EXCEPT ![c] = "idle"]
  /\ req' = [req EXCEPT ![c] = NoReq]
  /\ late' = [late EXCEPT ![c] = FALSE]
  /\ UNCHANGED <<held, sd, loop, res, n, hist>>

\* ---- the loop ----
\* case rr := <-hs.requests: hs.doRequest(rr)   (hand-over, decision, update and answer: one critical section)
LoopRequest(c) ==
  /\ loop.k = "idle" /\ sd # "down" /\ pc[c] = "send"
  /\ LET q == req[c]
         a == Answer(held, q.d, q.names) IN
     /\ res' = [res EXCEPT ![c] = a]
     /\ held' = IF a.r = "ok" /\ q.op = "reserve" THEN Grant(held, q.d, q.names) ELSE held
  /\ pc' = [pc EXCEPT ![c] = "answered"]
  /\ UNCHANGED <<sd, loop, req, late, n, hist>>

\* case hostnames := <-hs.releases: the hand-over; the caller may return from here on
LoopTakeRelease(c) ==
  /\ loop.k = "idle" /\ sd # "down" /\ pc[c] = "sendrel"
  /\ loop' = [k |-> "rel", names |-> req[c].names]
  /\ pc' = [pc EXCEPT ![c] = "relhanded"]
  /\ UNCHANGED <<held, sd, req, res, late, n, hist>>

\* hs.doRelease(hostnames)
LoopDoRelease ==
  /\ loop.k = "rel"
  /\ held' = Freed(held, loop.names)
  /\ loop' = IdleLoop
  /\ UNCHANGED <<sd, pc, req, res, late, n, hist>>

\* case <-hs.lc.ShutdownRequest(): ShutdownInitiated; break loop; (deferred) ShutdownCompleted
LoopShutdown ==
  /\ loop.k = "idle" /\ sd = "req"
  /\ sd' = "down"
  /\ UNCHANGED <<held, loop, pc, req, res, late, n, hist>>

\* ---- environment ----
\* the context given to newHostnameService is cancelled (provider shutdown)
EnvShutdown ==
  /\ sd = "run"
  /\ sd' = "req"
  /\ hist' = IF KeepHist THEN Append(hist, [c |-> "env", q |-> [op |-> "shutdown", d |-> None, names |-> <<>>]]) ELSE hist
  /\ UNCHANGED <<held, loop, pc, req, res, late, n>>

Progress ==
  \/ \E c \in Clients : NotRunning(c) \/ Recv(c) \/ RelDropped(c) \/ RelReturn(c) \/ LoopRequest(c) \/ LoopTakeRelease(c)
  \/ LoopDoRelease \/ LoopShutdown

Next == Progress \/ EnvShutdown \/ \E c \in Clients, q \in Alphabet : Call(c, q)

Spec == Init /\ [][Next]_vars /\ WF_vars(Progress)

---------------------------------------------------------------------------------------------
(* PROPERTIES (X02).  The step properties are action formulas over (held, pc, req, loop, sd) and    *)
(* their primed values; HostnameTrace evaluates the same formulas on the values recorded from the   *)
(* implementation.                                                                                   *)

TypeOK ==
  /\ held \in [Hosts -> Deps \cup {None}]
  /\ sd \in {"run", "req", "down"}
  /\ loop.k \in {"idle", "rel"}
  /\ pc \in [Clients -> {"idle", "send", "answered", "sendrel", "relhanded"}]

\* (P1) a hostname is held by at most one deployment: the observed holder of every name is a single
\*      deployment or nobody (HostnameTrace maps a name that appears under two keys / two holders to "multi")
Exclusive == \A h \in Hosts : held[h] \in Deps \cup {None}

\* (P3) a blocked hostname is never held
BlockedFree == \A h \in Blocked : held[h] = None

\* a request step of the loop: c's call is answered by the loop (not by the caller's own ErrNotRunning)
ReqStep(c) == pc[c] = "send" /\ pc'[c] = "answered" /\ res'[c].r # "notrunning"
RelStep == loop.k = "rel" /\ loop'.k = "idle"

\* (P1) a request never takes a name away from its holder
NoTransfer == \A c \in Clients : ReqStep(c) => \A h \in Hosts : (held[h] # None => held'[h] = held[h])

\* (P2) all-or-nothing: a granted Reserve makes the requester the holder of exactly the requested names and
\*      changes nothing else; a refused one changes nothing
AllOrNothing ==
  \A c \in Clients : ReqStep(c) /\ req[c].op = "reserve" =>
     IF res'[c].r = "ok" THEN held' = Grant(held, req[c].d, req[c].names) ELSE held' = held

\* (P3) nothing blocked is granted
BlockedRefused ==
  \A c \in Clients : ReqStep(c) /\ res'[c].r = "ok" => Range(req[c].names) \cap Blocked = {}

\* (P4, P5) the answer is "ok" exactly when no requested name is blocked or held by another deployment --
\*      names the requester already holds are no obstacle (re-reservation), and CanReserve answers what
\*      Reserve would answer in the same state (the decision does not look at the kind of request)
Decides ==
  \A c \in Clients : ReqStep(c) =>
     /\ res'[c].r \in {"ok", "notallowed"}
     /\ (res'[c].r = "ok") <=> (FirstBad(held, req[c].d, req[c].names) = 0)

\* (P5) CanReserve never changes the held set
CanPure == \A c \in Clients : ReqStep(c) /\ req[c].op = "can" => held' = held

\* (P6) Release frees exactly the named hostnames
ReleaseExact == RelStep => held' = Freed(held, loop.names)

\* the held set changes in request steps and release steps only
Frame == held' # held => (RelStep \/ \E c \in Clients : ReqStep(c))

\* (P8) after the loop took the shutdown request nothing is granted or changed; a call that begins after it
\*      is answered ErrNotRunning; ErrNotRunning is given only then
AfterDown ==
  /\ sd = "down" => held' = held /\ sd' = "down"
  /\ \A c \in Clients : pc[c] = "send" /\ pc'[c] = "answered" =>
        /\ late[c] => res'[c].r = "notrunning"
        /\ res'[c].r = "notrunning" => sd = "down"

StepProps == NoTransfer /\ AllOrNothing /\ BlockedRefused /\ Decides /\ CanPure /\ ReleaseExact /\ Frame /\ AfterDown
StepPropsHold == [][StepProps]_vars

\* (P7) every call is answered exactly once: the result channel holds at most the one answer, and only while
\*      the caller has not read it
AnsweredOnce == \A c \in Clients : (res[c].r # "none") <=> (pc[c] = "answered")

\* (P7) no caller blocks for ever: whenever nothing can move (and in particular after shutdown) every caller
\*      has returned -- with bounded calls every behaviour ends, so this is "every call returns"
AllIdle == \A c \in Clients : pc[c] = "idle"
NoOrphan == (ENABLED Progress) \/ (AllIdle /\ loop.k = "idle")
EveryCallReturns == \A c \in Clients : [](pc[c] # "idle" => <>(pc[c] = "idle"))

=============================================================================
