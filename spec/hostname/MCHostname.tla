---------------------------- MODULE MCHostname ----------------------------
(* Model-checking wrapper for Hostname.tla: alphabets, and the J2 exports.                 *)
EXTENDS Hostname, Json

CONSTANTS MaxNames,   \* longest list of names in one call
          GenLen      \* J2: length of the exported call sequences (simulation)

\* every call with at most MaxNames names (duplicates and the empty list included)
FullAlphabet == Requests(MaxNames)

\* a small alphabet for the concurrent configurations: lists without duplicates, in one order
NoDup(s) == \A i, j \in 1..Len(s) : i < j => s[i] # s[j]
SmallAlphabet == {q \in Requests(MaxNames) : NoDup(q.names) /\ (q.op = "release" => Len(q.names) > 0)}

\* ---- J2 (a): one shortest call sequence to every reachable (held, sd) of the one-client model.
\* Run with VIEW view, BFS, one worker: the first state with a given view is reached by a shortest sequence.
Settled == AllIdle /\ loop.k = "idle" /\ sd # "req"
ExportWitness ==
  Settled => PrintT(<<"WITNESS", ToJson([held |-> held, sd |-> sd, hist |-> hist])>>)

\* the alphabet itself
ASSUME PrintT(<<"ALPHABET", Cardinality(Alphabet)>>)

\* ---- J2 (b): simulated behaviours: the calls in the order they were begun, with the shutdown request;
\* used both as long sequential scripts (one client) and as the programs of free-running clients
ExportHist ==
  (Len(hist) = GenLen \/ ~ENABLED Next) => PrintT(<<"HIST", ToJson(hist)>>)
HistBound == Len(hist) <= GenLen

\* probes for coverage sessions (expected to be violated)
NeverRefusedInUse == \A c \in Clients : ~(res[c].r = "notallowed" /\ res[c].why = "inuse")
NeverNotRunning == \A c \in Clients : res[c].r # "notrunning"
=============================================================================
