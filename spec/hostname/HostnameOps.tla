---------------------------- MODULE HostnameOps ----------------------------
(* The sequential meaning of the hostname service's operations (doRequest / doRelease of       *)
(* provider/cluster/hostname.go), shared by Hostname.tla (the concurrent specification),       *)
(* HostnameTrace.tla and HostnameLin.tla (the linearizability check).                          *)
EXTENDS Integers, Sequences, FiniteSets

CONSTANTS Hosts,      \* canonical hostnames (strings)
          Blocked,    \* the blocked ones
          Deps        \* deployment ids (strings)

None == "none"
ASSUME Blocked \subseteq Hosts /\ None \notin Deps /\ None \notin Hosts

Ok == [r |-> "ok", why |-> "", host |-> ""]
NotRunningRes == [r |-> "notrunning", why |-> "", host |-> ""]

Range(s) == {s[i] : i \in 1..Len(s)}
NameSeqs(k) == UNION {[1..j -> Hosts] : j \in 0..k}
Requests(k) == [op : {"reserve", "can"}, d : Deps, names : NameSeqs(k)]
                 \cup [op : {"release"}, d : {None}, names : NameSeqs(k)]

(* the sequential meaning of a request: doRequest walks the names in order; a name is refused  *)
(* when it is blocked, or in use by another deployment                                         *)

Bad(h, d, x) == x \in Blocked \/ (h[x] # None /\ h[x] # d)
BadAt(h, d, names) == {i \in 1..Len(names) : Bad(h, d, names[i])}
FirstBad(h, d, names) == IF BadAt(h, d, names) = {} THEN 0
                         ELSE CHOOSE i \in BadAt(h, d, names) : \A j \in BadAt(h, d, names) : i <= j
Answer(h, d, names) ==
  LET i == FirstBad(h, d, names) IN
  IF i = 0 THEN Ok
  ELSE [r |-> "notallowed", why |-> IF names[i] \in Blocked THEN "blocked" ELSE "inuse", host |-> names[i]]
Grant(h, d, names) == [x \in Hosts |-> IF x \in Range(names) THEN d ELSE h[x]]
Freed(h, names) == [x \in Hosts |-> IF x \in Range(names) THEN None ELSE h[x]]
=============================================================================
