--------------------------- MODULE HostnameTrace ---------------------------
(* J3: trace validation for Hostname.tla.                                                        *)
(*                                                                                               *)
(* trace.ndjson is what harness/hostnameh recorded from the real hostname service: one line per  *)
(* caller step (call, recv, relcall, relret), per loop trace point of provider/cluster/          *)
(* hostname.go (request with the in-use map before and after doRequest, release with the map     *)
(* after doRelease, shutdown) and per harness step (cancel, done, stuck, extra, end); several    *)
(* runs, each beginning with a "reset" line.                                                     *)
(*                                                                                               *)
(* The variables of Hostname.tla are DRIVEN BY THE OBSERVATIONS (held is the map the loop        *)
(* logged, res[c] is what caller c received, ...).  On every observed step                       *)
(*   (i)  the property definitions of Hostname.tla (state predicates Exclusive, BlockedFree,     *)
(*        AnsweredOnce; action formulas NoTransfer, AllOrNothing, BlockedRefused, Decides,       *)
(*        CanPure, ReleaseExact, AfterDown) are evaluated on the observed values -- the verdict; *)
(*        a failure prints <<"V", property, line, run>>;                                         *)
(*   (ii) the step is compared with the action of Hostname.tla it claims to be -- conformance;   *)
(*        a failure prints <<"DRIFT", what, line, run>> (not an alarm).                          *)
(* The walk never stops at a failure: the state continues from the observation.                  *)
(* The hand-over of a release has no trace point (the caller returns at the hand-over, the loop  *)
(* logs after doRelease): it is taken as a silent step LoopTakeRelease when the first of the     *)
(* two lines (relret, release) arrives.  A caller that answers itself ErrNotRunning logs only    *)
(* its recv: the silent step is NotRunning.                                                      *)
EXTENDS Hostname, Json

CONSTANT TMaxNames     \* longest list of names in the recorded calls
TraceAlphabet == Requests(TMaxNames)

Trace == ndJsonDeserialize("trace.ndjson")

VARIABLE l    \* next line to consume
tvars == <<vars, l>>

T == Trace[l]
Is(e) == T.e = e

\* observed in-use map: [name, deployment] pairs -> function; a name with two holders is "multi"
Holders(pairs, h) == {pairs[i][2] : i \in {j \in 1..Len(pairs) : pairs[j][1] = h}}
ObsFn(pairs) == [h \in Hosts |-> IF Holders(pairs, h) = {} THEN None
                                 ELSE IF Cardinality(Holders(pairs, h)) = 1 THEN CHOOSE x \in Holders(pairs, h) : TRUE
                                 ELSE "multi"]
KnownOnly(pairs) == \A i \in 1..Len(pairs) : pairs[i][1] \in Hosts /\ pairs[i][2] \in Deps

V(name, ok) == ok \/ PrintT(<<"V", name, l, T.run>>)
D(name, ok) == ok \/ PrintT(<<"DRIFT", name, l, T.run>>)

Same(xs) == UNCHANGED xs
Step == l' = l + 1
Stay == l' = l

\* the state predicates, on the state the step leads to
StateVerdict ==
  /\ V("Exclusive", Exclusive')
  /\ V("BlockedFree", BlockedFree')
  /\ V("AnsweredOnce", AnsweredOnce')

\* the action formulas, on the observed step
StepVerdict ==
  /\ V("NoTransfer", NoTransfer)
  /\ V("AllOrNothing", AllOrNothing)
  /\ V("BlockedRefused", BlockedRefused)
  /\ V("Decides", Decides)
  /\ V("CanPure", CanPure)
  /\ V("ReleaseExact", ReleaseExact)
  /\ V("Frame", Frame)
  /\ V("AfterDown", AfterDown)

Verdict == StateVerdict /\ StepVerdict

TInit == Init /\ l = 1

OReset ==
  /\ Is("reset")
  /\ held' = [h \in Hosts |-> None] /\ sd' = "run" /\ loop' = IdleLoop
  /\ pc' = [c \in Clients |-> "idle"] /\ req' = [c \in Clients |-> NoReq] /\ res' = [c \in Clients |-> NoRes]
  /\ late' = [c \in Clients |-> FALSE] /\ n' = [c \in Clients |-> 0] /\ hist' = <<>>
  /\ Step

\* ---- callers ----
OCall ==
  /\ Is("call") \/ Is("relcall")
  /\ LET q == [op |-> T.op, d |-> T.d, names |-> T.names] IN
     /\ pc' = [pc EXCEPT ![T.c] = IF T.op = "release" THEN "sendrel" ELSE "send"]
     /\ req' = [req EXCEPT ![T.c] = q]
     /\ late' = [late EXCEPT ![T.c] = (sd = "down")]
     /\ n' = [n EXCEPT ![T.c] = @ + 1]
     /\ Same(<<held, sd, loop, res, hist>>)
     /\ Step
     /\ D("Call", Call(T.c, q))
     /\ D("late", T.late => sd = "down")   \* the harness saw Done() only after the loop's shutdown trace point
     /\ Verdict

ORecv ==
  /\ Is("recv")
  /\ IF pc[T.c] = "send"
     THEN \* silent: the caller saw ShuttingDown() closed and answered itself
          /\ res' = [res EXCEPT ![T.c] = [r |-> T.r, why |-> T.why, host |-> T.host]]
          /\ pc' = [pc EXCEPT ![T.c] = "answered"]
          /\ Same(<<held, sd, loop, req, late, n, hist>>)
          /\ Stay
          /\ D("NotRunning", NotRunning(T.c))
     ELSE /\ pc' = [pc EXCEPT ![T.c] = "idle"]
          /\ res' = [res EXCEPT ![T.c] = NoRes]
          /\ req' = [req EXCEPT ![T.c] = NoReq]
          /\ late' = [late EXCEPT ![T.c] = FALSE]
          /\ Same(<<held, sd, loop, n, hist>>)
          /\ Step
          /\ D("Recv", Recv(T.c) /\ res[T.c].r = T.r)
  /\ Verdict

ORelret ==
  /\ Is("relret")
  /\ IF pc[T.c] = "sendrel"
     THEN \* silent: the hand-over (or, after the loop's shutdown, the dropped release)
          /\ pc' = [pc EXCEPT ![T.c] = "relhanded"]
          /\ loop' = IF sd # "down" THEN [k |-> "rel", names |-> req[T.c].names] ELSE loop
          /\ Same(<<held, sd, req, res, late, n, hist>>)
          /\ Stay
          /\ D("TakeOrDrop", LoopTakeRelease(T.c) \/ RelDropped(T.c))
     ELSE /\ pc' = [pc EXCEPT ![T.c] = "idle"]
          /\ req' = [req EXCEPT ![T.c] = NoReq]
          /\ late' = [late EXCEPT ![T.c] = FALSE]
          /\ Same(<<held, sd, loop, res, n, hist>>)
          /\ Step
          /\ D("RelReturn", RelReturn(T.c))
  /\ Verdict

\* ---- the loop ----
ORequest ==
  /\ Is("request")
  /\ held' = ObsFn(T.post)
  /\ IF T.c \in Clients
     THEN /\ res' = [res EXCEPT ![T.c] = [r |-> T.r, why |-> T.why, host |-> T.host]]
          /\ pc' = [pc EXCEPT ![T.c] = "answered"]
     ELSE Same(<<res, pc>>)
  /\ Same(<<sd, loop, req, late, n, hist>>)
  /\ Step
  /\ V("Frame", ObsFn(T.pre) = held)          \* nothing touched the map since the last loop step
  /\ V("KnownOnly", KnownOnly(T.post))
  /\ D("attributed", T.c \in Clients)
  /\ D("LoopRequest", T.c \in Clients => LoopRequest(T.c))
  /\ D("canonical", T.note = "")
  /\ Verdict

ORelease ==
  /\ Is("release")
  /\ IF loop.k = "rel"
     THEN /\ held' = ObsFn(T.post)
          /\ loop' = IdleLoop
          /\ Same(<<sd, pc, req, res, late, n, hist>>)
          /\ Step
          /\ V("KnownOnly", KnownOnly(T.post))
          /\ D("LoopDoRelease", LoopDoRelease /\ T.names = loop.names)
          /\ D("canonical", T.note = "")
     ELSE \* silent: the hand-over, seen from the loop's side first
          /\ loop' = [k |-> "rel", names |-> T.names]
          /\ pc' = IF T.c \in Clients THEN [pc EXCEPT ![T.c] = "relhanded"] ELSE pc
          /\ Same(<<held, sd, req, res, late, n, hist>>)
          /\ Stay
          /\ D("attributed", T.c \in Clients)
          /\ D("LoopTakeRelease", T.c \in Clients => LoopTakeRelease(T.c))
  /\ Verdict

OShutdown ==
  /\ Is("shutdown")
  /\ sd' = "down"
  /\ Same(<<held, loop, pc, req, res, late, n, hist>>)
  /\ Step
  /\ D("LoopShutdown", LoopShutdown)
  /\ Verdict

\* ---- the harness ----
OCancel ==
  /\ Is("cancel")
  /\ sd' = IF sd = "run" THEN "req" ELSE sd
  /\ Same(<<held, loop, pc, req, res, late, n, hist>>)
  /\ Step
  /\ D("EnvShutdown", EnvShutdown)

ODone ==
  /\ Is("done")
  /\ Same(vars) /\ Step
  /\ D("done", sd = "down")

\* a caller (or the loop) that did not return within the watchdog: "no caller blocks for ever"
OStuck ==
  /\ Is("stuck")
  /\ Same(vars) /\ Step
  /\ V("NoStuck", FALSE)

\* a second value in a result channel: "answered exactly once"
OExtra ==
  /\ Is("extra")
  /\ Same(vars) /\ Step
  /\ V("AnsweredOnce", FALSE)

\* the run is over (context cancelled, loop ended): every caller has returned
OEnd ==
  /\ Is("end")
  /\ Same(vars) /\ Step
  /\ V("NoOrphan", AllIdle /\ loop.k = "idle")
  /\ D("end", sd = "down")
  /\ (l < Len(Trace) \/ PrintT(<<"WALKED", l>>))

TNext ==
  /\ l <= Len(Trace)
  /\ OReset \/ OCall \/ ORecv \/ ORelret \/ ORequest \/ ORelease \/ OShutdown \/ OCancel \/ ODone \/ OStuck \/ OExtra \/ OEnd

TSpec == TInit /\ [][TNext]_tvars
=============================================================================
