\* example; the check generates its own from the universe it used
CONSTANTS
  Hosts = {"f1", "f2", "bx", "bd"}
  Blocked = {"bx", "bd"}
  Deps = {"d1", "d2", "d3"}
SPECIFICATION LSpec
POSTCONDITION Post
CHECK_DEADLOCK FALSE
