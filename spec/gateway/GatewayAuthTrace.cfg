\* J3 verdict run: the universe constants are not used when judging recorded lines (each line carries its case)
CONSTANTS
  Impl = "intended"
  CNs = {}
  Issuers = {}
  Serials = {}
  Keys = {}
  Windows = {}
  Usages = {}
  ChainLens = {}
  Holds = {}
  OnchainCNs = {}
  RegStates = {}
  RegKeys = {}
  RegWindows = {}
  RegUsages = {}
  RegUsagesOk = {}
  RegOthers = {}
  TwoCNs = {}
  Routes = {}
  DTokens = {}
  GTokens = {}
  OTokens = {}
  Extras = {}
  Tickets = TRUE
  Changes = {}
  Presents = {}
  Memory = FALSE
  SharedVerdict = FALSE
INIT Init
NEXT Next
INVARIANTS AuthHolds VpcHolds ScopeHolds ResumeHolds ResumeScopeHolds Conforms RevocationEffective
