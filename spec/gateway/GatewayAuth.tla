------------------------------ MODULE GatewayAuth ------------------------------
(***************************************************************************************************************)
(* C09 -- provider gateway mTLS authentication and tenant scoping.                                             *)
(*                                                                                                             *)
(* An input-quantified property (DESIGN 3.4): there is no interesting interleaving, the statement quantifies   *)
(* over client certificates x chain registry states x request URLs.  This module holds                         *)
(*   (1) the ORACLE: the statement of C09 written declaratively (Authenticate, ScopeOK);                       *)
(*   (2) the PROCEDURE: a transcription of the code's case analysis                                            *)
(*         provider/gateway/utils/utils.go      NewServerTLSConfig(..).VerifyPeerCertificate  -> VerifyPeer    *)
(*         crypto/tls (trusted)                 CertificateVerify = proof of key possession     -> TlsAccept   *)
(*         provider/gateway/rest/middleware.go  requireOwner / requireDeploymentID / requireLeaseID            *)
(*         provider/gateway/rest/router.go      the lease/deployment scoped handlers            -> Served      *)
(*       under the switch Impl: "intended" = the shipped (repaired) code, "asfound" = snapshot 3b65494;        *)
(*   (3) the input universe Cases that TLC enumerates (J1), exports (J2) and whose recorded outcomes on the    *)
(*       real code it judges with (1) in GatewayAuthTrace.tla (J3).                                            *)
(*                                                                                                             *)
(* Abstract world: tenant X (the account whose identity is at stake), another tenant Y (the attacker's own     *)
(* account), this provider P.  Key names k1,k2 are key PAIRS; a certificate "has key k" when its public key is  *)
(* k's public half; a client "holds" a certificate when it owns the private half of the key in it.             *)
(***************************************************************************************************************)
EXTENDS Integers, Sequences, FiniteSets, TLC

CONSTANTS
    Impl,                   \* "intended" | "asfound"
    \* presented (leaf) certificate classes, freshly made by the client
    CNs,                    \* subset of {"X","bad","hrp","empty"}: subject CN = X's address / not bech32 / foreign prefix / ""
    Issuers,                \* subset of {"self","other"}: issuer CN equals subject CN / differs (signed by a private CA)
    Serials,                \* subset of {"s1","s2"}
    Keys,                   \* subset of {"k1","k2"}
    Windows,                \* subset of {"ok","expired","notYet"}   validity window relative to now
    Usages,                 \* subset of {"client","server","both","none"}  extended key usage
    ChainLens,              \* subset of {0,1,2}: certificates sent by the client (0 = none)
    Holds,                  \* subset of BOOLEAN: for a replayed on-chain certificate, does the client own the private key
    OnchainCNs,             \* subset of {"X","Y"}: whose published certificate may be replayed (Y = the other tenant, genuinely)
    \* on-chain certificate classes of (X, s1)
    RegStates, RegKeys, RegWindows, RegUsages,
    RegUsagesOk,            \* further usage classes of (X, s1), crossed only with state valid, key k1, window ok
    RegOthers,              \* subset of BOOLEAN: may (X,s2) and (Y,s1) hold a valid certificate with key k2
    TwoCNs,                 \* subset of BOOLEAN: TRUE = certificates with two CN attributes in the subject are in the universe
    \* request classes
    Routes, DTokens, GTokens, OTokens, Extras,
    \* TLS session resumption
    Tickets,                \* BOOLEAN: the server issues TLS 1.3 session tickets (crypto/tls default; the code as shipped)
    Changes, Presents,      \* subsets of {"none","revoke"} and {"same","nocert"} (see section 4)
    \* sequences of requests by different accounts on ONE gateway (section 5)
    Memory,                 \* BOOLEAN: FALSE = the router keeps nothing between requests (the code as shipped)
    \* handshakes overlapping in the chain query (section 6)
    SharedVerdict           \* BOOLEAN: FALSE = every handshake is verified on its own (the code as shipped)

Accounts      == {"X", "Y"}                 \* CN values that are well formed akash account addresses
SerialUniverse == {"s1", "s2"}
RegIds        == {"X/s1", "X/s2", "Y/s1"}   \* the (owner, serial) slots of the chain registry that are modelled

\* first: the FIRST common-name attribute of the certificate's subject (and issuer): "same" = the subject has one CN only,
\* otherwise the account named by an additional CN attribute placed BEFORE the one that counts.  crypto/x509 reports the
\* LAST CN attribute as Subject.CommonName; the chain (ParseAndValidateCertificate) and the gateway use that one: it is the
\* `cn` of a certificate here and the owner of its registry slot.
None      == [state |-> "none", key |-> "-", window |-> "-", usage |-> "-", first |-> "-"]
Second    == [state |-> "valid", key |-> "k2", window |-> "ok", usage |-> "client", first |-> "same"]
SecondTwo == [Second EXCEPT !.first = "X"]      \* Y's genuine, published certificate whose subject reads CN=X, CN=Y

RegId(o, s)        == o \o "/" \o s
Lookup(reg, o, s)  == IF RegId(o, s) \in DOMAIN reg THEN reg[RegId(o, s)] ELSE None

\* extended key usage classes: client = {ClientAuth}, server = {ServerAuth}, both = {ClientAuth, ServerAuth}, any = {Any},
\* code = {CodeSigning}, none = no EKU at all, unknown = only a purpose crypto/x509 does not know (a private OID),
\* clientUnk = {ClientAuth} + unknown OID, serverUnk = {ServerAuth} + unknown OID.
\* Usable for TLS client authentication per x509 semantics: ClientAuth or Any listed, or no EKU restriction at all
\* (a certificate listing only unknown purposes IS restricted).  Key usage (as opposed to extended key usage) of a leaf
\* is not enforced by the code as built and the statement is silent about it: not modelled.
PermitsClient(u)   == u \in {"client", "both", "none", "any", "clientUnk"}

(***************************************************************************************************************)
(* (1) ORACLE -- the statement.                                                                                *)
(*                                                                                                             *)
(* "treated as account X only if the client proves possession of the private key of a currently valid,         *)
(*  unrevoked certificate that X itself published on chain".  Reading (weak where the text leaves room):       *)
(*   - X published it:   the registry slot is X's own (the chain only stores a certificate under its CN);       *)
(*   - unrevoked:        slot state "valid";                                                                   *)
(*   - same key:         the presented leaf carries that certificate's public key (any serial of X);           *)
(*   - possession:       the client owns the private half (TLS CertificateVerify);                             *)
(*   - currently valid:  the PUBLISHED certificate is inside its validity window and usable for client             *)
(*                       authentication now.  The statement speaks of the certificate X published, not of the one    *)
(*                       presented: the holder of the key of a published certificate that has expired / is not yet   *)
(*                       valid / is not for client authentication must not become X by re-making a certificate       *)
(*                       with the same subject, serial and key and a window and usage of its own choosing.           *)
(*                       (Identity of the presented bytes with the published ones is NOT demanded: an                *)
(*                       implementation that compares keys and checks the published certificate's window and         *)
(*                       usage satisfies the statement; it shows up as drift.)                                       *)
(***************************************************************************************************************)
CertMatches(c, reg) ==
    /\ c.chainLen >= 1
    /\ c.cn \in Accounts
    /\ \E s \in SerialUniverse :
          LET e == Lookup(reg, c.cn, s) IN
          /\ e.state = "valid"
          /\ e.key = c.key
          /\ e.window = "ok"
          /\ PermitsClient(e.usage)

Authenticate(c, reg) == c.holds /\ CertMatches(c, reg)

(* "every lease- or deployment-scoped request is executed only against leases of that authenticated account    *)
(*  at this provider, whatever the URL contains": the id handed to the backend is                              *)
(*  (authenticated owner, the numbers the path denotes, this provider).                                        *)
Denote(tok) == CASE tok \in {"own", "padded"} -> "own"
                 [] tok = "other"             -> "other"
                 [] tok = "zero"              -> "zero"
                 [] OTHER                     -> "bad"      \* alpha, neg, overflow, plus, hex, space

LeaseScoped(m) == m \in {"LeaseStatus", "ServiceStatus", "LeaseEvents", "LeaseLogs", "Exec"}

\* a number in the URL that is well formed must be the number in the id; what a malformed one is turned into is
\* not the statement's business as long as the id stays inside the authenticated account at this provider
\* (the transcribed procedure, and therefore conformance, says such a request is refused)
Carries(field, tok) == Denote(tok) # "bad" => field = Denote(tok)

ScopeOK(s, c, p) ==
    /\ s.owner = c.cn
    /\ Carries(s.dseq, p.dseq)
    /\ LeaseScoped(s.m) =>
          /\ Carries(s.gseq, p.gseq)
          /\ Carries(s.oseq, p.oseq)
          /\ s.provider = "P"

(***************************************************************************************************************)
(* (2) PROCEDURE -- what the code does.                                                                        *)
(***************************************************************************************************************)
VerifyPeer(c, reg) ==                                           \* utils.go VerifyPeerCertificate
    IF c.chainLen = 0 THEN TRUE                                 \* len(certificates) == 0: nothing to verify
    ELSE IF c.chainLen # 1 THEN FALSE                           \* "invalid certificate chain"
    ELSE IF c.cn \notin Accounts THEN FALSE                     \* AccAddressFromBech32(Subject.CommonName)
    ELSE IF c.issuer # "self" THEN Impl = "asfound"             \* as found: errors.Wrap(nil, ..) = nil => ACCEPT (D6b)
    ELSE LET e == Lookup(reg, c.cn, c.serial) IN                \* chain query {owner, serial, state: valid}
         /\ e.state = "valid"
         /\ (Impl = "intended" => c.der = "onchain")            \* repaired: presented DER = published DER (D6)
         /\ c.window = "ok"                                     \* cert.Verify: CurrentTime
         /\ PermitsClient(c.usage)                              \* cert.Verify: ExtKeyUsageClientAuth

TlsAccept(c, reg) ==                                            \* crypto/tls server handshake, RequestClientCert
    IF c.chainLen = 0 THEN TRUE ELSE c.holds /\ VerifyPeer(c, reg)

AcceptedAs(c, reg) == c.chainLen >= 1 /\ TlsAccept(c, reg)      \* requireOwner: owner := leaf CN

Calls(route) == CASE route = "manifest" -> <<"Submit">>
                  [] route = "lstatus"  -> <<"LeaseStatus">>
                  [] route = "sstatus"  -> <<"ServiceStatus">>
                  [] route = "events"   -> <<"LeaseEvents">>
                  [] route = "logs"     -> <<"LeaseLogs">>
                  [] route = "shell"    -> <<"IsActive", "Exec">>

Call(m, owner, d, g, o) ==
    IF LeaseScoped(m) THEN [m |-> m, owner |-> owner, dseq |-> d, gseq |-> g,   oseq |-> o,   provider |-> "P"]
                      ELSE [m |-> m, owner |-> owner, dseq |-> d, gseq |-> "-", oseq |-> "-", provider |-> "-"]

\* extra = "badparams": the request's own parameters are malformed (manifest: body is not JSON; events: follow=maybe;
\* logs: tail=-5; shell: podIndex missing).  The stream routes refuse in requestStreamParams before the handler runs, the
\* manifest handler before Submit, the shell handler AFTER it has asked the manifest service whether the deployment is active.
Route(owner, p) ==                                              \* middleware.go + router.go, for a request of `owner`
    LET d == Denote(p.dseq)  g == Denote(p.gseq)  o == Denote(p.oseq)
        ms == IF p.extra # "badparams" THEN Calls(p.route)
              ELSE IF p.route = "shell" THEN <<"IsActive">>
              ELSE IF p.route \in {"manifest", "events", "logs"} THEN <<>> ELSE Calls(p.route)
    IN
    IF p.route = "manifest"
    THEN IF d = "bad" THEN <<>>                                                    \* 400 from requireDeploymentID
         ELSE [i \in 1..Len(ms) |-> Call(ms[i], owner, d, "-", "-")]
    ELSE IF "bad" \in {d, g, o} THEN <<>>                                          \* 400 from requireLeaseID
    ELSE [i \in 1..Len(ms) |-> Call(ms[i], owner, d, g, o)]

Served(c, reg, p) ==
    IF ~AcceptedAs(c, reg) THEN <<>>                            \* handshake refused, or 401 without a certificate
    ELSE Route(c.cn, p)

(***************************************************************************************************************)
(* (3) the input universe                                                                                      *)
(***************************************************************************************************************)
(* TLC evaluates UNION / \cup on large sets quadratically, so the universe is written as filters over products     *)
(* of small sets and the two halves are never united: Init of MC_GatewayAuth is their disjunction.              *)
EntriesXs1   == {None} \cup [state : RegStates, key : RegKeys, window : RegWindows, usage : RegUsages, first : {"same"}]
                       \cup [state : {"valid"}, key : {"k1"}, window : {"ok"}, usage : RegUsagesOk, first : {"same"}]
                       \* X's own certificate whose subject reads CN=Y, CN=X
                       \cup [state : RegStates, key : {"k1"}, window : {"ok"}, usage : {"client"}, first : {"Y" : b \in TwoCNs \ {FALSE}}]
EntriesOther == {None} \cup {Second : b \in RegOthers \ {FALSE}}
EntriesYs1   == EntriesOther \cup {SecondTwo : b \in TwoCNs \ {FALSE}}

Regs == { r \in { [id \in RegIds |-> CASE id = "X/s1" -> a [] id = "X/s2" -> b [] OTHER -> y] :
                    a \in EntriesXs1, b \in EntriesOther, y \in EntriesYs1 } :
            \* the two-CN certificates are crossed with the plain registries only
            /\ r["Y/s1"].first = "X" => (r["X/s2"] = None /\ r["X/s1"].first \in {"-", "same"})
            /\ r["X/s1"].first = "Y" => r["X/s2"] = None }

NoCert == [cn |-> "-", first |-> "-", issuer |-> "-", serial |-> "-", key |-> "-", window |-> "-", usage |-> "-",
           chainLen |-> 0, der |-> "none", holds |-> FALSE]

\* a certificate the client makes itself (and therefore holds); with a second CN attribute in front if TwoCNs
FreshCerts == { c \in [cn : CNs, first : {"same"} \cup {"Y" : b \in TwoCNs \ {FALSE}}, issuer : Issuers, serial : Serials,
                       key : Keys, window : Windows, usage : Usages, chainLen : ChainLens \ {0}, der : {"fresh"}, holds : {TRUE}] :
                  c.first = "Y" => (c.cn = "X" /\ c.window = "ok" /\ c.usage = "client" /\ c.chainLen = 1) }

\* the client replays the very bytes X published (with or without owning the private key): the attributes are
\* those of the registry entry
OnchainUniverse == [cn : OnchainCNs, first : {"same", "X", "Y"}, issuer : {"self"}, serial : SerialUniverse, key : RegKeys \cup {"k2"},
                    window : RegWindows \cup {"ok"}, usage : RegUsages \cup RegUsagesOk \cup {"client"},
                    chainLen : ChainLens \ {0}, der : {"onchain"}, holds : Holds]
IsOnchainOf(c, reg) == LET e == Lookup(reg, c.cn, c.serial) IN
                       e.state # "none" /\ c.key = e.key /\ c.window = e.window /\ c.usage = e.usage /\ c.first = e.first

CertUniverse == FreshCerts \cup OnchainUniverse \cup {NoCert : n \in ChainLens \cap {0}}
CertFor(c, reg) == c.der # "onchain" \/ IsOnchainOf(c, reg)      \* c is a certificate that can be presented under reg

DefaultPath == [route |-> "lstatus", dseq |-> "own", gseq |-> "own", oseq |-> "own", extra |-> "none"]

HasParams(r) == r \in {"manifest", "events", "logs", "shell"}
Paths == { p \in [route : Routes, dseq : DTokens, gseq : GTokens, oseq : OTokens, extra : Extras] :
             /\ p.route = "manifest" => (p.gseq = "own" /\ p.oseq = "own")    \* the deployment route has one id only
             /\ p.extra = "badparams" => HasParams(p.route) }

\* the scope half varies the URL for a handful of client classes (genuine, forged in each way, none)
ScopeRegs  == { r \in Regs : /\ r["X/s2"] = None
                             /\ r["Y/s1"] # None => (r["X/s1"].state = "valid" /\ r["X/s1"].first = "same")   \* the other tenant next to a genuine X
                             /\ r["X/s1"].key \in {"-", "k1"} /\ r["X/s1"].window \in {"-", "ok"}
                             /\ r["X/s1"].usage \in {"-", "client"}
                             /\ r["X/s1"].first = "Y" => r["X/s1"].state = "valid" }
ScopeCertUniverse == { c \in CertUniverse : (c.der = "fresh" => c.first = "same") /\
                                            \/ c.chainLen = 0
                                            \/ /\ c.chainLen = 1 /\ c.cn \in {"X", "Y"} /\ c.serial = "s1" /\ c.holds
                                               /\ c.window = "ok" /\ c.usage = "client" }

AuthCases  == { k \in [kind : {"case"}, cert : CertUniverse,      reg : Regs,      path : {DefaultPath}] : CertFor(k.cert, k.reg) }
ScopeCases == { k \in [kind : {"case"}, cert : ScopeCertUniverse, reg : ScopeRegs, path : Paths]         : CertFor(k.cert, k.reg) }

Genuine(c, reg) ==      \* the client the gateway exists to serve: replays its own published, usable certificate
    /\ c.der = "onchain" /\ c.holds /\ c.chainLen = 1
    /\ Lookup(reg, c.cn, c.serial).state = "valid" /\ c.window = "ok" /\ PermitsClient(c.usage)

WellFormedPath(p) == "bad" \notin {Denote(p.dseq)} \cup (IF p.route = "manifest" THEN {} ELSE {Denote(p.gseq), Denote(p.oseq)})

(***************************************************************************************************************)
(* (4) TLS session resumption (crypto/tls, server side; the gateway leaves SessionTicketsDisabled = false).       *)
(* Every accepted handshake -- with or without a client certificate -- is answered with a session ticket.  A      *)
(* later connection that offers the ticket is RESUMED: no Certificate message is exchanged, the callback           *)
(* VerifyPeerCertificate is NOT invoked, the peer certificates of the original connection are restored from the    *)
(* ticket and requireOwner reads the owner from them.  Nothing the client configures on the second connection      *)
(* ("same" certificate or "nocert") and nothing that happened to the registry in between ("revoke") matters.       *)
(* A "resume" case = first connection (cert under reg, default request), change, second connection (path).        *)
(***************************************************************************************************************)
ApplyChange(reg, ch) ==
    IF ch = "revoke" /\ reg["X/s1"].state = "valid" THEN [reg EXCEPT !["X/s1"].state = "revoked"] ELSE reg

Presented(c, present) == IF present = "same" THEN c ELSE NoCert

Resumes(c, reg)       == Tickets /\ TlsAccept(c, reg)           \* a ticket was handed out and is honoured
Identity2(c, reg, present)      == IF Resumes(c, reg) THEN c ELSE Presented(c, present)
Tls2(c, reg, ch, present)       == Resumes(c, reg) \/ TlsAccept(Presented(c, present), ApplyChange(reg, ch))
AcceptedAs2(c, reg, ch, present) ==
    IF Resumes(c, reg) THEN c.chainLen >= 1                     \* identity restored from the ticket, nothing re-verified
    ELSE AcceptedAs(Presented(c, present), ApplyChange(reg, ch))
Served2(c, reg, ch, present, p) ==
    IF AcceptedAs2(c, reg, ch, present) THEN Route(Identity2(c, reg, present).cn, p) ELSE <<>>

ResumePaths == { p \in Paths : p.route = "lstatus" /\ p.gseq = "own" /\ p.oseq = "own" /\ p.extra # "badparams" }
ResumeCases == { k \in [kind : {"resume"}, cert : ScopeCertUniverse, reg : ScopeRegs, change : Changes,
                        present : Presents, path : ResumePaths] :
                    CertFor(k.cert, k.reg) /\ k.reg["Y/s1"] = None /\ k.reg["X/s1"].first \in {"-", "same"} }

(***************************************************************************************************************)
(* (5) HISTORY: a sequence of requests, by different authenticated accounts, on ONE running gateway.              *)
(* The statement's second sentence holds for every request whatever the gateway has served before: the oracle is   *)
(* stateless, the system it is applied to need not be.  A "seq" case is a registry and a sequence of steps         *)
(* [cert, path]; every step is its own TLS connection.  The shipped router keeps nothing between requests          *)
(* (Memory = FALSE: step k is served exactly like the single case).  Memory = TRUE describes a router that          *)
(* remembers, per URL coordinates (dseq, gseq, oseq) -- NOT per owner --, the lease id it resolved first           *)
(* (seeded change C09-4); it exists only as a discrimination test (MC_memory.cfg must fail SeqSound).              *)
(***************************************************************************************************************)
IsLeaseRoute(p)   == p.route # "manifest"
Coords(p)         == <<p.dseq, p.gseq, p.oseq>>
Resolves(st, reg) == AcceptedAs(st.cert, reg) /\ IsLeaseRoute(st.path) /\ WellFormedPath(st.path)

OwnerAt(steps, reg, k) ==
    IF ~Memory \/ ~IsLeaseRoute(steps[k].path) THEN steps[k].cert.cn
    ELSE LET earlier == { j \in 1..k : Resolves(steps[j], reg) /\ Coords(steps[j].path) = Coords(steps[k].path) } IN
         IF earlier = {} THEN steps[k].cert.cn
         ELSE steps[CHOOSE j \in earlier : \A i \in earlier : j <= i].cert.cn
ServedAt(steps, reg, k) ==
    IF ~AcceptedAs(steps[k].cert, reg) THEN <<>> ELSE Route(OwnerAt(steps, reg, k), steps[k].path)

\* two tenants with genuine certificates of their own, the same URL coordinates, every pair of scoped routes, both orders
SeqReg   == [id \in RegIds |-> CASE id = "X/s1" -> [state |-> "valid", key |-> "k1", window |-> "ok", usage |-> "client", first |-> "same"]
                                  [] id = "X/s2" -> None [] OTHER -> Second]
GenuineOf(a) == [cn |-> a, first |-> "same", issuer |-> "self", serial |-> "s1", key |-> SeqReg[RegId(a, "s1")].key,
                 window |-> "ok", usage |-> "client", chainLen |-> 1, der |-> "onchain", holds |-> TRUE]
SeqPaths == { p \in Paths : p.dseq \in {"own", "other"} /\ p.gseq = "own" /\ p.oseq = "own" /\ p.extra = "none" }
SeqCase(a, b, p, q) == [kind |-> "seq", reg |-> SeqReg,
                        steps |-> << [cert |-> GenuineOf(a), path |-> p], [cert |-> GenuineOf(b), path |-> q],
                                     [cert |-> GenuineOf(a), path |-> q] >>]
SeqCases == { SeqCase(t[1], t[2], t[3], t[4]) :
                t \in { u \in {"X", "Y"} \X {"X", "Y"} \X SeqPaths \X SeqPaths : u[1] # u[2] /\ u[3].dseq = u[4].dseq } }

(***************************************************************************************************************)
(* (6) OVERLAP: handshakes that are in VerifyPeerCertificate at the same time on one gateway.                      *)
(* A "race" case is a registry and steps <<holder, joiner, joiner>>: the holder's chain query for (cn, serial) is   *)
(* held open, the joiners' handshakes are started, then the query is released.  The statement holds for every       *)
(* handshake whatever it overlaps with; the shipped code verifies each one on its own (SharedVerdict = FALSE: a     *)
(* step's outcome is the single case's).  SharedVerdict = TRUE describes a gateway in which handshakes in flight    *)
(* for the same certificate id (owner, serial) share the VERDICT of one chain round trip, including the comparison  *)
(* of the presented bytes with the published ones (seeded change C09-7); it exists only as a discrimination test    *)
(* (MC_shared.cfg must fail RaceSound).                                                                            *)
(***************************************************************************************************************)
ReachesLookup(c) == c.chainLen = 1 /\ c.cn \in Accounts /\ c.issuer = "self"
ChainVerdict(c, reg) == Lookup(reg, c.cn, c.serial).state = "valid" /\ c.der = "onchain"      \* steps 3 and 4 of utils.go
VerifyAt(steps, reg, k) ==
    LET c == steps[k].cert  h == steps[1].cert IN
    IF SharedVerdict /\ k > 1 /\ ReachesLookup(c) /\ ReachesLookup(h) /\ c.cn = h.cn /\ c.serial = h.serial
    THEN ChainVerdict(h, reg) /\ c.window = "ok" /\ PermitsClient(c.usage)       \* joins the holder's flight
    ELSE VerifyPeer(c, reg)
AcceptedAt(steps, reg, k) == steps[k].cert.chainLen >= 1 /\ steps[k].cert.holds /\ VerifyAt(steps, reg, k)

RaceRegs == { [id \in RegIds |-> CASE id = "X/s1" -> [state |-> st, key |-> "k1", window |-> "ok", usage |-> "client", first |-> "same"]
                                   [] OTHER -> None] : st \in {"valid", "revoked"} }
GenuineX(h)  == [cn |-> "X", first |-> "same", issuer |-> "self", serial |-> "s1", key |-> "k1", window |-> "ok",
                 usage |-> "client", chainLen |-> 1, der |-> "onchain", holds |-> h]
ForgedX(s)   == [cn |-> "X", first |-> "same", issuer |-> "self", serial |-> s, key |-> "k2", window |-> "ok",
                 usage |-> "client", chainLen |-> 1, der |-> "fresh", holds |-> TRUE]
RaceHolders  == {GenuineX(TRUE), ForgedX("s1")}
RaceJoiners  == {GenuineX(TRUE), GenuineX(FALSE), ForgedX("s1"), ForgedX("s2")}
RaceCases == { [kind |-> "race", reg |-> t[1],
                steps |-> << [cert |-> t[2], path |-> DefaultPath], [cert |-> t[3], path |-> DefaultPath],
                             [cert |-> t[4], path |-> DefaultPath] >>] :
                 t \in RaceRegs \X RaceHolders \X RaceJoiners \X RaceJoiners }

(***************************************************************************************************************)
(* THE PROPERTY, parametrised by an outcome.  J1 instantiates it with the outcome the transcribed procedure     *)
(* computes (MC_GatewayAuth); J3 instantiates the same definitions with the outcome recorded from the real      *)
(* gateway (GatewayAuthTrace).  Only the "only if" direction is demanded (DESIGN 5.1).                          *)
(*   accepted : the TLS handshake presenting c completed and the request reached the router as account c.cn      *)
(*   vpc      : VerifyPeerCertificate(chain of c) returned nil                                                   *)
(*   served   : the scoped calls that reached the back end                                                       *)
(***************************************************************************************************************)
AuthProp(c, reg, accepted)             == accepted => Authenticate(c, reg)
VpcProp(c, reg, vpc)                   == (c.chainLen >= 1 /\ vpc) => CertMatches(c, reg)
ScopeProp(c, reg, p, accepted, served) == \A i \in 1..Len(served) : accepted /\ ScopeOK(served[i], c, p)
\* not vacuous: the genuine client is accepted and, on a well formed URL, served by every call of the route
CompleteProp(c, reg, p, accepted, served) ==
    Genuine(c, reg) => /\ accepted
                       /\ (WellFormedPath(p) /\ p.extra # "badparams") => Len(served) = Len(Calls(p.route))

(* Resumption.  `resumed` says which proof of possession the second connection rests on: the one given on the       *)
(* first connection (under the registry of that time) or a fresh one.  Weak reading, the verdict: "currently" is   *)
(* the moment possession was proven.  Strict reading (RevocationProp, reported as an OBSERVATION, never as a       *)
(* violation): the certificate must still be valid and unrevoked when the new connection is made.                  *)
ResumeProp(c, reg, ch, present, resumed, accepted) ==
    accepted => IF resumed THEN Authenticate(c, reg)
                           ELSE Authenticate(Presented(c, present), ApplyChange(reg, ch))
RevocationProp(c, reg, ch, present, resumed, accepted) ==
    accepted => Authenticate(IF resumed THEN c ELSE Presented(c, present), ApplyChange(reg, ch))
================================================================================
