\* thorough universe: all attribute classes crossed (every case is replayed on the code in the thorough tier)
CONSTANTS
  Impl = "intended"
  CNs = {"X", "bad", "hrp", "empty"}
  Issuers = {"self", "other"}
  Serials = {"s1", "s2"}
  Keys = {"k1", "k2"}
  Windows = {"ok", "expired", "notYet"}
  Usages = {"client", "server", "both", "none"}
  ChainLens = {0, 1, 2, 3}
  Holds = {TRUE, FALSE}
  OnchainCNs = {"X", "Y"}
  RegStates = {"valid", "revoked"}
  RegKeys = {"k1", "k2"}
  RegWindows = {"ok", "expired", "notYet"}
  RegUsages = {"client", "server", "both", "none"}
  RegUsagesOk = {"unknown", "any", "code", "clientUnk", "serverUnk"}
  RegOthers = {TRUE}
  TwoCNs = {TRUE}
  Routes = {"manifest", "lstatus", "sstatus", "events", "logs", "shell"}
  DTokens = {"own", "other", "padded", "zero", "alpha", "neg", "plus", "hex", "space", "overflow"}
  GTokens = {"own", "other", "zero", "alpha", "neg", "overflow"}
  OTokens = {"own", "other", "zero", "alpha", "neg", "overflow"}
  Extras = {"none", "spoof", "badparams"}
  Tickets = TRUE
  Changes = {"none", "revoke"}
  Presents = {"same", "nocert"}
  Memory = FALSE
  SharedVerdict = FALSE
INIT Init
NEXT Next
INVARIANTS AuthSound VpcSound ScopeSound Complete ResumeSound ResumeScope SeqSound RaceSound
