--------------------------- MODULE GatewayAuthTrace ---------------------------
(* J3: TLC judges what the real gateway did.  trace.ndjson holds one line per executed case:                     *)
(*   [i, cert, reg, path,  vpc, tls, status, served, ...]                                                         *)
(* cert/reg/path are the abstract case as exported by MC_GatewayAuth, vpc/tls/served are the outcome recorded     *)
(* from the real code (harness/gatewayh).  Cases are independent, so every line is an initial state and the       *)
(* properties are state invariants; TLC is run with -continue so that every violating line is reported.           *)
(*   AuthHolds, VpcHolds, ScopeHolds : the property of GatewayAuth.tla on the observed outcome   (the verdict)    *)
(*   Conforms                        : the observed outcome is the one the transcribed procedure computes (drift) *)
EXTENDS GatewayAuth, Json

Trace == ndJsonDeserialize("trace.ndjson")

VARIABLE l
Init == l \in 1..Len(Trace)
Next == UNCHANGED l

Obs      == Trace[l]
IsCase   == Obs.kind = "case"
IsResume == Obs.kind = "resume"
Accepted == Obs.cert.chainLen >= 1 /\ Obs.tls      \* the router saw the request as coming from account Obs.cert.cn

AuthHolds  == IsCase => AuthProp(Obs.cert, Obs.reg, Accepted)
VpcHolds   == IsCase => VpcProp(Obs.cert, Obs.reg, Obs.vpc)
ScopeHolds == IsCase => ScopeProp(Obs.cert, Obs.reg, Obs.path, Accepted, Obs.served)

\* resume lines: tls0 = first connection accepted, resumed = the second one was a session resumption (client side)
Ident     == IF Obs.resumed THEN Obs.cert ELSE Presented(Obs.cert, Obs.present)
Accepted2 == Obs.tls /\ Ident.chainLen >= 1
ResumeHolds      == IsResume => ResumeProp(Obs.cert, Obs.reg, Obs.change, Obs.present, Obs.resumed, Accepted2)
ResumeScopeHolds == IsResume => ScopeProp(Ident, Obs.reg, Obs.path, Accepted2, Obs.served)
\* strict reading, an OBSERVATION only
RevocationEffective == IsResume => RevocationProp(Obs.cert, Obs.reg, Obs.change, Obs.present, Obs.resumed, Accepted2)

Conforms ==
    /\ IsCase => /\ Obs.vpc = VerifyPeer(Obs.cert, Obs.reg)
                 /\ Obs.tls = TlsAccept(Obs.cert, Obs.reg)
                 /\ Obs.served = Served(Obs.cert, Obs.reg, Obs.path)
    /\ IsResume => /\ Obs.tls0 = TlsAccept(Obs.cert, Obs.reg)
                   /\ Obs.resumed = Resumes(Obs.cert, Obs.reg)
                   /\ Obs.tls = Tls2(Obs.cert, Obs.reg, Obs.change, Obs.present)
                   /\ Obs.served = Served2(Obs.cert, Obs.reg, Obs.change, Obs.present, Obs.path)
================================================================================
