\* quick universe: every class of the statement's quantifier, small cross product (all of it replayed on the code)
CONSTANTS
  Impl = "intended"
  CNs = {"X", "bad"}
  Issuers = {"self", "other"}
  Serials = {"s1", "s2"}
  Keys = {"k1", "k2"}
  Windows = {"ok", "expired", "notYet"}
  Usages = {"client", "server"}
  ChainLens = {0, 1, 2}
  Holds = {TRUE, FALSE}
  OnchainCNs = {"X", "Y"}
  RegStates = {"valid", "revoked"}
  RegKeys = {"k1", "k2"}
  RegWindows = {"ok", "expired", "notYet"}
  RegUsages = {"client", "server"}
  RegUsagesOk = {"unknown", "any", "code", "clientUnk", "serverUnk"}
  RegOthers = {TRUE}
  TwoCNs = {TRUE}
  Routes = {"manifest", "lstatus", "sstatus", "events", "logs", "shell"}
  DTokens = {"own", "other", "alpha", "overflow"}
  GTokens = {"own", "other", "alpha"}
  OTokens = {"own", "overflow"}
  Extras = {"none", "spoof", "badparams"}
  Tickets = TRUE
  Changes = {"none", "revoke"}
  Presents = {"same", "nocert"}
  Memory = FALSE
  SharedVerdict = FALSE
INIT Init
NEXT Next
INVARIANTS AuthSound VpcSound ScopeSound Complete ResumeSound ResumeScope SeqSound RaceSound
