\* handshakes in flight for the same certificate id share one verdict (seeded C09-7): EXPECTED to fail RaceSound (discrimination test)
CONSTANTS
  Impl = "intended"
  CNs = {"X", "bad"}
  Issuers = {"self", "other"}
  Serials = {"s1", "s2"}
  Keys = {"k1", "k2"}
  Windows = {"ok", "expired", "notYet"}
  Usages = {"client", "server"}
  ChainLens = {0, 1, 2}
  Holds = {TRUE, FALSE}
  OnchainCNs = {"X", "Y"}
  RegStates = {"valid", "revoked"}
  RegKeys = {"k1", "k2"}
  RegWindows = {"ok", "expired", "notYet"}
  RegUsages = {"client", "server"}
  RegUsagesOk = {"unknown", "any", "code", "clientUnk", "serverUnk"}
  RegOthers = {TRUE}
  TwoCNs = {TRUE}
  Routes = {"manifest", "lstatus", "sstatus", "events", "logs", "shell"}
  DTokens = {"own", "other", "alpha", "overflow"}
  GTokens = {"own", "other", "alpha"}
  OTokens = {"own", "overflow"}
  Extras = {"none", "spoof", "badparams"}
  Tickets = TRUE
  Changes = {"none", "revoke"}
  Presents = {"same", "nocert"}
  Memory = FALSE
  SharedVerdict = TRUE
INIT Init
NEXT Next
INVARIANTS RaceSound
