---------------------------- MODULE MC_GatewayAuth ----------------------------
(* J1: the property of GatewayAuth instantiated with the outcome the TRANSCRIBED PROCEDURE computes, on every     *)
(* case of the universe (one case = one initial state; an input-quantified property has no steps).                *)
(* J2: the same enumeration written out as ndjson, one abstract case per line, for the Go harness to concretise   *)
(* and run on the real gateway.                                                                                   *)
EXTENDS GatewayAuth, Json, SequencesExt

VARIABLE case
Init == case \in AuthCases \/ case \in ScopeCases \/ case \in ResumeCases \/ case \in SeqCases \/ case \in RaceCases
Next == UNCHANGED case
Spec == Init /\ [][Next]_case

IsCase   == case.kind = "case"
IsResume == case.kind = "resume"
Acc  == AcceptedAs(case.cert, case.reg)
Srv  == Served(case.cert, case.reg, case.path)

AuthSound  == IsCase => AuthProp(case.cert, case.reg, Acc)
VpcSound   == IsCase => VpcProp(case.cert, case.reg, VerifyPeer(case.cert, case.reg))
ScopeSound == IsCase => ScopeProp(case.cert, case.reg, case.path, Acc, Srv)
Complete   == IsCase => CompleteProp(case.cert, case.reg, case.path, Acc, Srv)

Acc2 == AcceptedAs2(case.cert, case.reg, case.change, case.present)
Id2  == Identity2(case.cert, case.reg, case.present)
ResumeSound == IsResume => ResumeProp(case.cert, case.reg, case.change, case.present, Resumes(case.cert, case.reg), Acc2)
ResumeScope == IsResume => ScopeProp(Id2, case.reg, case.path, Acc2,
                                     Served2(case.cert, case.reg, case.change, case.present, case.path))
\* NOT an invariant of the shipped code (MC_strict.cfg shows the counterexample): revocation reaches resumed sessions
RevocationEffective == IsResume => RevocationProp(case.cert, case.reg, case.change, case.present,
                                                  Resumes(case.cert, case.reg), Acc2)

\* sequences: the stateless property on every step, with the outcome of the (possibly remembering) procedure
IsSeq    == case.kind = "seq"
SeqSound == IsSeq => \A k \in 1..Len(case.steps) :
                LET st == case.steps[k]  acc == AcceptedAs(st.cert, case.reg) IN
                /\ AuthProp(st.cert, case.reg, acc)
                /\ ScopeProp(st.cert, case.reg, st.path, acc, ServedAt(case.steps, case.reg, k))
                /\ CompleteProp(st.cert, case.reg, st.path, acc, ServedAt(case.steps, case.reg, k))

\* overlapping handshakes: the stateless property on every step, with the outcome of the (possibly verdict-sharing) procedure
IsRace    == case.kind = "race"
RaceSound == IsRace => \A k \in 1..Len(case.steps) :
                 LET st == case.steps[k]  acc == AcceptedAt(case.steps, case.reg, k) IN
                 /\ AuthProp(st.cert, case.reg, acc)
                 /\ CompleteProp(st.cert, case.reg, st.path, acc, IF acc THEN Route(st.cert.cn, st.path) ELSE <<>>)

ASSUME ndJsonSerialize("cases_race.ndjson", SetToSeq(RaceCases))
ASSUME PrintT(<<"race", [n |-> Cardinality(RaceCases)]>>)
ASSUME ndJsonSerialize("cases_seq.ndjson", SetToSeq(SeqCases))
ASSUME PrintT(<<"seq", [n |-> Cardinality(SeqCases)]>>)
ASSUME ndJsonSerialize("cases_auth.ndjson",  SetToSeq(AuthCases))
ASSUME ndJsonSerialize("cases_scope.ndjson", SetToSeq(ScopeCases))
ASSUME ndJsonSerialize("cases_resume.ndjson", SetToSeq(ResumeCases))

\* measured sizes of the universe and of its interesting classes (parsed into the evidence file)
Count(S) == [ n         |-> Cardinality(S),
              accepted  |-> Cardinality({k \in S : AcceptedAs(k.cert, k.reg)}),
              genuine   |-> Cardinality({k \in S : Genuine(k.cert, k.reg)}),
              \* the oracle would allow it, the code refuses it (strictness; never a violation)
              stricter  |-> Cardinality({k \in S : Authenticate(k.cert, k.reg) /\ ~AcceptedAs(k.cert, k.reg)}) ]
ASSUME PrintT(<<"universe", [regs |-> Cardinality(Regs), certs |-> Cardinality(CertUniverse), paths |-> Cardinality(Paths)]>>)
ASSUME PrintT(<<"auth", Count(AuthCases)>>)
ASSUME PrintT(<<"scope", Count(ScopeCases)>>)
ASSUME PrintT(<<"resume", [ n       |-> Cardinality(ResumeCases),
                            resumed |-> Cardinality({k \in ResumeCases : Resumes(k.cert, k.reg)}),
                            accepted |-> Cardinality({k \in ResumeCases : AcceptedAs2(k.cert, k.reg, k.change, k.present)}),
                            strictReadingFails |-> Cardinality({k \in ResumeCases :
                                ~RevocationProp(k.cert, k.reg, k.change, k.present, Resumes(k.cert, k.reg),
                                                AcceptedAs2(k.cert, k.reg, k.change, k.present))}) ]>>)
================================================================================
