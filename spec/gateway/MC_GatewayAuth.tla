---------------------------- MODULE MC_GatewayAuth ----------------------------
(* J1: the property of GatewayAuth instantiated with the outcome the TRANSCRIBED PROCEDURE computes, on every     *)
(* case of the universe (one case = one initial state; an input-quantified property has no steps).                *)
(* J2: the same enumeration written out as ndjson, one abstract case per line, for the Go harness to concretise   *)
(* and run on the real gateway.                                                                                   *)
EXTENDS GatewayAuth, Json, SequencesExt

VARIABLE case
Init == case \in AuthCases \/ case \in ScopeCases
Next == UNCHANGED case
Spec == Init /\ [][Next]_case

Acc  == AcceptedAs(case.cert, case.reg)
Srv  == Served(case.cert, case.reg, case.path)

AuthSound  == AuthProp(case.cert, case.reg, Acc)
VpcSound   == VpcProp(case.cert, case.reg, VerifyPeer(case.cert, case.reg))
ScopeSound == ScopeProp(case.cert, case.reg, case.path, Acc, Srv)
Complete   == CompleteProp(case.cert, case.reg, case.path, Acc, Srv)

ASSUME ndJsonSerialize("cases_auth.ndjson",  SetToSeq(AuthCases))
ASSUME ndJsonSerialize("cases_scope.ndjson", SetToSeq(ScopeCases))

\* measured sizes of the universe and of its interesting classes (parsed into the evidence file)
Count(S) == [ n         |-> Cardinality(S),
              accepted  |-> Cardinality({k \in S : AcceptedAs(k.cert, k.reg)}),
              genuine   |-> Cardinality({k \in S : Genuine(k.cert, k.reg)}),
              \* the oracle would allow it, the code refuses it (strictness; never a violation)
              stricter  |-> Cardinality({k \in S : Authenticate(k.cert, k.reg) /\ ~AcceptedAs(k.cert, k.reg)}) ]
ASSUME PrintT(<<"universe", [regs |-> Cardinality(Regs), certs |-> Cardinality(CertUniverse), paths |-> Cardinality(Paths)]>>)
ASSUME PrintT(<<"auth", Count(AuthCases)>>)
ASSUME PrintT(<<"scope", Count(ScopeCases)>>)
================================================================================
