---------------------------- MODULE MC_ChainQuery ----------------------------
(***************************************************************************)
(* J1 / J2 instantiation of ChainQuery over the marketplace state machine  *)
(* of spec/chain (MC_Chain: st, last, hist and its Next).                  *)
(*                                                                         *)
(* AskMode = "gen"   The chain moves by the transactions of MC_Chain       *)
(*   (ChainStep); nothing is asked.  QShape prints, for every state TLC    *)
(*   visits, its action path and its SHAPE (which records exist, in which  *)
(*   lifecycle state): the check picks states of distinct shapes as roots. *)
(* AskMode = "full"  The initial states are the roots (roots.ndjson: one   *)
(*   action path per line, replayed with Apply).  In a root the query      *)
(*   servers are asked one request (Ask: qr = the request and the response *)
(*   of a faithful server that computes QOp), or a paging client walks a   *)
(*   listing page by page (WalkStart / WalkNext / WalkEnd).  EVERY request *)
(*   of the request universe of the state is a step; the properties are    *)
(*   invariants on qr.  QExport prints the request plan of every root for  *)
(*   the harness (J2).  The servers are read-only: no action changes st.   *)
(* AskMode = "wwalk" The initial states are roots as well; a paging client *)
(*   walks a listing (WWStart / WWNext / WWEnd) WHILE the chain moves:     *)
(*   WWWrite commits any successful transaction of MC_Chain's ActionSet    *)
(*   between two pages (at most MaxWrites per walk).  QWWalkOK judges      *)
(*   P_WalkStable on every finished walk; QWExport prints its schedule.    *)
(***************************************************************************)
EXTENDS MC_Chain, ChainQuery

CONSTANTS AskMode, MaxPages, MaxWrites

VARIABLES qr, ses, rt, kx      \* rt: index of the root; kx = MkK(st), carried along so that it is computed once per state
qvars == <<st, last, hist, qr, ses, rt, kx>>

QNone  == [q |-> [op |-> "none"], r |-> ErrResp("")]
SIdle  == [on |-> FALSE]
MCD(S) == [s \in {"dep", "grp", "ord", "bid", "lease", "prov", "attest", "eacct", "epay"} |-> [id \in DOMAIN StoreOf(S, s) |-> "x"]]
MCX(S) == [S |-> S, D |-> MCD(S), K |-> kx]
Serve(X, q) == Realize(X, q.kind, QOp(X, q))
Page(X, q, pg) == [pg |-> pg, r |-> Realize(X, q.kind, ListOp(X, q.kind, q.f, pg))]

\* roots: action paths as TLC printed them (JSON arrays become sequences; auditor lists and key lists are sets)
Roots == IF AskMode # "gen" THEN ndJsonDeserialize("roots.ndjson") ELSE <<>>
SeqSet(s)  == {s[i] : i \in DOMAIN s}
LoadGrp(g) == [g EXCEPT !.allOf = SeqSet(@), !.anyOf = SeqSet(@)]
LoadAct(a) == CASE a.act = "CreateDeployment" -> [a EXCEPT !.groups = [i \in DOMAIN a.groups |-> LoadGrp(a.groups[i])]]
                [] a.act = "DeleteAttributes" -> [a EXCEPT !.keys = SeqSet(@)]
                [] OTHER -> a
Genesis == [EmptyState EXCEPT !.bank = [x \in Parties \cup {ESCROW} |-> IF x = ESCROW THEN 0 ELSE InitCoins]]
StateOf(path) == FoldLeft(LAMBDA S, a : Apply(S, LoadAct(a)).S, Genesis, path)

QInit ==
  /\ last = [act |-> [act |-> "Init"], ok |-> TRUE]
  /\ hist = <<>>
  /\ qr = QNone
  /\ ses = SIdle
  /\ IF AskMode # "gen" THEN \E i \in 1..Len(Roots) : rt = i /\ st = StateOf(Roots[i].p)
                         ELSE rt = 0 /\ st = Genesis
  /\ kx = IF AskMode # "gen" THEN MkK(st) ELSE <<>>

Quiet == qr = QNone /\ ~ses.on

ChainStep == AskMode = "gen" /\ Next /\ UNCHANGED <<qr, ses, rt, kx>>

Ask ==
  /\ AskMode = "full" /\ Quiet
  /\ LET X == MCX(st) IN
     \/ \E kind \in ListKinds : \E q \in Lists(X, kind) : qr' = [q |-> q, r |-> Serve(X, q)]
     \/ \E kind \in GetKinds : \E q \in Gets(X, kind) : qr' = [q |-> q, r |-> Serve(X, q)]
  /\ UNCHANGED <<st, last, hist, ses, rt, kx>>

WalkStart ==
  /\ AskMode = "full" /\ Quiet
  /\ LET X == MCX(st) IN
     \E kind \in PagedKinds : \E q \in Walks(X, kind) :
       ses' = [on |-> TRUE, q |-> q, pages |-> <<Page(X, q, FirstPg(q.limit, q.ct))>>]
  /\ UNCHANGED <<st, last, hist, qr, rt, kx>>

LastPage == ses.pages[Len(ses.pages)]
WalkNext ==
  /\ AskMode = "full" /\ ses.on /\ LastPage.r.err = "" /\ LastPage.r.next # NoKey /\ Len(ses.pages) < MaxPages
  /\ ses' = [ses EXCEPT !.pages = Append(@, Page(MCX(st), ses.q, NextPg(LastPage.r.next, ses.q.limit, ses.q.ct)))]
  /\ UNCHANGED <<st, last, hist, qr, rt, kx>>
WalkEnd ==
  /\ AskMode = "full" /\ ses.on /\ (LastPage.r.err # "" \/ LastPage.r.next = NoKey \/ Len(ses.pages) >= MaxPages)
  /\ qr' = [q |-> ses.q, r |-> [pages |-> ses.pages, truncated |-> LastPage.r.err = "" /\ LastPage.r.next # NoKey]]
  /\ ses' = SIdle
  /\ UNCHANGED <<st, last, hist, rt, kx>>

(* a walk while the chain moves: ses = [on, q, pages, at (the state every page was answered in), acts (the writes, each *)
(* with the number of pages answered before it)]                                                                      *)
WWStart ==
  /\ AskMode = "wwalk" /\ Quiet
  /\ LET X == MCX(st) IN
     \E q \in WWalks(X) :
       ses' = [on |-> TRUE, q |-> q, pages |-> <<Page(X, q, FirstPg(q.limit, q.ct))>>, at |-> <<st>>, acts |-> <<>>]
  /\ UNCHANGED <<st, last, hist, qr, rt, kx>>
WWWrite ==
  /\ AskMode = "wwalk" /\ ses.on /\ Len(ses.acts) < MaxWrites /\ LastPage.r.err = "" /\ LastPage.r.next # NoKey
  /\ \E a \in ActionSet :
       LET r == Apply(st, a) IN
       /\ r.ok /\ ~r.bound /\ r.S # st
       /\ st' = r.S
       /\ kx' = MkK(r.S)
       /\ ses' = [ses EXCEPT !.acts = Append(@, [after |-> Len(ses.pages), a |-> a])]
  /\ UNCHANGED <<last, hist, qr, rt>>
WWNext ==
  /\ AskMode = "wwalk" /\ ses.on /\ LastPage.r.err = "" /\ LastPage.r.next # NoKey /\ Len(ses.pages) < MaxPages
  /\ ses' = [ses EXCEPT !.pages = Append(@, Page(MCX(st), ses.q, NextPg(LastPage.r.next, ses.q.limit, ses.q.ct))), !.at = Append(@, st)]
  /\ UNCHANGED <<st, last, hist, qr, rt, kx>>
WWEnd ==
  /\ AskMode = "wwalk" /\ ses.on /\ (LastPage.r.err # "" \/ LastPage.r.next = NoKey \/ Len(ses.pages) >= MaxPages)
  /\ qr' = [q |-> ses.q, r |-> [pages |-> ses.pages, at |-> ses.at, acts |-> ses.acts, truncated |-> LastPage.r.err = "" /\ LastPage.r.next # NoKey]]
  /\ ses' = SIdle
  /\ UNCHANGED <<st, last, hist, rt, kx>>

\* the client drops the answer (so that the next request starts from the same quiet state)
Forget == AskMode = "full" /\ qr # QNone /\ qr' = QNone /\ UNCHANGED <<st, last, hist, ses, rt, kx>>

QNext == ChainStep \/ Ask \/ WalkStart \/ WalkNext \/ WalkEnd \/ Forget \/ WWStart \/ WWWrite \/ WWNext \/ WWEnd
QSpec == QInit /\ [][QNext]_qvars
QView == <<st, qr, ses, rt>>

-----------------------------------------------------------------------------
(* the properties, on the model's own responses *)
QListOK == qr.q.op = "list" => LET X == MCX(st) IN \A i \in 1..Len(ListProps) : ListProp(ListProps[i], X, qr.q, qr.r)
QGetOK  == qr.q.op = "get" => LET X == MCX(st) IN \A i \in 1..Len(GetProps) : GetProp(GetProps[i], X, qr.q, qr.r)
QWalkOK ==
  qr.q.op = "walk" =>
    LET X == MCX(st) IN
    /\ WalkChained(qr.q, qr.r)
    /\ \A i \in 1..Len(qr.r.pages) :
         LET lq == [op |-> "list", kind |-> qr.q.kind, f |-> qr.q.f, pg |-> qr.r.pages[i].pg] IN
         \A j \in 1..Len(ListProps) : ListProp(ListProps[j], X, lq, qr.r.pages[i].r)
    /\ P_WalkComplete(X, qr.q, qr.r)
\* a walk while the chain moves (the contexts of the states the pages were answered in are rebuilt here)
QWWalkOK ==
  qr.q.op = "wwalk" =>
    LET w == qr.r
        xs == FoldLeft(LAMBDA acc, i : Append(acc, MkX(w.at[i], MCD(w.at[i]))), <<>>, [i \in 1..Len(w.at) |-> i]) IN
    /\ WalkChained(qr.q, w)
    /\ P_WalkStable(qr.q, xs, w)
\* the servers are read-only: once requests are asked (AskMode = "full": every step is a request step) the store never changes
QReadOnly == [][AskMode = "full" => st' = st]_qvars
\* a walk makes progress: the pages of a session never outnumber the records of the store by more than one
QWalkBounded == ses.on => Len(ses.pages) <= Cardinality(DOMAIN StoreOf(st, KStore(ses.q.kind))) + 1

-----------------------------------------------------------------------------
(* J2 export *)
StatesOf(f) == [k \in DOMAIN f |-> f[k].state]
Shape(S) == [dep |-> StatesOf(S.dep), grp |-> StatesOf(S.grp), ord |-> StatesOf(S.ord), bid |-> StatesOf(S.bid),
             lease |-> StatesOf(S.lease), eacct |-> StatesOf(S.eacct), epay |-> StatesOf(S.epay),
             prov |-> DOMAIN S.prov, attest |-> DOMAIN S.attest]
QShape  == AskMode = "gen" => PrintT(<<"QSHAPE", ToJson(hist), ToJson(Shape(st))>>)
QExport ==
  (AskMode = "full" /\ Quiet) =>
     LET X == MCX(st) IN
     PrintT(<<"QNODE", rt, ToJson([k \in ListKinds |-> Plan(X, k)]), ToJson([k \in GetKinds |-> GetCoords(X, k)])>>)

\* J2: the schedule of every finished walk under writes (the requests and the transactions between them)
QWExport == qr.q.op = "wwalk" => PrintT(<<"QWALK", rt, ToJson(qr.q), ToJson(qr.r.acts), Len(qr.r.pages)>>)

\* ranks used by the model configurations: the two orders deliberately disagree
StrRankDef  == [n \in Parties \cup {""} |-> CASE n = "" -> 0 [] n = "t1" -> 2 [] n = "t2" -> 1 [] n = "p1" -> 1 [] n = "p2" -> 2 [] n = "p3" -> 3
                                               [] n = "a1" -> 1 [] n = "a2" -> 2 [] OTHER -> 9]
ByteRankDef == [n \in Parties \cup {""} |-> CASE n = "" -> 0 [] n = "t1" -> 1 [] n = "t2" -> 2 [] n = "p1" -> 3 [] n = "p2" -> 1 [] n = "p3" -> 2
                                               [] n = "a1" -> 2 [] n = "a2" -> 1 [] OTHER -> 9]
=============================================================================
